(* C06 driver.  `run <role> <opts> <ev>,<ev>,...`
   model column : world=c:<0|1>,<id>:<-|F|R>,...   the terminal state of the connection and of every stream the script
                  mentions, computed by the extracted specification (Spec/C06Liveness.v) from the script alone
   spec column  : must=<targets> bp=<0|1>  the wait targets whose calls must have completed at quiescence after the
                  script (`*` = every target, the connection is lost; `n` = waits on nothing the peer controls; `<id>` =
                  receive side of the stream; `w<id>` = send side (peer credit; ended by STOP_SENDING); `wc` = credit for
                  opening / writing h3's own streams; `ctl` = the peer's control stream ended: accept / poll_close / wait_idle must
                  complete); bp=0: no credit is withheld, every send-side target must complete *)
let parse_ev (s : string) : pev =
  let n = String.length s in
  if s = "~" then ERun
  else if s = "T" || s = "I" then ELost
  else if n > 0 && s.[0] = 'X' then ELost
  else if n > 0 && (s.[0] = 'U' || s.[0] = 'B') then EOpen (n_of_string (String.sub s 1 (n - 1)))
  else if n > 0 && (s.[0] = 'G' || s.[0] = 'H' || s.[0] = 'W' || s.[0] = 'D') then ERun
  else if (n >= 3 && String.sub s 0 3 = "SEG") || s = "ZS" || s = "ZU" then ERun
  else match String.split_on_char ':' s with
    | id :: k :: _ when k = "c" || k = "z" -> EChunk (n_of_string id)
    | [id; "F"] -> EFin (n_of_string id)
    | [id; k] when String.length k > 0 && k.[0] = 'R' -> EReset (n_of_string id)
    | [_; k] when String.length k > 0 && k.[0] = 'Z' -> ERun
    | [id; "K"] -> EReset (n_of_string id)   (* receive half fails with StreamErrorIncoming::Unknown: terminal like a reset *)
    | [id; k] when String.length k > 0 && k.[0] = 'S' -> EStop (n_of_string id)
    | _ -> failwith ("bad event " ^ s)
(* back-pressure: the case withholds credit (initial budget / stream credits in the options, or a `W*:` default) *)
let has_backpressure opts evs_raw =
  List.exists (fun o -> String.length o > 1 && (o.[0] = 'q' || o.[0] = 'u' || o.[0] = 'h')
                        && (match int_of_string_opt (String.sub o 1 (String.length o - 1)) with Some _ -> true | None -> false))
    (String.split_on_char '+' opts)
  || List.exists (fun e -> String.length e > 2 && String.sub e 0 3 = "W*:") evs_raw
(* the peer's control stream: a stream opened with U<id> whose delivered bytes (up to its terminal event) start with a
   complete varint of value 0 (the CONTROL stream type, any encoding length) *)
let control_ids raw =
  let tbl : (int, Buffer.t * bool ref) Hashtbl.t = Hashtbl.create 8 in
  let unis = ref [] in
  List.iter (fun e ->
    let n = String.length e in
    if n > 1 && e.[0] = 'U' then (match int_of_string_opt (String.sub e 1 (n - 1)) with Some i -> unis := i :: !unis | None -> ())
    else match String.split_on_char ':' e with
      | id :: rest when int_of_string_opt id <> None ->
          let i = int_of_string id in
          let (b, fin) = (match Hashtbl.find_opt tbl i with Some x -> x | None -> let x = (Buffer.create 16, ref false) in Hashtbl.add tbl i x; x) in
          if not !fin then (match rest with
            | ["c"; h] -> if Buffer.length b < 16 then Buffer.add_string b h
            | ["z"; z] -> (match String.split_on_char 'x' z with [byte; _] -> if Buffer.length b < 16 then (Buffer.add_string b byte; Buffer.add_string b byte; Buffer.add_string b byte; Buffer.add_string b byte; Buffer.add_string b byte; Buffer.add_string b byte; Buffer.add_string b byte; Buffer.add_string b byte) | _ -> ())
            | ["F"] | ["K"] -> fin := true
            | [k] when String.length k > 0 && k.[0] = 'R' -> fin := true
            | _ -> ())
      | _ -> ()) raw;
  List.filter (fun i ->
    match Hashtbl.find_opt tbl i with
    | None -> false
    | Some (b, _) ->
        let h = Buffer.contents b in
        let byte k = if String.length h >= 2 * k + 2 then Some (16 * hexval h.[2*k] + hexval h.[2*k+1]) else None in
        (match byte 0 with
         | None -> false
         | Some b0 ->
             let l = 1 lsl (b0 lsr 6) in
             let rec all_zero k = if k >= l then true else (match byte k with Some v -> (if k = 0 then v land 0x3f = 0 else v = 0) && all_zero (k + 1) | None -> false) in
             all_zero 0)) (List.rev !unis)
let handle ws = match ws with
  | "run" :: _role :: opts :: script :: _ ->
      let raw = if script = "-" then [] else String.split_on_char ',' script in
      let evs = List.map parse_ev raw in
      let bp = has_backpressure opts raw in
      let ids = List.sort compare (List.map int_of_n (mentioned evs)) in
      let st id = (match rx_state evs (n_of_int id) with TOpen -> "-" | TFin -> "F" | TReset -> "R")
                  ^ (if stopped evs (n_of_int id) then "s" else "") in
      let world = String.concat "," (("c:" ^ (if lost evs then "1" else "0")) :: List.map (fun id -> string_of_int id ^ ":" ^ st id) ids) in
      let must =
        if lost evs then "*"
        else String.concat "," ("n" :: (if must_complete evs WConn then ["c"] else [])
               @ (if must_complete_bp bp evs WCredit then ["wc"] else [])
               (* accept / poll_close / wait_idle read the peer's control stream: they must complete once it ended *)
               @ (if List.exists (fun id -> must_complete evs (WStream (n_of_int id))) (control_ids raw) then ["ctl"] else [])
               @ List.filter_map (fun id -> if must_complete evs (WStream (n_of_int id)) then Some (string_of_int id) else None) ids
               @ List.filter_map (fun id -> if must_complete_bp bp evs (WSend (n_of_int id)) then Some ("w" ^ string_of_int id) else None) ids) in
      "world=" ^ world ^ " | must=" ^ must ^ " bp=" ^ (if bp then "1" else "0")
  | _ -> "driver-error unknown-case"
let () = run_lines handle
