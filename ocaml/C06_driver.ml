(* C06 driver.  `run <role> <opts> <ev>,<ev>,...`
   model column : world=c:<0|1>,<id>:<-|F|R>,...   the terminal state of the connection and of every stream the script
                  mentions, computed by the extracted specification (Spec/C06Liveness.v) from the script alone
   spec column  : must=<targets>   the wait targets whose calls must have completed at quiescence after the script
                  (`*` = every target, the connection is lost; `n` = calls that wait on nothing the peer controls) *)
let parse_ev (s : string) : pev =
  let n = String.length s in
  if s = "~" then ERun
  else if s = "T" || s = "I" then ELost
  else if n > 0 && s.[0] = 'X' then ELost
  else if n > 0 && (s.[0] = 'U' || s.[0] = 'B') then EOpen (n_of_string (String.sub s 1 (n - 1)))
  else if n > 0 && (s.[0] = 'G' || s.[0] = 'H' || s.[0] = 'W' || s.[0] = 'D') then ERun
  else match String.split_on_char ':' s with
    | id :: k :: _ when k = "c" || k = "z" -> EChunk (n_of_string id)
    | [id; "F"] -> EFin (n_of_string id)
    | [id; k] when String.length k > 0 && k.[0] = 'R' -> EReset (n_of_string id)
    | [id; k] when String.length k > 0 && k.[0] = 'S' -> EStop (n_of_string id)
    | _ -> failwith ("bad event " ^ s)
let handle ws = match ws with
  | "run" :: _role :: _opts :: script :: _ ->
      let evs = if script = "-" then [] else List.map parse_ev (String.split_on_char ',' script) in
      let ids = List.sort compare (List.map int_of_n (mentioned evs)) in
      let st id = match rx_state evs (n_of_int id) with TOpen -> "-" | TFin -> "F" | TReset -> "R" in
      let world = String.concat "," (("c:" ^ (if lost evs then "1" else "0")) :: List.map (fun id -> string_of_int id ^ ":" ^ st id) ids) in
      let must =
        if lost evs then "*"
        else String.concat "," ("n" :: (if must_complete evs WConn then ["c"] else [])
               @ List.filter_map (fun id -> if must_complete evs (WStream (n_of_int id)) then Some (string_of_int id) else None) ids) in
      "world=" ^ world ^ " | must=" ^ must
  | _ -> "driver-error unknown-case"
let () = run_lines handle
