(* C10 driver: model column = extracted Model/SectionLimit.v, spec column = RFC 9114 4.2.2 size of the RFC 9204 decoding
   against the limit.  Case families lim.rx / lim.tx: see harness/src/bin/c10.rs; q.ref <hex> = reference decoder only. *)
let bytes_of_str s = List.init (String.length s) (fun i -> n_of_int (Char.code s.[i]))
let string_of_fields fs =
  if fs = [] then "-" else
  String.concat "," (List.map (fun (n, v) -> hex_of_bytes n ^ ":" ^ hex_of_bytes v) fs)
let fld n v = (bytes_of_str n, bytes_of_str v)
let extra k base =
  if k = base then [] else begin
    if k < base + 33 then failwith "size not reachable";
    [fld "x" (String.make (k - base - 33) 'v')] end
let request_fields k = [fld ":method" "GET"; fld ":scheme" "https"; fld ":authority" "a"; fld ":path" "/"] @ extra k 167
let response_fields k = [fld ":status" "200"] @ extra k 42
let trailer_fields k = extra k 0

(* P token: none | - | <n>, optionally followed by @f @m @l @c (layout of the companion parameters: irrelevant here) *)
let strip_layout s = match String.index_opt s '@' with Some i -> String.sub s 0 i | None -> s
let peer_of s = match strip_layout s with
  | "none" -> None
  | "-" -> Some None
  | v -> Some (Some (n_of_string v))

let default_limit = n_of_string "4611686018427387903"     (* RFC 9114 7.2.4.1: no limit advertised = unlimited; 2^62-1 *)
let spec_limit ps = match ps with Some (Some p) -> p | _ -> default_limit

let res_s = function
  | Delivered _ -> "ok"
  | RecvTooBig (_, _) -> "err:s:-:HeaderTooBig"
  | RecvConnError c -> "err:c:" ^ string_of_n c ^ ":*"
  | RecvPanic -> "panic"
let obs_s (o : recv_obs) =
  let tx = match o.ro_written with Some p -> hex_of_bytes p | None -> "-" in
  let log = match o.ro_stop, o.ro_result with
    | Some c, _ -> "stop:" ^ string_of_n c
    | None, RecvConnError c -> "close:" ^ string_of_n c
    | None, _ -> "-" in
  Printf.sprintf "res=%s tx=%s log=%s" (res_s o.ro_result) tx log

let send_s tag = function
  | Sent p -> Printf.sprintf "%s:ok:%s" tag (if p = [] then "e" else hex_of_bytes p)
  | SendTooBig (_, _) -> tag ^ ":err:s:-:HeaderTooBig:-"
  | SendFailed -> tag ^ ":failed"

let handle ws = match ws with
  | ["lim.rx"; role; kind; l; p; h] ->
    let configured = n_of_string l in
    let ps = peer_of p in
    let bs = bytes_of_hex h in
    let flags = String.split_on_char '.' kind in
    let kind = List.hd flags in
    let has f = List.mem f flags in
    (* the limit the handle under test carries: the configured one, by the flow read from the source *)
    let cloned = if has "clone0" then Some None else if has "clone1" then Some ps else None in
    let handle = (match role, kind with
      | "srv", "hdr" -> HServerRequest
      | "srv", _ -> HServer (has "split")
      | _, _ -> HClient (cloned, has "split")) in
    let own = own_at handle configured ps in
    let o = (match role, kind with
      | "srv", "hdr" -> server_recv_request own ps bs
      | "cli", "hdr" -> client_recv_response own ps bs
      | "srv", _ -> server_recv_trailers own ps bs
      | _, _ -> client_recv_trailers own ps bs) in
    let own = configured in
    let spec = (match rfc_decode_static bs with
      | None -> "**"
      | Some fs ->
        if N.leb (section_size fs) own then "res=ok tx=- log=-"
        else (match role, kind with
          | "srv", "hdr" ->
            (* log=~ : no connection close; whether and how the endpoint also aborts the rest of the stream is not constrained *)
            Printf.sprintf "res=err:s:-:HeaderTooBig tx=%s log=~" (if N.leb (n_of_int 42) (spec_limit ps) then "+" else "-")
          | "srv", _ -> "res=err:s:-:HeaderTooBig tx=- log=~"
          | _, _ -> "res=err:s:-:HeaderTooBig tx=- log=~")) in
    (* `.after`: one more minimal message on the next stream, through the primary handle *)
    let min_bs = bytes_of_hex (if role = "srv" then "0000d1d7500161c1" else "0000d9") in
    let min_size = n_of_int (if role = "srv" then 167 else 42) in
    let add_next str nxt =
      if not (has "after") then str else
      (match String.index_opt str ' ' with
       | Some i -> String.sub str 0 i ^ " next=" ^ nxt ^ String.sub str i (String.length str - i)
       | None -> str) in
    let next_m =
      let o2 = if role = "srv" then server_recv_request (own_at HServerRequest configured ps) ps min_bs
               else client_recv_response (own_at (HClient (None, false)) configured ps) ps min_bs in
      res_s o2.ro_result in
    let next_s = if N.leb min_size configured then "ok" else "err:s:-:HeaderTooBig" in
    add_next (obs_s o) next_m ^ " | " ^ (if spec = "**" then spec else add_next spec next_s)
  | ["lim.tx"; role; own; p; ops] ->
    let rflags = String.split_on_char '.' role in
    let role = List.hd rflags in
    let rhas f = List.mem f rflags in
    let via_clone_now seen_s = rhas "clone0" || (rhas "clone1" && seen_s) in
    let own = n_of_string own in
    let pv = (match peer_of p with Some v -> v | None -> None) in
    let ps = ref None in
    let seen_s = ref false in
    let stream_via_clone = ref false in
    let have_stream = ref (role = "srv") in
    let m = Buffer.create 64 and s = Buffer.create 64 in
    List.iter (fun op ->
      let k () = int_of_string (String.sub op 1 (String.length op - 1)) in
      let spec tag fs =
        if N.leb (section_size fs) (spec_limit !ps) then tag ^ ":ok:+" else tag ^ ":err:s:-:HeaderTooBig:-" in
      (match op.[0] with
       | 'S' -> ps := Some pv; seen_s := true; Buffer.add_string m " S"; Buffer.add_string s " S"
       | 'H' ->
         let fs = if role = "srv" then response_fields (k ()) else request_fields (k ()) in
         let vc = via_clone_now !seen_s in
         (* the settings the handle in use can see (the connection's cell, by the flow read from the source) *)
         let r = if role = "srv" then send_response own (settings_seen_by (SServerStream (rhas "split")) !ps) fs
                 else send_request own (settings_seen_by (SRequest vc) !ps) fs in
         (match r with Sent _ -> (have_stream := true; stream_via_clone := vc) | _ -> ());
         Buffer.add_string m (" " ^ send_s "H" r); Buffer.add_string s (" " ^ spec "H" fs)
       | 'T' ->
         if not !have_stream then begin Buffer.add_string m " T:nostream"; Buffer.add_string s " T:nostream" end
         else begin
           let fs = trailer_fields (k ()) in
           let h = if role = "srv" then SServerStream (rhas "split") else SClientStream (!stream_via_clone, rhas "split") in
           Buffer.add_string m (" " ^ send_s "T" (send_trailers own (settings_seen_by h !ps) fs)); Buffer.add_string s (" " ^ spec "T" fs) end
       | _ -> Buffer.add_string m " ?"; Buffer.add_string s " ?")) (String.split_on_char ',' ops);
    "ok" ^ Buffer.contents m ^ " | ok" ^ Buffer.contents s
  | ["lim.txw"; role; own; p; k] ->
    let via_clone = List.mem "clone0" (String.split_on_char '.' role) in
    (* the SETTINGS are stored before the stream opens, i.e. before the limit is read and compared *)
    let own = n_of_string own in
    let pv = (match peer_of p with Some v -> v | None -> None) in
    let ps = Some pv in
    let fs = request_fields (int_of_string k) in
    let spec = if N.leb (section_size fs) (spec_limit ps) then "W:ok:+" else "W:err:s:-:HeaderTooBig:-" in
    "ok " ^ send_s "W" (send_request own (settings_seen_by (SRequest via_clone) ps) fs) ^ " | ok " ^ spec
  | ["lim.adv"; _; l] ->
    (* what the peer is told is the configured value (frame::Settings itself is C13's subject) *)
    "adv=" ^ l ^ " | adv=" ^ l
  | ["q.ref"; h] ->
    (match rfc_decode_static (bytes_of_hex h) with
     | Some fs -> "ok " ^ string_of_fields fs
     | None -> "err")
  | _ -> "driver-error unknown-case"
let () = run_lines handle
