(* C20 driver.
   qs CAP BLOCKED OPS     OPS = comma list of
     E<sid>:<name>=<value>.<name>=<value>...   Encoder::encode (hex strings, may be empty)
     I<k>    deliver the next k encoder-stream instructions to Decoder::on_encoder_recv (one call)
     B<j>    honest Decoder::decode_header on section j: held while an earlier section of the same stream is not done,
             skipped when done; on success the section is done and a HeaderAck is queued when dyn_ref
     b<j>    a bare Decoder::decode_header call on section j (nothing recorded, no ack)
     K<k>    deliver the next k decoder-stream instructions to Encoder::on_decoder_recv (one call)
     i<n>    hand the next n encoder-stream BYTES to Decoder::on_encoder_recv (after the unconsumed tail of earlier calls)
     k<n>    hand the next n decoder-stream BYTES to Encoder::on_decoder_recv (after the unconsumed tail of earlier calls)
     C<sid>  the decoder abandons the stream (its sections are done) and queues a StreamCancel;   Z<n>  encoder::set_dynamic_table_size
     H<eic>.<sign>.<delta>:<rep>;<rep>...   (qx only) a hand-made field section (Encoded Insert Count, sign, Delta Base, representations
             S<i> D<i> P<i> LS<i>=<hex> LD<i>=<hex> LP<i>=<hex> LL<hex>=<hex>) is handed to Decoder::decode_header; nothing is recorded.
             The word is B:w<wire bytes>:<result as for b>
     J<instr>   (qx only) a hand-made encoder-stream instruction (Z<n> U<i> IS<i>=<hex> ID<i>=<hex> IL<hex>=<hex>) is appended to the
             encoder stream; the word is J:<wire bytes>
   one word per op is printed; the spec column has one word per op ('*' = unconstrained)
   hp.new R B T M / hp.get EIC S D T M / vas.* : the index arithmetic alone
   qp.e CAP HEX CUTS                 raw encoder-stream bytes handed in pieces (CUTS = dot list of piece sizes, `-` = one piece; what is
                                     left after the listed sizes is one more piece) to the parser model (P: instructions and bytes used by
                                     parse_all parse_einstr on tail ++ piece) and to the decoder model (R: dec_on_encoder_recv on them)
   qp.d CAP BLOCKED EOPS HEX CUTS    the same for raw decoder-stream bytes and an encoder that has encoded the sections EOPS (E ops, `-` = none)
   one word per piece; the run stops at the first error *)
let hx bs = String.concat "" (List.map (fun b -> Printf.sprintf "%02x" (int_of_n b)) bs)
let unhx s = if s = "" then [] else bytes_of_hex s
let sn = string_of_n
let fieldstr (n, v) = hx n ^ "=" ^ hx v
let fieldsstr fs = if fs = [] then "-" else String.concat "." (List.map fieldstr fs)
let joinor sep l = if l = [] then "-" else String.concat sep l

let dt_err_name = function
  | EBadRelativeIndex _ -> "BadRelativeIndex" | EBadPostbaseIndex _ -> "BadPostbaseIndex" | EBadIndex _ -> "BadIndex"
  | EMaxTableSizeReached -> "MaxTableSizeReached" | EMaximumTableSizeTooLarge -> "MaximumTableSizeTooLarge"
  | EMaxBlockedStreamsTooLarge -> "MaxBlockedStreamsTooLarge" | EUnknownStreamId _ -> "UnknownStreamId"
  | ENoTrackingData -> "NoTrackingData" | EInvalidTrackingCount -> "InvalidTrackingCount"
let enc_err_name = function
  | EEInsertion e -> "Insertion(" ^ dt_err_name e ^ ")"
  | EEInvalidInteger -> "InvalidInteger(Overflow)"
  | EEUnknownInstruction -> "UnknownDecoderInstruction"
let dec_err_word = function
  | DEMissingRefs n -> "blocked:" ^ sn n
  | DEDynamicTable e -> "err:DynamicTable(" ^ dt_err_name e ^ ")"
  | DEInvalidStaticIndex _ -> "err:InvalidStaticIndex"
  | DEBadBaseIndex -> "err:BadBaseIndex"
  | DEBufSize -> "err:BufSize"

let repstr = function
  | BIndexedStatic i -> "S" ^ sn i | BIndexedDyn i -> "D" ^ sn i | BIndexedPost i -> "P" ^ sn i
  | BLitStaticName (i, v) -> "LS" ^ sn i ^ "=" ^ hx v
  | BLitDynName (i, v) -> "LD" ^ sn i ^ "=" ^ hx v
  | BLitPostName (i, v) -> "LP" ^ sn i ^ "=" ^ hx v
  | BLiteral (n, v) -> "LL" ^ hx n ^ "=" ^ hx v
let instrstr = function
  | ISizeUpdate n -> "Z" ^ sn n
  | IInsertStatic (i, v) -> "IS" ^ sn i ^ "=" ^ hx v
  | IInsertDyn (i, v) -> "ID" ^ sn i ^ "=" ^ hx v
  | IInsertLit (n, v) -> "IL" ^ hx n ^ "=" ^ hx v
  | IDuplicate i -> "U" ^ sn i
let dinstrstr = function DAck s -> "A" ^ sn s | DCancel s -> "X" ^ sn s | DIncrement n -> "N" ^ sn n

let nfields t = string_of_int (List.length t.dt_fields)
let dropped t = t.dt_vas.v_dropped
(* FNV-1a (32 bit) over the table contents: per entry len(name), name, len(value), value *)
let fnv h b = ((h lxor (b land 0xff)) * 16777619) land 0xFFFFFFFF
let digest t =
  let h = ref 2166136261 in
  List.iter (fun (n, v) ->
    h := fnv !h (List.length n); List.iter (fun b -> h := fnv !h (int_of_n b)) n;
    h := fnv !h (List.length v); List.iter (fun b -> h := fnv !h (int_of_n b)) v) t.dt_fields;
  Printf.sprintf "h%08x" !h
let pairs l = joinor "+" (List.map (fun (r, c) -> Printf.sprintf "%d*%d" r c) (List.sort compare l))
let estate t =
  let tr = List.map (fun (r, c) -> (int_of_n r, int_of_n c)) t.dt_track in
  let bs = List.map (fun (r, c) -> (int_of_n r, int_of_n c)) t.dt_bstreams in
  let blocks = List.sort compare (List.map (fun (sid, q) -> (sn sid, List.length q)) t.dt_blocks) in
  Printf.sprintf "t%s.%s.%s.%s.%s.%s/%s/%s.%s.%s/%s" (sn t.dt_vas.v_inserted) (sn (dropped t)) (sn t.dt_curr) (sn t.dt_max) (nfields t) (digest t)
    (pairs tr) (sn t.dt_bcount) (sn t.dt_lkr) (pairs bs)
    (joinor "+" (List.map (fun (sid, l) -> Printf.sprintf "%s*%d" sid l) blocks))
let dstate t =
  Printf.sprintf "d%s.%s.%s.%s.%s.%s" (sn t.dt_vas.v_inserted) (sn (dropped t)) (sn t.dt_curr) (sn t.dt_max) (nfields t) (digest t)

let parse_field s =
  match String.index_opt s '=' with
  | Some i -> (unhx (String.sub s 0 i), unhx (String.sub s (i + 1) (String.length s - i - 1)))
  | None -> failwith "field"
let parse_op s =
  let rest = String.sub s 1 (String.length s - 1) in
  match s.[0] with
  | 'E' ->
      let i = String.index rest ':' in
      let sid = n_of_string (String.sub rest 0 i) in
      let fs = String.sub rest (i + 1) (String.length rest - i - 1) in
      let fs = if fs = "" then [] else List.map parse_field (String.split_on_char '.' fs) in
      BOp (OEncode (sid, fs))
  | 'I' -> BOp (ODeliver (n_of_string rest))
  | 'B' -> BOp (ODecode (n_of_string rest, true))
  | 'b' -> BOp (ODecode (n_of_string rest, false))
  | 'K' -> BOp (OFeedback (n_of_string rest))
  | 'C' -> BOp (OCancel (n_of_string rest))
  | 'Z' -> BOp (OResize (n_of_string rest))
  | 'i' -> BDeliverBytes (n_of_string rest)
  | 'k' -> BFeedbackBytes (n_of_string rest)
  | _ -> failwith "op"

(* hand-made sections and instructions (qx) *)
type xop = XB of bop | XHostile of hblock | XInject of einstr
let starts s p = String.length s >= String.length p && String.sub s 0 (String.length p) = p
let after s k = String.sub s k (String.length s - k)
let idx_val s k =                       (* "<prefix of k chars><i>=<hex>" *)
  let r = after s k in
  match String.index_opt r '=' with
  | Some i -> (n_of_string (String.sub r 0 i), unhx (String.sub r (i + 1) (String.length r - i - 1)))
  | None -> failwith "rep"
let parse_rep s =
  if starts s "LS" then let (i, v) = idx_val s 2 in BLitStaticName (i, v)
  else if starts s "LD" then let (i, v) = idx_val s 2 in BLitDynName (i, v)
  else if starts s "LP" then let (i, v) = idx_val s 2 in BLitPostName (i, v)
  else if starts s "LL" then let (n, v) = parse_field (after s 2) in BLiteral (n, v)
  else if starts s "S" then BIndexedStatic (n_of_string (after s 1))
  else if starts s "D" then BIndexedDyn (n_of_string (after s 1))
  else if starts s "P" then BIndexedPost (n_of_string (after s 1))
  else failwith "rep"
let parse_instr s =
  if starts s "IS" then let (i, v) = idx_val s 2 in IInsertStatic (i, v)
  else if starts s "ID" then let (i, v) = idx_val s 2 in IInsertDyn (i, v)
  else if starts s "IL" then let (n, v) = parse_field (after s 2) in IInsertLit (n, v)
  else if starts s "Z" then ISizeUpdate (n_of_string (after s 1))
  else if starts s "U" then IDuplicate (n_of_string (after s 1))
  else failwith "instr"
let parse_xop s =
  match s.[0] with
  | 'H' ->
      let rest = after s 1 in
      let i = String.index rest ':' in
      (match String.split_on_char '.' (String.sub rest 0 i) with
       | [e; sg; d] ->
           let reps = List.map parse_rep (split_on ';' (after rest (i + 1))) in
           XHostile ({ hp_eic = n_of_string e; hp_sign = (sg = "1"); hp_delta = n_of_string d }, reps)
       | _ -> failwith "prefix")
  | 'J' -> XInject (parse_instr (after s 1))
  | _ -> XB (parse_op s)

let rec take k l = if k = 0 then [] else match l with [] -> [] | x :: r -> x :: take (k - 1) r

let run_qs cap blocked ops =
  match sys_init cap blocked with
  | None -> "init-err | *"
  | Some s0 ->
    let bs = ref { b_sys = s0; b_epend = N0; b_dpend = N0 } in
    let rd = ref (Some { r_live = []; r_dropped = N0; r_cap = cap }) in
    let resized = ref false in
    let out = Buffer.create 256 and spec = Buffer.create 256 in
    let stop = ref false in
    let hexw r = (match r with Ok b -> if b = [] then "-" else hx b | Err _ -> "wire-err" | Panic _ -> "wire-panic") in
    List.iter (fun xo ->
      if not !stop then match xo with
      | XHostile blk ->
          (* a hand-made section: Decoder::decode_header on the current decoder table; nothing is recorded *)
          let w = (match dec_decode_header !bs.b_sys.s_dec blk with
                   | Ok (fs, dr) -> Printf.sprintf "ok:%s:%d:-" (fieldsstr fs) (if dr then 1 else 0)
                   | Err e -> dec_err_word e
                   | Panic _ -> stop := true; "panic") in
          Buffer.add_string out (if w = "panic" then "B:panic" else Printf.sprintf "B:w%s:%s" (hexw (wire_block blk)) w);
          Buffer.add_char out ' ';
          let sw = if !resized then "*" else
            (match !rd with
             | Some d -> (match rfc_section d cap blk with
                          | RfcOk fs -> "B:ok:" ^ fieldsstr fs
                          | RfcBlocked n -> "B:blocked:" ^ sn n
                          | RfcError -> "B:err")
             | None -> "B:specerr") in
          Buffer.add_string spec sw; Buffer.add_char spec ' '
      | XInject i ->
          let b = !bs in
          let s = b.b_sys in
          bs := { b with b_sys = { s with s_eq = s.s_eq @ [i] } };
          Buffer.add_string out ("J:" ^ hexw (wire_einstr i)); Buffer.add_char out ' ';
          Buffer.add_string spec "* "
      | XB o -> begin
        let before = !bs.b_sys in
        let (b1, r) = bstep !bs o in
        bs := b1;
        let s1 = b1.b_sys in
        let delivered_k = List.length before.s_eq - List.length s1.s_eq in
        let o = (match o with
                 | BOp o' -> o'
                 | BDeliverBytes _ -> ODeliver (n_of_int delivered_k)
                 | BFeedbackBytes _ -> OFeedback (n_of_int (List.length before.s_dq - List.length s1.s_dq))) in
        let wired i = (match wire_dinstr i with Ok b -> hx b | _ -> "wire-err") in
        let letter = match o with OEncode _ -> "E" | ODeliver _ -> "I" | ODecode _ -> "B" | OFeedback _ -> "K" | OCancel _ -> "C" | OResize _ -> "Z" in
        let w = match o, r with
          | _, RPanic _ -> stop := true; letter ^ ":panic"
          | OEncode _, REncoded e ->
              let (p, reps) = e.en_block in
              let wire r = (match r with Ok b -> if b = [] then "-" else hx b | Err _ -> "wire-err" | Panic _ -> "wire-panic") in
              Printf.sprintf "E:%s:%s.%d.%s:%s:%s:%s:%s:%s" (sn e.en_required) (sn p.hp_eic) (if p.hp_sign then 1 else 0) (sn p.hp_delta)
                (joinor ";" (List.map repstr reps)) (joinor ";" (List.map instrstr e.en_instrs))
                (wire (wire_block e.en_block)) (wire (wire_einstrs e.en_instrs)) (estate s1.s_enc)
          | OEncode _, REncErr e -> "E:err:" ^ enc_err_name e
          | ODeliver _, RDelivered (ins, inc) ->
              Printf.sprintf "I:%s:%s:%s:%s" (sn ins) (match inc with Some i -> dinstrstr i | None -> "-")
                (match inc with Some i -> wired i | None -> "-") (dstate s1.s_dec)
          | ODeliver _, RDecErr e -> "I:" ^ dec_err_word e
          | ODecode (j, honest), RDecoded (fs, dr) ->
              let ack = (match nth_opt before.s_secs j with
                         | Some sec when honest && dr -> wired (DAck sec.sec_sid) | _ -> "-") in
              Printf.sprintf "B:ok:%s:%d:%s" (fieldsstr fs) (if dr then 1 else 0) ack
          | ODecode _, RDecErr e -> "B:" ^ dec_err_word e
          | ODecode _, RNoSuchSection -> "B:nosuch"
          | ODecode _, RHeld -> "B:held"
          | ODecode _, RAlreadyDone -> "B:done"
          | OFeedback _, RFeedback -> "K:ok:" ^ estate s1.s_enc
          | OFeedback _, REncErr e -> "K:err:" ^ enc_err_name e
          | OCancel _, RQueued -> "C:q"
          | OResize _, RResized -> "Z:ok:" ^ estate s1.s_enc
          | OResize _, REncErr e -> "Z:err:" ^ enc_err_name e
          | _, _ -> letter ^ ":unexpected" in
        Buffer.add_string out w; Buffer.add_char out ' ';
        (* the specification side: the RFC reference decoder sees the same delivered instructions *)
        let sw = match o with
          | OResize _ -> resized := true; "*"
          | ODeliver k ->
              let now = take (int_of_n k) before.s_eq in
              (match !rd with Some d -> rd := rfc_instrs d now | None -> ()); "*"
          | ODecode (j, _) ->
              if !resized || r = RHeld || r = RAlreadyDone then "*" else
              (match !rd, nth_opt before.s_secs j with
               | Some d, Some sec ->
                   (match rfc_section d cap sec.sec_block with
                    | RfcOk fs -> "B:ok:" ^ fieldsstr fs
                    | RfcBlocked n -> "B:blocked:" ^ sn n
                    | RfcError -> "B:err")
               | None, Some _ -> "B:specerr"
               | _, None -> "B:nosuch")
          | _ -> "*" in
        Buffer.add_string spec sw; Buffer.add_char spec ' '
      end) ops;
    let o = String.trim (Buffer.contents out) in
    let has sub = let n = String.length sub and m = String.length o in
      let rec go i = i + n <= m && (String.sub o i n = sub || go (i + 1)) in go 0 in
    let head = if has ":panic" then "panic" else if has "E:err" || has "I:err" || has "K:err" || has "Z:err" then "err" else "ok" in
    head ^ " " ^ o ^ " | * " ^ String.trim (Buffer.contents spec)

(* ---- qp.e / qp.d: the instruction parsers on raw bytes ---- *)
let pi_name = function PiOverflow -> "Overflow" | PiUnexpectedEnd -> "UnexpectedEnd"
let ps_name = function
  | PsUnexpectedEnd -> "UnexpectedEnd" | PsInteger e -> "Integer(" ^ pi_name e ^ ")"
  | PsHuffman MissingBits -> "Huffman(MissingBits)" | PsHuffman Unhandled -> "Huffman(Unhandled)" | PsBufSize -> "BufSize"
(* ParseError, DecoderError (From<ParseError>) and EncoderError (From<ParseError>) names of a parse error *)
let perr_parse = function
  | PEInteger e -> "Integer(" ^ pi_name e ^ ")" | PEString e -> "String(" ^ ps_name e ^ ")"
  | PEInvalidPrefix _ -> "InvalidPrefix" | PEUnknown _ -> "UnknownPrefix"
let perr_dec = function
  | PEInteger e -> "InvalidInteger(" ^ pi_name e ^ ")" | PEString e -> "InvalidString(" ^ ps_name e ^ ")"
  | PEInvalidPrefix _ | PEUnknown _ -> "UnknownPrefix"
let perr_enc = function
  | PEInteger e -> "InvalidInteger(" ^ pi_name e ^ ")" | PEString e -> "InvalidString(" ^ ps_name e ^ ")"
  | PEInvalidPrefix _ | PEUnknown _ -> "UnknownDecoderInstruction"
let dec_err_name e = let w = dec_err_word e in
  if String.length w > 4 && String.sub w 0 4 = "err:" then String.sub w 4 (String.length w - 4) else w

let rec split_at k l = if k = 0 then ([], l) else match l with [] -> ([], []) | x :: r -> let (a, b) = split_at (k - 1) r in (x :: a, b)
let chunks_of bytes cuts =
  let sizes = if cuts = "-" then [] else List.map int_of_string (split_on '.' cuts) in
  let rec go bs = function
    | [] -> ([], bs)
    | n :: r -> let (a, b) = split_at n bs in let (cs, rest) = go b r in (a :: cs, rest) in
  let (cs, rest) = go bytes sizes in
  if rest <> [] || cs = [] then cs @ [rest] else cs

(* pieces -> words; `step buf` returns (word, Some tail) to go on or (word, None) to stop with head `err` / `panic` *)
let run_pieces first pieces step =
  let tail = ref [] and out = ref first and head = ref "ok" and stop = ref false in
  List.iter (fun c ->
    if not !stop then begin
      let buf = !tail @ c in
      match step buf with
      | (w, Some tl) -> out := w :: !out; tail := tl
      | (w, None) -> out := w :: !out; stop := true; head := if w = "panic" then "panic" else "err"
    end) pieces;
  !head ^ " " ^ String.concat " " (List.rev !out)

let run_qpe cap bytes cuts =
  match sys_init cap (n_of_int 100) with
  | None -> "init-err"
  | Some s0 ->
    let t = ref s0.s_dec in
    run_pieces [] (chunks_of bytes cuts) (fun buf ->
      let ((xs, tl), st) = parse_all parse_einstr buf in
      let used = List.length buf - List.length tl in
      match st with
      | StopPanic _ -> ("panic", None)
      | StopIncomplete ->
          let p = Printf.sprintf "P:%s:%d" (joinor ";" (List.map instrstr xs)) used in
          (match dec_on_encoder_recv !t xs with
           | (t1, Ok (now, inc)) ->
               t := t1;
               let w = (match inc with Some i -> (match wire_dinstr i with Ok b -> hx b | _ -> "wire-err") | None -> "-") in
               (Printf.sprintf "%s/R:ok:%s:%d:%s:%s" p (sn now) used w (dstate t1), Some tl)
           | (t1, Err e) -> (Printf.sprintf "%s/R:err:%s:%s" p (dec_err_name e) (dstate t1), None)
           | (_, Panic _) -> ("panic", None))
      | StopError e ->
          (* the instructions in front of the malformed one have been applied when `?` returns the parse error *)
          let p = "P:err:" ^ perr_parse e in
          (match dec_apply !t xs with
           | (t1, Ok _) -> (Printf.sprintf "%s/R:err:%s:%s" p (perr_dec e) (dstate t1), None)
           | (t1, Err e') -> (Printf.sprintf "%s/R:err:%s:%s" p (dec_err_name e') (dstate t1), None)
           | (_, Panic _) -> ("panic", None)))

let run_qpd cap blocked eops bytes cuts =
  match sys_init cap blocked with
  | None -> "init-err"
  | Some s0 ->
    let s = ref s0 and bad = ref false in
    List.iter (fun o -> match sys_step !s (match parse_op o with BOp o' -> o' | _ -> failwith "eop") with
                        | (s1, REncoded _) -> s := s1 | _ -> bad := true) (if eops = "-" then [] else split_on ',' eops);
    if !bad then "setup-err" else
    let t = ref !s.s_enc in
    run_pieces ["S:" ^ estate !t] (chunks_of bytes cuts) (fun buf ->
      let ((xs, tl), st) = parse_all parse_dinstr buf in
      let used = List.length buf - List.length tl in
      match st with
      | StopPanic _ -> ("panic", None)
      | StopIncomplete ->
          let p = Printf.sprintf "P:%s:%d" (joinor ";" (List.map dinstrstr xs)) used in
          (match enc_on_decoder_recv !t xs with
           | (t1, Ok _) -> t := t1; (Printf.sprintf "%s/R:ok:%d:%s" p used (estate t1), Some tl)
           | (t1, Err e) -> (Printf.sprintf "%s/R:err:%s:%s" p (enc_err_name e) (estate t1), None)
           | (_, Panic _) -> ("panic", None))
      | StopError e ->
          let p = "P:err:" ^ perr_parse e in
          (match enc_on_decoder_recv !t xs with
           | (t1, Ok _) -> (Printf.sprintf "%s/R:err:%s:%s" p (perr_enc e) (estate t1), None)
           | (t1, Err e') -> (Printf.sprintf "%s/R:err:%s:%s" p (enc_err_name e') (estate t1), None)
           | (_, Panic _) -> ("panic", None)))

let vres = function Ok x -> "ok " ^ sn x | Err _ -> "err" | Panic _ -> "panic"
let handle ws = match ws with
  | [("qs" | "qz" | "qx" | "qc"); cap; blocked; ops] ->
      run_qs (n_of_string cap) (n_of_string blocked) (List.map parse_xop (split_on ',' ops))
  | ["qp.e"; cap; h; cuts] -> run_qpe (n_of_string cap) (if h = "-" then [] else bytes_of_hex h) cuts
  | ["qp.d"; cap; blocked; eops; h; cuts] ->
      run_qpd (n_of_string cap) (n_of_string blocked) eops (if h = "-" then [] else bytes_of_hex h) cuts
  | ["hp.new"; r; b; t; m] ->
      (match hp_new (n_of_string r) (n_of_string b) (n_of_string t) (n_of_string m) with
       | Ok p -> Printf.sprintf "ok %s %d %s" (sn p.hp_eic) (if p.hp_sign then 1 else 0) (sn p.hp_delta)
       | Err _ -> "err" | Panic _ -> "panic")
  | ["hp.get"; e; s; d; t; m] ->
      (match hp_get { hp_eic = n_of_string e; hp_sign = (s = "1"); hp_delta = n_of_string d } (n_of_string t) (n_of_string m) with
       | Ok (r, b) -> Printf.sprintf "ok %s %s" (sn r) (sn b)
       | Err _ -> "err InvalidBase" | Panic _ -> "panic")
      ^ " | " ^ (match rfc_required (n_of_string e) (n_of_string t) (n_of_string m) with
                 | Some r -> "rfc-required " ^ sn r | None -> "rfc-error")
  | _ -> "driver-error unknown-case"
let () = run_lines handle
