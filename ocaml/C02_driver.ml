(* C02 driver.
   fs <a,a,...>   actions: c<hex> chunk arrives | F fin | R<code> reset | X<code> connection closed by peer | T timeout |
                           n poll_next | d poll_data | p the documented pattern (poll_data while a payload is owed, else poll_next)
                  prints `ok <one token per call>`  |  `panic <site>`
   fd <hex>       Frame::decode on a flat buffer
   fe <kind>      connection error code for a FrameProtocolError kind / `end` for UnexpectedEnd *)
let frame_str = function
  | FData l -> "f:data:" ^ string_of_n l
  | FHeaders b -> "f:headers:" ^ hex_of_bytes b
  | FCancelPush i -> "f:cancel_push:" ^ string_of_n i
  | FSettings _ -> "f:settings"
  | FPushPromise (i, b) -> "f:push_promise:" ^ string_of_n i ^ ":" ^ hex_of_bytes b
  | FGoaway i -> "f:goaway:" ^ string_of_n i
  | FMaxPushId i -> "f:max_push_id:" ^ string_of_n i
  | FWebTransport s -> "f:wt:" ^ string_of_n s
let qerr_str = function
  | QTerminated c -> "term:" ^ string_of_n c
  | QConnApp c -> "app:" ^ string_of_n c
  | QTimeout -> "timeout"
  | QInternal -> "internal"
  | QStreamUnknown -> "unknown"
  | QConnUndefined -> "undefined"
let kind_str = function
  | PK_Malformed -> "malformed" | PK_ForbiddenFrame -> "forbidden" | PK_InvalidFrameValue -> "value"
  | PK_Settings -> "settings" | PK_InvalidStreamId -> "streamid" | PK_InvalidPushId -> "pushid"
let code_str = function Some c -> string_of_n c | None -> "-"
let fserr_str e = match e with
  | FsProto (k, fe) ->
      "err:proto:" ^ kind_str k ^ ":" ^ code_str (fserr_code e) ^
      (match fe with Unsupported ty -> ":" ^ string_of_n ty | _ -> "")
  | FsQuic q -> "err:quic:" ^ qerr_str q
  | FsUnexpectedEnd -> "err:end"
exception Model_panic of n
let obs_str = function
  | ONext Pending | OData Pending -> "pend"
  | ONext (Ready (Panic s)) | OData (Ready (Panic s)) -> "panic:" ^ string_of_n s
  | ONext (Ready (Err e)) | OData (Ready (Err e)) -> fserr_str e
  | ONext (Ready (Ok None)) -> "end"
  | ONext (Ready (Ok (Some f))) -> frame_str f
  | OData (Ready (Ok None)) -> "none"
  | OData (Ready (Ok (Some d))) -> "d:" ^ hex_of_bytes d
let parse_action a =
  let rest () = String.sub a 1 (String.length a - 1) in
  match a.[0] with
  | 'c' -> Arrive (Chunk (bytes_of_hex (rest ())))
  | 'F' -> Arrive Fin
  | 'R' -> Arrive (Abort (QTerminated (n_of_string (rest ()))))
  | 'X' -> if a = "XU" then Arrive (Abort QConnUndefined) else Arrive (Abort (QConnApp (n_of_string (rest ()))))
  | 'T' -> Arrive (Abort QTimeout)
  | 'I' -> Arrive (Abort QInternal)
  | 'K' -> Arrive (Abort QStreamUnknown)
  | 'n' -> CallNext
  | 'd' -> CallData
  | 'p' -> CallAuto
  | _ -> failwith "bad action"
let tok_strs toks =
  (* merge runs of TByte into b:<hex> *)
  let out = ref [] and cur = ref [] in
  let flush () = if !cur <> [] then (out := ("b:" ^ hex_of_bytes (List.rev !cur)) :: !out; cur := []) in
  List.iter (function
    | TByte b -> cur := b :: !cur
    | TFrame f -> flush (); out := frame_str f :: !out) toks;
  flush (); List.rev !out
let tail_str = function
  | CleanEnd -> "clean" | FrameError -> "frameerror"
  | ProtoError PCMalformed -> "proto:malformed"
  | ProtoError (PCForbidden ty) -> "proto:forbidden:" ^ string_of_n ty
  | ProtoError (PCSettings _) -> "proto:settings"
  | Aborted q -> "aborted:" ^ qerr_str q
  | Handover -> "handover" | Waiting -> "waiting"
let ferr_str = function
  | Malformed -> "malformed" | Unsupported ty -> "unsupported:" ^ string_of_n ty
  | Unknown ty -> "unknown:" ^ string_of_n ty | Incomplete m -> "incomplete:" ^ string_of_n m
  | ESettings _ -> "settings" | EInvalidStreamId _ -> "streamid" | EInvalidPushId _ -> "pushid"
  | EInvalidFrameValue -> "value"
let handle ws = match ws with
  | ["fs"; acts] ->
      let acts = List.map parse_action (split_on ',' acts) in
      let m = (try
          let (os, _) = run acts (fs_new []) false in
          String.concat " " ("ok" :: List.map obs_str os)
        with Model_panic s -> "panic " ^ string_of_n s) in
      (* specification: flat bytes and ending as the transport saw them (nothing is queued after a terminal event) *)
      let flat = ref [] and ending = ref Open and fin = ref false in
      List.iter (function
        | Arrive (Chunk b) -> if not !fin then flat := !flat @ b
        | Arrive Fin -> if not !fin then (fin := true; ending := Finished)
        | Arrive (Abort e) -> if not !fin then (fin := true; ending := Broken e)
        | _ -> ()) acts;
      let (toks, tl) = frame_outcome settings_verdict !flat !ending in
      let code = (match tail_code tl with Some c -> " code=" ^ string_of_n c | None -> "") in
      m ^ " | " ^ String.concat " " (("S" :: tok_strs toks) @ ["T"; tail_str tl ^ code])
  | ["fd"; h] ->
      let v = bytes_of_hex h in
      let m = (match frame_decode v with
       | (Ok f, pos) -> "ok " ^ frame_str f ^ " pos=" ^ string_of_n pos
       | (Err (Unknown ty), pos) -> "err unknown:" ^ string_of_n ty ^ " pos=" ^ string_of_n pos
       | (Err e, _) -> "err " ^ ferr_str e
       | (Panic s, _) -> "panic " ^ string_of_n s) in
      let s = (match first_step settings_verdict v with
       | S1Need -> "err incomplete:*"
       | S1Frame (f, pos) -> "ok " ^ frame_str f ^ " pos=" ^ string_of_n pos
       | S1Bad PCMalformed -> "err malformed"
       | S1Bad (PCForbidden ty) -> "err unsupported:" ^ string_of_n ty
       | S1Bad (PCSettings _) -> "err settings"
       | S1Skip (ty, pos) -> "err unknown:" ^ string_of_n ty ^ " pos=" ^ string_of_n pos) in
      m ^ " | " ^ s
  | ["hc"; site; h; ending; _pattern] ->
      (* h: the stream's bytes, `.` marks the frame boundaries used by arrival pattern B; the pattern (A all queued before
         the first poll, B one chunk per frame, C FIN late) must not matter *)
      let h = String.concat "" (String.split_on_char '.' h) in
      (* the connection error code raised when these bytes arrive on a request stream (site s/c) or, after the stream
         type and a SETTINGS frame, on the control stream (site ctl); `-`: no frame-layer error *)
      let v = bytes_of_hex h in
      let en = (match ending with "F" -> Finished | _ -> Open) in
      let acts = [Arrive (Chunk v)] @ (if en = Finished then [Arrive Fin] else []) @
                 List.init (2 * List.length v + 4) (fun _ -> CallAuto) in
      let (os, _) = run acts (fs_new []) false in
      let code_of e = if site = "ctl" || site = "ctl0" then fserr_code_ctl e else fserr_code e in
      let m = List.fold_left (fun acc o -> match o with
        | ONext (Ready (Err e)) | OData (Ready (Err e)) -> code_str (code_of e)
        | _ -> acc) "-" os in
      let (_, tl) = frame_outcome settings_verdict v en in
      "code " ^ m ^ " | code " ^ code_str (tail_code tl)
  | ["fe"; k] ->
      let c = (match k with
        | "malformed" -> perr_code PK_Malformed | "forbidden" -> perr_code PK_ForbiddenFrame
        | "value" -> perr_code PK_InvalidFrameValue | "settings" -> perr_code PK_Settings
        | "streamid" -> perr_code PK_InvalidStreamId | "pushid" -> perr_code PK_InvalidPushId
        | "end" -> fserr_code FsUnexpectedEnd
        | _ -> None) in
      let s = (match k with
        | "malformed" | "value" -> tail_code (ProtoError PCMalformed)
        | "forbidden" -> tail_code (ProtoError (PCForbidden N0))
        | "settings" -> tail_code (ProtoError (PCSettings SMalformed))
        | "end" -> tail_code FrameError
        | _ -> None) in
      "code " ^ code_str c ^ " | " ^ (match s with Some c -> "code " ^ string_of_n c | None -> "code *")
  | _ -> "driver-error unknown-case"
let () = run_lines handle
