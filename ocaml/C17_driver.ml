(* C17 driver.  Same case lines as harness-quinn/src/bin/c17.rs.  For every case the extracted adapter
   model (Model.QuinnAdapter) is run against an oracle chosen here (T1 says the choice does not matter for
   what is compared), and the specification line is computed from Spec.AdapterSpec only.
   Output: "<model line> | <spec line>", both in the key=value vocabulary of the harness. *)

let kv_of ws =
  let t = Hashtbl.create 16 in
  List.iter (fun w -> match String.index_opt w '=' with
    | Some i -> Hashtbl.replace t (String.sub w 0 i) (String.sub w (i + 1) (String.length w - i - 1))
    | None -> ()) ws;
  t
let gs t k d = try Hashtbl.find t k with Not_found -> d
let gi t k d = try int_of_string (Hashtbl.find t k) with Not_found -> d
let gopt t k = match (try Some (Hashtbl.find t k) with Not_found -> None) with
  | None | Some "-" -> None | Some v -> Some (int_of_string v)

let gen_byte seed j i = (seed * 7 + j * 31 + i + (i lsr 8) * 3) land 255
let gen_bytes seed j from n = List.init n (fun k -> n_of_int (gen_byte seed j (from + k)))

(* FNV-1a, 32 bit *)
let digest (bs : n list) : string =
  let h = ref 0x811c9dc5 and l = ref 0 in
  List.iter (fun b -> h := ((!h lxor (int_of_n b)) * 16777619) land 0xffffffff; incr l) bs;
  Printf.sprintf "%d:%08x" !l !h

(* name[:code][@n] ; codes may exceed 2^62 so they stay strings until converted to n *)
let parse_fault f =
  let head, at = match String.index_opt f '@' with
    | Some i -> String.sub f 0 i, String.sub f (i + 1) (String.length f - i - 1)
    | None -> f, "0" in
  let name, code = match String.index_opt head ':' with
    | Some i -> String.sub head 0 i, String.sub head (i + 1) (String.length head - i - 1)
    | None -> head, "0" in
  (name, n_of_string code, at)

let conn_class = function
  | HApplicationClose c -> "conn-appclose:" ^ string_of_n c
  | HTimeout -> "conn-timeout"
  | HInternalError -> "conn-internal"
  | HUndefined _ -> "conn-undefined"
let stream_class = function
  | HConnErr e -> conn_class e
  | HStreamTerminated c -> "terminated:" ^ string_of_n c
  | HUnknownRead _ | HUnknownWrite _ | HUnknownFinish -> "unknown"
let res_unit = function
  | Ok _ -> "ok"
  | Err e -> "err:" ^ stream_class e
  | Panic s -> "PANIC" ^ string_of_n s

(* the id of the stream under test: RFC 9000 numbering of the (skip+1)-th stream of its kind *)
let stream_id role kind skip a_sends =
  let a_client = (role = "c") in
  let bidi, initiator_client = match kind with
    | "bi" -> true, a_client
    | "uni" -> false, (if a_sends then a_client else not a_client)
    | "bip" -> true, not a_client
    | _ -> failwith "kind" in
  spec_stream_id (n_of_int skip) bidi initiator_client

let fault_of name code = match name with
  | "stop" -> FPeerStop code | "reset" -> FPeerReset code | "close" -> FPeerClose code
  | "timeout" -> FIdleTimeout | "lclose" -> FLocalClose | "afin" -> FLocalFinished
  | _ -> FNone

let uniq_ids l = String.concat "," (List.map string_of_n l)
let show_ids l = if l = [] then "-" else uniq_ids l

let data_frame seed j chunks : n list list =
  let total = List.fold_left (+) 0 chunks in
  let hdr = match vi_encode (n_of_int total) with Some e -> N0 :: e | None -> failwith "len" in
  let off = ref 0 in
  hdr :: List.filter_map (fun l ->
    if l = 0 then None else begin let b = gen_bytes seed j !off l in off := !off + l; Some b end) chunks

(* one buffer of the case line (same syntax as the harness): the chunk sequence WriteBuf presents *)
let buffer_chunks seed j (spec : string) : n list list =
  let chunks s = List.filter (fun l -> l > 0) (List.map int_of_string (String.split_on_char '.' s)) in
  let vi v = match vi_encode v with Some e -> e | None -> failwith "varint" in
  let payload cs = let off = ref 0 in
    List.map (fun l -> let b = gen_bytes seed j !off l in off := !off + l; b) cs in
  let total cs = n_of_int (List.fold_left (+) 0 cs) in
  let rest = String.sub spec 1 (String.length spec - 1) in
  match spec.[0] with
  | 'h' -> let l = int_of_string rest in
    (n_of_int 1 :: vi (n_of_int l)) :: (if l > 0 then [gen_bytes seed j 0 l] else [])
  | 'y' -> [vi (n_of_string rest)]
  | 't' -> (match String.index_opt rest ':' with
      | Some i ->
        let t = n_of_string (String.sub rest 0 i) and cs = chunks (String.sub rest (i + 1) (String.length rest - i - 1)) in
        (vi t @ (N0 :: vi (total cs))) :: payload cs
      | None -> failwith "typed buffer")
  | _ -> let cs = chunks spec in (N0 :: vi (total cs)) :: payload cs
let buffer_len spec = List.fold_left (+) 0
    (List.map (fun x -> try int_of_string x with _ -> 0)
       (String.split_on_char '.' (match String.index_opt spec ':' with
            | Some i -> String.sub spec (i + 1) (String.length spec - i - 1)
            | None -> if spec.[0] = 'h' || spec.[0] = 'y' then String.sub spec 1 (String.length spec - 1) else spec)))

let marker : n list list = [ [N0; n_of_int 3]; [n_of_int 0xee; n_of_int 0xee; n_of_int 0xee] ]

(* ------------------------------------------------------------------ qw *)
let via_of t = match gs t "via" "conn" with "conn" -> ViaConnection | _ -> ViaOpener

(* the adapter stream under test, obtained the way the harness obtains it: kind=bi poll_open_bidi of the chosen
   `impl OpenStreams`, kind=uni poll_open_send (A sends) / poll_accept_recv (A receives), kind=bip poll_accept_bidi;
   Quinn's open/accept future answered with the stream `id` *)
let open_streams via kind id a_sends : send_stream option * recv_stream option =
  match kind with
  | "bi" -> (match open_bidi via (Ok id) with Ok b -> Some b.b_send, Some b.b_recv | _ -> failwith "open_bidi fails")
  | "bip" -> (match accept_bidi (Ok id) with Ok b -> Some b.b_send, Some b.b_recv | _ -> failwith "accept_bidi fails")
  | "uni" when a_sends -> (match open_send via (Ok id) with Ok x -> Some x, None | _ -> failwith "open_send fails")
  | "uni" -> (match accept_recv (Ok id) with Ok x -> None, Some x | _ -> failwith "accept_recv fails")
  | _ -> failwith "kind"
let some = function Some x -> x | None -> failwith "no such half"
let wire_of chunks = List.fold_left (fun a c -> a + List.length c) 0 chunks

let run_qw t =
  let role = gs t "role" "c" and kind = gs t "kind" "bi" and skip = gi t "skip" 0 in
  let seed = gi t "seed" 1 and mask = gi t "ids" 31 in
  let dbl = gopt t "dbl" and dblp = gopt t "dblp" and psp = gopt t "psp" and cf = gopt t "cf" in
  let via = via_of t in
  let win = max 1 (gi t "win" (1 lsl 20)) in
  let eff = max 1 (min win (gi t "cwin" (1 lsl 22))) in
  let fname, fcode, fat = parse_fault (gs t "fault" "none") in
  let fat_i = (try int_of_string fat with _ -> 0) in
  let bufs = let b = gs t "bufs" "-" in if b = "-" then [] else String.split_on_char ',' b in
  let ps_len = gopt t "ps" in
  let peer_fault = (fname = "stop" || fname = "close" || fname = "timeout") in
  let id = stream_id role kind skip true in
  let shalf, rhalf = open_streams via kind id true in
  let s = ref (some shalf) in
  let nofin = (fname = "nofin") in
  let pr0 = gi t "pr0" 0 = 1 in
  let pr0_out = ref "-" and pr1_out = ref "-" in
  let show_ready = function ((Ready r, _), _) -> res_unit r | ((Pending, _), _) -> "pending" in
  let ids = ref [] in
  let q bit = if mask land (1 lsl bit) <> 0 then
      ids := (match send_id !s with Ok i -> i | _ -> failwith "send_id panics") :: !ids in
  let res = ref "ok" and dbl_out = ref "-" and dblp_out = ref "-" and psp_out = ref "-" and fin2 = ref None in
  let cancelled = ref false in
  let accepted_total = ref 0 in
  let failing = quinn_write_condition (fault_of fname fcode) in
  let fail_answer () = WFail (match failing with Some e -> e | None -> assert false) in
  (* the peer reads exactly `fat` bytes before it stops / closes / falls silent: Quinn can take at most the window beyond that *)
  let allowed () = if peer_fault then fat_i + eff - !accepted_total else max_int in
  (* `poll_fn(|cx| poll_finish(cx)).await`: polled to completion; a pending write is drained first, Quinn
     taking at most a window at a time (or failing, after a local finish) *)
  let poll_fin () =
    let guard = ref 0 and out = ref None in
    while !out = None do
      incr guard; if !guard > 100000 then failwith "model finish loop";
      let oracle = if fname = "afin" then [fail_answer ()]
        else if peer_fault && allowed () <= 0 then [fail_answer ()]
        else [WAccept (n_of_int (max 1 (min win (allowed ())))); WBlocked] in
      let before = List.length (!s).s_q.qs_log in
      (match poll_finish oracle !s with
       | ((Ready r, s'), _) -> s := s'; out := Some r
       | ((Pending, s'), _) -> s := s');
      accepted_total := !accepted_total + (List.length (!s).s_q.qs_log - before)
    done;
    (match !out with Some r -> r | None -> assert false) in
  if fname = "afin" then (match poll_fin () with Ok _ -> () | r -> res := "finerr:" ^ res_unit r);
  (* pr0=1: poll_ready on a stream that has nothing to write (before the first send_data, and again after the last
     buffer went out); Quinn is not consulted *)
  if pr0 then pr0_out := show_ready (poll_ready [] !s);
  let sent = ref 0 in
  let stop = ref false in
  List.iteri (fun j chunks ->
    if not !stop && !res = "ok" then begin
      if (fname = "areset" || fname = "lclose") && !sent >= fat_i then stop := true
      else begin
        q 0;
        let frame = buffer_chunks seed j chunks in
        (match send_data frame !s with
         | (Ok _, s') -> s := s'
         | (r, s') -> s := s'; res := res_unit r ^ "@send"; stop := true);
        if not !stop then begin
          q 1;
          if dbl = Some j then begin
            match send_data marker !s with
            | (Ok _, s') -> s := s'; dbl_out := "ACCEPTED"
            | (Err e, s') -> s := s'; dbl_out := "refused:" ^ stream_class e
            | (Panic _, _) -> dbl_out := "PANIC"
          end;
          (* the oracle for this buffer: blocked first, then pieces of at most `step` bytes with a block
             after each; a failure once the fault point has been passed *)
          let total = buffer_len chunks + 17 in
          let step = max 1 (max win (total / 12)) in
          let first_pending = ref true in
          let finished = ref false in
          let guard = ref 0 in
          while not !finished do
            incr guard; if !guard > 100000 then failwith "model write loop";
            let fail_now = (match failing with
              | Some _ when fname = "afin" -> true
              | Some _ when peer_fault -> allowed () <= 0
              | _ -> false) in
            let oracle =
              if !first_pending then (if (seed + j) land 1 = 1 then [] else [WBlocked])
              else if fail_now then [fail_answer ()]
              else [WAccept (n_of_int (min step (allowed ()))); WBlocked] in
            let before = List.length (!s).s_q.qs_log in
            let ((r, s'), _) = poll_ready oracle !s in
            s := s';
            accepted_total := !accepted_total + (List.length (!s).s_q.qs_log - before);
            (match r with
             | Pending ->
               if !first_pending then begin
                 first_pending := false;
                 q 2;
                 if dblp = Some j then begin
                   match send_data marker !s with
                   | (Ok _, s') -> s := s'; dblp_out := "ACCEPTED"
                   | (Err e, s') -> s := s'; dblp_out := "refused:" ^ stream_class e
                   | (Panic _, _) -> dblp_out := "PANIC"
                 end;
                 if (fname = "cfin" && fat_i = j) || cf = Some j then begin
                   (* the pending write is abandoned and the stream finished *)
                   cancelled := true; finished := true; stop := true;
                   res := res_unit (poll_fin ())
                 end else if psp = Some j then begin
                   (* poll_send while the framed write is unfinished, Quinn willing to take bytes *)
                   match poll_send [WAccept (n_of_int 100)] [List.init 100 (fun _ -> n_of_int 0xdd)] !s with
                   | (((Ready (Panic _), _), _), _) -> psp_out := "panic"
                   | (((Ready (Ok k), s'), _), _) -> s := s'; psp_out := "ACCEPTED:" ^ string_of_n k
                   | (((Ready (Err e), _), _), _) -> psp_out := "err:" ^ stream_class e
                   | (((Pending, _), _), _) -> psp_out := "ACCEPTED:pending"
                 end
               end
             | Ready (Ok _) -> finished := true; incr sent
             | Ready r -> finished := true; res := res_unit r; stop := true)
          done
        end
      end
    end) bufs;
  (* sa=1: after a failed write the buffer in flight has been given up: the next send_data is accepted, and Quinn
     refuses again (a stopped stream / a lost connection / a finished stream stays that way) *)
  let is_err x = String.length x >= 4 && String.sub x 0 4 = "err:" in
  let at_send x = String.length x >= 5 && String.sub x (String.length x - 5) 5 = "@send" in
  let sa_rounds = gi t "sa" 0 in
  let sa_run = sa_rounds > 0 && is_err !res && not (at_send !res) in
  let sa_out = if sa_run then
      String.concat "," (List.init sa_rounds (fun _ ->
        match send_data marker !s with
        | (Ok _, s') -> s := s'; "ok/" ^ show_ready (let ((r, s''), o') = poll_ready [fail_answer ()] !s in s := s''; ((r, s''), o'))
        | (Err e, _) -> "refused:" ^ stream_class e
        | (Panic _, _) -> "PANIC"))
    else "-" in
  (* finish() on a stream the peer has stopped: Quinn 0.11 answers Ok ("harmless") *)
  let saf_out = if sa_run && fname = "stop" then begin
      let fin () = (match poll_finish [fail_answer ()] !s with
          | ((Ready r, s'), _) -> s := s'; res_unit r | ((Pending, _), _) -> "pending") in
      (* first with a buffer in flight (the drain is refused by Quinn), then with nothing left *)
      let drained = (match send_data marker !s with
          | (Ok _, s') -> s := s'; "ok/" ^ fin ()
          | (Err e, _) -> "refused:" ^ stream_class e
          | (Panic _, _) -> "PANIC") in
      drained ^ "," ^ fin () end
    else "-" in
  q 3;
  if pr0 && !res = "ok" && not !cancelled then pr1_out := show_ready (poll_ready [] !s);
  let ps_out = ref "-" in
  let ps_bytes = match ps_len with Some n -> gen_bytes seed 1000 0 n | None -> [] in
  (match ps_len with
   | Some n when (fname = "none" || nofin || peer_fault) && !res = "ok" ->
     ps_out := "ok";
     let take a b = List.filteri (fun i _ -> i >= a && i < b) ps_bytes in
     let buf = ref (if n = 0 then [] else if seed land 1 = 1 && n >= 3 then
                      let k = n / 3 in [take 0 k; take k (2 * k); take (2 * k) n] else [ps_bytes]) in
     let step = max 1 (max win (n / 12)) in
     let guard = ref 0 in
     while !ps_out = "ok" && List.concat !buf <> [] do
       incr guard; if !guard > 100000 then failwith "model poll_send loop";
       let before = List.length (List.concat !buf) in
       let oracle = if peer_fault && allowed () <= 0 then [fail_answer ()]
         else if !guard land 3 = 1 then [] else if !guard land 3 = 3 then [WBlocked]
         else [WAccept (n_of_int (min step (allowed ())))] in
       (match poll_send oracle !buf !s with
        | (((Ready (Ok k), s'), b'), _) -> s := s'; buf := b';
          accepted_total := !accepted_total + int_of_n k;
          if before - List.length (List.concat b') <> int_of_n k then ps_out := "BADCOUNT"
        | (((Ready r, _), _), _) -> ps_out := (match r with Err e -> "err:" ^ stream_class e | _ -> "PANIC")
        | (((Pending, _), _), _) -> ())
     done
   | _ -> ());
  (* pse=1: poll_send with an empty buffer (nothing to take: 0 bytes written, whatever Quinn is willing to accept) *)
  let pse = gi t "pse" 0 = 1 && (fname = "none" || nofin) && !res = "ok" && (!ps_out = "-" || !ps_out = "ok") in
  let pse_out = if not pse then "-" else
      (match poll_send [WAccept (n_of_int (1 + seed))] [] !s with
       | (((Ready (Ok k), s'), _), _) -> s := s'; "ok:" ^ string_of_n k
       | (((Ready (Err e), _), _), _) -> "err:" ^ stream_class e
       | (((Ready (Panic _), _), _), _) -> "PANIC"
       | (((Pending, _), _), _) -> "pending") in
  let end_ = ref "open" in
  (match fname with
   | "none" -> if !res = "ok" && (!ps_out = "-" || !ps_out = "ok") then
       (match poll_fin () with Ok _ -> () | r -> res := "finerr:" ^ res_unit r)
   | "afin" -> fin2 := Some (res_unit (poll_fin ()))
   | "areset" -> (match send_reset fcode !s with (Ok _, s') -> s := s' | _ -> res := "PANIC-reset")
   | "lclose" ->
     (match conn_close via fcode with Ok c -> end_ := "close:" ^ string_of_n c | _ -> end_ := "PANIC");
     let lost = [WFail (match quinn_write_condition FLocalClose with Some e -> e | None -> assert false)] in
     (match ps_len with
      | Some n ->
        (match poll_send lost [gen_bytes seed 1000 0 (max n 1)] !s with
         | (((Ready (Ok _), _), _), _) -> ps_out := "ok"
         | (((Ready (Err e), _), _), _) -> ps_out := "err:" ^ stream_class e
         | _ -> ps_out := "PANIC")
      | None ->
        let r = (match send_data marker !s with
          | (Ok _, s') -> s := s';
            (match poll_ready lost !s with
             | ((Ready r, s'), _) -> s := s'; r
             | ((Pending, _), _) -> failwith "pending")
          | (r, _) -> r) in
        res := res_unit r)
   | _ -> ());
  (* tail=op.op..: more calls on the stream once it has been finished / reset: r<code> reset, f poll_finish, p poll_ready *)
  let tail = (match gs t "tail" "-" with "-" -> [] | x -> String.split_on_char '.' x) in
  let tl_out = ref [] in
  List.iter (fun op ->
    match op.[0] with
    | 'r' -> (match send_reset (n_of_string (String.sub op 1 (String.length op - 1))) !s with
        | (Ok _, s') -> s := s' | _ -> tl_out := "PANIC-reset" :: !tl_out)
    | 'f' -> tl_out := res_unit (poll_fin ()) :: !tl_out
    | 'p' -> tl_out := show_ready (poll_ready (if fname = "afin" then [fail_answer ()] else []) !s) :: !tl_out
    | _ -> failwith "tail op") tail;
  q 4;
  (* drop=1: the adapter stream is dropped now; what Quinn is left with (nofin: dropped without finish or reset) *)
  let qs = if gi t "drop" 0 = 1 || nofin then send_drop !s else (!s).s_q in
  (match fname with
   | "stop" -> end_ := "stopped" | "close" -> end_ := "closed" | "timeout" -> end_ := "silent"
   | "lclose" -> ()
   | _ -> (match qs.qs_reset with
       | Some c -> end_ := "reset:" ^ string_of_n c
       | None -> if qs.qs_finished then end_ := "fin"));
  let rid = match rhalf with None -> "-" | Some r -> (match recv_id r with Ok i -> string_of_n i | _ -> "PANIC") in
  let extra = (if gi t "pse" 0 = 1 then " pse=" ^ pse_out else "")
              ^ (if sa_rounds > 0 then Printf.sprintf " sa=%s saf=%s alive=1" sa_out saf_out else "") ^ (if pr0 then Printf.sprintf " pr0=%s pr1=%s" !pr0_out !pr1_out else "")
              ^ (if tail <> [] then " tl=" ^ (if !tl_out = [] then "-" else String.concat "/" (List.rev !tl_out)) else "") in
  let handed_frames = List.mapi (fun j chunks -> (j, buffer_chunks seed j chunks)) bufs in
  let trunc = if fname <> "cfin" then "" else
      " trunc=" ^ (if not !cancelled then "na" else
        let accepted = List.fold_left (fun a (j, f) -> if j <= fat_i then a + wire_of f else a) 0 handed_frames in
        if List.length qs.qs_log < accepted then "yes" else "no") in
  let model = Printf.sprintf "ok res=%s recv=%s pfx=ok end=%s ids=%s pid=%s rid=%s dbl=%s dblp=%s ps=%s psp=%s%s%s"
      !res (digest qs.qs_log) !end_ (show_ids (List.rev !ids)) (string_of_n qs.qs_id) rid !dbl_out !dblp_out !ps_out !psp_out
      trunc ((match !fin2 with Some f -> " fin2=" ^ f | None -> "") ^ extra) in
  (* ---- specification line *)
  let framed_total = List.fold_left (fun a (_, f) -> a + wire_of f) 0 handed_frames in
  let fault_class = match spec_write_fault (fault_of fname fcode) with Some e -> "err:" ^ stream_class e | None -> "ok" in
  let fault_in_frames = peer_fault && fat_i < framed_total in
  let sres = match fname with
    | "none" | "areset" | "nofin" -> "ok"
    | "cfin" -> "ok"
    | "lclose" -> if ps_len = None then fault_class else "ok"
    | _ when peer_fault -> if fault_in_frames then fault_class else "ok"
    | "afin" when bufs = [] -> "ok"          (* nothing is written after the finish *)
    | _ -> fault_class in
  let sps = match ps_len with
    | None -> "-"
    | Some _ ->
      (match fname with
       | "none" | "nofin" -> "ok"
       | "lclose" -> fault_class
       | _ when peer_fault -> if fault_in_frames then "-" else fault_class
       | _ -> "-") in
  let srecv = if fname = "none" || nofin then
      (* the history the application saw: every buffer accepted; the marker buffer offered on top of buffer J refused *)
      digest (spec_handed (List.concat (List.map (fun (j, f) ->
          EvAccepted f :: (if dbl = Some j then [EvRefused] else []) @ (if dblp = Some j then [EvRefused] else [])
          @ (if mask land 4 <> 0 then [EvSendOther] else [])) handed_frames) @ [EvRaw ps_bytes]))
    else if fname = "cfin" then
      (* every buffer accepted before the stream was finished, whole - the abandoned one included *)
      digest (spec_handed (List.filter_map (fun (j, f) -> if j <= fat_i then Some (EvAccepted f) else None) handed_frames))
    else "*" in
  let send_ = match fname with
    | "none" | "afin" | "cfin" | "nofin" -> "fin" | "stop" -> "stopped" | "close" -> "closed" | "timeout" -> "silent"
    | "areset" -> "reset:" ^ string_of_n (spec_reset_code fcode)
    | "lclose" -> "close:" ^ string_of_n fcode | _ -> "*" in
  let sid = string_of_n id in
  let refusal = "refused:" ^ stream_class spec_refusal in
  (* everything below is computed from the CASE LINE only (never from the model run above) *)
  let nb = List.length bufs in
  let reached j = match fname with
    | "none" | "nofin" -> Some (j < nb)
    | "afin" -> Some (j = 0 && nb > 0)
    | "areset" | "lclose" -> Some (j < min fat_i nb)
    | "cfin" -> Some (j <= fat_i && j < nb)
    | _ -> None in
  let at_buffer opt yes = match opt with
    | None -> "-"
    | Some j -> (match reached j with Some true -> yes | Some false -> "-" | None -> "*") in
  let sids = if mask land 8 <> 0 then sid else if mask = 0 then "-" else "*" in
  let spec = Printf.sprintf "ok res=%s recv=%s pfx=ok end=%s ids=%s pid=%s rid=%s dbl=%s dblp=%s ps=%s psp=%s%s%s"
      sres srecv send_ sids sid (if kind = "uni" then "-" else sid)
      (at_buffer dbl refusal) (at_buffer dblp refusal)
      sps
      (at_buffer psp "panic")
      (if fname = "cfin" then " trunc=no" else "")
      ((if fname = "afin" then " fin2=err:unknown" else "")
       (* a stream with nothing to write is ready; finishing a stream that is already finished or reset is an error *)
       ^ (if gi t "pse" 0 = 1 then (if fname = "none" || nofin then " pse=ok:0" else " pse=-") else "")
       (* after a failed write the next buffer is accepted and fails in the class of the stream's failure *)
       ^ (if sa_rounds > 0 then
            " sa=" ^ (if sres = "ok" || fname = "lclose" then "-" else if sres = fault_class then
                        String.concat "," (List.init sa_rounds (fun _ -> "ok/" ^ fault_class)) else "*")
            (* a finish that has to write first fails like the stream; what finish() itself says on a stopped stream is Quinn's *)
            ^ " saf=" ^ (if fname = "stop" && sres = fault_class then "ok/" ^ fault_class ^ ",*" else "*") ^ " alive=1" else "")
       ^ (if pr0 then " pr0=ok pr1=*" else "")
       ^ (if tail = [] then "" else
            let l = List.filter_map (fun op -> match op.[0] with
                | 'f' -> Some (if fname = "none" || fname = "afin" || fname = "areset" then "err:unknown" else "*")
                | 'p' -> Some (if fname = "afin" && bufs <> [] then "*" else "ok") | _ -> None) tail in
            " tl=" ^ (if l = [] then "-" else String.concat "/" l))) in
  model ^ " | " ^ spec

(* ------------------------------------------------------------------ qr *)
let run_qr t =
  let role = gs t "role" "c" and kind = gs t "kind" "bi" and skip = gi t "skip" 0 in
  let seed = gi t "seed" 1 and mask = gi t "ids" 63 in
  let fname, fcode, fat = parse_fault (gs t "fault" "fin") in
  let fat_i = (try int_of_string fat with _ -> 0) in
  let stop = gs t "stop" "none" in
  let stop_code, stop_when = match String.index_opt stop '@' with
    | Some i -> n_of_string (String.sub stop 0 i), String.sub stop (i + 1) (String.length stop - i - 1)
    | None -> N0, "none" in
  let chunks = let b = gs t "chunks" "-" in if b = "-" then [] else List.map int_of_string (String.split_on_char ',' b) in
  let id = stream_id role kind skip false in
  let shalf, rhalf = open_streams (via_of t) kind id false in
  let r = ref (some rhalf) in
  let ids = ref [] in
  let q bit = if mask land (1 lsl bit) <> 0 then
      ids := (match recv_id !r with Ok i -> string_of_n i | _ -> "PANIC") :: !ids in
  let got = ref [] in
  let events = ref [] in
  let show = function
    | Pending -> "pending"
    | Ready (Ok (Some _)) -> "data" | Ready (Ok None) -> "fin"
    | Ready (Err e) -> "err:" ^ stream_class e
    | Ready (Panic s) -> "PANIC" ^ string_of_n s in
  let poll a =
    (* a Quinn that has no answer yet: RBlocked, or (odd seeds) an oracle with nothing left *)
    let ((x, r'), _) = poll_data (if a = RBlocked && seed land 1 = 1 then [] else [a]) !r in
    r := r';
    (match x with
     | Pending -> events := EvReadPending :: !events
     | Ready v -> events := EvReadReady :: !events;
       (match v with Ok (Some b) -> got := b :: !got | _ -> ()));
    x in
  (* a stop_sending call that panics (a code that is no varint) leaves the stream as it was *)
  let sp_out = ref "-" in
  let stop_sending c =
    match stop_sending c !r with
    | (Ok _, r') -> r := r'; events := EvStop c :: !events; true
    | _ -> sp_out := "PANIC"; false in
  let stopped = ref false in
  q 0;
  if stop_when = "idle" then stopped := stop_sending stop_code;
  (* Quinn: a read after a local stop reports the end of the stream *)
  let p1 = poll (if !stopped then RFin else RBlocked) in
  let p1s = show p1 in
  q 1; q 2;
  let ended = ref (match p1 with
    | Ready (Ok None) -> Some "fin" | Ready (Err e) -> Some ("err:" ^ stream_class e)
    | Ready (Panic s) -> Some ("PANIC" ^ string_of_n s) | _ -> None) in
  let p2s = ref "-" in
  if String.length stop_when >= 4 && String.sub stop_when 0 4 = "pend" then begin
    let ok1 = stop_sending stop_code in
    let ok2 = if stop_when = "pend2" then stop_sending (N.add stop_code (n_of_int 1)) else false in
    q 3;
    p2s := show (poll RBlocked);
    stopped := ok1 || ok2
  end;
  (* the answers Quinn gives from here on *)
  let answers =
    let data = List.mapi (fun j l -> (j, l)) chunks in
    let cut = match fname with "reset" | "close" | "timeout" -> Some fat_i | _ -> None in
    let rec go acc written = function
      | [] -> List.rev acc
      | (j, l) :: rest ->
        (match cut with
         | Some n when written + l > n ->
           let keep = n - written in
           List.rev (if keep > 0 then RChunk (gen_bytes seed j 0 keep) :: acc else acc)
         | _ -> go (if l > 0 then RChunk (gen_bytes seed j 0 l) :: acc else acc) (written + l) rest) in
    let body_written = go [] 0 data in
    let body = if fname = "reset" then [] else body_written in   (* a reset discards what was not read yet *)
    let final = if fname = "open" then RBlocked else match quinn_read_condition (fault_of fname fcode) with
      | Some e -> RFail e | None -> RFin in
    if !stopped && stop_when <> "idle" then
      (* the pending read completes with the first piece (and the deferred stop goes out: end of stream from then on),
         or - nothing written before the end - with the end of the stream / the error itself *)
      (match body_written with x :: _ -> [x; RFin] | [] -> [final])
    else if fname = "lclose" then
      (match body with x :: _ -> [x; final] | [] -> [final])
    else body @ [final] in
  let first = ref true in
  List.iter (fun a ->
    if !ended = None then begin
      match poll a with
      | Ready (Ok (Some _)) -> if !first then (first := false; q 4)
      | Ready (Ok None) -> ended := Some "fin"
      | Ready (Err e) -> ended := Some ("err:" ^ stream_class e)
      | Ready (Panic s) -> ended := Some ("PANIC" ^ string_of_n s)
      | Pending -> ()
    end) answers;
  (* fault=open: the peer leaves the stream open, the case ends with a read in flight *)
  q 5;
  (* (a model following a mutated source may have lost the stream: still print a line) *)
  let lost = (underlying !r = None) in
  let und = match underlying !r with Some u -> u | None -> qrecv_new (!r).r_id in
  let pstop = if lost && fname = "fin" then "LOST" else match und.qr_stops with
    | c :: _ -> string_of_n c
    | [] -> if fname = "fin" then "none" else "-" in
  let events_main = !events in
  (* after a failed read: poll again, ask the id, stop, poll once more.  What Quinn 0.11 answers then (observed,
     not constrained by the property): end of stream after a reset (the adapter does not ask: it reports the reset
     again) or a local stop, the same error again while the connection is lost *)
  let re_n = gi t "re" 0 and restop = (match gs t "restop" "-" with "-" -> None | c -> Some (n_of_string c)) in
  let failed = (match !ended with Some e -> String.length e > 4 && String.sub e 0 4 = "err:" | None -> false) in
  let re_out = ref [] and rs_out = ref "-" in
  let again = match quinn_read_condition (fault_of fname fcode) with
    | Some (QRConnectionLost e) when und.qr_stops = [] -> RFail (QRConnectionLost e)
    | _ -> RFin in
  if failed && re_n > 0 then begin
    for _ = 1 to re_n do re_out := show (poll again) :: !re_out done;
    ids := (match recv_id !r with Ok i -> string_of_n i | _ -> "PANIC") :: !ids;
    (match restop with
     | Some c ->
       ignore (stop_sending c);
       ids := (match recv_id !r with Ok i -> string_of_n i | _ -> "PANIC") :: !ids;
       (* parked instead of delivered = the stream was not at hand *)
       rs_out := (if (!r).r_pending_stop <> None then "PARKED" else show (poll RFin))
     | None -> ())
  end;
  let re_s = if !re_out = [] then "-" else String.concat "/" (List.rev !re_out) in
  let pclose = if fname = "lclose" then (match conn_close (via_of t) fcode with Ok c -> string_of_n c | _ -> "PANIC") else "-" in
  let xid = match shalf with None -> "-" | Some x -> (match send_id x with Ok i -> string_of_n i | _ -> "PANIC") in
  let endv = match !ended with Some e -> e | None -> "open" in
  let model = Printf.sprintf "ok end=%s recv=%s pfx=ok p1=%s p2=%s ids=%s pid=%s xid=%s pstop=%s pclose=%s re=%s rs=%s"
      endv (digest (List.concat (List.rev !got))) p1s !p2s
      (if !ids = [] then "-" else String.concat "," (List.rev !ids)) (string_of_n und.qr_id) xid pstop pclose re_s !rs_out
      ^ (if !sp_out <> "-" then " sp=" ^ !sp_out else "") in
  (* ---- specification line *)
  (* a stop request whose code is no varint is no request (the call is outside the trait's contract) *)
  let valid c = (vi_encode c <> None) in
  let stop_code2 = N.add stop_code (n_of_int 1) in
  let eff_stop = match stop_when with
    | "idle" | "pend" -> if valid stop_code then stop_when else "none"
    | "pend2" -> if valid stop_code2 && valid stop_code then "pend2" else if valid stop_code || valid stop_code2 then "pend" else "none"
    | _ -> "none" in
  (* nothing is written before the stream ends: a read that was pending completes with the end / the error itself *)
  let nothing_written = (chunks = []) || ((fname = "reset" || fname = "close" || fname = "timeout") && fat_i = 0) in
  let send_ = if eff_stop <> "none" && not (nothing_written && fname <> "fin") then "fin" else
      (match fname with
       | "fin" -> "fin"
       | _ -> (match spec_read_fault (fault_of fname fcode) with
           | Some e -> "err:" ^ stream_class e
           | None -> if fname = "open" then "open" else "*")) in
  (* the same through the specification's reader (Spec.AdapterSpec.spec_reads) run over the answers Quinn gives in this
     scenario: the first end / error it yields is how the stream must end for the application *)
  let send_ =
    let outs, _ = spec_reads spec_read_class None (nat_of_int (List.length answers)) answers in
    let rec first = function
      | [] -> "open" | RoChunk _ :: r -> first r | RoEnd :: _ -> "fin"
      | RoError (Some e) :: _ -> "err:" ^ stream_class e | RoError None :: _ -> "PANIC" in
    let e = first outs in
    if send_ = "*" || send_ = e then e else "SPEC-INCONSISTENT:" ^ send_ ^ "/" ^ e in
  let srecv = if (fname = "fin" || fname = "open") && eff_stop = "none" then
      digest (List.concat (List.mapi (fun j l -> gen_bytes seed j 0 l) chunks)) else "*" in
  (* computed from the CASE LINE only: the events the application produces in this scenario (id queries included:
     they change nothing) *)
  let other bit = if mask land (1 lsl bit) <> 0 then [EvRecvOther] else [] in
  let stops = (if valid stop_code then [EvStop stop_code] else [])
              @ (if stop_when = "pend2" && valid stop_code2 then [EvStop stop_code2] else []) in
  let spec_events = match stop_when with
    | "idle" -> other 0 @ stops @ [if eff_stop = "idle" then EvReadReady else EvReadPending] @ [EvReadReady]
    | "pend" | "pend2" -> other 0 @ [EvReadPending] @ other 1 @ stops @ other 3 @ [EvReadPending; EvReadReady]
    | _ -> other 0 @ [EvReadPending] @ other 1 @ [EvReadReady] in
  let st = stop_run { in_flight = false; held = None; delivered = [] } spec_events in
  let spstop = match st.delivered with c :: _ -> string_of_n c | [] -> if fname = "fin" then "none" else "-" in
  let sid = string_of_n id in
  let sfailed = (fname <> "fin") in
  (* the peer's reset is sticky: every read after the one that reported it reports it again, whatever Quinn says
     (here: end of stream, data, blocked) - Spec.AdapterSpec.spec_reads started with the reset seen *)
  let sticky n = match fname with
    | "reset" ->
      let outs, _ = spec_reads spec_read_class None (nat_of_int (n + 1)) [RFail (QRReset fcode); RFin; RChunk [N0]; RBlocked; RFin] in
      Some (List.map (function RoError (Some e) -> "err:" ^ stream_class e | RoEnd -> "fin" | RoChunk _ -> "data"
                             | RoError None -> "PANIC") (List.tl outs))
    | _ -> None in
  let sre = if not (sfailed && re_n > 0) then "-" else
      (match spec_read_fault (fault_of fname fcode), sticky re_n with
       | _, Some l -> String.concat "/" l
       | Some (HConnErr c), _ when eff_stop = "none" -> String.concat "/" (List.init re_n (fun _ -> "err:" ^ conn_class c))
       | _ -> "*") in
  let sids = if mask land 39 <> 0 then sid else if mask = 0 && not (sfailed && re_n > 0) then "-" else "*" in
  let spec = Printf.sprintf "ok end=%s recv=%s pfx=ok p1=%s p2=%s ids=%s pid=%s xid=%s pstop=%s pclose=%s re=%s rs=%s"
      send_ srecv (if eff_stop = "idle" then "fin" else "pending")
      (if String.length stop_when >= 4 && String.sub stop_when 0 4 = "pend" then "pending" else "-")
      sids sid (if kind = "uni" then "-" else sid) spstop
      (if fname = "lclose" then string_of_n fcode else "-") sre
      (if sfailed && re_n > 0 && restop <> None then (match sticky 1 with Some [x] -> x | _ -> "*") else "-") in
  model ^ " | " ^ spec

(* ------------------------------------------------------------------ qa *)
let run_qa t =
  let op = gs t "op" "accept_recv" in
  let fname, fcode, _ = parse_fault (gs t "fault" "close:0") in
  let e = match fname with
    | "close" -> QApplicationClosed fcode | "timeout" -> QTimedOut | "lclose" -> QLocallyClosed
    | "sreset" -> QConnReset
    (* a handshake that fails after side A got its 0.5-RTT handle: the peer's CONNECTION_CLOSE / a local TLS failure;
       the transport error code is whatever the TLS alert was (h3 never looks at it) *)
    | "pclosed" -> QConnectionClosed (n_of_int 0x130) | "terr" -> QTransportError (n_of_int 0x174)
    | _ -> failwith "fault" in
  let show_c = function Ok _ -> "ok" | Err c -> "err:" ^ conn_class c | Panic s -> "PANIC" ^ string_of_n s in
  let show_s = function Ok _ -> "ok" | Err c -> "err:" ^ stream_class c | Panic s -> "PANIC" ^ string_of_n s in
  let m = match op with
    | "accept_recv" -> show_c (accept_recv (Err e))
    | "accept_bidi" -> show_c (accept_bidi (Err e))
    | "open_bidi" -> show_s (open_bidi (via_of t) (Err e))
    | "open_send" -> show_s (open_send (via_of t) (Err e))
    | _ -> failwith "op" in
  let pclose = if fname = "lclose" then (match conn_close (via_of t) fcode with Ok c -> string_of_n c | _ -> "PANIC") else "-" in
  let s = "err:" ^ conn_class (spec_conn_class e) in
  (* close with a code that is no varint panics (outside the contract: h3 only passes its own codes): nothing was
     closed, the case ends there *)
  if pclose = "PANIC" then "ok res=- pclose=PANIC | ok res=* pclose=*" else
  Printf.sprintf "ok res=%s pclose=%s | ok res=%s pclose=%s" m pclose s (if fname = "lclose" then string_of_n fcode else "-")

(* ------------------------------------------------------------------ qd *)
let run_qd t =
  let dir = gs t "dir" "send" in
  let sid = n_of_string (gs t "sid" "0") and len = gi t "len" 10 and seed = gi t "seed" 1 in
  let fname, fcode, _ = parse_fault (gs t "fault" "none") in
  let q4 = fst (N.div_eucl sid (n_of_int 4)) in
  (* the EncodedDatagram handed to the adapter: quarter stream id, then the payload (C18) *)
  let view = (match vi_encode q4 with Some e -> e | None -> failwith "sid") @ gen_bytes seed 0 0 len in
  let ce = match fname with
    | "close" -> Some (QApplicationClosed fcode) | "timeout" -> Some QTimedOut | "lclose" -> Some QLocallyClosed
    | "sreset" -> Some QConnReset
    | _ -> None in
  let dclass = function
    | HDNotAvailable -> "notavailable" | HDTooLarge -> "toolarge" | HDConnectionError c -> conn_class c in
  let pclose = if fname = "lclose" then (match conn_close (via_of t) fcode with Ok c -> string_of_n c | _ -> "PANIC") else "-" in
  let m, sp =
    if dir = "send" then begin
      let answer = match fname, ce with
        | "toolarge", _ -> Some QDTooLarge
        | "disabled", _ -> Some QDUnsupportedByPeer     (* the peer does not accept datagrams *)
        | "ldisabled", _ -> Some QDDisabled             (* this side does not accept datagrams: Quinn refuses to send any *)
        | _, Some e -> Some (QDConnectionLost e)
        | _ -> None in
      let m = match send_datagram view answer with
        | Ok b -> "res=ok recv=" ^ digest b
        | Err e -> "res=err:" ^ dclass e ^ " recv=" ^ digest []
        | Panic s -> "res=PANIC" ^ string_of_n s ^ " recv=-" in
      let sp = match answer with
        | None -> "res=ok recv=" ^ digest view
        | Some e -> "res=err:" ^ dclass (spec_dgram_class e) ^ " recv=" ^ digest [] in
      m, sp
    end else begin
      let a = match ce with Some e -> Ready (Err e) | None -> Ready (Ok view) in
      (* nothing has arrived yet at the first poll *)
      let early = (match poll_incoming_datagram Pending with Pending -> "" | _ -> "EARLY-") in
      let m = early ^ match poll_incoming_datagram a with
        | Ready (Ok b) -> "res=ok recv=" ^ digest b
        | Ready (Err c) -> "res=err:" ^ conn_class c ^ " recv=" ^ digest []
        | Ready (Panic s) -> "res=PANIC" ^ string_of_n s ^ " recv=-"
        | Pending -> "res=pending recv=-" in
      let sp = match ce with
        | None -> "res=ok recv=" ^ digest view
        | Some e -> "res=err:" ^ conn_class (spec_conn_class e) ^ " recv=" ^ digest [] in
      m, sp
    end in
  Printf.sprintf "ok %s pclose=%s | ok %s pclose=%s" m pclose sp (if fname = "lclose" then string_of_n fcode else "-")

let handle ws = match ws with
  | "qd" :: rest -> run_qd (kv_of rest)
  | "qw" :: rest -> run_qw (kv_of rest)
  | "qr" :: rest -> run_qr (kv_of rest)
  | "qa" :: rest -> run_qa (kv_of rest)
  | _ -> "driver-error unknown-case"
let () = run_lines handle
