(* C16 driver: prints "<model> | <spec>" per case *)
let side_s = function Client -> "client" | Server -> "server"
let dir_s = function Bi -> "bi" | Uni -> "uni"
let b2 x = if x then "1" else "0"
let two62 = n_of_string "4611686018427387904"
(* non-contiguous inputs: `aa.bbcc.dd` = three chunks (empty chunks are dropped, as h3v::ChunkBuf::new does); the model
   column runs the decoders of Model/ChunkedVarint.v on the chunk list and prints the chunks of the buffer left behind *)
let chunks_of s = if s = "-" then [] else List.filter (fun c -> c <> []) (List.map bytes_of_hex (String.split_on_char '.' s))
let chunks_str cs = if cs = [] then "-" else String.concat "." (List.map hex_of_bytes cs)
let buf_result r = match r with
  | (Ok v, rest) -> "ok " ^ string_of_n v ^ " " ^ chunks_str rest
  | (Err e, rest) -> "err " ^ string_of_n e ^ " " ^ chunks_str rest
  | (Panic s, _) -> "panic " ^ string_of_n s
let rec handle ws = match ws with
  | [("vi.try64" | "vi.tryus" | "vi.push") as fam; x] ->
      let xn = n_of_string x in
      let r = (match fam with "vi.try64" -> vi_try_from_u64 xn | "vi.tryus" -> vi_try_from_usize xn | _ -> push_id_try_from xn) in
      let m = (match r with
        | None -> "err bounds"
        | Some v -> (match vi_encode v with None -> "panic unreachable" | Some e -> "ok " ^ hex_of_bytes e)) in
      let s = if N.ltb xn two62 then "ok " ^ hex_of_bytes (rfc_vi_enc (rfc_vi_shortest xn) xn) else "err bounds" in
      m ^ " | " ^ s
  | ["vi.wvar"; _; x] ->
      (* write_var = from_u64(x).unwrap().encode: a panic for x >= 2^62 *)
      let xn = n_of_string x in
      let m = (match vi_write_var xn with None -> "panic" | Some e -> "ok " ^ hex_of_bytes e) in
      let s = if N.ltb xn two62 then "ok " ^ hex_of_bytes (rfc_vi_enc (rfc_vi_shortest xn) xn) else "panic" in
      m ^ " | " ^ s
  | ["vi.gvar"; _; chunks] ->
      let flat = String.concat "" (List.filter (fun c -> c <> "-") (String.split_on_char '.' chunks)) in
      let m = buf_result (vi_get_var_buf (chunks_of chunks)) in
      let sp = handle ["vi.dec"; (if flat = "" then "-" else flat)] in
      let i = (try String.index sp '|' with Not_found -> 0) in
      m ^ " | " ^ String.trim (String.sub sp (i + 1) (String.length sp - i - 1))
  | [("vi.sessd" | "st.dec") as fam; chunks] ->
      (* Decode for SessionId / StreamType on a (possibly non-contiguous) buffer: same oracle as vi.dec *)
      let flat = String.concat "" (List.filter (fun c -> c <> "-") (String.split_on_char '.' chunks)) in
      let m = buf_result (if fam = "st.dec" then st_decode_buf (chunks_of chunks) else sess_decode_buf (chunks_of chunks)) in
      let sp = handle ["vi.dec"; (if flat = "" then "-" else flat)] in
      let i = (try String.index sp '|' with Not_found -> 0) in
      m ^ " | " ^ String.trim (String.sub sp (i + 1) (String.length sp - i - 1))
  | ["vi.sess"; x] ->
      (* SessionId::try_from, then what the accepted id holds and how Encode writes it *)
      let xn = n_of_string x in
      let m = (match sess_try_from xn with
        | None -> "err invalid"
        | Some id -> (match sess_encode id with
            | None -> "panic unwrap"
            | Some e -> "ok " ^ string_of_n id ^ " " ^ hex_of_bytes e)) in
      let s = if N.ltb xn two62 then "ok " ^ string_of_n xn ^ " " ^ hex_of_bytes (rfc_vi_enc (rfc_vi_shortest xn) xn) else "err invalid" in
      m ^ " | " ^ s
  | ["sid.enc"; x] ->
      let xn = n_of_string x in
      let m = (match sid_try_from xn with
        | None -> "err invalid"
        | Some id -> (match sid_encode id with None -> "panic unwrap" | Some e -> "ok " ^ hex_of_bytes e)) in
      let s = if N.ltb xn two62 then "ok " ^ hex_of_bytes (rfc_vi_enc (rfc_vi_shortest xn) xn) else "err invalid" in
      m ^ " | " ^ s
  | ["st.enc"; x] ->
      (* StreamType::from_value(x).encode: write_var, a panic for x >= 2^62 *)
      let xn = n_of_string x in
      let m = (match st_encode xn with None -> "panic" | Some e -> "ok " ^ hex_of_bytes e) in
      let s = if N.ltb xn two62 then "ok " ^ hex_of_bytes (rfc_vi_enc (rfc_vi_shortest xn) xn) else "panic" in
      m ^ " | " ^ s
  | ["sid.disp"; x] ->
      let xn = n_of_string x in
      let m = (match sid_try_from xn with
        | None -> "err invalid"
        | Some id -> let ((s, d), n) = sid_display id in
            Printf.sprintf "ok %s %s %s" (side_s s) (dir_s d) (string_of_n n)) in
      let s = if N.ltb xn two62 then
          Printf.sprintf "ok %s %s %s" (if rfc_sid_client xn then "client" else "server")
            (if rfc_sid_bidi xn then "bi" else "uni") (string_of_n (rfc_sid_index xn))
        else "err invalid" in
      m ^ " | " ^ s
  | ["vi.from"; _; x] ->
      (* the infallible constructors From<u8|u16|u32>, from_u32: the value is the argument (the generator keeps x in range) *)
      let xn = n_of_string x in
      let m = (match vi_encode xn with None -> "panic unreachable" | Some e -> "ok " ^ hex_of_bytes e) in
      m ^ " | ok " ^ hex_of_bytes (rfc_vi_enc (rfc_vi_shortest xn) xn)
  | ["vi.encp"; _; pre; x] ->
      (* encode onto a non-empty target: the bytes already there stay, the encoding is appended *)
      let xn = n_of_string x in
      let cat e = hex_of_bytes (bytes_of_hex pre @ e) in
      let m = (match vi_from_u64 xn with
        | None -> "err bounds"
        | Some v -> (match vi_encode v with None -> "panic unreachable" | Some e -> "ok " ^ cat e)) in
      let s = if N.ltb xn two62 then "ok " ^ cat (rfc_vi_enc (rfc_vi_shortest xn) xn) else "err bounds" in
      m ^ " | " ^ s
  | ["vi.decc"; chunks] ->
      let flat = String.concat "" (List.filter (fun c -> c <> "-") (String.split_on_char '.' chunks)) in
      let m = buf_result (vi_decode_buf (chunks_of chunks)) in
      let sp = handle ["vi.dec"; (if flat = "" then "-" else flat)] in
      let i = (try String.index sp '|' with Not_found -> 0) in
      m ^ " | " ^ String.trim (String.sub sp (i + 1) (String.length sp - i - 1))
  | ["vi.enc"; x] ->
      let x = n_of_string x in
      let m = (match vi_from_u64 x with
        | None -> "err bounds"
        | Some v -> (match vi_encode v with None -> "panic unreachable" | Some e -> "ok " ^ hex_of_bytes e)) in
      let s = if N.ltb x two62 then "ok " ^ hex_of_bytes (rfc_vi_enc (rfc_vi_shortest x) x) else "err bounds" in
      m ^ " | " ^ s
  | ["vi.size"; x] ->
      let x = n_of_string x in
      let m = (match vi_from_u64 x with
        | None -> "err bounds"
        | Some v -> (match vi_size v with None -> "panic unreachable" | Some e -> "ok " ^ string_of_n e)) in
      let s = if N.ltb x two62 then "ok " ^ string_of_n (rfc_vi_shortest x) else "err bounds" in
      m ^ " | " ^ s
  | ["vi.esz"; b] ->
      let b = n_of_string b in
      "ok " ^ string_of_n (vi_encoded_size b) ^ " | ok " ^ string_of_n (rfc_vi_len b)
  | ["vi.dec"; h] ->
      let bs = bytes_of_hex h in
      let m = (match vi_decode bs with
        | (Ok v, rest) -> "ok " ^ string_of_n v ^ " " ^ hex_of_bytes rest
        | (Err e, rest) -> "err " ^ string_of_n e ^ " " ^ hex_of_bytes rest
        | (Panic s, _) -> "panic " ^ string_of_n s) in
      let s = (match bs with
        | [] -> "err * *"
        | b0 :: _ ->
          let l = rfc_vi_len b0 in
          if N.ltb (len bs) l then "err * *" else begin
            let ln = int_of_n l in
            let enc = List.filteri (fun i _ -> i < ln) bs and rest = List.filteri (fun i _ -> i >= ln) bs in
            "ok " ^ string_of_n (rfc_vi_value enc) ^ " " ^ hex_of_bytes rest end) in
      m ^ " | " ^ s
  | ["sid"; x] ->
      let x = n_of_string x in
      let m = (match sid_try_from x with
        | None -> "err invalid"
        | Some id -> Printf.sprintf "ok %s %s %s %s %s" (side_s (sid_initiator id)) (dir_s (sid_dir id))
             (string_of_n (sid_index id)) (b2 (sid_is_request id)) (b2 (sid_is_push id))) in
      let s = if N.ltb x two62 then
          Printf.sprintf "ok %s %s %s %s %s" (if rfc_sid_client x then "client" else "server")
            (if rfc_sid_bidi x then "bi" else "uni") (string_of_n (rfc_sid_index x))
            (b2 (rfc_sid_bidi x && rfc_sid_client x)) (b2 (not (rfc_sid_bidi x) && not (rfc_sid_client x)))
        else "err invalid" in
      m ^ " | " ^ s
  | ["sid.add"; x; k] ->
      let x = n_of_string x and k = n_of_string k in
      let m = "ok " ^ string_of_n (sid_add x k) in
      let sum = N.add (rfc_sid_index x) k in
      let ix = if N.ltb sum rfc_max_index then sum else rfc_max_index in
      let s = "ok " ^ string_of_n (rfc_sid_make ix (rfc_sid_bidi x) (rfc_sid_client x)) in
      m ^ " | " ^ s
  | _ -> "driver-error unknown-case"
let () = run_lines handle
