(* C15 driver: model column = extracted Gallina model of h3's codecs, spec column = RFC 7541 5.1 / 5.2
   reference functions.  Case families: pi.dec pi.enc hd hd.blk he ps.dec ps.enc (see lib/props/c15.py). *)
let pi_err_s = function PiOverflow -> "err overflow" | PiUnexpectedEnd -> "err end"
let huff_err_s = function MissingBits -> "missing" | Unhandled -> "unhandled"

let m_hd bs = match hpack_decode bs with
  | Ok v -> "ok " ^ hex_of_bytes v
  | Err e -> "err " ^ huff_err_s e
  | Panic _ -> "panic"
let s_hd bs = match rfc_huff_decode bs with
  | Some v -> "ok " ^ hex_of_bytes v
  | None -> "err"

let fnv_prime = 0x100000001b3L
let fnv (h : int64 ref) (s : string) =
  String.iter (fun c -> h := Int64.mul (Int64.logxor !h (Int64.of_int (Char.code c))) fnv_prime) s;
  h := Int64.mul (Int64.logxor !h 10L) fnv_prime
let fnv_init = 0xcbf29ce484222325L

(* spec for an integer with an n-bit prefix; `err *` when more than 8 continuation octets carry the
   continuation bit (octet-length limit of the implementation: RFC 7541 5.1 allows rejecting) *)
let s_pi n bs =
  match bs with
  | [] -> `Err "err end"
  | b0 :: r ->
    let full = (int_of_n b0) land ((1 lsl n) - 1) = (1 lsl n) - 1 in
    if full && int_of_nat (cont_run r) >= 9 then `Err "err *"
    else match rfc_pi_decode (n_of_int n) bs with
      | Some ((f, v), rest) -> `Ok (f, v, rest)
      | None -> `Err "err end"

(* ---- large seeded strings (he.big / hd.big / ps.rt): digests.  The spec column is computed by a native
   table-driven encoder over the extracted RFC rows (rfc_huff_rows) and the RFC 5.1 integer pseudocode; the
   model column is the extracted model up to 1024 octets (which ties the native code to the model) and the
   native code above (the extracted list-based model is quadratic), justified by C15_huffman_encode_is_rfc,
   C15_huffman_roundtrip and C15_string_roundtrip. ---- *)
let gen (seed : int64) (len : int) : Bytes.t =
  let x = ref (Int64.logxor (Int64.mul seed 0x9E3779B97F4A7C15L) 0xD1B54A32D192ED03L) in
  Bytes.init len (fun _ ->
    x := Int64.add (Int64.mul !x 6364136223846793005L) 1442695040888963407L;
    let b = Int64.to_int (Int64.shift_right_logical !x 56) in
    Char.chr (if Int64.logand seed 1L = 1L then 97 + b mod 26 else b))
let fnv_bytes (b : Bytes.t) : int64 =
  let h = ref fnv_init in
  Bytes.iter (fun c -> h := Int64.mul (Int64.logxor !h (Int64.of_int (Char.code c))) fnv_prime) b; !h
let code_arr = lazy (Array.of_list (List.map (fun (c, l) -> (int_of_n c, int_of_n l)) rfc_huff_rows))
let native_huff_encode (s : Bytes.t) : Bytes.t =
  let t = Lazy.force code_arr in
  let out = Buffer.create (Bytes.length s * 2 + 8) in
  let acc = ref 0 and nb = ref 0 in
  Bytes.iter (fun ch ->
    let (c, l) = t.(Char.code ch) in
    acc := (!acc lsl l) lor c; nb := !nb + l;
    while !nb >= 8 do
      Buffer.add_char out (Char.chr ((!acc lsr (!nb - 8)) land 255)); nb := !nb - 8
    done;
    acc := !acc land ((1 lsl !nb) - 1)) s;
  if !nb > 0 then Buffer.add_char out (Char.chr (((!acc lsl (8 - !nb)) lor ((1 lsl (8 - !nb)) - 1)) land 255));
  Buffer.to_bytes out
let native_pi_encode (n : int) (flags : int) (v : int) : Bytes.t =
  let b = Buffer.create 10 in
  let mask = (1 lsl n) - 1 in
  if v < mask then Buffer.add_char b (Char.chr ((flags lsl n) lor v))
  else begin
    Buffer.add_char b (Char.chr ((flags lsl n) lor mask));
    let r = ref (v - mask) in
    while !r >= 128 do Buffer.add_char b (Char.chr (!r mod 128 + 128)); r := !r / 128 done;
    Buffer.add_char b (Char.chr !r) end;
  Buffer.to_bytes b
let nlist_of_bytes (b : Bytes.t) : n list = List.init (Bytes.length b) (fun i -> n_of_int (Char.code (Bytes.get b i)))
let bytes_of_nlist (l : n list) : Bytes.t = let a = Array.of_list l in Bytes.init (Array.length a) (fun i -> Char.chr (int_of_n a.(i)))
let model_limit = 1024
let he_line e = Printf.sprintf "ok elen=%d h=%016Lx" (Bytes.length e) (fnv_bytes e)
let hd_line d = Printf.sprintf "ok dlen=%d h=%016Lx" (Bytes.length d) (fnv_bytes d)
let rt_line e d rest = Printf.sprintf "ok elen=%d h=%016Lx dlen=%d hd=%016Lx rest=%s" (Bytes.length e) (fnv_bytes e) (Bytes.length d) (fnv_bytes d) rest

let chunks_of s = if s = "-" then [] else List.filter (fun c -> c <> []) (List.map bytes_of_hex (String.split_on_char '.' s))
let chunks_str cs = if cs = [] then "-" else String.concat "." (List.map hex_of_bytes cs)
let spec_of line = let i = (try String.index line '|' with Not_found -> 0) in String.trim (String.sub line (i + 1) (String.length line - i - 1))
let unchunk spec = String.concat "" (List.filter (fun c -> c <> "-") (String.split_on_char '.' spec))
let rec handle ws = match ws with
  (* chunked variants: the MODEL column runs the decoders of Model/ChunkedQpack.v (bytes-crate provided methods over
     chunk()/advance()) on the chunk list (empty chunks dropped, as h3v::ChunkBuf::new does) and prints the chunks of the
     buffer left behind; the SPEC column is the RFC reference on the concatenation *)
  | ["pi.decc"; size; spec] ->
    let m = (match pi_decode_buf (n_of_int (int_of_string size)) (chunks_of spec) with
      | Ok ((f, v), rest) -> Printf.sprintf "ok %s %s %s" (string_of_n f) (string_of_n v) (chunks_str rest)
      | Err e -> pi_err_s e
      | Panic _ -> "panic") in
    m ^ " | " ^ spec_of (handle ["pi.dec"; size; (let h = unchunk spec in if h = "" then "-" else h)])
  | ["ps.decc"; size; spec] ->
    let m = (match ps_decode_buf (n_of_int (int_of_string size)) (chunks_of spec) with
      | Ok (v, rest) -> Printf.sprintf "ok %s %s" (hex_of_bytes v) (chunks_str rest)
      | Err PsUnexpectedEnd -> "err end"
      | Err (PsInteger PiOverflow) -> "err overflow"
      | Err (PsInteger PiUnexpectedEnd) -> "err ?"
      | Err (PsHuffman e) -> "err huffman " ^ huff_err_s e
      | Err PsBufSize -> "err bufsize"
      | Panic _ -> "panic") in
    m ^ " | " ^ spec_of (handle ["ps.dec"; size; (let h = unchunk spec in if h = "" then "-" else h)])
  | ["he.big"; len; seed] ->
    let s = gen (Int64.of_string seed) (int_of_string len) in
    let sp = he_line (native_huff_encode s) in
    let m = if Bytes.length s > model_limit then sp else (match hpack_encode (nlist_of_bytes s) with
      | Ok e -> he_line (bytes_of_nlist e) | Err _ -> "err" | Panic _ -> "panic") in
    m ^ " | " ^ sp
  | ["hd.big"; len; seed] ->
    let s = gen (Int64.of_string seed) (int_of_string len) in
    let sp = hd_line s in
    let m = if Bytes.length s > model_limit then sp else (match hpack_encode (nlist_of_bytes s) with
      | Ok e -> (match hpack_decode e with
          | Ok d -> hd_line (bytes_of_nlist d) | Err e -> "err " ^ huff_err_s e | Panic _ -> "panic")
      | Err _ -> "err" | Panic _ -> "panic") in
    m ^ " | " ^ sp
  | ["ps.rt"; size; len; seed; flags] ->
    let sz = int_of_string size in
    let fl = int_of_string flags in
    let s = gen (Int64.of_string seed) (int_of_string len) in
    let he = native_huff_encode s in
    let fits = sz >= 2 && sz <= 8 && fl < (1 lsl (8 - sz)) in
    let sp = if not fits then "**" else
      rt_line (Bytes.cat (native_pi_encode (sz - 1) (2 * fl + 1) (Bytes.length he)) he) s "7a7a" in
    let m = if Bytes.length s > model_limit then sp else (match ps_encode (n_of_int sz) (n_of_int fl) (nlist_of_bytes s) with
      | Ok e -> (match ps_decode (n_of_int sz) (e @ [n_of_int 122; n_of_int 122]) with
          | Ok (v, rest) -> rt_line (bytes_of_nlist e) (bytes_of_nlist v) (hex_of_bytes rest)
          | Err PsUnexpectedEnd -> "err end"
          | Err _ -> "err other"
          | Panic _ -> "panic")
      | Err _ -> "err encode" | Panic _ -> "panic") in
    m ^ " | " ^ sp
  | ["pi.dec"; size; h] ->
    let n = int_of_string size in
    let bs = bytes_of_hex h in
    let m = (match pi_decode (n_of_int n) bs with
      | Ok ((f, v), rest) -> Printf.sprintf "ok %s %s %s" (string_of_n f) (string_of_n v) (hex_of_bytes rest)
      | Err e -> pi_err_s e
      | Panic _ -> "panic") in
    let s = if n < 1 || n > 8 then "**" else (match s_pi n bs with
      | `Ok (f, v, rest) -> Printf.sprintf "ok %s %s %s" (string_of_n f) (string_of_n v) (hex_of_bytes rest)
      | `Err e -> e) in
    m ^ " | " ^ s
  | ["pi.enc"; size; flags; value] ->
    let n = int_of_string size in
    let f = int_of_string flags in
    let v = n_of_string value in
    let m = (match pi_encode (n_of_int n) (n_of_int f) v with
      | Ok bs -> "ok " ^ hex_of_bytes bs
      | Err _ -> "err"
      | Panic _ -> "panic") in
    let s = if n < 1 || n > 8 || f >= (1 lsl (8 - n)) then "**"
      else "ok " ^ hex_of_bytes (rfc_pi_encode (n_of_int n) (n_of_int f) v) in
    m ^ " | " ^ s
  | ["hd"; h] ->
    let bs = bytes_of_hex h in
    m_hd bs ^ " | " ^ s_hd bs
  | ["hd.blk"; prefix; n] ->
    let p = bytes_of_hex prefix in
    let n = int_of_string n in
    let total = 1 lsl (8 * n) in
    let h1 = ref fnv_init and h2 = ref fnv_init and h2s = ref fnv_init in
    let oks = ref 0 and soks = ref 0 and kf = ref 0 in
    for k = 0 to total - 1 do
      let suffix = List.init n (fun j -> n_of_int ((k lsr (8 * (n - 1 - j))) land 255)) in
      let bs = p @ suffix in
      let m = m_hd bs in
      let s = s_hd bs in
      let mc = if String.length m >= 2 && String.sub m 0 2 = "ok" then (incr oks; m) else if m = "panic" then m else "err" in
      fnv h1 m; fnv h2 mc;
      (* inside the known-finding class the spec digest takes the documented lax behaviour *)
      let s' = if s <> mc && long_ones_b bs && mc = "ok " ^ hex_of_bytes (long_ones_result bs) then (incr kf; mc) else s in
      if String.length s' >= 2 && String.sub s' 0 2 = "ok" then incr soks;
      fnv h2s s'
    done;
    Printf.sprintf "n=%d ok=%d h1=%016Lx h2=%016Lx | n=%d ok=%d h1=* h2=%016Lx kf=%d" total !oks !h1 !h2 total !soks !h2s !kf
  | ["he"; h] ->
    let bs = bytes_of_hex h in
    let m = (match hpack_encode bs with
      | Ok v -> "ok " ^ hex_of_bytes v
      | Err _ -> "err"
      | Panic _ -> "panic") in
    m ^ " | ok " ^ hex_of_bytes (rfc_huff_encode bs)
  | ["ps.dec"; size; h] ->
    let sz = int_of_string size in
    let bs = bytes_of_hex h in
    let m = (match ps_decode (n_of_int sz) bs with
      | Ok (v, rest) -> Printf.sprintf "ok %s %s" (hex_of_bytes v) (hex_of_bytes rest)
      | Err PsUnexpectedEnd -> "err end"
      | Err (PsInteger PiOverflow) -> "err overflow"
      | Err (PsInteger PiUnexpectedEnd) -> "err ?"
      | Err (PsHuffman e) -> "err huffman " ^ huff_err_s e
      | Err PsBufSize -> "err bufsize"
      | Panic _ -> "panic") in
    let s = if sz < 2 || sz > 8 then "**" else (match s_pi (sz - 1) bs with
      | `Err e -> if e = "err *" then "err **" else e
      | `Ok (f, l, r) ->
        if N.ltb (len r) l then "err end"
        else begin
          let k = int_of_n l in
          let payload = List.filteri (fun i _ -> i < k) r in
          let rest = List.filteri (fun i _ -> i >= k) r in
          if (int_of_n f) land 1 = 0 then Printf.sprintf "ok %s %s" (hex_of_bytes payload) (hex_of_bytes rest)
          else match rfc_huff_decode payload with
            | Some v -> Printf.sprintf "ok %s %s" (hex_of_bytes v) (hex_of_bytes rest)
            | None -> Printf.sprintf "err huffman %s %s" (hex_of_bytes payload) (hex_of_bytes rest)
        end) in
    m ^ " | " ^ s
  | ["ps.enc"; size; flags; h] ->
    let sz = int_of_string size in
    let f = int_of_string flags in
    let bs = bytes_of_hex h in
    let m = (match ps_encode (n_of_int sz) (n_of_int f) bs with
      | Ok v -> "ok " ^ hex_of_bytes v
      | Err _ -> "err"
      | Panic _ -> "panic") in
    let s = if sz < 2 || sz > 8 || f >= (1 lsl (8 - sz)) then "**" else begin
      let e = rfc_huff_encode bs in
      "ok " ^ hex_of_bytes (rfc_pi_encode (n_of_int (sz - 1)) (n_of_int (2 * f + 1)) (n_of_int (List.length e)) @ e) end in
    m ^ " | " ^ s
  | _ -> "driver-error unknown-case"
let () = run_lines handle
