(* C08 driver.
   goaway  <ops>            ops = comma list of A<id> | S<n> | P | C<id> | G<pushid> | b (control-stream write budget := 0) | W<k> (grant k bytes)
                            prints `ok <group> <group> ...` (one group per op: outputs joined by ',', `.` = none)
                            | verdict of the line monitor (Spec/GoawaySpec.v) on the model's trace, and that trace again
   gchk    <ops> <groups>   verdict of the line monitor on a GIVEN trace (used on the implementation's traces)
   cgoaway <ops>            ops = comma list of g<id> | D | R ; model | RFC reference client *)
let num s i = n_of_string (String.sub s i (String.length s - i))
let parse_gop tok =
  match tok.[0] with
  | 'A' -> Arrive (num tok 1)
  | 'S' -> Shutdown (num tok 1)
  | 'P' -> if tok = "P" then Poll else failwith "bad op"
  | 'C' -> Complete (num tok 1)
  | 'G' -> PeerGoaway (num tok 1)
  | 'V' -> Serve (num tok 1)
  | _ -> failwith ("bad op " ^ tok)
let opt_code = function Some c -> string_of_n c | None -> "-"
let show_out = function
  | EWire g -> Some ("w" ^ string_of_n g)
  | EShown id -> Some ("+" ^ string_of_n id)
  | ERejected (id, st, rs) -> Some ("-" ^ string_of_n id ^ ":" ^ opt_code st ^ ":" ^ opt_code rs)
  | ELost id -> Some ("?" ^ string_of_n id)
  | ENone -> Some "none"
  | EPending -> Some "pend"
  | EErr c -> Some ("err:" ^ string_of_n c ^ "L/close:" ^ string_of_n c)
  | _ -> None
let group outs =
  match List.filter_map show_out outs with [] -> "." | l -> String.concat "," l
let verdict t = match mon_fail_at mon0 t N0 with None -> "line-ok" | Some i -> "line-bad@" ^ string_of_n i
let code_of s = if s = "-" then None else Some (n_of_string s)
let parse_out tok =
  if tok = "none" then ENone else if tok = "pend" then EPending
  else if String.length tok > 5 && String.sub tok 0 5 = "serr:" then EErr (num tok 5)
  else if String.length tok > 4 && String.sub tok 0 4 = "err:" then
    (* err:<code><variant letter>/close:<code> *)
    let j = ref 4 in
    while !j < String.length tok && tok.[!j] >= '0' && tok.[!j] <= '9' do incr j done;
    EErr (n_of_string (String.sub tok 4 (!j - 4)))
  else match tok.[0] with
  | 'w' -> EWire (num tok 1)
  | '+' -> EShown (num tok 1)
  | '?' -> ELost (num tok 1)
  | '-' -> (match String.split_on_char ':' (String.sub tok 1 (String.length tok - 1)) with
            | [id; st; rs] -> ERejected (n_of_string id, code_of st, code_of rs)
            | _ -> failwith "bad rejected")
  | _ -> failwith ("bad output " ^ tok)
let parse_wop tok =
  match tok.[0] with
  | 'b' -> WBlock
  | 'W' -> WGrant (num tok 1)
  | _ -> WOp (parse_gop tok)
let parse_cop tok =
  match tok.[0] with
  | 'g' -> KGoaway (num tok 1)
  | 'D' -> KDrive
  | 'R' -> KRequest
  | 'z' -> KStarve
  | 'h' -> KGrant (num tok 1)
  | _ -> failwith ("bad op " ^ tok)
let show_cout = function
  | CDriveErr c -> Some ("err:" ^ string_of_n c ^ "L/close:" ^ string_of_n c)
  | CReqParked -> Some "parked"
  | CReqCancelled (s, c) -> Some ("cancelled:" ^ string_of_n s ^ ":" ^ opt_code c)
  | CDriveIdle -> Some "idle"
  | CReqClosing -> Some "closing"
  | CReqOpened s -> Some ("open:" ^ string_of_n s)
  | _ -> None
let cgroup outs = match List.filter_map show_cout outs with [] -> "." | l -> String.concat "," l
let base f = match String.index_opt f '.' with Some i -> String.sub f 0 i | None -> f
let in_event = function
  | Arrive id -> EArrive id | Shutdown n -> EShutdown n | Poll -> EPoll
  | Complete id -> EComplete id | PeerGoaway p -> EPeerGoaway p
  | Serve id -> EComplete id   (* no event of its own; EComplete is ignored by the monitor *)
let handle ws =
  let ws = (match ws with f :: r -> base f :: r | [] -> []) in
  match ws with
  | ["goaway"; ops] ->
      let ops = List.map parse_wop (String.split_on_char ',' ops) in
      let w = ref wstate0 in
      let trace = ref [] in
      let groups = List.map (fun o ->
        let (outs, w') = wstep !w o in
        w := w';
        trace := !trace @ List.filter_map (function WE e -> Some e | _ -> None) outs;
        let show e = (match o, e with
          | WOp (Shutdown _), EErr c -> Some ("serr:" ^ string_of_n c)
          | _ -> show_out e) in
        match List.filter_map (function WE e -> show e | WPending -> Some "wpend" | _ -> None) outs with
        | [] -> "." | l -> String.concat "," l) ops in
      let gs = String.concat " " groups in
      "ok " ^ gs ^ " | " ^ verdict !trace ^ " " ^ gs
  | "gchk" :: ops :: groups ->
      let ops = List.map parse_wop (String.split_on_char ',' ops) in
      if List.length ops <> List.length groups then "line-bad@shape | line-bad@shape" else begin
        let t = List.concat (List.map2 (fun o gr ->
          (match o with WOp g -> [in_event g] | _ -> []) @
          (if gr = "." then [] else
             List.filter_map (fun x -> if x = "wpend" then None else Some (parse_out x)) (String.split_on_char ',' gr))) ops groups) in
        let v = verdict t in v ^ " | " ^ v end
  | ["cgoaway"; ops] ->
      let ops = List.map parse_cop (String.split_on_char ',' ops) in
      let c = ref client0 and r = ref rcl0 in
      let gm = List.map (fun o -> let (outs, c') = cstep !c o in c := c'; cgroup outs) ops in
      let gs = List.map (fun o -> let (outs, r') = rfc_client_step !r o in r := r'; cgroup outs) ops in
      "ok " ^ String.concat " " gm ^ " | ok " ^ String.concat " " gs
  | _ -> "driver-error unknown-case"
(* like run_lines, but flushing after every line: the check keeps one oracle process open *)
let () =
  (try while true do
    let line = input_line stdin in
    let out = (try handle (words line) with e -> "driver-error " ^ Printexc.to_string e) in
    print_string out; print_char '\n'; flush stdout
  done with End_of_file -> ());
  flush stdout
