(* Shared by every driver; concatenated after `open <Cxx_model>` at build time.
   Conversions between OCaml values and the extracted binary naturals (type n / positive). *)
let rec pos_of_int (i : int) : positive =
  if i = 1 then XH else if i land 1 = 0 then XO (pos_of_int (i lsr 1)) else XI (pos_of_int (i lsr 1))
let n_of_int (i : int) : n = if i = 0 then N0 else Npos (pos_of_int i)
let rec int_of_pos = function XH -> 1 | XO p -> 2 * int_of_pos p | XI p -> 2 * int_of_pos p + 1
let int_of_n = function N0 -> 0 | Npos p -> int_of_pos p
let ten = n_of_int 10
let n_of_string (s : string) : n =
  let acc = ref N0 in
  String.iter (fun c ->
    if c < '0' || c > '9' then failwith ("bad number " ^ s);
    acc := N.add (N.mul !acc ten) (n_of_int (Char.code c - 48))) s;
  !acc
let string_of_n (x : n) : string =
  if x = N0 then "0" else begin
    let b = Buffer.create 24 in
    let rec go x acc = if x = N0 then acc else
      let (q, r) = N.div_eucl x ten in go q (Char.chr (48 + int_of_n r) :: acc) in
    List.iter (Buffer.add_char b) (go x []); Buffer.contents b end
let hexval c = match c with
  | '0'..'9' -> Char.code c - 48 | 'a'..'f' -> Char.code c - 87 | 'A'..'F' -> Char.code c - 55
  | _ -> failwith "bad hex"
let bytes_of_hex (s : string) : n list =
  if s = "-" then [] else begin
    let l = String.length s / 2 in
    List.init l (fun i -> n_of_int (16 * hexval s.[2*i] + hexval s.[2*i+1])) end
let hex_of_bytes (bs : n list) : string =
  if bs = [] then "-" else
  String.concat "" (List.map (fun b -> Printf.sprintf "%02x" (int_of_n b)) bs)
let split_on c s = List.filter (fun x -> x <> "") (String.split_on_char c s)
let words s = split_on ' ' s
let rec nat_of_int i = if i = 0 then O else S (nat_of_int (i - 1))
let rec int_of_nat = function O -> 0 | S k -> 1 + int_of_nat k
(* main loop: one result line per case line; comments and blank lines are skipped by the generator *)
let run_lines (f : string list -> string) =
  (try while true do
    let line = input_line stdin in
    let out = (try f (words line) with e -> "driver-error " ^ Printexc.to_string e) in
    print_string out; print_char '\n'
  done with End_of_file -> ());
  flush stdout
