(* C18 driver.  dg.enc SID chunk.chunk... steps   with steps = comma list of cK (take <=K of chunk) / aK (advance K)
   prints the transcript: for each step "r<remaining>:<bytes taken or skipped count>", then the rest drained by whole chunks *)
let chunks_of s = if s = "-" then [] else List.map bytes_of_hex (String.split_on_char '.' s)
let take n l = List.filteri (fun i _ -> i < n) l
let four = n_of_int 4
let transcript st steps =
  let b = Buffer.create 64 in
  let st = ref st in
  let fail = ref None in
  let rem () = match dg_remaining !st with Ok r -> string_of_n r | _ -> (fail := Some "panic"; "?") in
  List.iter (fun step ->
    if !fail = None then begin
      let k = int_of_string (String.sub step 1 (String.length step - 1)) in
      Buffer.add_string b ("r" ^ rem () ^ ":");
      if step.[0] = 'c' then begin
        match dg_chunk !st with
        | Ok c ->
          let n = min k (List.length c) in
          Buffer.add_string b (hex_of_bytes (take n c) ^ " ");
          (match dg_advance (n_of_int n) !st with Ok s -> st := s | _ -> fail := Some "panic")
        | _ -> fail := Some "panic"
      end else begin
        Buffer.add_string b ("skip" ^ string_of_int k ^ " ");
        (match dg_advance (n_of_int k) !st with Ok s -> st := s | _ -> fail := Some "panic")
      end
    end) steps;
  (* drain *)
  let guard = ref 100000 in
  while !fail = None && (match dg_remaining !st with Ok r -> r <> N0 | _ -> false) && !guard > 0 do
    decr guard;
    (match dg_chunk !st with
     | Ok c -> if c = [] then fail := Some "empty-chunk" else begin
         Buffer.add_string b (hex_of_bytes c ^ " ");
         (match dg_advance (n_of_int (List.length c)) !st with Ok s -> st := s | _ -> fail := Some "panic") end
     | _ -> fail := Some "panic")
  done;
  match !fail with Some f -> f | None -> "ok " ^ String.trim (Buffer.contents b)
(* the spec side: the same transcript computed on the flat RFC bytes with the chunk boundaries
   (header | payload chunks) the Buf contract allows to be arbitrary: we only compare concatenations,
   so the spec prints the flat bytes and the comparison is done after canonicalisation in python *)
let rec handle ws = match ws with
  | ["dg.decc"; chunks] ->
      let flat = String.concat "" (List.filter (fun c -> c <> "-") (String.split_on_char '.' chunks)) in
      handle ["dg.dec"; (if flat = "" then "-" else flat)]
  | ["dg.enc"; sid; pl; steps] ->
      let sid = n_of_string sid in
      let p = chunks_of pl in
      let steps = if steps = "-" then [] else String.split_on_char ',' steps in
      let m = (match dg_new sid p with
        | Panic _ -> "panic"
        | Err _ -> "err"
        | Ok (s, p) -> (match dg_encode s p with
            | Ok st -> transcript st steps
            | _ -> "panic")) in
      let s = if snd (N.div_eucl sid four) <> N0 then "panic" else "flat " ^ hex_of_bytes (rfc_dg_bytes sid (List.concat p)) in
      m ^ " | " ^ s
  | ["dg.dec"; h] ->
      let bs = bytes_of_hex h in
      let m = (match dg_decode bs with
        | Ok (s, p) -> "ok " ^ string_of_n s ^ " " ^ hex_of_bytes p
        | Err c -> "err " ^ string_of_n c
        | Panic _ -> "panic") in
      let s = (match rfc_dg_decode bs with
        | Some (s, p) -> "ok " ^ string_of_n s ^ " " ^ hex_of_bytes p
        | None -> "err " ^ string_of_n h3_DATAGRAM_ERROR_rfc) in
      m ^ " | " ^ s
  | _ -> "driver-error unknown-case"
let () = run_lines handle
