(* C18 driver.  dg.tx SID chunk.chunk = send_datagram on a real connection; dg.rx HEX = read_datagram on a real connection.
   dg.enc SID chunk.chunk... steps   with steps = comma list of cK (take <=K of chunk) / aK (advance K)
   prints the transcript: for each step "r<remaining>:<bytes taken or skipped count>", then the rest drained by whole chunks *)
let chunks_of s = if s = "-" then [] else List.map bytes_of_hex (String.split_on_char '.' s)
let take n l = List.filteri (fun i _ -> i < n) l
let four = n_of_int 4
(* provided `Buf` methods are the bytes-crate defaults, i.e. loops over chunk()/advance() *)
let take_n st n =
  (* returns (bytes taken, new state) copying through chunk/advance like Buf::copy_to_bytes / copy_to_slice *)
  let st = ref st and left = ref n and acc = ref [] and fail = ref false in
  while !left > 0 && not !fail do
    (match dg_chunk !st with
     | Ok c when c <> [] ->
         let k = min !left (List.length c) in
         acc := !acc @ take k c;
         (match dg_advance (n_of_int k) !st with Ok s -> st := s | _ -> fail := true);
         left := !left - k
     | _ -> fail := true)
  done;
  if !fail then None else Some (!acc, !st)
let transcript st steps drain =
  let b = Buffer.create 64 in
  let st = ref st in
  let fail = ref None in
  let remi () = match dg_remaining !st with Ok r -> int_of_n r | _ -> (fail := Some "panic"; 0) in
  let rem () = "r" ^ string_of_int (remi ()) in
  List.iter (fun step ->
    if !fail = None then begin
      Buffer.add_string b (rem () ^ ":");
      if step = "g" then begin
        if remi () = 0 then Buffer.add_string b "- " else
        (match take_n !st 1 with
         | Some (bs, s) -> Buffer.add_string b (hex_of_bytes bs ^ " "); st := s
         | None -> fail := Some "panic")
      end else begin
      let k = int_of_string (String.sub step 1 (String.length step - 1)) in
      if step.[0] = 'c' then begin
        match dg_chunk !st with
        | Ok c ->
          let n = min k (List.length c) in
          Buffer.add_string b (hex_of_bytes (take n c) ^ " ");
          (match dg_advance (n_of_int n) !st with Ok s -> st := s | _ -> fail := Some "panic")
        | _ -> fail := Some "panic"
      end else if step.[0] = 'b' then begin
        let n = min k (remi ()) in
        (match take_n !st n with
         | Some (bs, s) -> Buffer.add_string b (hex_of_bytes bs ^ " "); st := s
         | None -> fail := Some "panic")
      end else begin
        Buffer.add_string b ("skip" ^ string_of_int k ^ " ");
        (match dg_advance (n_of_int k) !st with Ok s -> st := s | _ -> fail := Some "panic")
      end end
    end) steps;
  (match drain with
   | "B" | "P" ->
     if !fail = None then begin
       Buffer.add_string b (rem () ^ ":");
       (match take_n !st (remi ()) with
        | Some (bs, s) -> Buffer.add_string b (hex_of_bytes bs ^ " "); st := s; Buffer.add_string b (rem ())
        | None -> fail := Some "panic")
     end
   | _ ->
     let guard = ref 100000 in
     while !fail = None && (match dg_remaining !st with Ok r -> r <> N0 | _ -> false) && !guard > 0 do
       decr guard;
       (match dg_chunk !st with
        | Ok c -> if c = [] then fail := Some "empty-chunk" else begin
            Buffer.add_string b (hex_of_bytes c ^ " ");
            (match dg_advance (n_of_int (List.length c)) !st with Ok s -> st := s | _ -> fail := Some "panic") end
        | _ -> fail := Some "panic")
     done);
  match !fail with Some f -> f | None -> "ok " ^ String.trim (Buffer.contents b)
(* the spec side: the same transcript computed on the flat RFC bytes with the chunk boundaries
   (header | payload chunks) the Buf contract allows to be arbitrary: we only compare concatenations,
   so the spec prints the flat bytes and the comparison is done after canonicalisation in python *)
let rec handle ws = match ws with
  | ["dg.decc"; chunks] ->
      (* non-contiguous input: the model column is Datagram::decode on the chunk list (Model/ChunkedDatagram.v; empty chunks
         dropped as h3v::ChunkBuf::new does) and prints the chunks of the payload buffer; the spec column is the RFC
         reference decoder on the concatenation *)
      let cs = List.filter (fun c -> c <> []) (chunks_of chunks) in
      let m = (match dg_decode_buf cs with
        | Ok (s, p) -> "ok " ^ string_of_n s ^ " " ^ (if p = [] then "-" else String.concat "." (List.map hex_of_bytes p))
        | Err c -> "err " ^ string_of_n c
        | Panic _ -> "panic") in
      let flat = String.concat "" (List.filter (fun c -> c <> "-") (String.split_on_char '.' chunks)) in
      let sp = handle ["dg.dec"; (if flat = "" then "-" else flat)] in
      let i = (try String.index sp '|' with Not_found -> 0) in
      m ^ " | " ^ String.trim (String.sub sp (i + 1) (String.length sp - i - 1))
  | ["dg.enc"; sid; pl; steps] -> handle ["dg.enc"; sid; pl; steps; "d"]
  | ["dg.enc"; sid; pl; steps; drain] ->
      let sid = n_of_string sid in
      let p = chunks_of pl in
      let steps = if steps = "-" then [] else String.split_on_char ',' steps in
      let m = (match dg_new sid p with
        | Panic _ -> "panic"
        | Err _ -> "err"
        | Ok (s, p) -> (match dg_encode s p with
            | Ok st -> transcript st steps drain
            | _ -> "panic")) in
      let s = if snd (N.div_eucl sid four) <> N0 then "panic" else "flat " ^ hex_of_bytes (rfc_dg_bytes sid (List.concat p)) in
      m ^ " | " ^ s
  | ["dg.dec"; h] ->
      let bs = bytes_of_hex h in
      let m = (match dg_decode bs with
        | Ok (s, p) -> "ok " ^ string_of_n s ^ " " ^ hex_of_bytes p
        | Err c -> "err " ^ string_of_n c
        | Panic _ -> "panic") in
      let s = (match rfc_dg_decode bs with
        | Some (s, p) -> "ok " ^ string_of_n s ^ " " ^ hex_of_bytes p
        | None -> "err " ^ string_of_n h3_DATAGRAM_ERROR_rfc) in
      m ^ " | " ^ s
  | ["dg.tx"; sid; pl] ->
      (* DatagramSender::send_datagram on a real connection: the bytes handed to the transport *)
      let sid = n_of_string sid in
      let p = chunks_of pl in
      let m = (match dg_tx sid p with
        | Ok bs -> "ok " ^ hex_of_bytes bs
        | Err _ -> "err"
        | Panic _ -> "panic") in
      let s = if snd (N.div_eucl sid four) <> N0 then "panic" else "ok " ^ hex_of_bytes (rfc_dg_bytes sid (List.concat p)) in
      m ^ " | " ^ s
  | ["dg.rxw"; h] -> handle ["dg.rx"; h]
  | ["dg.rx"; h] ->
      (* DatagramReader::read_datagram on a real connection: result, and the code the connection was closed with *)
      let bs = bytes_of_hex h in
      let m = (match dg_rx bs with
        | RxDatagram (s, p) -> "ok " ^ string_of_n s ^ " " ^ hex_of_bytes p ^ " close -"
        | RxConnError (c, k) -> "err " ^ string_of_n c ^ " close " ^ string_of_n k
        | RxPanic _ -> "panic") in
      let s = (match rfc_dg_decode bs with
        | Some (s, p) -> "ok " ^ string_of_n s ^ " " ^ hex_of_bytes p ^ " close -"
        | None -> "err " ^ string_of_n h3_DATAGRAM_ERROR_rfc ^ " close " ^ string_of_n h3_DATAGRAM_ERROR_rfc) in
      m ^ " | " ^ s
  | _ -> "driver-error unknown-case"
let () = run_lines handle
