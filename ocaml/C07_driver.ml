(* C07 driver.  Case line:
     sf <s|c> cfg=g<i|->,u<0|1> r=<req>/<req>/... sched=<act>,<act>,...
   cfg   = which request carries the connection's grease frame (- : grease off); u1: the transport reports a
           STOP_SENDING seen by finish as a transport-specific (Unknown) error, u0: as StreamTerminated
   req   = <events>;<stop code|->;<pad>;<hsize>;<body hex|->;<size of the trailer section we send|->
   event = h | hm<j> | ho | hq | hp<n> | dq<total> | d<total>:<hex|-> | m<hex> | F | R<code> | K  (dot separated)
           t | tm<j> | to | tq | tp<n>   the same kinds for a trailer section
   act   = o<i> | e<i> | s<i> | p<i> | pd | gS<v> | gG
   Output: model observation | specification (allowances per request, see lib/props/c07.py) *)
let nat_of_string s = nat_of_int (int_of_string s)
let sub_from s k = String.sub s k (String.length s - k)
let starts s p = String.length s >= String.length p && String.sub s 0 (String.length p) = p

(* decorations: <event>*<n> = the event's bytes arrive cut into n chunks in one action (same event for the model);
   <event>+ = this event and the next one arrive in ONE chunk (the model delivers both in that action) *)
let strip_deco (t : string) : string =
  let t = if String.length t > 0 && t.[String.length t - 1] = '+' then String.sub t 0 (String.length t - 1) else t in
  match String.index_opt t '*' with Some i -> String.sub t 0 i | None -> t
let joined (t : string) : bool = String.length t > 0 && t.[String.length t - 1] = '+'

let parse_event (t : string) : ev =
  let t = strip_deco t in
  if t = "h" then EHeaders HOk
  else if starts t "hk" then EHeaders HOk      (* sections h3's gate accepts although RFC 9114 calls them malformed *)
  else if starts t "tk" then EHeaders HOk
  else if t = "ho" then EHeaders HOversized
  else if t = "hq" then EHeaders HBadQpack
  else if starts t "hm" then EHeaders HMalformed
  else if starts t "hp" then EPartial
  else if t = "t" then EHeaders HOk
  else if t = "to" then EHeaders HOversized
  else if t = "tq" then EHeaders HBadQpack
  else if starts t "tm" then EHeaders HMalformed
  else if starts t "tp" then EPartial
  else if starts t "dq" then EPartial
  else if t = "F" then EFin
  else if t = "K" then EReset None                      (* the receive half fails with a transport-specific error *)
  else if starts t "R" then EReset (Some (n_of_string (sub_from t 1)))
  else if starts t "m" then EMore (bytes_of_hex (sub_from t 1))
  else if starts t "d" then begin
    match String.split_on_char ':' (sub_from t 1) with
    | [tot; h] -> EData (n_of_string tot, bytes_of_hex h)
    | _ -> failwith ("bad data event " ^ t) end
  else failwith ("bad event " ^ t)

type rq = { script : ev list; stop : n option; hsize : n; body : n list; trlz : n option; joins : bool array }

let parse_req (s : string) : rq =
  match String.split_on_char ';' s with
  | evs :: stop :: _pad :: z :: body :: tz :: ([] | [_]) ->
      { script = (if evs = "-" then [] else
                  (* a trailer-shaped section in FIRST position is a message header without its pseudo-header fields *)
                  List.mapi (fun i t -> match parse_event t with
                                        | EHeaders HOk when i = 0 && starts (strip_deco t) "t" -> EHeaders HMalformed
                                        | e -> e) (String.split_on_char '.' evs));
        stop = (if stop = "-" then None else Some (n_of_string stop));
        hsize = n_of_string z; body = bytes_of_hex body;
        trlz = (if tz = "-" then None else Some (n_of_string tz));
        joins = (if evs = "-" then [||] else Array.of_list (List.map joined (String.split_on_char '.' evs))) }
  | _ -> failwith ("bad request " ^ s)

let parse_action (reqs : rq array) (t : string) : action =
  if t = "pd" then DriverPoll
  else if t = "gG" then Goaway
  else if starts t "gS" then Settings (n_of_string (sub_from t 2))
  else begin
    let i = int_of_string (sub_from t 1) in
    match t.[0] with
    | 'o' -> Open (nat_of_int i)
    | 'e' -> Deliver (nat_of_int i)
    | 'p' -> Poll (nat_of_int i)
    | 's' -> (match reqs.(i).stop with Some c -> PeerStop (nat_of_int i, c) | None -> failwith "stop without code")
    | _ -> failwith ("bad action " ^ t)
  end

(* tokens -> actions; a delivery of an event marked `+` delivers its successor in the same action *)
let actions_of (reqs : rq array) (toks : string list) : action list =
  let next = Array.make (Array.length reqs) 0 in
  List.concat_map (fun t ->
    match parse_action reqs t with
    | Deliver i as a ->
        let k = int_of_nat i in
        let e = next.(k) in
        if e < Array.length reqs.(k).joins && reqs.(k).joins.(e) then (next.(k) <- e + 2; [a; a])
        else (next.(k) <- e + 1; [a])
    | a -> [a]) toks

let touches (j : int) (t : string) : bool =
  if t = "pd" || starts t "g" then true else int_of_string (sub_from t 1) = j

let api_name = function
  | AResolve -> "resolve" | ARecv -> "recv" | ASendResp -> "sendresp" | ASendData -> "senddata"
  | AFinish -> "finish" | ASendReq -> "sendreq" | ARecvResp -> "recvresp"
  | ARecvTrl -> "recvtrl" | ASendTrl -> "sendtrl"
let serr_str = function
  | SStream c -> "s:" ^ string_of_n c ^ ":StreamError"
  | SRemoteTerminate c -> "s:" ^ string_of_n c ^ ":RemoteTerminate"
  | SHeaderTooBig -> "s:-:HeaderTooBig"
  | SRemoteClosing -> "s:-:RemoteClosing"
  | SConn c -> "c:" ^ string_of_n c ^ ":Local"
  | SUndefined -> "s:-:Undefined"
let res_str = function
  | None -> "run"
  | Some ROk -> "ok"
  | Some (RErr (a, e)) -> "err:" ^ api_name a ^ ":" ^ serr_str e
  | Some (RPanic s) -> "panic:" ^ string_of_n s
  | Some RUnmodelled -> "unmodelled"
let dotted f l = if l = [] then "-" else String.concat "." (List.map f l)
let witem_str = function WHeaders t -> "h" ^ string_of_n t | WData b -> "d" ^ hex_of_bytes b | WTrailers -> "t" | WGrease -> "g"
let call_str = function CReset c -> "R" ^ string_of_n c | CStop c -> "S" ^ string_of_n c | CFin -> "F"
let req_str (r : req) : string =
 res_str r.res ^ ";d=" ^ hex_of_bytes r.acc ^ ";tr=" ^ (if r.gottrl then "1" else "0") ^ ";t=" ^ dotted witem_str r.tx ^ ";c=" ^ dotted call_str r.calls
let conn_str (s : shared) : string =
  "conn=" ^ (match s.drv with None -> "ok" | Some c -> string_of_n c) ^ ";close=" ^ dotted string_of_n s.closes

let class_str = function
  | KStreamError -> "StreamError" | KRemoteTerminate -> "RemoteTerminate"
  | KHeaderTooBig -> "HeaderTooBig" | KRemoteClosing -> "RemoteClosing" | KUndefined -> "Undefined"
let allow_str = function
  | AOk (b, tx, trl) -> "ok:" ^ hex_of_bytes b ^ ":" ^ dotted witem_str tx ^ ":" ^ (if trl then "1" else "0")
  | AErr (k, code, aborts, upto, tx) ->
      "err:" ^ class_str k ^ ":" ^ (match code with Some c -> string_of_n c | None -> "-") ^ ":"
      ^ dotted call_str aborts ^ ":" ^ hex_of_bytes upto ^ ":"
      ^ (match tx with Some t -> dotted witem_str t | None -> "*")

let rec nth_req l i = match l with [] -> failwith "req index" | x :: t -> if i = 0 then x else nth_req t (i - 1)

let handle ws = match ws with
  | [fam; role; cf; rs; sc] when (fam = "sf" || fam = "sfx") && starts cf "cfg=" && starts rs "r=" && starts sc "sched=" ->
      (* family sfx (other application patterns, write back-pressure): no model run, the specification only *)
      let ext = (fam = "sfx") in
      let holder, unk = (match String.split_on_char ',' (sub_from cf 4) with
        | g :: u :: _ -> ((if g = "g-" then None else Some (int_of_string (sub_from g 1))), u = "u1")
        | _ -> failwith "cfg") in
      let role = if role = "s" then Server else if role = "c" then Client else failwith "role" in
      let reqs = Array.of_list (List.map parse_req (String.split_on_char '/' (sub_from rs 2))) in
      let mkcfg i q = { c_role = role; c_hsize = q.hsize; c_body = q.body; c_trl = q.trlz;
                        c_grease = (holder = Some i); c_unk = unk } in
      let toks = let s = sub_from sc 6 in if s = "-" then [] else String.split_on_char ',' s in
      let w0 = { sh = sh0;
                 reqs = List.mapi (fun i q -> init_req (mkcfg i q) q.script)
                          (Array.to_list reqs) } in
      let toks_m = if ext then [] else toks in
      let acts = actions_of reqs toks_m in
      let w = run acts w0 in
      let n = Array.length reqs in
      let words = List.mapi (fun i r -> "r" ^ string_of_int i ^ "=" ^ req_str r) w.reqs in
      (* every request again, alone: only its own actions and the connection-level ones *)
      let diffs = ref [] in
      for j = n - 1 downto 0 do
        let acts_j = actions_of reqs (List.filter (touches j) toks_m) in
        let wj = run acts_j w0 in
        if req_str (nth_req wj.reqs j) <> req_str (nth_req w.reqs j) then diffs := string_of_int j :: !diffs
      done;
      let solo = if !diffs = [] then "solo=same" else "solo=diff" ^ String.concat "." !diffs in
      let m = if ext then "-" else "ok " ^ String.concat " " words ^ " " ^ conn_str w.sh ^ " " ^ solo in
      (* specification: the table, with the disturbances present in this schedule *)
      let limit = List.fold_left (fun acc t -> if acc = None && starts t "gS" then Some (n_of_string (sub_from t 2)) else acc) None toks in
      let goaway = List.mem "gG" toks in
      let inclass = ref true in
      let swords = List.mapi (fun i q ->
          let stop = if List.mem ("s" ^ string_of_int i) toks then q.stop else None in
          let c = mkcfg i q in
          match classify c { e_stop = stop; e_limit = limit; e_goaway = goaway } q.script with
          | Some l -> "r" ^ string_of_int i ^ "~" ^ String.concat "|" (List.map allow_str l)
          | None -> inclass := false; "r" ^ string_of_int i ^ "~*") (Array.to_list reqs) in
      let s = "ok " ^ String.concat " " swords ^ " " ^ (if !inclass then "conn=ok;close=- solo=same" else "conn=* solo=*") in
      m ^ " | " ^ s
  | _ -> "driver-error unknown-case"
let () = run_lines handle
