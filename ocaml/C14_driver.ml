(* C14 driver.
   wb <ctor> <steps>      -> model transcript | spec flat bytes (or `panic` / `grease`)
   wbx <ctor> <steps>     -> model transcript only (scripts that break the Buf contract of the caller)
   wr <s|c> <cfg> <budget> <prog> -> model per-stream bytes | the reference parser's verdict on them
   judge <s|c> s<id>=<hex>[/F] ... -> `ok` or `bad s<id>:<reason> ...` (the reference RFC 9114 parser on given logs)
   Lines are answered one by one and flushed, so the python side can use this process as an oracle. *)
let chunks_of s = if s = "-" then [] else List.map bytes_of_hex (String.split_on_char '.' s)
let take n l = List.filteri (fun i _ -> i < n) l
let split2 s c = match String.index_opt s c with
  | Some i -> (String.sub s 0 i, String.sub s (i + 1) (String.length s - i - 1))
  | None -> (s, "")
let entries_of s =
  if s = "-" || s = "" then [] else
  List.map (fun e -> let (a, b) = split2 e '=' in (n_of_string a, n_of_string b)) (String.split_on_char ';' s)

let frame_of s =
  let (k, a) = split2 s ':' in
  match k with
  | "fd" -> FData (List.filter (fun c -> c <> []) (chunks_of a))
  | "fh" -> FHeaders (bytes_of_hex a)
  | "fc" -> FCancelPush (n_of_string a)
  | "fg" -> FGoaway (n_of_string a)
  | "fm" -> FMaxPushId (n_of_string a)
  | "fs" -> FSettings (entries_of a)
  | "fw" -> FWebTransportStream (n_of_string a)
  | "fr" -> FGrease N0
  | _ -> failwith ("frame ctor " ^ s)

let build s =
  let (k, a) = split2 s ':' in
  match k with
  | "st" -> wb_from_stream_type (n_of_string a)
  | "uc" -> wb_from_uni (UControl (entries_of a))
  | "uw" -> wb_from_uni (UWebTransportUni (n_of_string a))
  | "ue" -> wb_from_uni UEncoder
  | "ud" -> wb_from_uni UDecoder
  | "bw" -> wb_from_bidi (n_of_string a)
  | "p" -> let (ty, f) = split2 a ':' in wb_from_pair (n_of_string ty) (frame_of f)
  | _ -> wb_from_frame (frame_of s)

(* the RFC bytes the constructor stands for: (header part, streamed payload); None = contains a random grease id *)
let settings_bytes es = List.concat (List.map (fun (i, v) -> rfc_varint i @ rfc_varint v) es)
let blen l = n_of_int (List.length l)
let spec_frame s : (n list * n list) option =
  let (k, a) = split2 s ':' in
  match k with
  | "fd" -> let p = List.concat (chunks_of a) in Some (rfc_varint N0 @ rfc_varint (blen p), p)
  | "fh" -> let p = bytes_of_hex a in Some (rfc_varint (n_of_int 1) @ rfc_varint (blen p), p)
  | "fc" -> Some (rfc_frame (n_of_int 3) (rfc_varint (n_of_string a)), [])
  | "fg" -> Some (rfc_frame (n_of_int 7) (rfc_varint (n_of_string a)), [])
  | "fm" -> Some (rfc_frame (n_of_int 13) (rfc_varint (n_of_string a)), [])
  | "fs" -> Some (rfc_frame (n_of_int 4) (settings_bytes (entries_of a)), [])
  | "fw" -> Some (rfc_varint (n_of_int 65) @ rfc_varint (n_of_string a), [])
  | "fr" -> None
  | _ -> failwith ("frame ctor " ^ s)
let spec_build s : (n list * n list) option =
  let (k, a) = split2 s ':' in
  match k with
  | "st" -> Some (rfc_varint (n_of_string a), [])
  | "uc" -> Some (rfc_varint N0 @ rfc_frame (n_of_int 4) (settings_bytes (entries_of a)), [])
  | "uw" -> Some (rfc_varint (n_of_int 84) @ rfc_varint (n_of_string a), [])
  | "ue" -> Some (rfc_varint (n_of_int 2), [])
  | "ud" -> Some (rfc_varint (n_of_int 3), [])
  | "bw" -> Some (rfc_varint (n_of_int 65) @ rfc_varint (n_of_string a), [])
  | "p" -> let (ty, f) = split2 a ':' in
      (match spec_frame f with Some (h, p) -> Some (rfc_varint (n_of_string ty) @ h, p) | None -> None)
  | _ -> spec_frame s

let transcript w steps =
  let b = Buffer.create 64 in
  let w = ref w in
  let fail = ref None in
  let rem () = match wb_remaining !w with Ok r -> string_of_n r | _ -> (fail := Some "panic"; "?") in
  List.iter (fun step ->
    if !fail = None then begin
      let k = int_of_string (String.sub step 1 (String.length step - 1)) in
      Buffer.add_string b ("r" ^ rem () ^ ":");
      if step.[0] = 'c' then begin
        match wb_chunk !w with
        | Ok c ->
          let n = min k (List.length c) in
          Buffer.add_string b (hex_of_bytes (take n c) ^ " ");
          (match wb_advance (n_of_int n) !w with Ok s -> w := s | _ -> fail := Some "panic")
        | _ -> fail := Some "panic"
      end else begin
        Buffer.add_string b ("skip" ^ string_of_int k ^ " ");
        (match wb_advance (n_of_int k) !w with Ok s -> w := s | _ -> fail := Some "panic")
      end
    end) steps;
  let guard = ref 100000 in
  while !fail = None && (match wb_remaining !w with Ok r -> r <> N0 | _ -> false) && !guard > 0 do
    decr guard;
    Buffer.add_string b ("r" ^ rem () ^ ":");
    (match wb_chunk !w with
     | Ok c -> if c = [] then fail := Some "empty-chunk" else begin
         Buffer.add_string b (hex_of_bytes c ^ " ");
         (match wb_advance (n_of_int (List.length c)) !w with Ok s -> w := s | _ -> fail := Some "panic") end
     | _ -> fail := Some "panic")
  done;
  match !fail with Some f -> f | None -> "ok " ^ String.trim (Buffer.contents b)

let run_wb ctor steps =
  let steps = if steps = "-" then [] else String.split_on_char ',' steps in
  match build ctor with
  | Ok w -> transcript w steps
  | _ -> "panic"

let spec_wb ctor =
  match spec_build ctor with
  | None -> "grease"
  | Some (h, p) -> if List.length h > 64 then "panic" else "flat " ^ hex_of_bytes (h @ p)

(* ---- API programs ---- *)
let parse_cfg s =
  let g = ref true and m = ref (n_of_string "4611686018427387903") and x = ref false and d = ref false
  and w = ref false and nn = ref N0 in
  List.iter (fun p ->
    let v = String.sub p 1 (String.length p - 1) in
    match p.[0] with
    | 'g' -> g := v <> "0" | 'm' -> m := n_of_string v | 'x' -> x := v <> "0" | 'd' -> d := v <> "0"
    | 'w' -> w := v <> "0" | 'n' -> nn := n_of_string v | _ -> failwith "cfg") (String.split_on_char '.' s);
  { cf_grease = !g; cf_mfs = !m; cf_ext = !x; cf_wt = !w; cf_dgram = !d; cf_wtn = !nn }

(* QPACK size (RFC 9204 4.1 / RFC 9114 4.2.2) of the request the harness's scripted client sends:
   :method GET, :scheme https, :authority a, :path /  =  42 + 44 + 43 + 38 *)
let scripted_request_size = 167

let show_streams c =
  let ss = List.sort (fun a b -> compare (int_of_n a.s_id) (int_of_n b.s_id)) c.c_streams in
  String.concat " " (List.map (fun s ->
    "s" ^ string_of_n s.s_id ^ "=" ^ hex_of_bytes (stream_wire s) ^ (if s.s_fin then "/F" else "")) ss)

let judge_stream server id bytes =
  let uni = (id land 2) <> 0 in
  let v = if uni then rfc_judge_uni server bytes else rfc_judge_request bytes in
  match v with
  | VBad r -> Some (Printf.sprintf "s%d:%d" id (int_of_n r))
  | _ -> None

let judge_line server toks =
  let bad = List.filter_map (fun t ->
    let (k, v) = split2 t '=' in
    let id = int_of_string (String.sub k 1 (String.length k - 1)) in
    let (h, flags) = split2 v '/' in
    (* /P: h3 stopped polling this write (the grease stream): the log may stop anywhere *)
    let partial = String.contains flags 'P' in
    match judge_stream server id (bytes_of_hex h) with
    | Some r when partial && (r = Printf.sprintf "s%d:1" id || r = Printf.sprintf "s%d:3" id) -> None
    | x -> x) toks in
  if bad = [] then "ok" else "bad " ^ String.concat " " bad

let run_wr role cfgs prog =
  let server = role = "s" in
  let cfg = parse_cfg cfgs in
  match setup server cfg N0 with
  | Ok None -> "build-err"
  | Err _ | Panic _ -> "panic"
  | Ok (Some c0) ->
    let c = ref c0 in
    let failed = ref false in
    let cur = ref None in
    let next_peer = ref 0 in
    let do_step o = if not !failed then (match step !c o with Ok c' -> c := c' | _ -> failed := true) in
    let ops = if prog = "-" then [] else String.split_on_char ',' prog in
    List.iter (fun o ->
      let (k, a) = split2 o ':' in
      let nh () = List.length !c.c_handles in
      match k with
      | "peer" -> do_step (OPeerFrame (N0, N0, None))
      | "poll" -> ()
      | "acc" when server ->
          let sid = !next_peer in next_peer := sid + 4;
          let before = nh () in
          let too = if N.ltb cfg.cf_mfs (n_of_int scripted_request_size) then Some [] else None in
          do_step (OAccept (n_of_int sid, too));
          if nh () > before then cur := Some (nh () - 1)
      | "req" when not server ->
          let before = nh () in
          do_step (ORequest (Some []));
          if nh () > before then cur := Some (nh () - 1)
      | "resp" when server -> (match !cur with Some h -> do_step (OHeaders (n_of_int h, Some [])) | None -> ())
      | "trailers" -> (match !cur with Some h -> do_step (OHeaders (n_of_int h, Some [])) | None -> ())
      | "data" -> (match !cur with Some h -> do_step (OData (n_of_int h, List.filter (fun c -> c <> []) (chunks_of a))) | None -> ())
      | "finish" -> (match !cur with Some h -> do_step (OFinish (n_of_int h, N0)) | None -> ())
      | "stop" -> (match !cur with Some h -> do_step (OStop (n_of_int h)) | None -> ())
      | "drop" -> (match !cur with Some h -> do_step (ODrop (n_of_int h)) | None -> ())
      | "sel" -> let i = int_of_string a in if i < nh () then cur := Some i
      | "shutdown" -> do_step (OShutdown (n_of_string a))
      | _ -> ()) ops;
    if !failed then "panic" else "ok " ^ show_streams !c

let handle ws = match ws with
  | ["wb"; ctor; steps] -> run_wb ctor steps ^ " | " ^ spec_wb ctor
  | ["wbx"; ctor; steps] -> run_wb ctor steps
  | ["wr"; role; cfg; _budget; prog] ->
      let m = run_wr role cfg prog in
      let toks = match words m with "ok" :: r -> r | _ -> [] in
      m ^ " | " ^ (if toks = [] && m <> "ok" then "none" else judge_line (role = "s") toks)
  | "judge" :: role :: toks -> judge_line (role = "s") toks
  | _ -> "driver-error unknown-case"

let () =
  (try while true do
    let line = input_line stdin in
    let out = (try handle (words line) with e -> "driver-error " ^ Printexc.to_string e) in
    print_string out; print_char '\n'; flush stdout
  done with End_of_file -> ());
  flush stdout
