(* C14 driver.
   wb <ctor> <steps>      -> model transcript | spec flat bytes (or `panic` / `grease`)
   wbx <ctor> <steps>     -> model transcript only (scripts that break the Buf contract of the caller)
   wr <s|c> <cfg> <budget> <prog> -> model per-stream bytes | the reference parser's verdict on them
   judge <s|c> s<id>=<hex>[/F] ... -> `ok` or `bad s<id>:<reason> ...` (the reference RFC 9114 parser on given logs)
   ctor fp:<id>:<hex> = Frame::PushPromise (never built by h3 for sending; reachable through the public Frame::decode):
   only used with wbx, the model's transcript carries the field section twice (C14_push_promise_observation)
   si <id=val;..>         -> `ok <o|e per insert> <transcript of the SETTINGS frame built from what was accepted>`:
                             Settings::insert, the gate every SETTINGS entry h3 sends goes through (model: settings_insert)
   Lines are answered one by one and flushed, so the python side can use this process as an oracle. *)
let chunks_of s = if s = "-" then [] else List.map bytes_of_hex (String.split_on_char '.' s)
let take n l = List.filteri (fun i _ -> i < n) l
let split2 s c = match String.index_opt s c with
  | Some i -> (String.sub s 0 i, String.sub s (i + 1) (String.length s - i - 1))
  | None -> (s, "")
let entries_of s =
  if s = "-" || s = "" then [] else
  List.map (fun e -> let (a, b) = split2 e '=' in (n_of_string a, n_of_string b)) (String.split_on_char ';' s)

let frame_of s =
  let (k, a) = split2 s ':' in
  match k with
  | "fd" -> FData (List.filter (fun c -> c <> []) (chunks_of a))
  | "fh" -> FHeaders (bytes_of_hex a)
  | "fc" -> FCancelPush (n_of_string a)
  | "fg" -> FGoaway (n_of_string a)
  | "fm" -> FMaxPushId (n_of_string a)
  | "fs" -> FSettings (entries_of a)
  | "fw" -> FWebTransportStream (n_of_string a)
  | "fr" -> FGrease N0
  | "fp" -> let (id, e) = split2 a ':' in FPushPromise (n_of_string id, bytes_of_hex e)
  | _ -> failwith ("frame ctor " ^ s)

let build s =
  let (k, a) = split2 s ':' in
  match k with
  | "st" -> wb_from_stream_type (n_of_string a)
  | "uc" -> wb_from_uni (UControl (entries_of a))
  | "uw" -> wb_from_uni (UWebTransportUni (n_of_string a))
  | "ue" -> wb_from_uni UEncoder
  | "ud" -> wb_from_uni UDecoder
  | "bw" -> wb_from_bidi (n_of_string a)
  | "p" -> let (ty, f) = split2 a ':' in wb_from_pair (n_of_string ty) (frame_of f)
  | _ -> wb_from_frame (frame_of s)

(* the RFC bytes the constructor stands for: (header part, streamed payload); None = contains a random grease id *)
let settings_bytes es = List.concat (List.map (fun (i, v) -> rfc_varint i @ rfc_varint v) es)
let blen l = n_of_int (List.length l)
let spec_frame s : (n list * n list) option =
  let (k, a) = split2 s ':' in
  match k with
  | "fd" -> let p = List.concat (chunks_of a) in Some (rfc_varint N0 @ rfc_varint (blen p), p)
  | "fh" -> let p = bytes_of_hex a in Some (rfc_varint (n_of_int 1) @ rfc_varint (blen p), p)
  | "fc" -> Some (rfc_frame (n_of_int 3) (rfc_varint (n_of_string a)), [])
  | "fg" -> Some (rfc_frame (n_of_int 7) (rfc_varint (n_of_string a)), [])
  | "fm" -> Some (rfc_frame (n_of_int 13) (rfc_varint (n_of_string a)), [])
  | "fs" -> Some (rfc_frame (n_of_int 4) (settings_bytes (entries_of a)), [])
  | "fw" -> Some (rfc_varint (n_of_int 65) @ rfc_varint (n_of_string a), [])
  | "fr" -> None
  | "fp" -> let (id, e) = split2 a ':' in
      Some (rfc_frame (n_of_int 5) (rfc_varint (n_of_string id) @ bytes_of_hex e), [])
  | _ -> failwith ("frame ctor " ^ s)
let spec_build s : (n list * n list) option =
  let (k, a) = split2 s ':' in
  match k with
  | "st" -> Some (rfc_varint (n_of_string a), [])
  | "uc" -> Some (rfc_varint N0 @ rfc_frame (n_of_int 4) (settings_bytes (entries_of a)), [])
  | "uw" -> Some (rfc_varint (n_of_int 84) @ rfc_varint (n_of_string a), [])
  | "ue" -> Some (rfc_varint (n_of_int 2), [])
  | "ud" -> Some (rfc_varint (n_of_int 3), [])
  | "bw" -> Some (rfc_varint (n_of_int 65) @ rfc_varint (n_of_string a), [])
  | "p" -> let (ty, f) = split2 a ':' in
      (match spec_frame f with Some (h, p) -> Some (rfc_varint (n_of_string ty) @ h, p) | None -> None)
  | _ -> spec_frame s

let transcript w steps =
  let b = Buffer.create 64 in
  let w = ref w in
  let fail = ref None in
  let rem () = match wb_remaining !w with Ok r -> string_of_n r | _ -> (fail := Some "panic"; "?") in
  List.iter (fun step ->
    if !fail = None then begin
      let k = int_of_string (String.sub step 1 (String.length step - 1)) in
      Buffer.add_string b ("r" ^ rem () ^ ":");
      if step.[0] = 'b' then begin
        (* copy_to_bytes(k) *)
        match wb_copy_to_bytes (n_of_int k) !w with
        | Ok (o, s) -> Buffer.add_string b (hex_of_bytes o ^ " "); w := s
        | _ -> fail := Some "panic"
      end else if step.[0] = 'v' then begin
        (* a reader going through chunks_vectored(): at most k bytes of the slices it is shown *)
        match wb_chunks_vectored !w with
        | Ok sl ->
          let all = List.concat sl in
          let n = min k (List.length all) in
          Buffer.add_string b (hex_of_bytes (take n all) ^ " ");
          (match wb_advance (n_of_int n) !w with Ok s -> w := s | _ -> fail := Some "panic")
        | _ -> fail := Some "panic"
      end else if step.[0] = 'c' then begin
        match wb_chunk !w with
        | Ok c ->
          let n = min k (List.length c) in
          Buffer.add_string b (hex_of_bytes (take n c) ^ " ");
          (match wb_advance (n_of_int n) !w with Ok s -> w := s | _ -> fail := Some "panic")
        | _ -> fail := Some "panic"
      end else begin
        Buffer.add_string b ("skip" ^ string_of_int k ^ " ");
        (match wb_advance (n_of_int k) !w with Ok s -> w := s | _ -> fail := Some "panic")
      end
    end) steps;
  let guard = ref 100000 in
  while !fail = None && (match wb_remaining !w with Ok r -> r <> N0 | _ -> false) && !guard > 0 do
    decr guard;
    Buffer.add_string b ("r" ^ rem () ^ ":");
    (match wb_chunk !w with
     | Ok c -> if c = [] then fail := Some "empty-chunk" else begin
         Buffer.add_string b (hex_of_bytes c ^ " ");
         (match wb_advance (n_of_int (List.length c)) !w with Ok s -> w := s | _ -> fail := Some "panic") end
     | _ -> fail := Some "panic")
  done;
  match !fail with Some f -> f | None -> "ok " ^ String.trim (Buffer.contents b)

let run_wb ctor steps =
  let steps = if steps = "-" then [] else String.split_on_char ',' steps in
  match build ctor with
  | Ok w -> transcript w steps
  | _ -> "panic"

(* Settings::insert one entry after the other; then the frame made of the accepted ones *)
let run_si ents =
  let (res, fin) = List.fold_left (fun (r, acc) (i, v) ->
    match settings_insert acc i v with
    | Some a -> (r ^ "o", a)
    | None -> (r ^ "e", acc)) ("", []) (entries_of ents) in
  "ok " ^ (if res = "" then "-" else res) ^ " " ^
  (match wb_from_frame (FSettings fin) with Ok w -> transcript w [] | _ -> "panic")

let spec_wb ctor =
  match spec_build ctor with
  | None -> "grease"
  | Some (h, p) -> if List.length h > 64 then "panic" else "flat " ^ hex_of_bytes (h @ p)

(* ---- API programs ---- *)
let parse_cfg s =
  let g = ref true and m = ref (n_of_string "4611686018427387903") and x = ref false and d = ref false
  and w = ref false and nn = ref N0 in
  List.iter (fun p ->
    if p = "-" || p = "new" then () else
    let v = String.sub p 1 (String.length p - 1) in
    match p.[0] with
    | 'g' -> g := v <> "0" | 'm' -> m := n_of_string v | 'x' -> x := v <> "0" | 'd' -> d := v <> "0"
    | 'w' -> w := v <> "0" | 'n' -> nn := n_of_string v | _ -> failwith "cfg") (String.split_on_char '.' s);
  { cf_grease = !g; cf_mfs = !m; cf_ext = !x; cf_wt = !w; cf_dgram = !d; cf_wtn = !nn }

(* the requests the harness's scripted client can send (harness/src/bin/c14.rs request_bytes), as the receive side
   sorts them: `Req size` = a valid request whose field section has that RFC 9114 4.2.2 size (name + value + 32 per
   line), `Malformed size` = decodes but is not a request (stream error), `ConnErr` = a connection error, `Nothing` =
   the stream ends (FIN / RESET / never) before a HEADERS frame *)
type reqkind = Req of int | Malformed of int | ConnErr | Nothing
let request_kind = function
  | "get" | "unk" | "" -> Req 167      (* :method GET 42, :scheme https 44, :authority a 43, :path / 38 *)
  | "post" -> Req 168
  | "connect" -> Req 89                (* :method CONNECT 46, :authority a 43 *)
  | "big" -> Req 400                   (* the GET plus x: <200 bytes> = 233 *)
  | "nometh" -> Malformed 38
  | "badqpack" | "data1st" -> ConnErr
  | "none" -> Nothing
  | k -> failwith ("request kind " ^ k)

(* a control frame of the peer, as poll_control and the role handlers sort it *)
let supported_settings = List.map n_of_int [1; 6; 7; 8; 0x33; 0x2b603742; 0x2b603743]
let classify_control (ty, payload) =
  let single () = match rfc_read_varint payload with Some (v, []) -> Some v | _ -> None in
  match int_of_n ty with
  | 4 ->
      (match rfc_settings_pairs payload with
       | None -> PIllegal
       | Some l ->
           let ids = List.map fst l in
           let sup = List.filter (fun i -> List.mem i supported_settings) ids in
           if List.exists rfc_h2_setting ids || List.length (List.sort_uniq compare sup) <> List.length sup then PIllegal
           else PSettings)
  | 7 -> (match single () with Some v -> PGoaway v | None -> PIllegal)
  | 3 | 13 -> (match single () with Some _ -> PPush | None -> PIllegal)
  | 0 | 1 | 5 | 2 | 6 | 8 | 9 | 65 -> PIllegal
  | _ -> PSkipped
let rec control_frames bs =
  match bs with
  | [] -> []
  | _ -> (match rfc_read_frame bs with
          | Some (f, rest) -> classify_control f :: control_frames rest
          | None -> [])       (* an incomplete frame stays buffered *)

let show_streams c =
  let ss = List.sort (fun a b -> compare (int_of_n a.s_id) (int_of_n b.s_id)) c.c_streams in
  String.concat " " (List.map (fun s ->
    "s" ^ string_of_n s.s_id ^ "=" ^ hex_of_bytes (stream_wire s) ^ (if s.s_fin then "/F" else "")) ss)

let judge_stream server id bytes =
  let uni = (id land 2) <> 0 in
  let v = if uni then rfc_judge_uni server bytes else rfc_judge_request bytes in
  if verdict_ok v then None else
  match v with
  | VBad r -> Some (Printf.sprintf "s%d:%d" id (int_of_n r))
  | _ -> Some (Printf.sprintf "s%d:?" id)

let judge_line server toks =
  let bad = List.filter_map (fun t ->
    let (k, v) = split2 t '=' in
    let id = int_of_string (String.sub k 1 (String.length k - 1)) in
    let (h, flags) = split2 v '/' in
    (* /P: h3 stopped polling this write (the grease stream): the log may stop anywhere *)
    let partial = String.contains flags 'P' in
    match judge_stream server id (bytes_of_hex h) with
    | Some r when partial && (r = Printf.sprintf "s%d:1" id || r = Printf.sprintf "s%d:3" id) -> None
    | x -> x) toks in
  if bad = [] then "ok" else "bad " ^ String.concat " " bad

(* sizes (RFC 9114 4.2.2) of what the harness makes h3 send: `:status NNN`, the trailer `x-t: 1`, the requests *)
let response_size = 42
let trailers_size = 36
let request_size m = 7 + String.length m + 32 + 44 + 43 + 38

let big_grease = n_of_string "148764065110560898"   (* a draw whose identifier takes 8 bytes, like (almost) every real one *)

(* the programs in which the driver can follow the write budget exactly: nothing but peer control frames and polls, and
   no GOAWAY (which would make the server write).  There the partially accepted grease write is predicted (Some k) *)
let exact_budget budget ops =
  budget <> "-" &&
  List.for_all (fun o ->
    let (k, a) = split2 o ':' in
    let whole bytes = (match rfc_frames bytes with
                       | Some fs -> List.for_all (fun (t, _) -> int_of_n t <> 7) fs
                       | None -> false) in
    match k with
    | "poll" -> true
    | "peer" -> (match rfc_read_varint (bytes_of_hex (if a = "" then "000400" else a)) with
                 | Some (t, rest) when t = N0 -> whole rest
                 | _ -> false)
    | "pframe" -> whole (bytes_of_hex a)
    | _ -> false) ops

(* the peer's MAX_FIELD_SECTION_SIZE in a SETTINGS payload *)
let settings_mfs payload =
  match rfc_settings_pairs payload with
  | Some l -> (try Some (List.assoc (n_of_int 6) l) with Not_found -> None)
  | None -> None

let run_wr role cfgs budget prog =
  let server = role = "s" in
  let cfg = parse_cfg cfgs in
  let ops = if prog = "-" then [] else String.split_on_char ',' prog in
  let exact = exact_budget budget ops in
  let g0 = if exact then big_grease else N0 in
  match setup server cfg g0 with
  | Ok None -> (match run server cfg g0 [] with Ok None -> "build-err" | _ -> "driver-error run-differs-from-setup")
  | Err _ | Panic _ -> "panic"
  | Ok (Some c0) ->
    let c = ref c0 in
    let failed = ref false in
    let lost = ref false in          (* xu: the transport is gone, every later call fails without writing *)
    let cur = ref None in
    let next_peer = ref 0 in
    let peer_open = ref false in
    let seen_enc = ref false and seen_dec = ref false in
    let peer_mfs = ref (n_of_string "4611686018427387903") in
    let trace = ref [] in            (* the ops handed to `step`, replayed at the end through `run` (the function of T3) *)
    let do_step o = if not !failed then (trace := o :: !trace; match step !c o with Ok c' -> c := c' | _ -> failed := true) in
    let fits sz = not (N.ltb !peer_mfs (n_of_int sz)) in
    (* ---- the write budget as harness/src/bin/c14.rs hands it out (exact mode only) ---- *)
    let (b0, grants) =
      if budget = "-" then (0, [|1|]) else
      let (b, g) = split2 budget ':' in
      (int_of_string b, Array.of_list (List.map int_of_string (String.split_on_char '.' (if g = "" then "1" else g)))) in
    let gi = ref 0 in
    let next_grant () = let k = max 1 grants.(!gi mod Array.length grants) in incr gi; k in
    if exact then begin
      (* setup: control header, encoder and decoder type are written concurrently, one grant per round to all three *)
      let ctl = List.find (fun s -> s.s_id = !c.c_control) !c.c_streams in
      let need = ref (List.length (stream_wire ctl) - b0) in
      while !need > 0 do need := !need - next_grant () done
    end;
    let g_total = 23 in
    let g_written = ref 0 and g_avail = ref b0 and g_wait = ref false in
    let peer_control (ty, payload) =
      let f = classify_control (ty, payload) in
      let returned = (not !c.c_conn_error) && (match f with
        | PSettings -> not !c.c_got_settings
        | PGoaway _ | PPush -> !c.c_got_settings
        | _ -> false) in
      if returned && f = PSettings then (match settings_mfs payload with Some v -> peer_mfs := v | None -> ());
      if not exact then do_step (OPeerControl (f, N0, N0, None))
      else begin
        let runs = returned && !c.c_grease_stream in
        let t = min !g_avail (g_total - !g_written) in
        let w' = !g_written + t in
        do_step (OPeerControl (f, big_grease, big_grease, (if w' = g_total then None else Some (n_of_int w'))));
        if runs then begin
          g_written := w'; g_avail := !g_avail - t;
          if w' < g_total then g_wait := true
        end
      end in
    let rec control_stream bs =
      match bs with
      | [] -> ()
      | _ -> (match rfc_read_frame bs with
              | Some (f, rest) -> peer_control f; control_stream rest
              | None -> ()) in
    let end_of_poll () =
      (* client: poll_close() drove the connection - the model's OPoll writes nothing there *)
      if not server then do_step OPoll else begin
        do_step OPoll;
        (* accept() stayed pending (no connection error): the harness serves the blocked grease write with one grant *)
        if exact && !g_wait && not !c.c_conn_error then begin g_avail := !g_avail + next_grant (); g_wait := false end
      end in
    List.iter (fun o ->
      let (k, a) = split2 o ':' in
      let nh () = List.length !c.c_handles in
      if !lost then begin
        (* only the peer's streams still show up *)
        (match k with
         | "acc" when server -> let sid = !next_peer in next_peer := sid + 4; do_step (OAccept (n_of_int sid, AFailed false))
         | _ -> ())
      end else
      match k with
      | "peer" ->
          let bytes = bytes_of_hex (if a = "" then "000400" else a) in
          (match rfc_read_varint bytes with
           | Some (t, rest) when t = N0 ->
               if !peer_open then peer_control (n_of_int 0, [])     (* a second control stream: classified illegal (DATA) *)
               else begin peer_open := true; control_stream rest end
           | _ -> ());
          end_of_poll ()
      | "pframe" -> if !peer_open then control_stream (bytes_of_hex a); end_of_poll ()
      | "puni" ->
          (* one more unidirectional stream of the peer: a duplicate of a critical stream is a connection error, anything
             else is ignored / stopped; nothing is ever written in answer *)
          let illegal () = do_step (OPeerControl (PIllegal, N0, N0, None)) in
          (match rfc_read_varint (bytes_of_hex (if a = "" then "000400" else a)) with
           | Some (t, _) ->
               (match int_of_n t with
                | 0 -> illegal ()     (* generated only after `peer`: a second control stream *)
                | 2 -> if !seen_enc then illegal () else seen_enc := true
                | 3 -> if !seen_dec then illegal () else seen_dec := true
                | _ -> ())
           | None -> ());
          end_of_poll ()
      | "poll" -> end_of_poll ()
      | "xu" -> do_step (OPeerControl (PIllegal, N0, N0, None)); lost := true
      | "cstop" -> do_step OStopControl
      | "acc" when server ->
          let sid = !next_peer in next_peer := sid + 4;
          let before = nh () in
          let (kind, fin) = split2 a ':' in
          let stopped = fin <> "" && fin.[0] = 'S' in
          let small sz = N.ltb cfg.cf_mfs (n_of_int sz) in
          (* the 431 answer is itself a response: it is not sent when the peer would not take it, or asked us to stop *)
          let too = if stopped || not (fits response_size) then AFailed false else ATooLarge [] in
          let out = (match request_kind kind with
            | Req sz -> if small sz then too else AHandle stopped
            | Malformed sz -> if small sz then too else AFailed false
            | ConnErr -> AFailed true
            | Nothing -> AFailed false) in
          do_step (OAccept (n_of_int sid, out));
          if nh () > before then cur := Some (nh () - 1)
      | "recv" | "rehdr" | "zfin" -> ()
      | "sstop" -> (match !cur with Some h -> do_step (OStopSending (n_of_int h)) | None -> ())
      | "req" when not server ->
          let before = nh () in
          do_step (ORequest (if fits (request_size a) then Some [] else None));
          if nh () > before then cur := Some (nh () - 1)
      | "resp" when server ->
          (match !cur with Some h -> do_step (OHeaders (n_of_int h, (if fits response_size then Some [] else None))) | None -> ())
      | "trailers" ->
          (match !cur with Some h -> do_step (OHeaders (n_of_int h, (if fits trailers_size then Some [] else None))) | None -> ())
      | "data" -> (match !cur with Some h -> do_step (OData (n_of_int h, List.filter (fun c -> c <> []) (chunks_of a))) | None -> ())
      | "finish" -> (match !cur with Some h -> do_step (OFinish (n_of_int h, N0)) | None -> ())
      | "stop" -> (match !cur with Some h -> do_step (OStop (n_of_int h)) | None -> ())
      | "drop" -> (match !cur with Some h -> do_step (ODrop (n_of_int h)) | None -> ())
      | "sel" -> let i = int_of_string a in if i < nh () then cur := Some i
      | "shutdown" -> do_step (OShutdown (n_of_string a))
      | _ -> ()) ops;
    if !failed then "panic" else begin
      let stepwise = show_streams !c in
      (* the stepwise run above and the one-shot `run` of the pinned theorems must be the same function *)
      match run server cfg g0 (List.rev !trace) with
      | Ok (Some c') when show_streams c' = stepwise -> "ok " ^ stepwise
      | _ -> "driver-error run-differs-from-steps"
    end

let handle ws = match ws with
  | ["wb"; ctor; steps] -> run_wb ctor steps ^ " | " ^ spec_wb ctor
  | ["wbx"; ctor; steps] -> run_wb ctor steps
  | ["si"; ents] -> run_si ents
  | ["wr"; role; cfg; budget; prog] ->
      let m = run_wr role cfg budget prog in
      let toks = match words m with "ok" :: r -> r | _ -> [] in
      m ^ " | " ^ (if toks = [] && m <> "ok" then "none" else judge_line (role = "s") toks)
  | "judge" :: role :: toks -> judge_line (role = "s") toks
  | _ -> "driver-error unknown-case"

let () =
  (try while true do
    let line = input_line stdin in
    let out = (try handle (words line) with e -> "driver-error " ^ Printexc.to_string e) in
    print_string out; print_char '\n'; flush stdout
  done with End_of_file -> ());
  flush stdout
