(* C11 driver: model column = extracted Gallina model of h3's encode_stateless / decode_stateless,
   spec column = the RFC 9204 reference decoder (Spec/RFC9204Static.v) and the RFC 9114 4.2.2 size.
     q.enc <fields>            model: ok <hex> size=<n>         spec: ok <hex or !text> size=<S.size>
     q.dec <max|-> <hex>       model: ok <fields> size=<n> | err decomp <variant> | err toolong <n>
     q.decc ...                same on the concatenation of the chunks
     q.ref <hex>               reference decoder only (used by lib/props/c11.py on the bytes the implementation wrote)
     q.hpe <max> <b> <m> <k> <eic> <s> <delta>
                               model: ok <hex of hp_encode eic s delta> parts=<hp_decode of those bytes>
                               spec:  ok <* | !text> parts=<eic>,<s>,<delta>   (a star = the model bytes read by the RFC 7541 5.1
                               integer decoder on an 8-bit and a 7-bit prefix are exactly (0, eic) (s, delta), nothing left);
                               <max> <b> <m> <k> only steer the implementation (harness/src/bin/c11.rs)
     q.hpref <hex>             the RFC reading of a section prefix: ok <eic>,<s>,<delta> | err
   spec column of q.dec:  <strict answer> [^limit] [~ <answer of the lax reading (known class F15b)>]
     ^limit = the strict answer needs an integer with more than 9 continuation octets (an implementation may refuse it) *)
let fields_of_string s =
  if s = "-" then [] else
  List.map (fun f -> match String.split_on_char ':' f with
    | [n; v] -> (bytes_of_hex n, bytes_of_hex v)
    | _ -> failwith "field") (String.split_on_char ',' s)
let string_of_fields fs =
  if fs = [] then "-" else
  String.concat "," (List.map (fun (n, v) -> hex_of_bytes n ^ ":" ^ hex_of_bytes v) fs)

let variant_s = function
  | DInvalidInteger PiOverflow -> "InvalidInteger overflow"
  | DInvalidInteger PiUnexpectedEnd -> "InvalidInteger end"
  | DInvalidString _ -> "InvalidString"
  | DInvalidStaticIndex _ -> "InvalidStaticIndex"
  | DUnknownPrefix _ -> "UnknownPrefix"
  | DMissingRefs _ -> "MissingRefs"
  | DBadBaseIndex _ -> "BadBaseIndex"
  | DHeaderTooLong n -> "HeaderTooLong " ^ string_of_n n
  | DOutOfFuel -> "OutOfFuel"

(* the class word (`decomp` = the call sites attach QPACK_DECOMPRESSION_FAILED, `toolong` = they do not) is taken from the
   MODEL's classification `decompression_failed`, not from the constructor: the implementation column gets it from the
   same `Err(HeaderTooLong(_)) / Err(_)` split the three call sites make *)
let err_s e =
  if decompression_failed e then "decomp " ^ variant_s e
  else match e with
    | DHeaderTooLong n -> "toolong " ^ string_of_n n
    | DOutOfFuel -> "outoffuel"
    | _ -> "notdecomp " ^ variant_s e

let max_of s = if s = "-" then None else Some (n_of_string s)

let m_dec max bs = match decode_stateless max bs with
  | Ok (fs, size) -> Printf.sprintf "ok %s size=%s" (string_of_fields fs) (string_of_n size)
  | Err e -> "err " ^ err_s e
  | Panic _ -> "panic"

(* what the specification says about a decoded list under a limit *)
let answer max = function
  | None -> "err decomp"
  | Some fs ->
    let size = section_size fs in
    (match max with
     | Some m when N.ltb m size -> "err toolong"
     | _ -> Printf.sprintf "ok %s size=%s" (string_of_fields fs) (string_of_n size))

let s_dec max bs =
  let s = rfc_decode_static bs in
  let b = rfc_decode_static_bounded bs in
  let l = rfc_decode_static_lax bs in
  (* an invalid section under a finite limit: which refusal wins is not specified *)
  let strict = if s = None && max <> None then "err *" else answer max s in
  let lim = if s <> None && b = None then " ^limit" else "" in
  let lax = if s = None && l <> None then " ~ " ^ answer max l else "" in
  strict ^ lim ^ lax

let fnv_prime = 0x100000001b3L
let fnv (h : int64 ref) (s : string) =
  String.iter (fun c -> h := Int64.mul (Int64.logxor !h (Int64.of_int (Char.code c))) fnv_prime) s;
  h := Int64.mul (Int64.logxor !h 10L) fnv_prime
let fnv_init = 0xcbf29ce484222325L
let starts_with p s = String.length s >= String.length p && String.sub s 0 (String.length p) = p
let canon r = if starts_with "err decomp" r then "err decomp" else if starts_with "err toolong" r then "err toolong" else r

let handle ws = match ws with
  | ["q.blk"; prefix; n] ->
    let p = bytes_of_hex prefix in
    let n = int_of_string n in
    let total = 1 lsl (8 * n) in
    let hm = ref fnv_init and hs = ref fnv_init in
    let oks = ref 0 and soks = ref 0 and kf = ref 0 in
    for k = 0 to total - 1 do
      let suffix = List.init n (fun j -> n_of_int ((k lsr (8 * (n - 1 - j))) land 255)) in
      let bs = p @ suffix in
      let m = canon (m_dec None bs) in
      if starts_with "ok" m then incr oks;
      fnv hm m;
      (* the spec digest takes the documented lax answer inside the known-finding class, and an implementation
         limit on integers where the strict answer needs one *)
      let strict = answer None (rfc_decode_static bs) in
      let s' =
        if strict = m then strict
        else if starts_with "err" strict && answer None (rfc_decode_static_lax bs) = m then (incr kf; m)
        else if starts_with "ok" strict && rfc_decode_static_bounded bs = None && m = "err decomp" then m
        else strict in
      if starts_with "ok" s' then incr soks;
      fnv hs s'
    done;
    Printf.sprintf "n=%d ok=%d h=%016Lx | n=%d ok=%d h=%016Lx kf=%d" total !oks !hm total !soks !hs !kf
  | ["q.enc"; f] ->
    let fs = fields_of_string f in
    (match encode_stateless fs with
     | Ok (bs, size) ->
       let m = Printf.sprintf "ok %s size=%s" (hex_of_bytes bs) (string_of_n size) in
       let chk = if rfc_decode_static bs = Some fs then "*" else "!reference-decoder-disagrees-on-model-bytes" in
       m ^ " | " ^ Printf.sprintf "ok %s size=%s" chk (string_of_n (section_size fs))
     | Err _ -> "err | ok * *"
     | Panic _ -> "panic | ok * *")
  | ["q.dec"; max; h] ->
    let bs = bytes_of_hex h in
    m_dec (max_of max) bs ^ " | " ^ s_dec (max_of max) bs
  | ["q.decc"; max; h] ->
    let bs = List.concat (List.map bytes_of_hex (String.split_on_char '.' h)) in
    m_dec (max_of max) bs ^ " | " ^ s_dec (max_of max) bs
  | ["q.hpe"; _; _; _; _; eic; sg; delta] ->
    let eic = n_of_string eic and delta = n_of_string delta in
    let want = Printf.sprintf "parts=%s,%s,%s" (string_of_n eic) sg (string_of_n delta) in
    (match hp_encode eic (sg = "1") delta with
     | Ok bs ->
       let parts = match hp_decode bs with
         | Ok (((e, s), d), []) -> Printf.sprintf "parts=%s,%d,%s" (string_of_n e) (if s then 1 else 0) (string_of_n d)
         | Ok _ -> "parts=!octets-left"
         | Err e -> "parts=!err-" ^ err_s e
         | Panic _ -> "parts=!panic" in
       let chk = match rfc_pi_decode (n_of_int 8) bs with
         | Some ((f, e), r) ->
           (match rfc_pi_decode (n_of_int 7) r with
            | Some ((s, d), []) when f = N0 && e = eic && string_of_n s = sg && d = delta -> "*"
            | _ -> "!reference-reading-of-the-model-bytes-differs")
         | None -> "!reference-reading-of-the-model-bytes-differs" in
       Printf.sprintf "ok %s %s | ok %s %s" (hex_of_bytes bs) parts chk want
     | Err _ -> "err | ok * " ^ want
     | Panic _ -> "panic | ok * " ^ want)
  | ["q.hpref"; h] ->
    (match rfc_pi_decode (n_of_int 8) (bytes_of_hex h) with
     | Some ((f, e), r) when f = N0 ->
       (match rfc_pi_decode (n_of_int 7) r with
        | Some ((s, d), []) -> Printf.sprintf "ok %s,%s,%s" (string_of_n e) (string_of_n s) (string_of_n d)
        | _ -> "err")
     | _ -> "err")
  | ["q.ref"; h] ->
    (match rfc_decode_static (bytes_of_hex h) with
     | Some fs -> "ok " ^ string_of_fields fs
     | None -> "err")
  | _ -> "driver-error unknown-case"
let () = run_lines handle
