(* C13 driver.
   st.ins  ID:VAL,ID:VAL,...|-                     Settings::insert sequence, then WriteBuf::from(UniStreamHeader::Control(s))
   st.dec  LENFORM PAYLOAD REST CUTS               Frame::decode on 04 ++ varint(len PAYLOAD, on LENFORM bytes; 0 = shortest) ++ PAYLOAD ++ REST,
                                                   handed over as a Buf cut into chunks at the dot-separated positions CUTS (0 = one chunk);
                                                   the model works on the remaining-bytes view, i.e. the concatenation
   cfg     ROLE CALLS G Q                          connection setup after the builder setter calls CALLS (NAME=V,... in call order, - = none);
                                                   G = grease draw (model only), Q = write quantum of the transport (impl only)
   cfg2    ROLE CALLS1 CALLS2 G                    one builder: CALLS1, build(), CALLS2, build(); the control streams of both connections
   rx      ROLE CALLS LENFORM PAYLOAD TAIL CHUNK PRE ACT  a connection built with CALLS receives 00 ++ SETTINGS(PAYLOAD) ++ TAIL on the peer's control stream,
                                                   which the peer opens after the other uni streams PRE; ACT = local API activity before the SETTINGS are read
                                                   (sd shutdown, rq request in flight, ra request afterwards).  PRE and ACT are impl only: they must not matter
   dflt                                            values in force before any SETTINGS
   each line prints `<model> | <spec>` *)
let get_ids = List.map n_of_string ["0"; "1"; "6"; "7"; "8"; "51"; "727725890"; "727725891"]
let opt_n = function Some v -> string_of_n v | None -> "-"
let show_gets (f : n -> string) = String.concat " " (List.map (fun id -> "g" ^ string_of_n id ^ "=" ^ f id) get_ids)
let show_applied (a : applied) =
  Printf.sprintf "mfs=%s wt=%s ec=%s dg=%s wtmax=%s" (string_of_n a.a_mfs) (string_of_n a.a_wt) (string_of_n a.a_ec)
    (string_of_n a.a_dg) (string_of_n a.a_wtmax)
let flag = function Some v -> string_of_n v | None -> "*"
let show_rfc_applied (a : rfc_applied) =
  Printf.sprintf "mfs=%s wt=%s ec=%s dg=%s wtmax=%s" (string_of_n a.r_max_field_section_size) (flag a.r_enable_webtransport)
    (flag a.r_enable_connect_protocol) (flag a.r_h3_datagram) (string_of_n a.r_webtransport_max_sessions)
let rec assoc_n id = function [] -> None | (k, v) :: r -> if k = id then Some v else assoc_n id r
let spec_gets (l : (n * n) list) =
  String.concat " " (List.map (fun id -> if id = N0 then "*" else "g" ^ string_of_n id ^ "=" ^ opt_n (assoc_n id l)) get_ids)
let two62 = n_of_string "4611686018427387904"
let lt a b = N.ltb a b
let parse_pairs s =
  if s = "-" then [] else
  List.map (fun p -> match String.split_on_char ':' p with
    | [a; b] -> (n_of_string a, n_of_string b) | _ -> failwith "bad pair") (String.split_on_char ',' s)
let drain (w : writebuf) = hex_of_bytes w.wb_hdr
let b s = s = "1"
let lenenc form n = if form = 0 then rfc_vi n else rfc_vi_enc (n_of_int form) n
let n64 = n_of_int 64
let show_close code =
  match handle_connection_error code None with
  | (c, Some cl) -> string_of_n c ^ " close=" ^ string_of_n cl ^ "x1"
  | (c, None) -> string_of_n c ^ " close=-"
(* NAME=V,... in call order; names: mfs grease wt ec dg wtmax *)
let parse_calls s =
  if s = "-" then [] else
  List.map (fun p -> match String.split_on_char '=' p with
    | [a; v] ->
        let v = n_of_string v in
        (match a with
         | "mfs" -> (S_mfs, O_mfs, v) | "grease" -> (S_grease, O_grease, v) | "wt" -> (S_wt, O_wt, v)
         | "ec" -> (S_ec, O_ec, v) | "dg" -> (S_dg, O_dg, v) | "wtmax" -> (S_wtmax, O_wtmax, v)
         | _ -> failwith "bad setter")
    | _ -> failwith "bad call") (String.split_on_char ',' s)
(* the payload of a complete frame given the bytes after its type: varint length then exactly that many bytes *)
let rfc_settings_frame_payload r =
  match rfc_varint r with
  | Some (n, rest) -> if List.length rest = int_of_n n then Some rest else None
  | None -> None
let handle ws = match ws with
  | ["st.ins"; ps] ->
      let l = parse_pairs ps in
      let rec go s = function
        | [] -> Ok s
        | (id, v) :: r -> (match st_insert id v s with Ok s' -> go s' r | Err e -> Err e | Panic p -> Panic p) in
      let m = (match go [] l with
        | Err _ -> "err"
        | Panic _ -> "panic"
        | Ok s -> (match writebuf_control s with
            | Ok w -> "ok " ^ drain w ^ " " ^ show_gets (fun id -> opt_n (st_get id s)) ^ " " ^ show_applied (apply_settings s)
            | Err _ -> "err-encode"
            | Panic _ -> "panic")) in
      let s =
        if List.exists (fun (id, v) -> not (lt id two62) || not (lt v two62)) l || rfc_has_dup (rfc_ids l) then "err"
        else if List.length l > 8 then "**"
        else begin
          let bytes = rfc_control_stream_start l in
          if List.length bytes > 64 then "**"
          else "ok " ^ hex_of_bytes bytes ^ " " ^ spec_gets l ^ " " ^ show_rfc_applied (rfc_apply l)
        end in
      m ^ " | " ^ s
  | ["st.dec"; form; payload; rest; _split] ->
      let p = bytes_of_hex payload and r = bytes_of_hex rest in
      let bytes = n_of_int 4 :: (lenenc (int_of_string form) (len p) @ p @ r) in
      let m = (match frame_decode bytes with
        | FrSettings (s, rest) -> "ok " ^ show_gets (fun id -> opt_n (st_get id s)) ^ " " ^ show_applied (apply_settings s)
                                  ^ " rest=" ^ string_of_int (List.length rest)
        | FrSettingsError e -> (match on_control_frame (FrSettingsError e) init_peer with
                                | Err c -> "err " ^ string_of_n c | _ -> "driver-error")
        | FrIncomplete -> "incomplete"
        | FrOther -> "other"
        | FrPanic _ -> "panic") in
      let s = (match rfc_receive p with
        | RxTruncated -> "err *"
        | RxSettingsError -> "err " ^ string_of_n rfc_H3_SETTINGS_ERROR
        | RxApply (known, a) -> "ok " ^ spec_gets known ^ " " ^ show_rfc_applied a ^ " rest=" ^ string_of_int (List.length r)) in
      m ^ " | " ^ s
  | ["cfg"; role; calls; g; _q] ->
      let g = n_of_string g in
      let cs = parse_calls calls in
      let c = builder_config (if role = "c" then RClient else RServer) (List.map (fun (s, _, v) -> (s, v)) cs) in
      let m = (match setup_control g c with
        | Ok w -> "ok " ^ drain w
        | Err code -> "err " ^ show_close code
        | Panic _ -> "panic") in
      let ov o = opt_value (List.map (fun (_, o, v) -> (o, v)) cs) o in
      let one = n_of_int 1 in
      let mfs = ov O_mfs and wtmax = ov O_wtmax in
      let s =
        if not (lt mfs two62) || not (lt wtmax two62) then "err " ^ string_of_n rfc_H3_INTERNAL_ERROR ^ " *"
        else "ok " ^ (if ov O_grease = one then "1" else "0") ^ " " ^ String.concat ","
               (List.map (fun (id, v) -> string_of_n id ^ ":" ^ string_of_n v)
                  (rfc_config_pairs mfs (ov O_wt = one) (ov O_ec = one) (ov O_dg = one) wtmax)) in
      m ^ " | " ^ s
  | ["cfg2"; role; calls1; calls2; g] ->
      (* one builder, two build() calls, CALLS2 between them; both setups must succeed in these cases *)
      let g = n_of_string g in
      let c1 = parse_calls calls1 and c2 = parse_calls calls2 in
      let strip = List.map (fun (s, _, v) -> (s, v)) in
      let (k1, k2) = build_twice (if role = "c" then RClient else RServer) (strip c1) (strip c2) in
      let one k = (match setup_control g k with Ok w -> Some (drain w) | _ -> None) in
      let m = (match one k1, one k2 with Some a, Some b -> "ok " ^ a ^ " " ^ b | _ -> "err") in
      let one = n_of_int 1 in
      let sp cs =
        let ov o = opt_value (List.map (fun (_, o, v) -> (o, v)) cs) o in
        (if ov O_grease = one then "1" else "0") ^ " " ^ String.concat ","
          (List.map (fun (id, v) -> string_of_n id ^ ":" ^ string_of_n v)
             (rfc_config_pairs (ov O_mfs) (ov O_wt = one) (ov O_ec = one) (ov O_dg = one) (ov O_wtmax))) in
      m ^ " | ok " ^ sp c1 ^ " " ^ sp (c1 @ c2)
  | ["rx"; _role; _calls; form; payload; tail; _chunk; _pre; _act] ->
      let p = bytes_of_hex payload and t = bytes_of_hex tail in
      let bytes = n_of_int 4 :: (lenenc (int_of_string form) (len p) @ p @ t) in
      let m = (match recv_control (nat_of_int 10) bytes init_peer with
        | Ok st -> "ok " ^ show_applied (settings_view st)
        | Err c -> "err " ^ show_close c
        | Panic _ -> "panic") in
      let s = (match rfc_receive p with
        | RxTruncated -> "err * *"
        | RxSettingsError -> "err " ^ string_of_n rfc_H3_SETTINGS_ERROR ^ " *"
        | RxApply (_, a) ->
            if t = [] then "ok " ^ show_rfc_applied a
            else (match t with
              | ty :: r when ty = n_of_int 4 ->
                  (* a second SETTINGS frame: H3_FRAME_UNEXPECTED when it is itself well-formed, some connection error otherwise *)
                  (match rfc_settings_frame_payload r with
                   | Some p2 -> (match rfc_receive p2 with
                       | RxApply _ -> "err " ^ string_of_n rfc_H3_FRAME_UNEXPECTED ^ " *"
                       | _ -> "err * *")
                   | None -> "**")
              | _ -> "**")) in
      m ^ " | " ^ s
  | ["dflt"] -> "ok " ^ show_applied (settings_view init_peer) ^ " | ok " ^ show_rfc_applied rfc_defaults
  | _ -> "driver-error unknown-case"
let () = run_lines handle
