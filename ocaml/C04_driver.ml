(* C04 driver.  case:  ctl.s|ctl.c g=<0|1> cr=<n> b=<u|n> ev=<e1,e2,...>
   events: U<id>  <id>:c:<hex>  <id>:F  <id>:R<code>  G<n>  W<id>:<k>  W*:<k>  <id>:Z<n>  <id>:S<code>  P
   prints  <model line> | <spec line>
   model:  <pending|ok none|err c:<code>:Local|panic n|indet|outside> at= ph= close= stops= opened= fins= set= closing= req= handed= acted=
   spec :  hard=<codes|-> soft=<codes|-> acted=<..|-> exact=<0|1> any=<0|1> stops=<ids|-> set=<bits, * = free> closing=<0|1> *)
let kv ws key =
  let kl = String.length key in
  match List.find_opt (fun w -> String.length w >= kl && String.sub w 0 kl = key) ws with
  | Some w -> String.sub w kl (String.length w - kl)
  | None -> failwith ("missing " ^ key)

let parse_event (s : string) : wev =
  let n = String.length s in
  if s = "P" then EPoll
  else if s.[0] = 'U' then ENewUni (n_of_string (String.sub s 1 (n - 1)))
  else if s.[0] = 'G' then EGrant (n_of_string (String.sub s 1 (n - 1)))
  else if n > 3 && String.sub s 0 3 = "W*:" then EDefault (n_of_string (String.sub s 3 (n - 3)))
  else if s.[0] = 'W' then begin
    match String.split_on_char ':' (String.sub s 1 (n - 1)) with
    | [a; b] -> EWrite (n_of_string a, n_of_string b)
    | _ -> failwith ("bad event " ^ s) end
  else begin
    match String.split_on_char ':' s with
    | [id; "c"; h] -> let b = bytes_of_hex h in if b = [] then failwith "empty chunk" else EArrive (n_of_string id, Chunk b)
    | [id; "F"] -> EArrive (n_of_string id, Fin)
    | [id; r] when String.length r > 1 && r.[0] = 'R' ->
        EArrive (n_of_string id, Abort (QTerminated (n_of_string (String.sub r 1 (String.length r - 1)))))
    | [id; r] when String.length r > 1 && r.[0] = 'Z' ->
        EFinPend (n_of_string id, n_of_string (String.sub r 1 (String.length r - 1)))
    | [id; r] when String.length r > 1 && r.[0] = 'S' ->
        EPeerStop (n_of_string id, n_of_string (String.sub r 1 (String.length r - 1)))
    | _ -> failwith ("bad event " ^ s) end

let opt_n = function None -> "-" | Some x -> string_of_n x
let bit x = if x = N0 then "0" else "1"
let show_act = function
  | ASettings p -> "S" ^ (if p = [] then "" else hex_of_bytes p)
  | AGoaway i -> "G" ^ string_of_n i
  | ACancelPush i -> "C" ^ string_of_n i
  | AMaxPushId i -> "M" ^ string_of_n i
let show_sact = function
  | SaSettings p -> "S" ^ (if p = [] then "" else hex_of_bytes p)
  | SaGoaway i -> "G" ^ string_of_n i
  | SaCancelPush i -> "C" ^ string_of_n i
  | SaMaxPushId i -> "M" ^ string_of_n i
let join sep f l = if l = [] then "-" else String.concat sep (List.map f l)

let model_line (client : bool) (d : drv) : string =
  let c = conn_of d and w = world_of d in
  let res = match d.d_res with
    | RPending -> "pending" | RNone -> "ok none" | RErr c -> "err c:" ^ string_of_n c ^ ":Local"
    | RPanic n -> "panic " ^ string_of_n n | RIndet -> "indet" | ROutside -> "outside" in
  let b = built d in
  let set = if not b then "-" else (match c.c_settings with
    | None -> "000" | Some a -> bit (a_dg a) ^ bit (a_ec a) ^ bit (a_wt a)) in
  let closing = if not b then "-" else if c.c_closing then "1" else "0" in
  let req = if not client || not b then "-" else if c.c_closing then "closing" else "ok" in
  let show_handed = function
    | FSettings _ -> "S" | FGoaway i -> "G" ^ string_of_n i | FCancelPush i -> "C" ^ string_of_n i
    | FMaxPushId i -> "M" ^ string_of_n i | _ -> "X" in
  Printf.sprintf "%s at=%s ph=%s close=%s stops=%s opened=%s fins=%s set=%s closing=%s req=%s handed=%s acted=%s"
    res (opt_n d.d_at) (if b then "run" else "build") (opt_n w.w_log.l_closed)
    (join ";" (fun (i, c) -> string_of_n i ^ ":" ^ string_of_n c) w.w_log.l_stops)
    (string_of_n w.w_log.l_opened) (string_of_n w.w_log.l_fins) set closing req
    (join "." show_handed c.c_handed) (join "." show_act c.c_acted)

(* what the peer sent: per announced stream (in announcement order) its flat bytes and its ending *)
let streams_of (evs : wev list) : sdesc list =
  let order = ref [] in
  let tbl : (n, (n list) ref * ending ref) Hashtbl.t = Hashtbl.create 8 in
  let get id = match Hashtbl.find_opt tbl id with
    | Some x -> x | None -> let x = (ref [], ref Open) in Hashtbl.add tbl id x; x in
  List.iter (function
    | ENewUni id -> ignore (get id); if not (List.mem id !order) then order := !order @ [id]
    | EArrive (id, e) ->
        let (bs, en) = get id in
        if !en = Open then (match e with
          | Chunk b -> bs := !bs @ b
          | Fin -> en := Finished
          | Abort q -> en := Broken q)
    | _ -> ()) evs;
  List.map (fun id -> let (bs, en) = get id in { sd_id = id; sd_bytes = !bs; sd_end = !en }) !order

let spec_line (client : bool) (evs : wev list) : string =
  let h = uni_spec (if client then SClient else SServer) (streams_of evs) in
  (* what acting on those frames must leave behind: the peer's settings in force, the closing state *)
  let flag = function Some x -> bit x | None -> "*" in
  let set = (match List.find_opt (function SaSettings _ -> true | _ -> false) h.hs_acted with
    | Some (SaSettings p) -> (match rfc_receive p with
        | RxApply (_, a) -> flag a.r_h3_datagram ^ flag a.r_enable_connect_protocol ^ flag a.r_enable_webtransport
        | _ -> "***")
    | _ -> "000") in
  let closing = if List.exists (function SaGoaway _ -> true | _ -> false) h.hs_acted then "1" else "0" in
  Printf.sprintf "hard=%s soft=%s acted=%s exact=%s any=%s stops=%s set=%s closing=%s"
    (join "," string_of_n h.hs_hard) (join "," string_of_n h.hs_soft) (join "." show_sact h.hs_acted)
    (if h.hs_exact then "1" else "0") (if h.hs_any then "1" else "0") (join "," string_of_n h.hs_stops) set closing

let handle ws = match ws with
  | fam :: _ when fam = "ctl.s" || fam = "ctl.c" ->
      let client = (fam = "ctl.c") in
      let grease = (kv ws "g=" = "1") in
      let cr = n_of_string (kv ws "cr=") in
      let b = (match kv ws "b=" with "u" -> None | x -> Some (n_of_string x)) in
      let evs = List.map parse_event (List.filter (fun s -> s <> "" && s <> "-" && not (String.length s >= 3 && String.sub s 0 3 = "SEG")) (String.split_on_char ',' (kv ws "ev="))) in
      let d0 = new_drv (if client then RClient else RServer) grease false cr b in
      let d = run_history evs d0 in
      (* blocked: the model's driver is still being built or waits for its own control stream to take the last GOAWAY;
         what the peer sent is then not looked at yet (delayed, not lost) and the liveness obligations do not apply *)
      model_line client d ^ " | " ^ spec_line client evs ^ (if blocked d then " blocked=1" else " blocked=0")
  | _ -> "driver-error unknown-case"
let () = run_lines handle
