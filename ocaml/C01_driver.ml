(* C01 driver.  Same case lines as harness/src/bin/c01.rs:
   e2e msg=<m>,<s>,<a>,<p>,<fields>,<body>,<trailers> resp=<status>,<fields>,<body>,<trailers> wire=<w> budget=<b> sched=<mode><seed> split=0|1 [grease=0|1]
   model column: the executable pipeline of Model/EndToEndH3.v - C12 header mapping model, reference field-section
   coding, C14 WriteBuf model drained under an acceptance script derived from budget=, chunks derived from wire=, the
   incremental reference reader polled per a pattern derived from sched=, C12 receive gate - for the request and for
   the response (the pipeline of C01_request_fidelity_reference_reader / C01_response_fidelity_reference_reader);
   spec column: Spec/EndToEndSpec.v expected_events (the normalised message itself). *)
let gen_byte seed i =
  let x = (seed * 31 + i) land 0xFFFFFF in
  let y = (x * 0x5bd1) land 0xFFFFFFFF in
  (y lsr 8) land 0xff
let parse_fields s =
  if s = "-" then [] else
  List.map (fun f ->
    match String.index_opt f '=' with
    | Some i -> (bytes_of_hex (String.sub f 0 i), bytes_of_hex (String.sub f (i + 1) (String.length f - i - 1)))
    | None -> failwith "field") (String.split_on_char ';' s)
let parse_body s =
  if s = "n" then [] else
  List.map (fun p ->
    if p = "e" then []
    else if p.[0] = 'g' then begin
      let r = String.sub p 1 (String.length p - 1) in
      match String.split_on_char 's' r with
      | [l; sd] -> let l = int_of_string l and sd = int_of_string sd in
                   List.init l (fun i -> n_of_int (gen_byte sd i))
      | _ -> failwith "gen piece" end
    else bytes_of_hex p) (String.split_on_char '.' s)
let opt_hex s = if s = "-" then None else Some (bytes_of_hex s)
let arg w key =
  let k = String.length key in
  if String.length w >= k && String.sub w 0 k = key then String.sub w k (String.length w - k) else failwith ("expected " ^ key)

(* ---- printing ---- *)
let fnv (bs : n list) : string =
  let h = List.fold_left (fun h b -> Int64.mul (Int64.logxor h (Int64.of_int (int_of_n b))) 0x100000001b3L) 0xcbf29ce484222325L bs in
  Printf.sprintf "%016Lx" h
let show_body b = if List.length b <= 48 then hex_of_bytes b else Printf.sprintf "#%d:%s" (List.length b) (fnv b)
let show_groups (g : (n list * n list list) list) =
  if g = [] then "-" else
  let l = List.map (fun (n, vs) -> (hex_of_bytes n, String.concat "," (List.map hex_of_bytes vs))) g in
  let l = List.sort (fun (a, _) (b, _) -> compare a b) l in
  String.concat ";" (List.map (fun (n, v) -> n ^ ":" ^ v) l)
let show_opt = function None -> "-" | Some [] -> "e" | Some b -> hex_of_bytes b
let show_events tag (show_head : 'h -> string) (evs : ('h, (n list * n list list) list) aevent list) =
  let heads = List.filter_map (function AHead h -> Some h | _ -> None) evs in
  let body = List.concat (List.filter_map (function ABody b -> Some b | _ -> None) evs) in
  let trl = List.filter_map (function ATrailers t -> Some t | _ -> None) evs in
  let bends = List.length (List.filter (function ABodyEnd -> true | _ -> false) evs) in
  let ends = List.length (List.filter (function AEnd -> true | _ -> false) evs) in
  let errs = List.filter_map (function AError w -> Some (string_of_n w) | _ -> None) evs in
  let last_is_end = (match List.rev evs with AEnd :: _ -> true | _ -> false) in
  let first_is_head = (match evs with AHead _ :: _ -> true | _ -> false) in
  if errs <> [] then Printf.sprintf "%s.error=%s" tag (String.concat "," errs) else
  if not (ends = 1 && last_is_end) then Printf.sprintf "%s.error=ends%d" tag ends else
  (* `again`: what one more recv_data says after the end of the message.  The event list ends with the end of the
     message (checked just above); the API contract is that the end is then reported again - a constant of the
     specification, printed so that the implementation's probe is compared with it *)
  Printf.sprintf "%s %s.b=%s %s.t=%s %s.e=%d %s.again=none"
    (match heads with [h] when first_is_head -> show_head h | _ -> Printf.sprintf "%s.heads=%d" tag (List.length heads))
    tag (show_body body)
    tag (match trl with [] -> "n" | [t] -> show_groups t | _ -> "many")
    tag bends tag
(* what the server application reads off the delivered http::Request of the C12 model *)
let bytes_of_string s = List.init (String.length s) (fun i -> n_of_int (Char.code s.[i]))
(* ext.rs Protocol variants in declaration order, with their as_str() *)
let proto_names = ["webtransport"; "connect-udp"; "connect-ip"; "websocket"]
let proto_of_opt = function "wt" -> 0 | "udp" -> 1 | "ip" -> 2 | "ws" -> 3 | _ -> failwith "proto"
let show_h3_req (r : request) =
  let u = r.rq_uri in
  Printf.sprintf "q.m=%s q.s=%s q.a=%s q.p=%s q.proto=%s q.h=%s" (hex_of_bytes r.rq_method) (show_opt (uri_scheme_str u))
    (show_opt (uri_authority u))
    (match uri_path_and_query u with None -> "-" | Some q -> show_opt (Some (pq_as_str q)))
    (match r.rq_protocol with None -> "-" | Some k -> hex_of_bytes (bytes_of_string (List.nth proto_names (int_of_n k))))
    (show_groups r.rq_headers)
let show_h3_resp (w : response) = Printf.sprintf "r.st=%s r.h=%s" (string_of_n w.rs_status) (show_groups w.rs_headers)
let show_req (v : req_seen) =
  Printf.sprintf "q.m=%s q.s=%s q.a=%s q.p=%s q.proto=%s q.h=%s" (hex_of_bytes v.v_method) (show_opt v.v_scheme)
    (show_opt v.v_authority) (show_opt v.v_path) (show_opt v.v_protocol) (show_groups v.v_fields)
let show_resp (w : resp_seen) = Printf.sprintf "r.st=%s r.h=%s" (string_of_n w.w_status) (show_groups w.w_fields)

(* ---- transport behaviour derived from the case line ---- *)
let rng = ref 1
let next () = rng := (!rng * 1103515245 + 12345) land 0x3FFFFFFF; (!rng lsr 8)
let amounts policy count =
  if policy = "big" || policy = "u" then [] else
  let p = if policy.[0] = 'f' then String.sub policy 1 (String.length policy - 1) else policy in
  if p.[0] = 'r' then begin
    let m = int_of_string (String.sub p 1 (String.length p - 1)) in
    List.init count (fun _ -> n_of_int (1 + next () mod m)) end
  else let k = int_of_string p in List.init count (fun _ -> n_of_int k)

let find_opt key rest = List.fold_left (fun acc w ->
  let k = String.length key in
  if String.length w >= k && String.sub w 0 k = key then Some (String.sub w k (String.length w - k)) else acc) None rest

(* one exchange: (model, spec) without the leading status word; Error text when the sender refuses the request *)
let exchange msg resp ~wire ~budget ~grease ~proto ~interim =
  match String.split_on_char ',' msg, String.split_on_char ',' resp with
  | [m; s; a; p; f; b; t], [st; rf; rb; rt] ->
      let q = { q_method = bytes_of_hex m; q_scheme = opt_hex s; q_authority = opt_hex a; q_path = opt_hex p;
                q_protocol = (match proto with Some k -> Some (bytes_of_string (List.nth proto_names k)) | None -> None);
                q_fields = parse_fields f } in
      let qm = { m_head = q; m_pieces = parse_body b; m_trailers = (if t = "n" then None else Some (parse_fields t)) } in
      let r : resp_head = { rp_status = n_of_string st; rp_fields = parse_fields rf } in
      let rm = { m_head = r; m_pieces = parse_body rb; m_trailers = (if rt = "n" then None else Some (parse_fields rt)) } in
      if not (request_wf q) then Error "c.send_request" else
      (match mk_uri q.q_scheme q.q_authority q.q_path with
       | None -> Error "model-uri"
       | Some u ->
      let hq = { cq_method = q.q_method; cq_uri = u; cq_fields = mk_hmap q.q_fields;
                 cq_ext = (match proto with Some k -> Some (n_of_int k) | None -> None) } in
      let hqm = { m_head = hq; m_pieces = qm.m_pieces;
                  m_trailers = (match qm.m_trailers with None -> None | Some t -> Some (mk_hmap t)) } in
      let hrm = { m_head = { cp_status = r.rp_status; cp_fields = mk_hmap r.rp_fields }; m_pieces = rm.m_pieces;
                  m_trailers = (match rm.m_trailers with None -> None | Some t -> Some (mk_hmap t)) } in
      (* the grease value is h3's random choice; the outcome must not depend on it *)
      let g () = if grease then Some (n_of_int (next () mod 1000000)) else None in
      (* the WriteBuf model recomputes remaining() at every write: keep (script steps) x (body size) bounded *)
      let steps m = let total = List.fold_left (fun a p -> a + List.length p) 0 m.m_pieces in
                    max 16 (min 2048 (1_000_000 / (total + 1))) in
      (* the Huffman model is quadratic in the length of one string: messages with a name or value above 2 KiB are not
         run through the model pipeline; their model column is the specification column (impl is compared with it) *)
      let big = List.exists (fun (n, v) -> List.length n > 2048 || List.length v > 2048)
                  (q.q_fields @ r.rp_fields @ (match qm.m_trailers with Some t -> t | None -> [])
                   @ (match rm.m_trailers with Some t -> t | None -> [])) in
      let run_q () = h3_request_outcome (g ()) hqm (amounts budget (steps hqm)) (amounts wire 256)
                    (List.init 256 (fun _ -> n_of_int (next () mod 3))) in
      (* the server's first finished request also carries a grease frame when grease is on *)
      let run_r () = h3_response_outcome (g ()) hrm (amounts budget (steps hrm)) (amounts wire 256)
                    (List.init 256 (fun _ -> n_of_int (next () mod 3))) in
      let model = if big then None else Some (match run_q (), run_r () with
        | Some eq, Some er -> show_events "q" show_h3_req eq ^ " " ^ interim ^ " " ^ show_events "r" show_h3_resp er
        | None, _ -> "model-send-request"
        | _, None -> "model-send-response") in
      let spec = show_events "q" show_req (expected_events norm_request norm_trailers qm) ^ " " ^ interim ^ " "
                 ^ show_events "r" show_resp (expected_events norm_response norm_trailers rm) in
      Ok ((match model with Some m -> m | None -> spec), spec))
  | _ -> failwith "bad-message"

let set_seed sched = rng := 1 + (int_of_string (String.sub sched 1 (String.length sched - 1))) land 0xFFFFFF

let handle ws = match ws with
  | "e2e" :: msg :: resp :: wire :: budget :: sched :: split :: rest ->
      let wire = arg wire "wire=" and budget = arg budget "budget=" and sched = arg sched "sched=" in
      let _ = arg split "split=" in
      let grease = (find_opt "grease=" rest = Some "1") in
      let proto = (match find_opt "proto=" rest with Some p -> Some (proto_of_opt p) | None -> None) in
      (* an interim response is not part of the modelled pipeline (one head per message): what the client must be shown
         of it is the identity on the case line, in both columns *)
      let interim = (match find_opt "interim=" rest with
        | None -> "r.i=-"
        | Some v -> (match String.index_opt v ',' with
            | Some i -> let st = String.sub v 0 i and fs = String.sub v (i + 1) (String.length v - i - 1) in
                        "r.i=" ^ st ^ ":" ^ show_groups (group_fields (parse_fields fs))
            | None -> failwith "interim")) in
      set_seed sched;
      (match exchange (arg msg "msg=") (arg resp "resp=") ~wire ~budget ~grease ~proto ~interim with
       | Ok (m, s) -> "ok " ^ m ^ " | ok " ^ s
       | Error e -> "err " ^ e ^ " | err " ^ e)
  (* several exchanges on one connection: each one is the same pipeline; how the SendRequest handles are cloned and
     dropped must not matter (mode), except `dh`: dropping the only handle closes the connection with H3_NO_ERROR *)
  | "multi" :: rest ->
      let get k = match find_opt k rest with Some v -> v | None -> failwith ("expected " ^ k) in
      let mode = get "mode=" and n = int_of_string (get "n=") in
      let wire = get "wire=" and budget = get "budget=" in
      let grease = (find_opt "grease=" rest = Some "1") in
      set_seed (get "sched=");
      if mode = "dh" then "ok dh c.driver=c:256 | ok dh c.driver=c:256" else begin
      let parts = List.init n (fun k ->
        let v = get (Printf.sprintf "x%d=" k) in
        match String.index_opt v '|' with
        | None -> failwith "exchange"
        | Some i ->
            (match exchange (String.sub v 0 i) (String.sub v (i + 1) (String.length v - i - 1))
                     ~wire ~budget ~grease ~proto:None ~interim:"r.i=-" with
             | Ok (m, s) -> (Printf.sprintf "x%d: %s" k m, Printf.sprintf "x%d: %s" k s)
             | Error e -> (Printf.sprintf "x%d: err %s" k e, Printf.sprintf "x%d: err %s" k e))) in
      "ok " ^ String.concat " " (List.map fst parts) ^ " | ok " ^ String.concat " " (List.map snd parts) end
  | _ -> "driver-error unknown-case"
(* the extracted functions are not tail recursive and work on long lists: a large minor heap keeps the GC out of the way *)
let () = Gc.set { (Gc.get ()) with Gc.minor_heap_size = 8 * 1024 * 1024; Gc.space_overhead = 400 }
let () = run_lines handle
