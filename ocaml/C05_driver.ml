(* C05 driver.  Case line (see harness/src/bin/c05.rs):
     err side=<srv|cli> drv=<pce|full> derr=<-|ccs|c2s> loss=<-|x<code>|t|i> k=<n> serr=<e1,..> sched=<D|Si>,...
   prints  <model result> | <spec result>
   The harness facts encoded here (which poll_connection_error calls a driver poll of each shape makes,
   in which turn the driver detects an error of its own) are checked by the correspondence run itself. *)
let kv ws = List.map (fun w -> match String.index_opt w '=' with
  | Some i -> (String.sub w 0 i, String.sub w (i+1) (String.length w - i - 1))
  | None -> failwith ("bad word " ^ w)) ws
let get k l = try List.assoc k l with Not_found -> failwith ("missing " ^ k)
let loss_err s = match s with
  | "-" -> None
  | "t" -> Some (Quic QTimeout)
  | "i" -> Some (Quic QInternal)
  | x -> Some (Quic (QAppClose (n_of_string (String.sub x 1 (String.length x - 1)))))
let stream_err loss = function
  | "fu" -> Internal h3_FRAME_UNEXPECTED
  | "fe" -> Internal h3_FRAME_ERROR
  | "se" -> Internal h3_SETTINGS_ERROR
  | "l" -> (match loss with Some e -> e | None -> failwith "serr=l without loss")
  | s -> failwith ("bad serr " ^ s)
let show_cerr = function
  | CLocal c -> "c:" ^ string_of_n c ^ ":Local"
  | CRemote (QAppClose c) -> "c:" ^ string_of_n c ^ ":Remote"
  | CRemote _ -> "c:-:Remote"
  | CTimeout -> "c:-:Timeout"
let show_dev = function
  | Some (EReport (_, c)) -> show_cerr c
  | Some EPending -> "pending"
  | Some EReadyOk -> "ok"
  | _ -> "none"
let show_srep = function Some c -> show_cerr c | None -> "none"
let show_closes l = if l = [] then "-" else String.concat "," (List.map string_of_n l)
let handle ws = match ws with
  | "err" :: rest ->
      let p = kv rest in
      let server = get "side" p = "srv" and full = get "drv" p = "full" in
      let loss = loss_err (get "loss" p) in
      let k = int_of_string (get "k" p) in
      let errs = List.map (stream_err loss) (String.split_on_char ',' (get "serr" p)) in
      let sched = let s = get "sched" p in if s = "-" then [] else
        List.map (fun t -> if t = "D" then O else nat_of_int (int_of_string (String.sub t 1 (String.length t - 1))))
          (String.split_on_char ',' s) in
      (* the driver's own error: the transport loss wins over a control-stream violation (poll_accept_recv
         runs before the control stream is read) *)
      let own = if not full then None else match loss with
        | Some e -> Some e
        | None -> (match get "derr" p with
            | "-" -> None
            | "ccs" -> Some (Internal h3_CLOSED_CRITICAL_STREAM)
            | "c2s" -> Some (Internal h3_FRAME_UNEXPECTED)
            | s -> failwith ("bad derr " ^ s)) in
      let setup = if server then Some ([CallPCE; CallPCE], false)
                  else if full then Some ([CallPCE; CallPCE; CallPCE; CallPCE], true) else None in
      let p1 = if not full then ([], true) else match own with
        | None -> ([CallPCE; CallPCE], true)
        | Some e -> ([CallPCE; CallHandle e], true) in
      let errs2 = List.map (fun _ -> match loss with Some e -> e | None -> Quic (QAppClose (n_of_int 999))) errs in
      let r = run_case gen_cfg (nat_of_int k) setup p1 errs sched p1 errs2 errs2 in
      let m = Printf.sprintf "ok d1=%s woken=%d s1=%s d2=%s s2=%s s3=%s d3=%s close=%s"
        (show_dev r.r_d1) (if r.r_woken then 1 else 0)
        (String.concat "," (List.map show_srep r.r_s1)) (show_dev r.r_d2)
        (String.concat "," (List.map show_srep r.r_s2)) (String.concat "," (List.map show_srep r.r_s3))
        (show_dev r.r_d3) (show_closes r.r_close) in
      (* specification: the first raise in schedule order is the outcome; the driver raises in its 7th turn *)
      let derr = match own with Some e -> Some (nat_of_int 7, e) | None -> None in
      let s = (match spec_case (nat_of_int k) errs derr sched with
        | None -> "none"
        | Some e ->
            let x = show_cerr (spec_report e) in
            let xs = String.concat "," (List.map (fun _ -> x) errs) in
            Printf.sprintf "ok d1=* woken=* s1=%s d2=%s s2=%s s3=%s d3=%s close=%s" xs x xs xs x
              (match spec_close_code e with Some c -> string_of_n c | None -> "-")) in
      m ^ " | " ^ s
  | _ -> "driver-error unknown-case"
let () = run_lines handle
