(* C05 driver.  Case line (see harness/src/bin/c05.rs):
     err side=<srv|cli> drv=<pce|full> np=<1|2> derr=<-|ccs|c2s|cms|cid> loss=<-|x<code>|t|i> closing=<-|goaway|shutdown>
         k=<n> serr=<kind,..> sched=<D|Si>,...
   prints  <model result> | <spec result>
   The harness facts encoded here (which poll_connection_error calls a driver poll of each shape makes, in which
   turn the driver detects an error of its own, which error each kind of stream call raises, which later calls a
   handle still has) are checked by the correspondence run itself. *)
let kv ws = List.map (fun w -> match String.index_opt w '=' with
  | Some i -> (String.sub w 0 i, String.sub w (i+1) (String.length w - i - 1))
  | None -> failwith ("bad word " ^ w)) ws
let get k l = try List.assoc k l with Not_found -> failwith ("missing " ^ k)
let loss_err s = match s with
  | "-" -> None
  | "t" -> Some (Quic QTimeout)
  | "i" -> Some (Quic QInternal)
  | x -> Some (Quic (QAppClose (n_of_string (String.sub x 1 (String.length x - 1)))))
let lost loss = match loss with Some e -> e | None -> failwith "this kind needs loss"
(* the error a scheduled stream call raises *)
let stream_err loss = function
  | "fu" | "tfu" | "xfu" -> Internal h3_FRAME_UNEXPECTED
  | "fe" | "ue" -> Internal h3_FRAME_ERROR
  | "se" -> Internal h3_SETTINGS_ERROR
  | "qp" -> Internal qPACK_DECOMPRESSION_FAILED
  | "dr" -> Internal h3_NO_ERROR
  | "l" | "wd" | "wt" | "wf" | "wr" | "xl" | "xw" | "rq" -> lost loss
  | s -> failwith ("bad serr " ^ s)
let show_cerr = function
  | CLocal c -> "c:" ^ string_of_n c ^ ":Local"
  | CRemote (QAppClose c) -> "c:" ^ string_of_n c ^ ":Remote"
  | CRemote _ -> "c:-:Remote"
  | CTimeout -> "c:-:Timeout"
let show_dev = function
  | Some (EReport (_, c)) -> show_cerr c
  | Some EPending -> "pending"
  | Some EReadyOk -> "ok"
  | _ -> "none"
let show_srep = function Some c -> show_cerr c | None -> "none"
let show_closes l = if l = [] then "-" else String.concat "," (List.map string_of_n l)
let handle ws = match ws with
  | "err" :: rest ->
      let p = kv rest in
      let server = get "side" p = "srv" and full = get "drv" p = "full" in
      let np = int_of_string (get "np" p) in
      let closing = get "closing" p in
      let loss = loss_err (get "loss" p) in
      let k = int_of_string (get "k" p) in
      let kinds = String.split_on_char ',' (get "serr" p) in
      let errs = List.map (stream_err loss) kinds in
      let sched = let s = get "sched" p in if s = "-" then [] else
        List.map (fun t -> if t = "D" then O else nat_of_int (int_of_string (String.sub t 1 (String.length t - 1))))
          (String.split_on_char ',' s) in
      (* the driver's own error and the turn in which it stores it: the transport loss wins over a control-stream
         violation (poll_accept_recv runs before the control stream is read) *)
      let own = if not full then None else match loss with
        | Some e -> Some (e, 7, [CallPCE])
        | None -> (match get "derr" p with
            | "-" -> None
            | "ccs" -> Some (Internal h3_CLOSED_CRITICAL_STREAM, 7, [CallPCE])
            | "c2s" -> Some (Internal h3_FRAME_UNEXPECTED, 7, [CallPCE])
            | "cms" -> Some (Internal h3_MISSING_SETTINGS, 7, [CallPCE])
            | "cid" -> Some (Internal h3_ID_ERROR, 13, [CallPCE; CallPCE; CallPCE])
            | "2cs" -> Some (Internal h3_STREAM_CREATION_ERROR, 7, [CallPCE])
            | "cfe" -> Some (Internal h3_FRAME_ERROR, 7, [CallPCE])
            | "cpp" -> Some (Internal h3_FRAME_UNEXPECTED, 7, [CallPCE])
            | "cbi" -> Some (Internal h3_STREAM_CREATION_ERROR, 10, [CallPCE; CallPCE])
            | s -> failwith ("bad derr " ^ s)) in
      let setup = if server then Some ([CallPCE; CallPCE], false)
                  else if full || closing = "goaway" then Some ([CallPCE; CallPCE; CallPCE; CallPCE], true) else None in
      let p1 = if not full then ([], true) else match own with
        | None -> ([CallPCE; CallPCE], true)
        | Some (e, _, pre) -> (pre @ [CallHandle e], true) in
      (* later calls: a read, then a write, on the lost transport *)
      let l2 = match loss with Some e -> e | None -> Quic (QAppClose (n_of_int 999)) in
      let errs2 = List.map (fun kd -> match kd with
        | "dr" -> None
        | "qp" when server -> None
        | "ue" -> Some (Internal h3_FRAME_ERROR)
        | _ -> Some l2) kinds in
      let errs3 = List.map (fun kd -> match kd with
        | "dr" | "rq" -> None
        | "qp" when server -> None
        | _ -> Some l2) kinds in
      (* shutdown(0) on the lost transport; a client that already sent its GOAWAY(0) has nothing to write; either way the
         guard at the top of shutdown answers first *)
      let e4 = if (not server) && closing = "shutdown" then None else Some l2 in
      let r = run_case gen_cfg (nat_of_int k) setup (nat_of_int np) p1 errs sched p1 errs2 errs3 e4 in
      let opt l os = String.concat "," (List.map2 (fun x o -> match o with None -> "-" | Some _ -> show_srep x) l os) in
      let s1 = String.concat "," (List.map2 (fun x kd -> if kd = "dr" then "-" else show_srep x) r.r_s1 kinds) in
      let ones = String.concat "," (List.map (fun _ -> "1") kinds) in
      let m = Printf.sprintf "ok keys=%s d1=%s woken=%d s1=%s d2=%s d2s=%s s2=%s s3=%s d4=%s d3=%s close=%s"
        ones (show_dev r.r_d1) (if r.r_woken then 1 else 0) s1 (show_dev r.r_d2) (show_dev r.r_d2s)
        (opt r.r_s2 errs2) (opt r.r_s3 errs3) (show_dev r.r_d4)
        (show_dev r.r_d3) (show_closes r.r_close) in
      (* specification, computed from the case line only (never from the model run, never from the shape of a driver
         poll): the outcome is the first raise.  Among the stream tasks the first store is the first task scheduled; when
         the driver can detect an error of its own, WHEN it does so depends on how many statements its poll runs first,
         which the property does not constrain: both outcomes are admissible (candidates separated by ` ;; `), every
         report must present the SAME one and close must be that one's code *)
      let line e =
        let x = show_cerr (spec_report e) in
        let xs1 = String.concat "," (List.map (fun kd -> if kd = "dr" then "-" else x) kinds) in
        let xo l = String.concat "," (List.map (fun o -> match o with None -> "-" | Some _ -> x) l) in
        Printf.sprintf "ok keys=%s d1=* woken=* s1=%s d2=%s d2s=%s s2=%s s3=%s d4=%s d3=%s close=%s" ones xs1 x x (xo errs2) (xo errs3)
          x x (match spec_close_code e with Some c -> string_of_n c | None -> "-") in
      let s = (match spec_case (nat_of_int k) errs None sched with
        | None -> "none"
        | Some e ->
            (match own with
             | Some (eo, _, _) when eo <> e -> line e ^ " ;; " ^ line eo
             | _ -> line e)) in
      m ^ " | " ^ s
  | _ -> "driver-error unknown-case"
let () = run_lines handle
