(* C09 driver.
   drain <ops>           ops = comma list of A<id> | P | G<pushid> | x<id>:<act>[:<act>...]
                         act = dropres | ok | fin | rst | badqpack | unexpected | malformed | finish | rstafter
                               | drop | split | dropsend | droprecv
                         prints `ok <group> ...`, one group per atomic op: for P the outputs of the accept task
                         (+id shown, -id:stop:reset refused, w<g> GOAWAY written, none | pend | err:<code>),
                         `.` for an op that was applied, `skip` for one that was not applicable
                         | verdict of the drain monitor (Spec/DrainSpec.v) on the model's trace, and the trace again
   dchk <ops> <groups>   verdict of the drain monitor on a GIVEN trace *)
let num s i = n_of_string (String.sub s i (String.length s - i))
let act_op id = function
  | "dropres" -> DDropResolver id
  | "ok" -> DHeadersOk id
  | "fin" -> DHeadersFail (id, KFin)
  | "rst" -> DHeadersFail (id, KReset)
  | "badqpack" -> DHeadersFail (id, KBadQpack)
  | "unexpected" -> DHeadersFail (id, KUnexpected)
  | "toobig" -> DHeadersFail (id, KTooBig)
  | "truncfin" -> DHeadersFail (id, KTruncFin)
  | "truncrst" -> DHeadersFail (id, KTruncReset)
  | "unknown" -> DHeadersFail (id, KUnknown)
  | "malformed" -> DHeadersFail (id, KMalformed)
  | "finish" | "data" | "trailers" | "stopstream" -> DFinish id      (* send-half methods: no effect on ownership *)
  | "recv" | "rtrailers" | "stopsending" -> DPeerReset id             (* receive-half methods: no effect on ownership *)
  | "rstafter" -> DPeerReset id
  | "drop" -> DDropStream id
  | "split" -> DSplit id
  | "dropsend" -> DDropHalf (id, true)
  | "droprecv" -> DDropHalf (id, false)
  | a -> failwith ("bad action " ^ a)
let partial_goaway : n option ref = ref None
let rec parse_tok tok : bop list =
  if tok = "XU" then [BLost] else
  if tok = "H+" then (match !partial_goaway with
                      | Some pid -> partial_goaway := None; [BOp (DPeerGoaway pid)]
                      | None -> [BNop]) else
  if tok.[0] = 'H' then begin
    (match String.split_on_char ':' tok with
     | hd :: _ -> partial_goaway := Some (num hd 1)
     | [] -> ());
    [BNop] end else
  match tok.[0] with
  | 'b' -> [BBlock]
  | 'W' -> [BUnblock]
  | _ -> List.map (fun o -> BOp o) (parse_dop tok)
and parse_dop tok : dop list =
  match tok.[0] with
  | 'A' -> [DArrive (num tok 1)]
  | 'P' -> if tok = "P" then [DPoll] else failwith "bad op"
  | 'G' -> [DPeerGoaway (num tok 1)]
  | 'x' -> (match String.split_on_char ':' tok with
            | hd :: acts when acts <> [] -> let id = num hd 1 in List.map (act_op id) acts
            | _ -> failwith ("bad op " ^ tok))
  | _ -> failwith ("bad op " ^ tok)
let parse_ops s = partial_goaway := None; List.concat (List.map parse_tok (String.split_on_char ',' s))
let opt_code = function Some c -> string_of_n c | None -> "-"
let show_out = function
  | EWire g -> Some ("w" ^ string_of_n g)
  | EShown id -> Some ("+" ^ string_of_n id)
  | ERejected (id, st, rs) -> Some ("-" ^ string_of_n id ^ ":" ^ opt_code st ^ ":" ^ opt_code rs)
  | ELost id -> Some ("?" ^ string_of_n id)
  | ENone -> Some "none"
  | EPending -> Some "pend"
  | EErr c -> if c = N0 then Some "err:-R/close:-" else Some ("err:" ^ string_of_n c ^ "L/close:" ^ string_of_n c)
  | _ -> None
let code_of s = if s = "-" then None else Some (n_of_string s)
let parse_out tok =
  if tok = "none" then ENone else if tok = "pend" then EPending
  else if String.length tok > 4 && String.sub tok 0 4 = "err:" then
    (* err:<code><variant letter>/close:<code> *)
    let j = ref 4 in
    while !j < String.length tok && tok.[!j] >= '0' && tok.[!j] <= '9' do incr j done;
    EErr (if !j = 4 then N0 else n_of_string (String.sub tok 4 (!j - 4)))
  else match tok.[0] with
  | 'w' -> EWire (num tok 1)
  | '+' -> EShown (num tok 1)
  | '?' -> ELost (num tok 1)
  | '-' -> (match String.split_on_char ':' (String.sub tok 1 (String.length tok - 1)) with
            | [id; st; rs] -> ERejected (n_of_string id, code_of st, code_of rs)
            | _ -> failwith "bad rejected")
  | _ -> failwith ("bad output " ^ tok)
let verdict t = match drain_fail_at astate0 t N0 with None -> "drain-ok" | Some i -> "drain-bad@" ^ string_of_n i
let base f = match String.index_opt f '.' with Some i -> String.sub f 0 i | None -> f
let handle ws =
  let ws = (match ws with f :: r -> base f :: r | [] -> []) in
  match ws with
  | ["drain"; ops] ->
      let ops = parse_ops ops in
      let w = ref bworld0 in
      let trace = ref [] in
      let groups = List.map (fun o ->
        let dead = s_dead (w_srv (bw_w !w)) in
        let (outs, w') = bstep !w o in
        w := w'; trace := !trace @ outs;
        if dead then "." else
        match o with
        | BOp DPoll -> String.concat "," (List.filter_map (function DO e -> show_out e | _ -> None) outs)
        | _ -> if outs = [] then "skip" else ".") ops in
      let gs = String.concat " " groups in
      "ok " ^ gs ^ " | " ^ verdict !trace ^ " " ^ gs
  | "dchk" :: ops :: groups ->
      let ops = parse_ops ops in
      if List.length ops <> List.length groups then "drain-bad@shape | drain-bad@shape" else begin
        let t = List.concat (List.map2 (fun o gr ->
          if gr = "skip" then []
          else (match o with BOp d -> DI d | BBlock -> DW true | BUnblock -> DW false | BLost -> DX | BNop -> DI DPoll) :: (if gr = "." then [] else List.map (fun x -> DO (parse_out x)) (String.split_on_char ',' gr))) ops groups) in
        let v = verdict t in v ^ " | " ^ v end
  | _ -> "driver-error unknown-case"
let () =
  (try while true do
    let line = input_line stdin in
    let out = (try handle (words line) with e -> "driver-error " ^ Printexc.to_string e) in
    print_string out; print_char '\n'; flush stdout
  done with End_of_file -> ());
  flush stdout
