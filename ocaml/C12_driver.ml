(* C12 driver: same case lines as harness/src/bin/c12.rs.
   fields = hexname=hexvalue;...  ("-" = no field; "-" for an empty name or value)
   model column: what the Gallina model of headers.rs / the ports of the http crate compute;
   spec column (after " | "): for hdr.* the verdict of Spec.WellFormed: "any" (well-formed: the property allows
   delivery or refusal) or "refuse <code>" (not well-formed: must be refused with that code). *)
let parse_fields s =
  if s = "-" then [] else
  List.map (fun f ->
    match String.index_opt f '=' with
    | None -> failwith "field without ="
    | Some i -> (bytes_of_hex (String.sub f 0 i), bytes_of_hex (String.sub f (i + 1) (String.length f - i - 1))))
    (String.split_on_char ';' s)
let show_fields fs =
  if fs = [] then "-" else
  String.concat ";" (List.map (fun (n, v) -> hex_of_bytes n ^ "=" ^ hex_of_bytes v) fs)
let opt = function None -> "-" | Some [] -> "e" | Some b -> hex_of_bytes b
let optn = function None -> "-" | Some c -> string_of_n c
let variant = function
  | InvalidHeaderName -> "InvalidHeaderName" | InvalidHeaderValue -> "InvalidHeaderValue"
  | InvalidRequest -> "InvalidRequest" | MissingMethod -> "MissingMethod" | MissingStatus -> "MissingStatus"
  | MissingAuthority -> "MissingAuthority" | ContradictedAuthority -> "ContradictedAuthority"
  | TooManyFields -> "TooManyFields"
(* pure families (hdr) show the HeaderError variant; end-to-end families (e2e) show what the application and the
   wire see: the StreamError code and the RESET_STREAM / STOP_SENDING codes *)
let refusal e2e r =
  if e2e then Printf.sprintf "err code=%s reset=%s stop=%s" (string_of_n r.r_code) (optn r.r_reset) (optn r.r_stop_sending)
  else "err " ^ variant r.r_why
let no_grow = fun _ -> false
let proto_str = function
  | None -> "-"
  | Some k -> (match protocol_as_str k with Ok s -> opt (Some s) | _ -> "panic")
let summarize big h =
  if big then Printf.sprintf "h#=%d" (List.length h) else "h=" ^ show_fields h
let recv ?(e2e=false) kind big fs =
  let m = (match kind with
    | "req" -> (match resolve_request no_grow fs with
        | Delivered r ->
            Printf.sprintf "ok m=%s s=%s a=%s p=%s x=%s %s" (hex_of_bytes r.rq_method)
              (opt (uri_scheme_str r.rq_uri)) (opt (uri_authority r.rq_uri))
              (opt (match uri_path_and_query r.rq_uri with Some q -> Some (pq_as_str q) | None -> None))
              (proto_str r.rq_protocol) (summarize big (hm_iter r.rq_headers))
        | Refused r -> refusal e2e r
        | Panicked s -> "panic " ^ string_of_n s)
    | "resp" -> (match recv_response no_grow fs with
        | Delivered r -> Printf.sprintf "ok st=%s %s" (string_of_n r.rs_status) (summarize big (hm_iter r.rs_headers))
        | Refused r -> refusal e2e r
        | Panicked s -> "panic " ^ string_of_n s)
    | _ -> (match recv_trailers no_grow fs with
        | Delivered h -> "ok " ^ summarize big (hm_iter h)
        | Refused r -> refusal e2e r
        | Panicked s -> "panic " ^ string_of_n s)) in
  let wf = (match kind with
    | "req" -> wf_requestb http_parseable fs
    | "resp" -> wf_responseb http_parseable fs
    | _ -> wf_trailersb http_parseable fs) in
  m ^ " | " ^ (if wf then "any" else "refuse " ^ string_of_n h3_MESSAGE_ERROR_rfc)
let arg w key =
  let k = String.length key in
  if String.length w >= k && String.sub w 0 k = key then String.sub w k (String.length w - k)
  else failwith ("expected " ^ key)
let build_map fs =
  if List.for_all (fun (n, v) -> hname_ok n && hvalue_ok v) fs
  then Some (List.fold_left (fun m (n, v) -> hm_append n v m) [] fs) else None
let emitted = function
  | Ok l -> "ok " ^ show_fields l
  | Err e -> "err " ^ variant e
  | Panic s -> "panic " ^ string_of_n s
let send_req m s a p x h =
  let mb = bytes_of_hex m in
  if not (method_ok mb) then "badinput method" else
  let sc = if s = "-" then Some None else
    let b = if s = "e" then [] else bytes_of_hex s in
    if scheme_ok b then Some (Some b) else None in
  match sc with None -> "badinput scheme" | Some sc ->
  let au = if a = "-" then Some None else
    let b = bytes_of_hex a in if authority_ok b then Some (Some b) else None in
  match au with None -> "badinput authority" | Some au ->
  let pa = if p = "-" then Some None else
    (match path_parse (bytes_of_hex p) with Ok q -> Some (Some q) | _ -> None) in
  match pa with None -> "badinput path" | Some pa ->
  match uri_from_parts { pt_scheme = sc; pt_authority = au; pt_path = pa } with
  | None -> "badinput uri"
  | Some u ->
  match build_map (parse_fields h) with
  | None -> "badinput fields"
  | Some map ->
  let ext = (match x with
    | "-" -> Some None | "wt" -> Some (Some (n_of_int 0)) | "udp" -> Some (Some (n_of_int 1))
    | "ip" -> Some (Some (n_of_int 2)) | "ws" -> Some (Some (n_of_int 3)) | _ -> None) in
  match ext with None -> "badinput protocol" | Some ext ->
  emitted (send_request mb u map ext)
let okb f v = let b = bytes_of_hex v in if f b then "ok " ^ hex_of_bytes b else "err"
let handle ws = match ws with
  | ["hdr.req"; f] -> recv "req" false (parse_fields f)
  | ["hdr.resp"; f] -> recv "resp" false (parse_fields f)
  | ["hdr.trl"; f] -> recv "trl" false (parse_fields f)
  | ["hdr.many"; kind; count; field; prefix] ->
      let n = int_of_string count in
      let one = List.hd (parse_fields field) in
      let fs = parse_fields prefix @ List.init n (fun _ -> one) in
      recv kind (n > 64) fs
  | ["e2e.req"; f] -> recv ~e2e:true "req" false (parse_fields f)
  | ["e2e.resp"; f] -> recv ~e2e:true "resp" false (parse_fields f)
  | ["e2e.trl"; _; f] -> recv ~e2e:true "trl" false (parse_fields f)
  | ["e2e.trlx"; _; _; f] -> recv ~e2e:true "trl" false (parse_fields f)
  | ["e2e.many"; kind; count; field; prefix] ->
      let n = int_of_string count in
      let one = List.hd (parse_fields field) in
      let fs = parse_fields prefix @ List.init n (fun _ -> one) in
      let k = (match kind with "req" -> "req" | "resp" -> "resp" | _ -> "trl") in
      recv ~e2e:true k (n > 64) fs
  | ["wire.req"; m; s; a; p; x; h] ->
      let r = send_req (arg m "m=") (arg s "s=") (arg a "a=") (arg p "p=") (arg x "x=") (arg h "h=") in
      (if String.length r >= 3 && String.sub r 0 3 = "err" then "err" else r) ^ " | send"
  | ["wire.resp"; st; h] ->
      let st = int_of_string (arg st "st=") in
      (if st < 100 || st > 999 then "badinput status" else
       match build_map (parse_fields (arg h "h=")) with
       | None -> "badinput fields"
       | Some map -> emitted (send_response (n_of_int st) map)) ^ " | send"
  | ["wire.trl"; _; h] ->
      (match build_map (parse_fields (arg h "h=")) with
       | None -> "badinput fields"
       | Some map -> emitted (send_trailers map)) ^ " | send"
  | ["send.req"; m; s; a; p; x; h] ->
      send_req (arg m "m=") (arg s "s=") (arg a "a=") (arg p "p=") (arg x "x=") (arg h "h=") ^ " | send"
  | ["send.resp"; st; h] ->
      let st = int_of_string (arg st "st=") in
      (if st < 100 || st > 999 then "badinput status" else
       match build_map (parse_fields (arg h "h=")) with
       | None -> "badinput fields"
       | Some map -> emitted (send_response (n_of_int st) map)) ^ " | send"
  | ["send.trl"; h] ->
      (match build_map (parse_fields (arg h "h=")) with
       | None -> "badinput fields"
       | Some map -> emitted (send_trailers map)) ^ " | send"
  | ["http.name"; v] -> okb hname_ok v
  | ["http.value"; v] -> okb hvalue_ok v
  | ["http.method"; v] -> okb method_ok v
  | ["http.status"; v] ->
      (match status_parse (bytes_of_hex v) with
       | Some n -> "ok " ^ string_of_n n ^ " " ^ hex_of_bytes (status_as_str n)
       | None -> "err")
  | ["http.scheme"; v] ->
      let b = bytes_of_hex v in if utf8_valid b && scheme_ok b then "ok " ^ opt (Some b) else "err"
  | ["http.authority"; v] ->
      let b = bytes_of_hex v in if utf8_valid b && authority_ok b then "ok " ^ hex_of_bytes b else "err"
  | ["http.authority.b"; v] -> okb authority_ok v
  | ["http.path"; v] ->
      let b = bytes_of_hex v in
      if not (utf8_valid b) then "err" else
      (match path_parse b with
       | Ok q -> Printf.sprintf "ok %s %s %s" (hex_of_bytes (pq_as_str q)) (hex_of_bytes (pq_path q)) (opt (pq_query_str q))
       | _ -> "err")
  | ["http.path.b"; v] ->
      (match path_parse (bytes_of_hex v) with Ok q -> "ok " ^ hex_of_bytes (pq_as_str q) | _ -> "err")
  | ["http.proto"; v] ->
      let b = bytes_of_hex v in
      if not (utf8_valid b) then "err" else
      (match protocol_from_str b with
       | Some k -> (match protocol_as_str k with Ok s -> "ok " ^ hex_of_bytes s | _ -> "panic")
       | None -> "err")
  | ["http.utf8"; v] -> if utf8_valid (bytes_of_hex v) then "ok" else "err"
  | ["http.cap"; n] -> if try_with_capacity_ok (n_of_string n) then "ok fits" else "err"
  | _ -> "driver-error unknown-case"
let () = run_lines handle
