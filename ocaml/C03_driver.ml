(* C03 driver.
   rq s|c <a,a,...>   actions: c<hex> chunk arrives on the request stream | F fin | R<code> reset | X<code> connection closed |
                               p one poll of the API call the documented application is at
                               (first frame: resolve_request / recv_response; then recv_data until None; then recv_trailers)
   prints `ok <token per call> reset=<code|-> close=<code|->`  |  `panic <site>` *)
let qerr_str = function
  | QTerminated c -> "term:" ^ string_of_n c
  | QConnApp c -> "app:" ^ string_of_n c
  | QTimeout -> "timeout"
  | QInternal -> "internal"
  | QStreamUnknown -> "unknown"
  | QConnUndefined -> "undefined"
let rerr_str = function
  | RConnLocal c -> "err:c:" ^ string_of_n c
  | RStream c -> "err:s:" ^ string_of_n c
  | RRemoteTerminate c -> "err:rt:" ^ string_of_n c
  | RConnRemote QStreamUnknown -> "err:undef"
  | RConnRemote q -> "err:cr:" ^ qerr_str q
exception Model_panic of n
let close_code = ref None
let res_str ok = function
  | Pending -> "pend"
  | Ready (Panic s) -> raise (Model_panic s)
  | Ready (Err e) -> (match e with RConnLocal c -> close_code := Some c | _ -> ()); rerr_str e
  | Ready (Ok x) -> ok x
let obs_str = function
  | OHead r -> res_str (fun h -> "head:" ^ hex_of_bytes h) r
  | OBody r -> res_str (function Some d -> "d:" ^ hex_of_bytes d | None -> "bodyend") r
  | OTrail r -> res_str (function Some t -> "trailers:" ^ hex_of_bytes t | None -> "trailers:none") r
let parse_action a =
  let rest () = String.sub a 1 (String.length a - 1) in
  match a.[0] with
  | 'c' -> RArrive (Chunk (bytes_of_hex (rest ())))
  | 'F' -> RArrive Fin
  | 'R' -> RArrive (Abort (QTerminated (n_of_string (rest ()))))
  | 'X' -> if a = "XU" then RArrive (Abort QConnUndefined) else RArrive (Abort (QConnApp (n_of_string (rest ()))))
  | 'T' -> RArrive (Abort QTimeout)
  | 'I' -> RArrive (Abort QInternal)
  | 'K' -> RArrive (Abort QStreamUnknown)
  | 'p' -> RCall
  | _ -> failwith "bad action"
let event_str = function
  | EHead h -> ["head:" ^ hex_of_bytes h]
  | EByte b -> ["b:" ^ hex_of_bytes [b]]
  | EBodyEnd -> ["bodyend"]
  | ETrailers (Some t) -> ["trailers:" ^ hex_of_bytes t]
  | ETrailers None -> ["trailers:none"]
let final_str = function
  | RDone -> "done"
  | RConnError l -> "connerr:" ^ String.concat "/" (List.map string_of_n l)
  | RIncomplete -> "incomplete"
  | RAborted q -> "aborted:" ^ qerr_str q
  | RWaiting -> "waiting"
  | ROutOfScope -> "outofscope"
let handle ws = match ws with
  | ["rq"; r; acts] ->
      (* `s+split` / `c+splitm`: the application split()s the stream; the model has no such operation - splitting
         must not change anything *)
      let role, side = (match r.[0] with 's' -> RServer, AtServer | _ -> RClient, AtClient) in
      let acts = List.map parse_action (split_on ',' acts) in
      close_code := None;
      let m = (try
          let (os, rs) = rrun role acts (rs_new []) PFirst in
          let toks = List.map obs_str os in
          String.concat " " (("ok" :: toks) @
            ["reset=" ^ (match rs_reset rs with Some c -> string_of_n c | None -> "-");
             "close=" ^ (match !close_code with Some c -> string_of_n c | None -> "-"); "stop=-"])
        with Model_panic s -> "panic " ^ string_of_n s) in
      let flat = ref [] and ending = ref Open and fin = ref false in
      List.iter (function
        | RArrive (Chunk b) -> if not !fin then flat := !flat @ b
        | RArrive Fin -> if not !fin then (fin := true; ending := Finished)
        | RArrive (Abort e) -> if not !fin then (fin := true; ending := Broken e)
        | _ -> ()) acts;
      let (evs, fin_) = request_outcome rfc_settings_verdict side !flat !ending in
      m ^ " | " ^ String.concat " " (("S" :: List.concat_map event_str evs) @ ["T"; final_str fin_])
  | _ -> "driver-error unknown-case"
let () = run_lines handle
