(* C19 driver.  Case lines (see harness/src/bin/c19.rs):
     wt.sess S npre en
     wt.open <bi|uni> S npre en wb payload
     wt.recv <bi|uni> S npre en early mode history
     wt.recv2 S en mode history          two uni streams (items a:.. / b:..): two independent single-stream models
   npre / early do not exist in the model: one session, one stream.  Prints `<model> | <spec>`. *)
let sub1 s = String.sub s 1 (String.length s - 1)
let parse_hist s =
  (if s = "-" then [] else
   List.map (fun t ->
     if t = "p" then Poll
     else if t = "F" then Arrive Fin
     else if t.[0] = 'R' then Arrive (Reset (n_of_string (sub1 t)))
     else if t.[0] = 'c' then Arrive (Chunk (bytes_of_hex (sub1 t)))
     else failwith ("bad history item " ^ t))
     (* g<n>: the transport segments its deliveries (SEG<n>); a delivery is its byte string in the model *)
     (List.filter (fun t -> t.[0] <> 'g') (String.split_on_char ',' s)))
  @ [Poll]
(* mode: d | r<k> | t<k>, optionally prefixed by s (split, bidi only) *)
let split_of s = String.length s > 0 && s.[0] = 's'
let mode_of s =
  let s = if split_of s then sub1 s else s in
  if s = "d" then ModeData
  else if s.[0] = 't' then ModeTokio (n_of_string (sub1 s))
  (* x<k>: tokio AsyncRead with one k-byte ReadBuf kept until full.  The model has no such reader; by C19's bytes-intact
     theorems the concatenation of what any reader obtains is the payload, and results are compared by concatenation,
     so the model column is the ModeTokio k run *)
  else if s.[0] = 'x' then ModeTokio (n_of_string (sub1 s))
  else ModeRead (n_of_string (sub1 s))
let parse_item t =
  if t = "F" then Arrive Fin
  else if t.[0] = 'R' then Arrive (Reset (n_of_string (sub1 t)))
  else if t.[0] = 'c' then Arrive (Chunk (bytes_of_hex (sub1 t)))
  else failwith ("bad history item " ^ t)
(* wt.recv2: the items of one of the two streams, every poll kept *)
let project tag s =
  (if s = "-" then [] else
   List.concat (List.map (fun t ->
     if t = "p" then [Poll]
     else if t.[0] = 'g' then []
     else if String.length t > 2 && t.[0] = tag && t.[1] = ':' then [parse_item (String.sub t 2 (String.length t - 2))]
     else []) (String.split_on_char ',' s)))
  @ [Poll]
let pieces out = if out = [] then "-" else String.concat "." (List.map hex_of_bytes out)
let ending = function
  | EFin -> "fin" | EReset c -> "reset:" ^ string_of_n c | EPanic _ -> "panic" | EOutOfFuel -> "out-of-fuel"
let quiet = "close=- stop=-"
let rec repeat_n k x = if k = 0 then [] else x :: repeat_n (k - 1) x
(* flat bytes and ending of everything that arrives *)
let flat h = List.concat (List.map (function Arrive (Chunk b) -> b | _ -> []) h)
let rec wt_end_of = function
  | [] -> WtOpen
  | Arrive Fin :: _ -> WtFin
  | Arrive (Reset c) :: _ -> WtReset c
  | _ :: r -> wt_end_of r
let spec_end = function WtFin -> "fin" | WtReset c -> "reset:" ^ string_of_n c | WtOpen -> "pending"
let spec_obs kind sess = function
  | ObsStream (s, p, e) ->
      Printf.sprintf "ok sess=%s %s sid=%s data=%s end=%s %s" sess kind (string_of_n s) (hex_of_bytes p) (spec_end e) quiet
  | ObsNothing -> Printf.sprintf "ok sess=%s nostream close=- stop=*" sess
  | ObsUnconstrained -> Printf.sprintf "ok sess=%s **" sess
let handle ws = match ws with
  | ["wt.sess"; s; _npre; _en] ->
      let s = n_of_string s in
      "ok sess=" ^ string_of_n (session_of_stream s) ^ " | ok sess=" ^ string_of_n (wt_session_of_connect s)
  | ["wt.open"; kind; s; _npre; _en; wb; payload] ->
      let s = n_of_string s in
      let p = bytes_of_hex payload in
      let wb = int_of_string wb in
      let sess = session_of_stream s in
      let hdr = if kind = "bi" then bidi_header sess else uni_header sess in
      let m = (match hdr with
        | Ok h ->
            (* the transport takes wb bytes per grant (unlimited: the whole chunk); enough grants to finish *)
            let ks = if wb = 0 then [n_of_int (List.length h + 1)] else repeat_n (List.length h + 1) (n_of_int wb) in
            let (out, w) = wb_send ks (wb_of h) in
            if wb_chunk w <> [] then "ok sess=" ^ string_of_n sess ^ " tx=pending"
            else "ok sess=" ^ string_of_n sess ^ " tx=" ^ hex_of_bytes (out @ p)
        | _ -> "panic") in
      let signal = if kind = "bi" then wT_BIDI_SIGNAL else wT_UNI_TYPE in
      let cs = wt_session_of_connect s in
      m ^ " | ok sess=" ^ string_of_n cs ^ " tx=" ^ hex_of_bytes (wt_stream_bytes signal cs p)
  | ["wt.recv"; kind; s; _npre; en; _early; mode; hist] ->
      let s = n_of_string s in
      let h = parse_hist hist in
      let m = mode_of mode in
      let en = en <> "0" in
      let sess = string_of_n (session_of_stream s) in
      let body =
        if kind = "uni" then begin
          let st = uni_run en m h in
          match st.u_ph with
          | UAccepting _ -> Some ("nostream " ^ quiet)
          | UReading (i, _) -> Some (Printf.sprintf "uni sid=%s data=%s end=pending %s" (string_of_n i) (pieces st.u_out) quiet)
          | UEnded (i, e) -> Some (Printf.sprintf "uni sid=%s data=%s end=%s %s" (string_of_n i) (pieces st.u_out) (ending e) quiet)
          | UNever r -> (match r with
              | RtRemoved | RtDropped -> Some ("nostream " ^ quiet)
              | RtConnError c -> Some ("nostream close=" ^ string_of_n c ^ " stop=-")
              | RtStopped c -> Some ("nostream close=- stop=" ^ string_of_n c)
              | RtOther t -> Some ("other " ^ string_of_n t)
              | RtPanic _ -> None
              | RtPending _ | RtSurfaced _ -> Some "model-bug")
        end else begin
          let st = bidi_run (split_of mode) m h in
          match st.b_ph with
          | BAccepting _ -> Some ("nostream " ^ quiet)
          | BReading (i, _) -> Some (Printf.sprintf "bi sid=%s data=%s end=pending %s" (string_of_n i) (pieces st.b_out) quiet)
          | BEnded (i, e) -> Some (Printf.sprintf "bi sid=%s data=%s end=%s %s" (string_of_n i) (pieces st.b_out) (ending e) quiet)
          | BNotWt (PnPanic _) -> None
          | BNotWt _ -> Some ("nowt " ^ quiet)
        end in
      let mline = (match body with Some b -> "ok sess=" ^ sess ^ " " ^ b | None -> "panic") in
      let cs = string_of_n (wt_session_of_connect s) in
      let obs = if kind = "uni" then wt_expect_uni en (flat h) (wt_end_of h)
                else if en then wt_expect_bidi (flat h) (wt_end_of h)
                else ObsUnconstrained (* the statement gates unidirectional streams only *) in
      mline ^ " | " ^ spec_obs kind cs obs
  | ["wt.recv2"; s; en; mode; hist] ->
      let s = n_of_string s in
      let m = mode_of mode in
      let en = en <> "0" in
      let sess = string_of_n (session_of_stream s) in
      let cs = string_of_n (wt_session_of_connect s) in
      let one tag =
        let h = project tag hist in
        let st = uni_run en m h in
        let md = (match st.u_ph with
          | UAccepting _ -> Some "nostream stop=-"
          | UReading (i, _) -> Some (Printf.sprintf "uni sid=%s data=%s end=pending stop=-" (string_of_n i) (pieces st.u_out))
          | UEnded (i, e) -> Some (Printf.sprintf "uni sid=%s data=%s end=%s stop=-" (string_of_n i) (pieces st.u_out) (ending e))
          | UNever r -> (match r with
              | RtRemoved | RtDropped -> Some "nostream stop=-"
              | RtStopped c -> Some ("nostream stop=" ^ string_of_n c)
              | RtOther t -> Some ("other " ^ string_of_n t)
              | _ -> None)) in
        let sp = (match wt_expect_uni en (flat h) (wt_end_of h) with
          | ObsStream (i, p, e) -> Printf.sprintf "uni sid=%s data=%s end=%s stop=-" (string_of_n i) (hex_of_bytes p) (spec_end e)
          | ObsNothing -> "nostream stop=*"
          | ObsUnconstrained -> "nostream *") in
        (md, sp) in
      let (ma, sa) = one 'a' and (mb, sb) = one 'b' in
      let mline = (match ma, mb with
        | Some a, Some b -> Printf.sprintf "ok sess=%s A %s B %s close=-" sess a b
        | _ -> "panic") in
      mline ^ " | " ^ Printf.sprintf "ok sess=%s A %s B %s close=-" cs sa sb
  | ["wt.multi"; s; en; mode; hist] ->
      let s = n_of_string s in
      let m = mode_of mode in
      let en = en <> "0" in
      let sess = string_of_n (session_of_stream s) in
      let cs = string_of_n (wt_session_of_connect s) in
      let toks = if hist = "-" then [] else String.split_on_char ',' hist in
      let id_of t = match String.index_opt t ':' with Some i -> Some (int_of_string (String.sub t 0 i), String.sub t (i + 1) (String.length t - i - 1)) | None -> None in
      let ids = List.sort_uniq compare (List.filter_map (fun t -> match id_of t with Some (i, _) -> Some i | None -> None) toks) in
      let proj id =
        List.concat (List.map (fun t ->
          if t = "p" then [Poll] else
          match id_of t with
          | Some (i, rest) when i = id && rest <> "o" -> [parse_item rest]
          | _ -> []) toks) @ [Poll] in
      let ok = ref true in
      let mparts = Buffer.create 64 and sparts = Buffer.create 64 in
      List.iter (fun id ->
        let h = proj id in
        let uni = id land 2 <> 0 in
        let (md, sp) =
          if uni then begin
            let st = uni_run en m h in
            let md = (match st.u_ph with
              | UAccepting _ -> Some "nostream stop=-"
              | UReading (i, _) -> Some (Printf.sprintf "uni sid=%s data=%s end=pending stop=-" (string_of_n i) (pieces st.u_out))
              | UEnded (i, e) -> Some (Printf.sprintf "uni sid=%s data=%s end=%s stop=-" (string_of_n i) (pieces st.u_out) (ending e))
              | UNever r -> (match r with
                  | RtRemoved | RtDropped -> Some "nostream stop=-"
                  | RtStopped c -> Some ("nostream stop=" ^ string_of_n c)
                  | RtOther t -> Some ("other " ^ string_of_n t)
                  | _ -> None)) in
            let sp = (match wt_expect_uni en (flat h) (wt_end_of h) with
              | ObsStream (i, p, e) -> Printf.sprintf "uni sid=%s data=%s end=%s stop=-" (string_of_n i) (hex_of_bytes p) (spec_end e)
              | ObsNothing -> "nostream stop=*"
              | ObsUnconstrained -> "?") in
            (md, sp)
          end else begin
            let st = bidi_run false m h in
            let md = (match st.b_ph with
              | BAccepting _ -> Some "nostream stop=-"
              | BReading (i, _) -> Some (Printf.sprintf "bi sid=%s data=%s end=pending stop=-" (string_of_n i) (pieces st.b_out))
              | BEnded (i, e) -> Some (Printf.sprintf "bi sid=%s data=%s end=%s stop=-" (string_of_n i) (pieces st.b_out) (ending e))
              | BNotWt _ -> None) in
            let sp = (match (if en then wt_expect_bidi (flat h) (wt_end_of h) else ObsUnconstrained) with
              | ObsStream (i, p, e) -> Printf.sprintf "bi sid=%s data=%s end=%s stop=-" (string_of_n i) (hex_of_bytes p) (spec_end e)
              | ObsNothing -> "nostream stop=*"
              | ObsUnconstrained -> "?") in
            (md, sp)
          end in
        (match md with Some x -> Buffer.add_string mparts (Printf.sprintf " #%d %s" id x) | None -> ok := false);
        Buffer.add_string sparts (Printf.sprintf " #%d %s" id sp)) ids;
      let mline = if !ok then "ok sess=" ^ sess ^ Buffer.contents mparts ^ " close=-" else "panic" in
      mline ^ " | ok sess=" ^ cs ^ Buffer.contents sparts ^ " close=-"
  | ["wt.open2"; s; _en; wb; _credit; ops] ->
      let s = n_of_string s in
      let wb = int_of_string wb in
      let sess = session_of_stream s in
      let cs = wt_session_of_connect s in
      let ops = List.map (fun o -> match String.index_opt o ':' with
        | Some i -> (String.sub o 0 i, bytes_of_hex (String.sub o (i + 1) (String.length o - i - 1)))
        | None -> (o, [])) (String.split_on_char ',' ops) in
      let one (kind, p) =
        let hdr = if kind = "bi" then bidi_header sess else uni_header sess in
        match hdr with
        | Ok h ->
            let ks = if wb = 0 then [n_of_int (List.length h + 1)] else repeat_n (List.length h + 1) (n_of_int wb) in
            let (out, w) = wb_send ks (wb_of h) in
            if wb_chunk w <> [] then None else Some (hex_of_bytes (out @ p))
        | _ -> None in
      let ms = List.map one ops in
      let m = if List.exists (fun x -> x = None) ms then "panic"
              else "ok sess=" ^ string_of_n sess ^ " tx=" ^ String.concat "," (List.map (function Some x -> x | None -> "") ms) in
      let sp = String.concat "," (List.map (fun (kind, p) ->
        hex_of_bytes (wt_stream_bytes (if kind = "bi" then wT_BIDI_SIGNAL else wT_UNI_TYPE) cs p)) ops) in
      m ^ " | ok sess=" ^ string_of_n cs ^ " tx=" ^ sp
  | _ -> "driver-error unknown-case"
let () = run_lines handle
