(* C19 driver.  Case lines (see harness/src/bin/c19.rs):
     wt.sess S npre en
     wt.open <bi|uni> S npre en wb payload
     wt.recv <bi|uni> S npre en early mode history
     wt.recv2 S en mode history          two uni streams (items a:.. / b:..): two independent single-stream models
   npre / early do not exist in the model: one session, one stream.  Prints `<model> | <spec>`. *)
let sub1 s = String.sub s 1 (String.length s - 1)
let parse_hist s =
  (if s = "-" then [] else
   List.map (fun t ->
     if t = "p" then Poll
     else if t = "F" then Arrive Fin
     else if t.[0] = 'R' then Arrive (Reset (n_of_string (sub1 t)))
     else if t.[0] = 'c' then Arrive (Chunk (bytes_of_hex (sub1 t)))
     else failwith ("bad history item " ^ t)) (String.split_on_char ',' s))
  @ [Poll]
(* mode: d | r<k> | t<k>, optionally prefixed by s (split, bidi only) *)
let split_of s = String.length s > 0 && s.[0] = 's'
let mode_of s =
  let s = if split_of s then sub1 s else s in
  if s = "d" then ModeData
  else if s.[0] = 't' then ModeTokio (n_of_string (sub1 s))
  else ModeRead (n_of_string (sub1 s))
let parse_item t =
  if t = "F" then Arrive Fin
  else if t.[0] = 'R' then Arrive (Reset (n_of_string (sub1 t)))
  else if t.[0] = 'c' then Arrive (Chunk (bytes_of_hex (sub1 t)))
  else failwith ("bad history item " ^ t)
(* wt.recv2: the items of one of the two streams, every poll kept *)
let project tag s =
  (if s = "-" then [] else
   List.concat (List.map (fun t ->
     if t = "p" then [Poll]
     else if String.length t > 2 && t.[0] = tag && t.[1] = ':' then [parse_item (String.sub t 2 (String.length t - 2))]
     else []) (String.split_on_char ',' s)))
  @ [Poll]
let pieces out = if out = [] then "-" else String.concat "." (List.map hex_of_bytes out)
let ending = function
  | EFin -> "fin" | EReset c -> "reset:" ^ string_of_n c | EPanic _ -> "panic" | EOutOfFuel -> "out-of-fuel"
let quiet = "close=- stop=-"
let rec repeat_n k x = if k = 0 then [] else x :: repeat_n (k - 1) x
(* flat bytes and ending of everything that arrives *)
let flat h = List.concat (List.map (function Arrive (Chunk b) -> b | _ -> []) h)
let rec wt_end_of = function
  | [] -> WtOpen
  | Arrive Fin :: _ -> WtFin
  | Arrive (Reset c) :: _ -> WtReset c
  | _ :: r -> wt_end_of r
let spec_end = function WtFin -> "fin" | WtReset c -> "reset:" ^ string_of_n c | WtOpen -> "pending"
let spec_obs kind sess = function
  | ObsStream (s, p, e) ->
      Printf.sprintf "ok sess=%s %s sid=%s data=%s end=%s %s" sess kind (string_of_n s) (hex_of_bytes p) (spec_end e) quiet
  | ObsNothing -> Printf.sprintf "ok sess=%s nostream %s" sess quiet
  | ObsUnconstrained -> Printf.sprintf "ok sess=%s **" sess
let handle ws = match ws with
  | ["wt.sess"; s; _npre; _en] ->
      let s = n_of_string s in
      "ok sess=" ^ string_of_n (session_of_stream s) ^ " | ok sess=" ^ string_of_n (wt_session_of_connect s)
  | ["wt.open"; kind; s; _npre; _en; wb; payload] ->
      let s = n_of_string s in
      let p = bytes_of_hex payload in
      let wb = int_of_string wb in
      let sess = session_of_stream s in
      let hdr = if kind = "bi" then bidi_header sess else uni_header sess in
      let m = (match hdr with
        | Ok h ->
            (* the transport takes wb bytes per grant (unlimited: the whole chunk); enough grants to finish *)
            let ks = if wb = 0 then [n_of_int (List.length h + 1)] else repeat_n (List.length h + 1) (n_of_int wb) in
            let (out, w) = wb_send ks (wb_of h) in
            if wb_chunk w <> [] then "ok sess=" ^ string_of_n sess ^ " tx=pending"
            else "ok sess=" ^ string_of_n sess ^ " tx=" ^ hex_of_bytes (out @ p)
        | _ -> "panic") in
      let signal = if kind = "bi" then wT_BIDI_SIGNAL else wT_UNI_TYPE in
      let cs = wt_session_of_connect s in
      m ^ " | ok sess=" ^ string_of_n cs ^ " tx=" ^ hex_of_bytes (wt_stream_bytes signal cs p)
  | ["wt.recv"; kind; s; _npre; en; _early; mode; hist] ->
      let s = n_of_string s in
      let h = parse_hist hist in
      let m = mode_of mode in
      let en = en <> "0" in
      let sess = string_of_n (session_of_stream s) in
      let body =
        if kind = "uni" then begin
          let st = uni_run en m h in
          match st.u_ph with
          | UAccepting _ -> Some ("nostream " ^ quiet)
          | UReading (i, _) -> Some (Printf.sprintf "uni sid=%s data=%s end=pending %s" (string_of_n i) (pieces st.u_out) quiet)
          | UEnded (i, e) -> Some (Printf.sprintf "uni sid=%s data=%s end=%s %s" (string_of_n i) (pieces st.u_out) (ending e) quiet)
          | UNever r -> (match r with
              | RtRemoved | RtDropped -> Some ("nostream " ^ quiet)
              | RtConnError c -> Some ("nostream close=" ^ string_of_n c ^ " stop=-")
              | RtStopped c -> Some ("nostream close=- stop=" ^ string_of_n c)
              | RtOther t -> Some ("other " ^ string_of_n t)
              | RtPanic _ -> None
              | RtPending _ | RtSurfaced _ -> Some "model-bug")
        end else begin
          let st = bidi_run (split_of mode) m h in
          match st.b_ph with
          | BAccepting _ -> Some ("nostream " ^ quiet)
          | BReading (i, _) -> Some (Printf.sprintf "bi sid=%s data=%s end=pending %s" (string_of_n i) (pieces st.b_out) quiet)
          | BEnded (i, e) -> Some (Printf.sprintf "bi sid=%s data=%s end=%s %s" (string_of_n i) (pieces st.b_out) (ending e) quiet)
          | BNotWt (PnPanic _) -> None
          | BNotWt _ -> Some ("nowt " ^ quiet)
        end in
      let mline = (match body with Some b -> "ok sess=" ^ sess ^ " " ^ b | None -> "panic") in
      let cs = string_of_n (wt_session_of_connect s) in
      let obs = if kind = "uni" then wt_expect_uni en (flat h) (wt_end_of h) else wt_expect_bidi (flat h) (wt_end_of h) in
      mline ^ " | " ^ spec_obs kind cs obs
  | ["wt.recv2"; s; en; mode; hist] ->
      let s = n_of_string s in
      let m = mode_of mode in
      let en = en <> "0" in
      let sess = string_of_n (session_of_stream s) in
      let cs = string_of_n (wt_session_of_connect s) in
      let one tag =
        let h = project tag hist in
        let st = uni_run en m h in
        let md = (match st.u_ph with
          | UAccepting _ -> Some "nostream stop=-"
          | UReading (i, _) -> Some (Printf.sprintf "uni sid=%s data=%s end=pending stop=-" (string_of_n i) (pieces st.u_out))
          | UEnded (i, e) -> Some (Printf.sprintf "uni sid=%s data=%s end=%s stop=-" (string_of_n i) (pieces st.u_out) (ending e))
          | UNever r -> (match r with
              | RtRemoved | RtDropped -> Some "nostream stop=-"
              | RtStopped c -> Some ("nostream stop=" ^ string_of_n c)
              | RtOther t -> Some ("other " ^ string_of_n t)
              | _ -> None)) in
        let sp = (match wt_expect_uni en (flat h) (wt_end_of h) with
          | ObsStream (i, p, e) -> Printf.sprintf "uni sid=%s data=%s end=%s stop=-" (string_of_n i) (hex_of_bytes p) (spec_end e)
          | ObsNothing -> "nostream stop=-"
          | ObsUnconstrained -> "nostream *") in
        (md, sp) in
      let (ma, sa) = one 'a' and (mb, sb) = one 'b' in
      let mline = (match ma, mb with
        | Some a, Some b -> Printf.sprintf "ok sess=%s A %s B %s close=-" sess a b
        | _ -> "panic") in
      mline ^ " | " ^ Printf.sprintf "ok sess=%s A %s B %s close=-" cs sa sb
  | _ -> "driver-error unknown-case"
let () = run_lines handle
