(* C17 - converse lemmas for the anchored decision points: if the generated fact moves, the property fails,
   and here is the witness (each is replayed on the real code by the correspondence families qr / qw). *)
From H3V Require Import Base.Bytes Spec.QuinnApi Spec.AdapterSpec Model.Varint Model.QuinnAdapter.

(* recv_id reading `self.stream` instead of the cached id: it panics while a read is pending
   (witness: accept stream 3, poll_data -> Pending, recv_id).  Replay: any `qr` case (p1=pending, id bit 1). *)
Lemma C17_refute_recv_id_unwraps :
  exists r r1 o', recv_new (qrecv_new 3) = Ok r /\ poll_data [RBlocked] r = (Pending, r1, o') /\
    recv_id_with false r1 = Panic 54.
Proof. do 3 eexists. split; [vm_compute; reflexivity|]. split; vm_compute; reflexivity. Qed.

(* send_data without the `writing.is_some()` refusal: the second buffer replaces the first one while it is
   half written, so what Quinn is handed is not the concatenation of the accepted buffers.
   Replay: `qw ... dblp=0` with a window smaller than the buffer. *)
Lemma C17_refute_send_data_unguarded :
  let s0 := send_new (qsend_new 0) in
  let '(_, s1) := send_data_with false [[1; 2; 3; 4]] s0 in
  let '(_, s2, _) := poll_ready [WAccept 2; WBlocked] s1 in
  let '(r, s3) := send_data_with false [[9; 9]] s2 in
  let '(_, s4, _) := poll_ready [WAccept 100] s3 in
  r = Ok tt /\ qs_log (s_q s4) = [1; 2; 9; 9] /\
  qs_log (s_q s4) <> spec_handed [EvAccepted [[1; 2; 3; 4]]; EvAccepted [[9; 9]]].
Proof. vm_compute. repeat split. discriminate. Qed.

(* poll_finish without the drain of `writing` (the code before repair F21): after a write left pending, finish
   returns Ok and the rest of the accepted buffer never reaches Quinn.  Replay: `qw ... fault=cfin@J`. *)
Lemma C17_refute_finish_without_drain :
  let s0 := send_new (qsend_new 0) in
  let '(_, s1) := send_data [[0; 4]; [1; 2; 3; 4]] s0 in
  let '(r1, s2, o2) := poll_ready [WAccept 2; WAccept 1; WBlocked; WAccept 100] s1 in
  let '(r2, s3, _) := poll_finish_with false o2 s2 in
  r1 = Pending /\ r2 = Ready (Ok tt) /\ qs_finished (s_q s3) = true /\
  qs_log (s_q s3) = [0; 4; 1] /\ qs_log (s_q s3) <> spec_handed [EvAccepted [[0; 4]; [1; 2; 3; 4]]].
Proof. vm_compute. repeat split. discriminate. Qed.

(* poll_data converting the read error (`?`) before the stream is put back: after a failed read the next
   poll_data polls a completed future (panic 52).  Replay: `qr ... fault=reset:C@N re=1`. *)
Lemma C17_refute_stream_lost_after_failed_read :
  exists r, recv_new (qrecv_new 3) = Ok r /\
    let lost := {| r_id := r_id r; r_stream := None; r_fut := FutDone; r_pending_stop := None; r_reset := None |} in
    fst (fst (poll_data [RFin] lost)) = Ready (Panic 52) /\ underlying lost = None.
Proof. eexists. split; [vm_compute; reflexivity|]. split; vm_compute; reflexivity. Qed.

(* poll_data without the memo of the peer's reset (the code before repair F23): the read after the one that reported
   the reset goes to Quinn again, whose answer is a clean end of stream - the application takes a truncated message
   for a complete one.  Replay: `qr ... fault=reset:C@N re=2`. *)
Lemma C17_refute_reset_forgotten :
  exists r, recv_new (qrecv_new 3) = Ok r /\
    let '(x1, r1, o1) := poll_data_with false [RFail (QRReset 267); RFin] r in
    let '(x2, _, _) := poll_data_with false o1 r1 in
    x1 = Ready (Err (HStreamTerminated 267)) /\ x2 = Ready (Ok None).
Proof. eexists. split; [vm_compute; reflexivity|]. vm_compute. split; reflexivity. Qed.

(* poll_ready returning the write error with `?` and leaving the buffer in `writing` (the code before the repair):
   the send half stays "busy" for ever, so the next send_data of h3 is refused as if h3 had misused the stream
   (InternalError) instead of failing the way the stream failed.  Replay: `qw ... fault=stop:C@N sa=1`. *)
Lemma C17_refute_buffer_kept_after_write_error :
  let s0 := send_new (qsend_new 0) in
  let '(_, s1) := send_data [[1; 2; 3; 4]] s0 in
  (* what the old code leaves behind after Quinn's refusal *)
  let kept := {| s_q := s_q s1; s_writing := s_writing s1 |} in
  fst (send_data [[9; 9]] kept) = Err (HConnErr HInternalError).
Proof. vm_compute. reflexivity. Qed.
