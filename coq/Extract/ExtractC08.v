From Coq Require Extraction.
From Coq Require Import ExtrOcamlBasic.
From H3V Require Import Base.Bytes Spec.GoawaySpec Model.Varint Model.Goaway Model.GoawayWrite.
Extraction Language OCaml.
Extraction "C08_model.ml"
  N.add N.mul N.div_eucl N.ltb N.leb N.eqb
  gstep gstate0 wstep wstate0 cstep client0
  rfc_client_step rcl0 mon0 mon_step mon_run mon_fail_at line_okb.
