From Coq Require Extraction.
From Coq Require Import ExtrOcamlBasic.
From H3V Require Import Base.Bytes Spec.RFC9000 Spec.QuinnApi Spec.AdapterSpec Model.Varint Model.QuinnAdapter.
Extraction Language OCaml.
Extraction "C17_model.ml"
  N.add N.mul N.div_eucl N.ltb N.leb N.eqb N.min len vi_encode
  qsend_new qrecv_new send_new send_data poll_ready poll_send poll_finish send_reset send_drop send_id
  recv_new poll_data stop_sending recv_id underlying
  bidi_new open_bidi open_send accept_recv accept_bidi conn_close send_datagram poll_incoming_datagram spec_dgram_class
  spec_handed spec_stream_id spec_conn_class spec_read_class spec_write_class spec_refusal spec_reset_code
  stop_run quinn_write_condition quinn_read_condition spec_write_fault spec_read_fault spec_reads.
