From Coq Require Extraction.
From Coq Require Import ExtrOcamlBasic.
From H3V Require Import Base.Bytes Gen.GenCodes Gen.GenFrameTypes Gen.GenReqStream Spec.FrameVocab Spec.Frames
  Spec.RequestSeq Model.Varint Model.FrameDec Model.FrameStream Model.RequestStream.
Extraction Language OCaml.
Extraction "C03_model.ml"
  N.add N.mul N.div_eucl N.ltb N.leb N.eqb N.min len
  rs_new rrun rs_reset settings_verdict rfc_settings_verdict request_outcome.
