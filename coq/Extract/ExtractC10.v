From Coq Require Extraction.
From Coq Require Import ExtrOcamlBasic.
From H3V Require Import Base.Bytes Spec.RFC9204Static Spec.FieldSize Model.Static Model.QpackStateless Model.SectionLimit.
Extraction Language OCaml.
Extraction "C10_model.ml"
  N.add N.mul N.div_eucl N.ltb N.leb N.eqb len
  send_request send_response send_trailers
  server_recv_request client_recv_response server_recv_trailers client_recv_trailers limit_in_force own_at settings_seen_by
  rfc_decode_static section_size.
