From Coq Require Extraction.
From Coq Require Import ExtrOcamlBasic.
From H3V Require Import Base.Bytes Gen.GenQpack Gen.GenStatic Model.Vas Model.DynTable Model.QInstr Model.QEncoder
  Model.QDecoder Model.QSystem Model.PrefixInt Model.PrefixString Model.QWire Model.QBytes Model.QParse Spec.RFC9204.
Extraction Language OCaml.
Extraction "C20_model.ml"
  N.add N.mul N.div_eucl N.ltb N.leb N.eqb N.min len
  sys_init sys_step hp_new hp_get
  vas_relative vas_relative_base vas_post_base vas_index
  mkRdec rfc_instrs rfc_section rfc_insert_count rfc_size rfc_required
  wire_block wire_einstrs wire_dinstr mkBsys bstep
  parse_einstr parse_dinstr parse_all dec_apply dec_on_encoder_recv enc_on_decoder_recv.
