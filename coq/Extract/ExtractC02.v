From Coq Require Extraction.
From Coq Require Import ExtrOcamlBasic.
From H3V Require Import Base.Bytes Gen.GenCodes Gen.GenFrameTypes Spec.FrameVocab Spec.Frames
  Model.Varint Model.FrameDec Model.FrameStream.
Extraction Language OCaml.
Extraction "C02_model.ml"
  N.add N.mul N.div_eucl N.ltb N.leb N.eqb N.min len
  fs_new run st_rem frame_decode settings_verdict perr_code fserr_code
  frame_outcome tail_code first_step fserr_code_ctl.
