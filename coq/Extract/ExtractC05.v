From Coq Require Extraction.
From Coq Require Import ExtrOcamlBasic.
From H3V Require Import Base.Bytes Gen.GenCodes Gen.GenSharedErr Spec.FirstErrorWins Model.SharedErr Model.SharedErrRun.
Extraction Language OCaml.
Extraction "C05_model.ml"
  N.add N.mul N.div_eucl
  gen_cfg run_case spec_case spec_report spec_close_code
  H3_FRAME_UNEXPECTED H3_FRAME_ERROR H3_SETTINGS_ERROR H3_CLOSED_CRITICAL_STREAM H3_INTERNAL_ERROR
  H3_ID_ERROR H3_STREAM_CREATION_ERROR H3_MISSING_SETTINGS H3_NO_ERROR QPACK_DECOMPRESSION_FAILED.
