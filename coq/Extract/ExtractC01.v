From Coq Require Extraction.
From Coq Require Import ExtrOcamlBasic.
From H3V Require Import Base.Bytes Model.Varint Model.EndToEnd Spec.EndToEndSpec Model.EndToEndRef.
Extraction Language OCaml.
Extraction "C01_model.ml"
  N.add N.mul N.div_eucl
  ref_request_outcome ref_response_outcome
  expected_events norm_request norm_response norm_trailers request_wf.
