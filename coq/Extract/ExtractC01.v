From Coq Require Extraction.
From Coq Require Import ExtrOcamlBasic.
From H3V Require Import Base.Bytes Model.Varint Model.HttpCrate Model.Headers Model.EndToEnd Spec.EndToEndSpec
  Model.EndToEndLayers Model.EndToEndRef Model.EndToEndH3.
Extraction Language OCaml.
Extraction "C01_model.ml"
  N.add N.mul N.div_eucl
  h3_request_outcome h3_response_outcome mk_hmap mk_uri
  uri_scheme_str uri_authority uri_path_and_query pq_as_str
  ref_request_outcome ref_response_outcome
  expected_events norm_request norm_response norm_trailers request_wf group_fields.
