From Coq Require Extraction.
From Coq Require Import ExtrOcamlBasic.
From H3V Require Import Base.Bytes Spec.RFC9000 Spec.FrameVocab Spec.Frames Spec.RFC9114Settings Spec.UniStreams
  Model.Varint Model.FrameStream Model.AcceptRecv Model.ConnInner.
From H3V Require Model.Settings.
Extraction Language OCaml.
Extraction "C04_model.ml"
  N.add N.mul N.div_eucl N.ltb N.leb N.eqb
  new_drv step run_history built blocked conn_of world_of
  Settings.a_dg Settings.a_ec Settings.a_wt
  uni_spec allowed_errors must_fail rfc_receive.
