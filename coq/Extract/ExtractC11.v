From Coq Require Extraction.
From Coq Require Import ExtrOcamlBasic.
From H3V Require Import Base.Bytes Spec.PrefixInt Spec.RFC7541Huffman Spec.HuffmanKnown Spec.RFC9204Static Spec.FieldSize
  Model.PrefixInt Model.Huffman Model.PrefixString Model.Static Model.QpackStateless.
Extraction Language OCaml.
Extraction "C11_model.ml"
  N.add N.mul N.div_eucl N.ltb N.leb N.eqb len
  encode_stateless decode_stateless decompression_failed
  rfc_decode_static rfc_decode_static_bounded rfc_decode_static_lax section_size.
