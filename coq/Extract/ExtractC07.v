From Coq Require Extraction.
From Coq Require Import ExtrOcamlBasic.
From H3V Require Import Base.Bytes Spec.StreamScoped Model.StreamFaults.
Extraction Language OCaml.
Extraction "C07_model.ml"
  N.add N.mul N.div_eucl N.ltb N.leb N.eqb
  sh0 init_req step run observe observe_conn target
  classify sat conn_quiet healthy.
