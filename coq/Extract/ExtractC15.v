From Coq Require Extraction.
From Coq Require Import ExtrOcamlBasic.
From H3V Require Import Base.Bytes Spec.PrefixInt Spec.RFC7541Huffman Spec.HuffmanKnown
  Model.PrefixInt Model.Huffman Model.PrefixString Model.ChunkedBuf Model.ChunkedQpack.
Extraction Language OCaml.
Extraction "C15_model.ml"
  N.add N.mul N.div_eucl N.ltb N.leb N.eqb N.pow N.modulo N.div N.sub len
  pi_decode pi_encode hpack_decode hpack_encode ps_decode ps_encode pi_decode_buf ps_decode_buf
  rfc_pi_decode rfc_pi_encode cont_run rfc_huff_decode rfc_huff_encode
  long_ones_b long_ones_result.
