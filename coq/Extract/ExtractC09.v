From Coq Require Extraction.
From Coq Require Import ExtrOcamlBasic.
From H3V Require Import Base.Bytes Spec.GoawaySpec Spec.DrainSpec Model.Varint Model.Goaway Model.Ongoing Model.GoawayWrite.
Extraction Language OCaml.
Extraction "C09_model.ml"
  N.add N.mul N.div_eucl N.ltb N.leb N.eqb
  dstep world0 bstep bworld0 bw_w w_srv s_dead astate0 app_step drain_check drain_fail_at drain_okb.
