From Coq Require Extraction.
From Coq Require Import ExtrOcamlBasic.
From H3V Require Import Base.Bytes Spec.RFC9000 Spec.RFC9297 Model.Varint Model.Datagram Model.ChunkedBuf Model.ChunkedDatagram.
Extraction Language OCaml.
Extraction "C18_model.ml"
  N.add N.mul N.div_eucl N.ltb N.leb N.eqb N.min len
  dg_new dg_encode dg_remaining dg_chunk dg_advance dg_decode dg_view dg_tx dg_rx dg_decode_buf
  rfc_dg_bytes rfc_dg_decode H3_DATAGRAM_ERROR_rfc.
