From Coq Require Extraction.
From Coq Require Import ExtrOcamlBasic.
From H3V Require Import Base.Bytes Gen.GenSettings Spec.RFC9000 Spec.RFC9114Settings Model.Varint Model.Settings.
Extraction Language OCaml.
Extraction "C13_model.ml"
  N.add N.mul N.div_eucl N.ltb N.leb N.eqb N.min len
  st_insert st_get writebuf_control wb_hdr wb_pos wb_remaining wb_chunk wb_advance
  apply_settings default_applied frame_decode st_decode
  client_builder server_builder setup_control
  init_peer settings_view on_control_frame recv_control handle_connection_error builder_config build_twice default_config
  opt_value opt_default
  rfc_vi rfc_vi_enc rfc_varint rfc_settings rfc_receive rfc_apply rfc_defaults rfc_control_stream_start rfc_config_pairs
  rfc_known_ids rfc_reserved_ids rfc_has_dup rfc_ids rfc_in rfc_is_grease
  rfc_H3_SETTINGS_ERROR rfc_H3_INTERNAL_ERROR rfc_H3_FRAME_UNEXPECTED.
