From Coq Require Extraction.
From Coq Require Import ExtrOcamlBasic.
From H3V Require Import Base.Bytes Spec.RFC9000 Spec.RFC9114Wire Model.Varint Model.Datagram Model.FrameEnc
  Model.WriteBuf Model.Writers.
Extraction Language OCaml.
Extraction "C14_model.ml"
  N.add N.mul N.div_eucl N.ltb N.leb N.eqb N.min len
  wb_from_stream_type wb_from_uni wb_from_bidi wb_from_frame wb_from_pair
  wb_remaining wb_chunk wb_advance wb_view wb_chunks_vectored wb_copy_to_bytes
  setup step run stream_wire
  rfc_varint rfc_frame rfc_judge_uni rfc_judge_request verdict_ok rfc_reserved rfc_read_varint rfc_read_frame rfc_frames rfc_settings_pairs rfc_h2_setting.
