From Coq Require Extraction.
From Coq Require Import ExtrOcamlBasic.
From H3V Require Import Base.Bytes Spec.C06Liveness.
Extraction Language OCaml.
Extraction "C06_model.ml"
  N.add N.mul N.div_eucl N.eqb Datatypes.length
  rx_state lost stopped mentioned must_complete must_complete_bp acceptable.
