From Coq Require Extraction.
From Coq Require Import ExtrOcamlBasic.
From H3V Require Import Base.Bytes Gen.GenHeaders Model.HttpCrate Model.Headers Spec.WellFormed Spec.HttpParseable.
Extraction Language OCaml.
Extraction "C12_model.ml"
  N.add N.mul N.div_eucl N.ltb N.leb N.eqb N.of_nat len
  hname_ok hvalue_ok method_ok status_parse status_as_str scheme_ok authority_ok path_parse
  pq_as_str pq_path pq_query_str utf8_valid protocol_from_str protocol_as_str try_with_capacity_ok
  uri_from_parts uri_scheme_str uri_authority uri_path_and_query hm_append hm_iter
  try_from into_request_parts into_response_parts into_fields
  resolve_request recv_response recv_trailers send_request send_response send_trailers
  wf_requestb wf_responseb wf_trailersb http_parseable H3_MESSAGE_ERROR_rfc.
