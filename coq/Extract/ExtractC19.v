From Coq Require Extraction.
From Coq Require Import ExtrOcamlBasic.
From H3V Require Import Base.Bytes Spec.RFC9000 Spec.WTSpec Model.Varint Model.WebTransport.
Extraction Language OCaml.
Extraction "C19_model.ml"
  N.add N.mul N.div_eucl N.ltb N.leb N.eqb N.min len
  session_of_stream uni_header bidi_header wb_of wb_send wb_chunk
  uni_run bidi_run brs_split brs_tokio_read
  wt_session_of_connect wt_stream_bytes wt_expect_uni wt_expect_bidi WT_BIDI_SIGNAL WT_UNI_TYPE.
