From Coq Require Extraction.
From Coq Require Import ExtrOcamlBasic.
From H3V Require Import Base.Bytes Spec.RFC9000 Model.Varint Model.VarintExtra Model.ChunkedBuf Model.ChunkedVarint.
Extraction Language OCaml.
Extraction "C16_model.ml"
  N.add N.mul N.div_eucl N.ltb N.leb N.eqb len
  vi_size vi_encode vi_from_u64 vi_try_from_u64 vi_try_from_usize push_id_try_from vi_write_var vi_get_var vi_encoded_size vi_decode
  sid_initiator sid_dir sid_index sid_is_request sid_is_push sid_try_from sid_add
  sess_try_from sess_encode sess_decode sid_encode st_encode st_decode sid_display
  vi_decode_buf vi_get_var_buf st_decode_buf sess_decode_buf
  rfc_vi_len rfc_vi_value rfc_vi_shortest rfc_vi_enc
  rfc_sid_client rfc_sid_bidi rfc_sid_index rfc_sid_make rfc_max_index.
