(* Model of h3-quinn/src/lib.rs: SendStream, RecvStream, BidiStream, the id functions, the three
   error-conversion functions and the open/accept/close wrappers, against an abstract Quinn
   (Spec/QuinnApi.v: an oracle).  The match arms of the conversion functions and the decision points of
   the state machines are read from Gen.GenQuinn (regenerated from the Rust source on every run).

   Panic sites: 30-33 conversion tables (33 = the `panic!` arm for IllegalOrderedRead; 34 = an open/accept/close wrapper not recognised), 40 send_id
   `expect("invalid stream id")`, 41 poll_send while writing, 50 RecvStream::new `expect`, 51 the initial
   `unreachable!()` future polled, 52 the read future polled after completion, 53 stop_sending
   `expect("invalid error_code")`, 54 recv_id `unwrap` on a moved-out stream, 55 recv_id `expect`,
   56 close `expect("error code VarInt")`, 57 advance past the end of the buffer,
   58 reset with an unencodable code when the `unwrap_or(VarInt::MAX)` fallback is absent. *)
From H3V Require Import Base.Bytes Gen.GenQuinn Model.Varint Spec.QuinnApi.

(* ---------------------------------------------------------------- error conversion *)

Definition conn_tag (e : qconn_err) : N :=
  match e with
  | QVersionMismatch => qc_VersionMismatch | QTransportError _ => qc_TransportError
  | QConnectionClosed _ => qc_ConnectionClosed | QApplicationClosed _ => qc_ApplicationClosed
  | QConnReset => qc_Reset | QTimedOut => qc_TimedOut | QLocallyClosed => qc_LocallyClosed
  | QCidsExhausted => qc_CidsExhausted
  end.
(* the code bound by the arm's pattern (`ApplicationClosed(application_close)` etc.) *)
Definition conn_code (e : qconn_err) : option N :=
  match e with
  | QTransportError c | QConnectionClosed c | QApplicationClosed c => Some c
  | _ => None
  end.
Definition read_tag (e : qread_err) : N :=
  match e with
  | QRReset _ => qr_Reset | QRConnectionLost _ => qr_ConnectionLost | QRClosedStream => qr_ClosedStream
  | QRIllegalOrderedRead => qr_IllegalOrderedRead | QRZeroRttRejected => qr_ZeroRttRejected
  end.
Definition write_tag (e : qwrite_err) : N :=
  match e with
  | QWStopped _ => qw_Stopped | QWConnectionLost _ => qw_ConnectionLost | QWClosedStream => qw_ClosedStream
  | QWZeroRttRejected => qw_ZeroRttRejected
  end.

Definition code_of (src : codesrc) (bound : option N) : option N :=
  match src with
  | CodePassed => bound
  | CodeConst n => Some n
  | CodeAbsent | CodeViaConn => None
  end.

(* fn convert_connection_error *)
Definition convert_connection_error (e : qconn_err) : res unit h3_conn_err :=
  match assoc (conn_tag e) conn_arms with
  | None => Panic 30
  | Some (target, (src, _)) =>
      if target =? h_ApplicationClose then
        match code_of src (conn_code e) with Some c => Ok (HApplicationClose c) | None => Panic 31 end
      else if target =? h_Timeout then Ok HTimeout
      else if target =? h_InternalError then Ok HInternalError
      else if target =? h_Undefined then Ok (HUndefined e)
      else Panic 32
  end.

Definition lift_conn (r : res unit h3_conn_err) : res unit h3_stream_err :=
  match r with Ok c => Ok (HConnErr c) | Err u => Err u | Panic s => Panic s end.

(* fn convert_read_error_to_stream_error *)
Definition convert_read_error (e : qread_err) : res unit h3_stream_err :=
  match assoc (read_tag e) read_arms with
  | None => Panic 30
  | Some (target, (src, _)) =>
      if target =? h_StreamTerminated then
        match code_of src (match e with QRReset c => Some c | _ => None end) with
        | Some c => Ok (HStreamTerminated c) | None => Panic 31 end
      else if target =? h_ConnectionErrorIncoming then
        match e with QRConnectionLost ce => lift_conn (convert_connection_error ce) | _ => Panic 32 end
      else if target =? h_Unknown then Ok (HUnknownRead e)
      else if target =? h_PanicArm then Panic 33
      else Panic 32
  end.

(* fn convert_write_error_to_stream_error *)
Definition convert_write_error (e : qwrite_err) : res unit h3_stream_err :=
  match assoc (write_tag e) write_arms with
  | None => Panic 30
  | Some (target, (src, _)) =>
      if target =? h_StreamTerminated then
        match code_of src (match e with QWStopped c => Some c | _ => None end) with
        | Some c => Ok (HStreamTerminated c) | None => Panic 31 end
      else if target =? h_ConnectionErrorIncoming then
        match e with QWConnectionLost ce => lift_conn (convert_connection_error ce) | _ => Panic 32 end
      else if target =? h_Unknown then Ok (HUnknownWrite e)
      else if target =? h_PanicArm then Panic 33
      else Panic 32
  end.

(* ---- h3-quinn/src/datagram.rs *)
Definition h3conn_tag (e : h3_conn_err) : N :=
  match e with
  | HApplicationClose _ => h_ApplicationClose | HTimeout => h_Timeout
  | HInternalError => h_InternalError | HUndefined _ => h_Undefined
  end.

(* fn convert_h3_error_to_datagram_error (h3_datagram::ConnectionErrorIncoming is a re-export of h3's) *)
Definition convert_h3_error_to_datagram_error (e : h3_conn_err) : res unit h3_conn_err :=
  match assoc (h3conn_tag e) h3dg_arms with
  | None => Panic 30
  | Some (target, passed) =>
      if target =? h_ApplicationClose then
        match e with HApplicationClose c => if passed then Ok (HApplicationClose c) else Panic 31 | _ => Panic 31 end
      else if target =? h_Timeout then Ok HTimeout
      else if target =? h_InternalError then Ok HInternalError
      else if target =? h_Undefined then
        match e with HUndefined o => if passed then Ok (HUndefined o) else Panic 31 | _ => Panic 31 end
      else Panic 32
  end.

Definition dgram_tag (e : qdgram_err) : N :=
  match e with
  | QDUnsupportedByPeer => qd_UnsupportedByPeer | QDDisabled => qd_Disabled
  | QDTooLarge => qd_TooLarge | QDConnectionLost _ => qd_ConnectionLost
  end.

(* fn convert_send_datagram_error *)
Definition convert_send_datagram_error (e : qdgram_err) : res unit h3_dgram_err :=
  match assoc (dgram_tag e) dgram_arms with
  | None => Panic 30
  | Some (target, via) =>
      if target =? hd_NotAvailable then Ok HDNotAvailable
      else if target =? hd_TooLarge then Ok HDTooLarge
      else if target =? hd_ConnectionError then
        match e with
        | QDConnectionLost ce =>
            if via then
              match convert_connection_error ce with
              | Ok c => match convert_h3_error_to_datagram_error c with
                        | Ok c' => Ok (HDConnectionError c') | Err u => Err u | Panic p => Panic p end
              | Err u => Err u
              | Panic p => Panic p
              end
            else Panic 31
        | _ => Panic 32
        end
      else Panic 32
  end.

(* SendDatagramHandler::send_datagram: `view` is what remains of the EncodedDatagram handed over;
   the result is the datagram Quinn is given *)
Definition send_datagram (view : bytes) (answer : option qdgram_err) : res h3_dgram_err bytes :=
  match answer with
  | None => Ok (if send_datagram_whole then view else [])
  | Some e => match convert_send_datagram_error e with Ok x => Err x | Err _ => Panic 32 | Panic p => Panic p end
  end.

(* RecvDatagramHandler::poll_incoming_datagram *)
Definition poll_incoming_datagram (a : poll (res qconn_err bytes)) : poll (res h3_conn_err bytes) :=
  match a with
  | Pending => Pending
  | Ready (Ok b) => Ready (Ok b)
  | Ready (Err e) => Ready (match convert_connection_error e with Ok c => Err c | Err _ => Panic 32 | Panic p => Panic p end)
  | Ready (Panic p) => Ready (Panic p)
  end.

(* an API result of type Result<A, StreamErrorIncoming>, with panics *)
Definition sres (A : Type) := res h3_stream_err A.
Definition of_conv {A} (r : res unit h3_stream_err) : sres A :=
  match r with Ok e => Err e | Err _ => Panic 32 | Panic s => Panic s end.

(* ---------------------------------------------------------------- the buffer handed to send_data *)

(* WriteBuf<B> seen through `Buf`: the encoded header followed by the payload's chunks.
   chunk() is the first chunk; advance crosses chunk boundaries (header into payload) and panics past the end. *)
Definition wbuf := list bytes.
Definition wb_view (b : wbuf) : bytes := concat b.
Definition wb_has_remaining (b : wbuf) : bool := negb (len (wb_view b) =? 0).
Definition wb_chunk (b : wbuf) : bytes := match b with [] => [] | c :: _ => c end.
Fixpoint wb_advance (n : N) (b : wbuf) : option wbuf :=
  match b with
  | [] => if n =? 0 then Some [] else None
  | c :: r => if n <? len c then Some (skipn (N.to_nat n) c :: r) else wb_advance (n - len c) r
  end.

(* ---------------------------------------------------------------- SendStream *)

Record send_stream := { s_q : qsend; s_writing : option wbuf }.

Definition send_new (q : qsend) : send_stream := {| s_q := q; s_writing := None |}.

Definition q_accept (q : qsend) (bs : bytes) : qsend :=
  {| qs_id := qs_id q; qs_log := qs_log q ++ bs; qs_finished := qs_finished q; qs_reset := qs_reset q |}.

Definition refusal_error : sres unit :=
  if send_data_refusal =? h_InternalError then Err (HConnErr HInternalError)
  else if send_data_refusal =? h_Timeout then Err (HConnErr HTimeout)
  else Panic 32.

(* fn send_data; `guard` = the `if self.writing.is_some() { return Err(..) }` block is present *)
Definition send_data_with (guard : bool) (b : wbuf) (s : send_stream) : sres unit * send_stream :=
  match s_writing s with
  | Some _ =>
      if guard then (refusal_error, s)
      else (Ok tt, {| s_q := s_q s; s_writing := Some b |})
  | None => (Ok tt, {| s_q := s_q s; s_writing := Some b |})
  end.
Definition send_data := send_data_with send_data_guard.

(* the `while data.has_remaining()` loop of poll_ready; one oracle answer per poll_write call.
   An exhausted oracle is a Quinn that stays blocked. *)
Fixpoint write_loop (o : list wanswer) (q : qsend) (data : wbuf)
  : poll (sres unit) * qsend * option wbuf * list wanswer :=
  if wb_has_remaining data then
    match o with
    | [] => (Pending, q, Some data, [])
    | WBlocked :: o' => (Pending, q, Some data, o')
    | WFail e :: o' =>
        (* `self.writing = None; return Ready(Err(..))` when the buffer is given up on a write error; with `?` it stays *)
        (Ready (of_conv (convert_write_error e)), q, (if poll_ready_gives_up_on_error then None else Some data), o')
    | WAccept k :: o' =>
        let c := wb_chunk data in
        let written := N.min k (len c) in
        let q' := q_accept q (firstn (N.to_nat written) c) in
        match wb_advance (if poll_ready_advances_by_written then written else 0) data with
        | None => (Ready (Panic 57), q', Some data, o')
        | Some data' => write_loop o' q' data'
        end
    end
  else (Ready (Ok tt), q, (if poll_ready_clears_writing then None else Some data), o).

(* fn poll_ready *)
Definition poll_ready (o : list wanswer) (s : send_stream) : poll (sres unit) * send_stream * list wanswer :=
  match s_writing s with
  | None => (Ready (Ok tt), s, o)
  | Some data =>
      match write_loop o (s_q s) data with
      | (r, q', w', o') => (r, {| s_q := q'; s_writing := w' |}, o')
      end
  end.

(* quinn's finish() fails with ClosedStream once finished or reset *)
Definition q_finish (s : send_stream) : poll (sres unit) * send_stream :=
  let q := s_q s in
  if qs_finished q || (match qs_reset q with Some _ => true | None => false end) then (Ready (Err HUnknownFinish), s)
  else (Ready (Ok tt), {| s_q := {| qs_id := qs_id q; qs_log := qs_log q; qs_finished := true; qs_reset := qs_reset q |};
                         s_writing := s_writing s |}).

(* fn poll_finish; `drains` = the `if self.writing.is_some() { ready!(self.poll_ready(cx))?; }` block is present:
   a buffer accepted by send_data is written out (Pending while Quinn pends, its error returned) before finish() *)
Definition poll_finish_with (drains : bool) (o : list wanswer) (s : send_stream)
  : poll (sres unit) * send_stream * list wanswer :=
  match (if drains then s_writing s else None) with
  | Some _ =>
      match poll_ready o s with
      | (Ready (Ok _), s1, o1) => let '(r, s2) := q_finish s1 in (r, s2, o1)
      | (other, s1, o1) => (other, s1, o1)
      end
  | None => let '(r, s2) := q_finish s in (r, s2, o)
  end.
Definition poll_finish := poll_finish_with poll_finish_drains.

(* fn reset: VarInt::from_u64(code).unwrap_or(VarInt::MAX); the first reset is the one Quinn keeps *)
Definition reset_code (code : N) : res unit N :=
  if code <=? varint_max then Ok code else if reset_saturates then Ok varint_max else Panic 58.
Definition send_reset (code : N) (s : send_stream) : res unit unit * send_stream :=
  match reset_code code with
  | Ok c =>
      let q := s_q s in
      (Ok tt, {| s_q := {| qs_id := qs_id q; qs_log := qs_log q; qs_finished := qs_finished q;
                           qs_reset := match qs_reset q with Some c0 => Some c0 | None => Some c end |};
                 s_writing := s_writing s |})
  | Err u => (Err u, s)
  | Panic p => (Panic p, s)
  end.

(* Dropping the adapter's SendStream ends every program.  h3-quinn has no `impl Drop` of its own (the translator
   compares the list of impl blocks and functions of lib.rs with its snapshot: a new impl is an AnchorLost), so
   only Quinn's own drop runs: a stream that was neither finished nor reset is implicitly finished; nothing
   is reset, nothing that was handed over is withdrawn.  What is left in Quinn: *)
Definition send_drop (s : send_stream) : qsend :=
  let q := s_q s in
  if qs_finished q || (match qs_reset q with Some _ => true | None => false end) then q
  else {| qs_id := qs_id q; qs_log := qs_log q; qs_finished := true; qs_reset := qs_reset q |}.

(* fn send_id *)
Definition send_id (s : send_stream) : res unit N :=
  match sid_try_from (qs_id (s_q s)) with Some id => Ok id | None => Panic 40 end.

(* fn poll_send (SendStreamUnframed): one poll_write of buf.chunk(); `guard` = the
   `if self.writing.is_some() { panic!(..) }` block is present (without it the raw bytes go out while the
   framed buffer is half written) *)
Definition poll_send_with (guard : bool) (o : list wanswer) (buf : wbuf) (s : send_stream)
  : poll (sres N) * send_stream * wbuf * list wanswer :=
  if (match s_writing s with Some _ => guard | None => false end) then (Ready (Panic 41), s, buf, o)
  else
    match o with
    | [] => (Pending, s, buf, [])
    | WBlocked :: o' => (Pending, s, buf, o')
    | WFail e :: o' => (Ready (of_conv (convert_write_error e)), s, buf, o')
    | WAccept k :: o' =>
        let c := wb_chunk buf in
        let written := N.min k (len c) in
        let s' := {| s_q := q_accept (s_q s) (firstn (N.to_nat written) c); s_writing := s_writing s |} in
        match wb_advance written buf with
        | None => (Ready (Panic 57), s', buf, o')
        | Some buf' => (Ready (Ok written), s', buf', o')
        end
    end.
Definition poll_send := poll_send_with poll_send_guard.

(* a program over one send stream *)
Inductive send_op :=
| OSendData (b : wbuf)
| OPollReady
| OPollFinish
| OReset (code : N)
| OSendId
| OPollSend (buf : wbuf).

Inductive send_result :=
| SRUnit (r : sres unit)            (* send_data *)
| SRPoll (r : poll (sres unit))     (* poll_ready, poll_finish *)
| SRId (r : res unit N)
| SRNone (r : res unit unit)        (* reset *)
| SRSend (r : poll (sres N)).      (* poll_send *)

Definition send_step (op : send_op) (s : send_stream) (o : list wanswer) : send_result * send_stream * list wanswer :=
  match op with
  | OSendData b => let '(r, s') := send_data b s in (SRUnit r, s', o)
  | OPollReady => let '(r, s', o') := poll_ready o s in (SRPoll r, s', o')
  | OPollFinish => let '(r, s', o') := poll_finish o s in (SRPoll r, s', o')
  | OReset c => let '(r, s') := send_reset c s in (SRNone r, s', o)
  | OSendId => (SRId (send_id s), s, o)
  | OPollSend buf => let '(r, s', _, o') := poll_send o buf s in (SRSend r, s', o')
  end.

Fixpoint send_run (ops : list send_op) (s : send_stream) (o : list wanswer)
  : list (send_op * send_result) * send_stream * list wanswer :=
  match ops with
  | [] => ([], s, o)
  | op :: ops' =>
      let '(r, s', o') := send_step op s o in
      let '(tr, s'', o'') := send_run ops' s' o' in
      ((op, r) :: tr, s'', o'')
  end.

(* `future::poll_fn(|cx| stream.poll_ready(cx)).await`: poll again after every Pending, as long as the
   oracle has answers left *)
Fixpoint drive_ready (fuel : nat) (o : list wanswer) (s : send_stream) : poll (sres unit) * send_stream * list wanswer :=
  match fuel with
  | O => (Pending, s, o)
  | S f =>
      match poll_ready o s with
      | (Pending, s', o') => match o' with [] => (Pending, s', []) | _ => drive_ready f o' s' end
      | r => r
      end
  end.

(* ---------------------------------------------------------------- RecvStream *)

(* the ReusableBoxFuture: the initial `async { unreachable!() }`, a read that owns the stream, or a
   completed `async move` block (polling it again panics) *)
Inductive fut := FutInit | FutReading (s : qrecv) | FutDone.

(* r_reset: the `reset` field - the code of the peer's RESET_STREAM once a read has reported it *)
Record recv_stream := { r_id : N; r_stream : option qrecv; r_fut : fut; r_pending_stop : option N; r_reset : option N }.

(* RecvStream::new *)
Definition recv_new (q : qrecv) : res unit recv_stream :=
  match sid_try_from (qr_id q) with
  | Some id => Ok {| r_id := id; r_stream := Some q; r_fut := FutInit; r_pending_stop := None; r_reset := None |}
  | None => Panic 50
  end.

Definition q_stop (c : N) (q : qrecv) : qrecv := {| qr_id := qr_id q; qr_stops := qr_stops q ++ [c] |}.

Definition read_result (a : ranswer) : sres (option bytes) :=
  match a with
  | RChunk b => Ok (Some b)
  | RFin => Ok None
  | RFail e => of_conv (convert_read_error e)
  | RBlocked => Panic 32
  end.

(* fn poll_data; one oracle answer per poll of the read future (none left = still blocked).
   `memo` = the reset memo is present: `if let Some(error_code) = self.reset { return Ready(Err(StreamTerminated)) }`
   first thing (Quinn is not asked), and `if let Err(ReadError::Reset(c)) = &chunk { self.reset = Some(c) }` after the
   stream has been put back, before the chunk is converted *)
Definition poll_data_with (memo : bool) (o : list ranswer) (r : recv_stream)
  : poll (sres (option bytes)) * recv_stream * list ranswer :=
  match (if memo then r_reset r else None) with
  | Some c => (Ready (Err (HStreamTerminated c)), r, o)
  | None =>
  (* if let Some(mut stream) = self.stream.take() { self.read_chunk_fut.set(..) } *)
  let f := match r_stream r with Some q => FutReading q | None => r_fut r end in
  match f with
  | FutInit => (Ready (Panic 51), {| r_id := r_id r; r_stream := None; r_fut := f; r_pending_stop := r_pending_stop r; r_reset := r_reset r |}, o)
  | FutDone => (Ready (Panic 52), {| r_id := r_id r; r_stream := None; r_fut := f; r_pending_stop := r_pending_stop r; r_reset := r_reset r |}, o)
  | FutReading q =>
      let blocked := {| r_id := r_id r; r_stream := None; r_fut := FutReading q; r_pending_stop := r_pending_stop r; r_reset := r_reset r |} in
      match o with
      | [] => (Pending, blocked, [])
      | RBlocked :: o' => (Pending, blocked, o')
      | a :: o' =>
          let q' := match r_pending_stop r with
                    | Some c => if poll_data_delivers_stop then q_stop c q else q
                    | None => q
                    end in
          let ps := if poll_data_delivers_stop then None else r_pending_stop r in
          (* `self.stream = Some(stream)` happens before the `?` on the chunk: also after a failed read *)
          let back := if poll_data_puts_back
                      then (match a with RFail _ => poll_data_puts_back_on_error | _ => true end)
                      else false in
          let rs := match a with
                    | RFail (QRReset c) => if memo then Some c else r_reset r
                    | _ => r_reset r
                    end in
          (Ready (read_result a),
           {| r_id := r_id r; r_stream := (if back then Some q' else None); r_fut := FutDone; r_pending_stop := ps; r_reset := rs |},
           o')
      end
  end
  end.
Definition poll_data := poll_data_with poll_data_reset_memo.

(* fn stop_sending *)
Definition stop_sending (code : N) (r : recv_stream) : res unit unit * recv_stream :=
  if varint_max <? code then (Panic 53, r)
  else match r_stream r with
       | Some q => (Ok tt, {| r_id := r_id r; r_stream := Some (q_stop code q); r_fut := r_fut r; r_pending_stop := r_pending_stop r;
                              r_reset := r_reset r |})
       | None =>
           if stop_sending_defers
           then (Ok tt, {| r_id := r_id r; r_stream := None; r_fut := r_fut r; r_pending_stop := Some code; r_reset := r_reset r |})
           else (Ok tt, r)
       end.

(* fn recv_id; `cached` = it returns `self.id` (otherwise it unwraps `self.stream`) *)
Definition recv_id_with (cached : bool) (r : recv_stream) : res unit N :=
  if cached then Ok (r_id r)
  else match r_stream r with
       | None => Panic 54
       | Some q => match sid_try_from (qr_id q) with Some id => Ok id | None => Panic 55 end
       end.
Definition recv_id := recv_id_with recv_id_cached.

Inductive recv_op :=
| OPollData
| OStopSending (code : N)
| ORecvId.

Inductive recv_result :=
| RRData (r : poll (sres (option bytes)))
| RRStop (r : res unit unit)
| RRId (r : res unit N).

Definition recv_step (op : recv_op) (r : recv_stream) (o : list ranswer) : recv_result * recv_stream * list ranswer :=
  match op with
  | OPollData => let '(x, r', o') := poll_data o r in (RRData x, r', o')
  | OStopSending c => let '(x, r') := stop_sending c r in (RRStop x, r', o)
  | ORecvId => (RRId (recv_id r), r, o)
  end.

Fixpoint recv_run (ops : list recv_op) (r : recv_stream) (o : list ranswer)
  : list (recv_op * recv_result) * recv_stream * list ranswer :=
  match ops with
  | [] => ([], r, o)
  | op :: ops' =>
      let '(x, r', o') := recv_step op r o in
      let '(tr, r'', o'') := recv_run ops' r' o' in
      ((op, x) :: tr, r'', o'')
  end.

(* the quinn::RecvStream wherever it currently lives: in `self.stream` or inside the read future *)
Definition underlying (r : recv_stream) : option qrecv :=
  match r_stream r with
  | Some q => Some q
  | None => match r_fut r with FutReading q => Some q | _ => None end
  end.

(* ---------------------------------------------------------------- BidiStream, open / accept / close *)

Record bidi_stream := { b_send : send_stream; b_recv : recv_stream }.

(* the two `impl quic::OpenStreams`: for Connection itself and for the OpenStreams handle that
   `Connection::opener()` returns (and its clones) - the one h3's client and server really use *)
Inductive opener_impl := ViaConnection | ViaOpener.

(* a wrapper whose whole body was recognised by the translator passes Quinn's ConnectionError through
   convert_connection_error *)
Definition site_error (site : N) (e : qconn_err) : res unit h3_conn_err :=
  match assoc site site_converts with
  | Some true => convert_connection_error e
  | _ => Panic 34
  end.
Definition open_bidi_site (w : opener_impl) : N :=
  match w with ViaConnection => site_conn_poll_open_bidi | ViaOpener => site_opener_poll_open_bidi end.
Definition open_send_site (w : opener_impl) : N :=
  match w with ViaConnection => site_conn_poll_open_send | ViaOpener => site_opener_poll_open_send end.
Definition close_site (w : opener_impl) : N :=
  match w with ViaConnection => site_conn_close | ViaOpener => site_opener_close end.

(* poll_open_bidi / poll_accept_bidi once Quinn's open_bi()/accept_bi() future has an answer *)
Definition bidi_new (id : N) : res unit bidi_stream :=
  match recv_new (qrecv_new id) with
  | Ok r => Ok {| b_send := send_new (qsend_new id); b_recv := r |}
  | Err u => Err u
  | Panic p => Panic p
  end.
Definition open_bidi (w : opener_impl) (a : res qconn_err N) : sres bidi_stream :=
  match a with
  | Ok id => match bidi_new id with Ok b => Ok b | Err _ => Panic 32 | Panic p => Panic p end
  | Err e => of_conv (lift_conn (site_error (open_bidi_site w) e))
  | Panic p => Panic p
  end.
Definition open_send (w : opener_impl) (a : res qconn_err N) : sres send_stream :=
  match a with
  | Ok id => Ok (send_new (qsend_new id))
  | Err e => of_conv (lift_conn (site_error (open_send_site w) e))
  | Panic p => Panic p
  end.
Definition accept_recv (a : res qconn_err N) : res h3_conn_err recv_stream :=
  match a with
  | Ok id => match recv_new (qrecv_new id) with Ok r => Ok r | Err _ => Panic 32 | Panic p => Panic p end
  | Err e => match site_error site_conn_poll_accept_recv e with Ok c => Err c | Err _ => Panic 32 | Panic p => Panic p end
  | Panic p => Panic p
  end.
Definition accept_bidi (a : res qconn_err N) : res h3_conn_err bidi_stream :=
  match a with
  | Ok id => match bidi_new id with Ok b => Ok b | Err _ => Panic 32 | Panic p => Panic p end
  | Err e => match site_error site_conn_poll_accept_bidi e with Ok c => Err c | Err _ => Panic 32 | Panic p => Panic p end
  | Panic p => Panic p
  end.
(* fn close: the code Quinn is given *)
Definition conn_close (w : opener_impl) (code : N) : res unit N :=
  match assoc (close_site w) site_converts with
  | Some true => if varint_max <? code then Panic 56 else Ok code
  | _ => Panic 34
  end.
