(* Model of h3/src/proto/varint.rs and of the StreamId arithmetic in proto/stream.rs.
   All thresholds, tags, masks and shifts come from the generated Gen/GenVarint.v. *)
From H3V Require Import Base.Bytes Gen.GenVarint.

(* first row whose power bounds x *)
Fixpoint first_row {V} (x : N) (rows : list (N * V)) : option V :=
  match rows with
  | [] => None
  | (p, v) :: r => if x <? 2 ^ p then Some v else first_row x r
  end.

(* VarInt::size: None is the `unreachable!` arm *)
Definition vi_size (x : N) : option N := first_row x size_rows.

(* VarInt::encode; `x as uW` truncation and the tag `|` are explicit *)
Definition vi_encode (x : N) : option bytes :=
  match first_row x enc_rows with
  | None => None
  | Some (width, (tag, sh)) =>
      Some (be_bytes (N.to_nat (width / 8)) (N.lor (N.shiftl tag sh mod 2 ^ width) (x mod 2 ^ width)))
  end.

(* VarInt::from_u64 *)
Definition vi_from_u64 (x : N) : option N :=
  if (if from_u64_strict then x <? 2 ^ from_u64_pow else x <=? 2 ^ from_u64_pow) then Some x else None.

(* VarInt::encoded_size(first) *)
Definition vi_encoded_size (first : N) : N := 2 ^ (N.shiftr first encsize_shift).

Definition vi_max : N := 2 ^ max_shift - 1.

(* `impl TryFrom<u64> for VarInt`, `impl TryFrom<usize> for VarInt` (x as u64 on a 64-bit target) and
   `PushId::try_from(u64)`: the generated facts say whether each delegates to from_u64 *)
Definition vi_try_from_u64 (x : N) : option N :=
  if try_from_u64_delegates then vi_from_u64 x else Some x.
Definition vi_try_from_usize (x : N) : option N :=
  if try_from_usize_delegates then vi_try_from_u64 x else Some x.
Definition push_id_try_from (x : N) : option N :=
  if push_id_delegates then vi_try_from_u64 x else Some x.

(* VarInt::decode on the remaining-bytes view.  Result and the view afterwards
   (the first byte is consumed even when the tail is too short, as `get_u8` does). *)
Definition vi_decode (bs : bytes) : res N N * bytes :=
  match bs with
  | [] => (Err dec_empty_err, [])
  | b0 :: r =>
      let tag := N.shiftr b0 dec_tag_shift in
      let v0 := N.land b0 dec_mask in
      match assoc tag dec_rows with
      | None => (Panic 1, r)
      | Some (need, (errc, (copy, total))) =>
          if len r <? need then (Err errc, r)
          else if len r <? copy then (Panic 2, r)
          else (Ok (be_value (firstn (N.to_nat total)
                                 (v0 :: firstn (N.to_nat copy) r ++ repeat 0 8))),
                skipn (N.to_nat copy) r)
      end
  end.

(* BufMutExt::write_var (both copies: proto/coding.rs and proto/varint.rs): from_u64(x).unwrap().encode;
   None models the unwrap panic.  BufExt::get_var is VarInt::decode (generated fact). *)
Definition vi_write_var (x : N) : option bytes :=
  if write_var_is_checked_encode then
    match vi_from_u64 x with Some v => vi_encode v | None => None end
  else vi_encode (x mod 2 ^ 32).
Definition vi_get_var (bs : bytes) : res N N * bytes :=
  if get_var_is_decode then vi_decode bs else (Err 0, bs).

(* StreamId *)
Inductive side := Client | Server.
Inductive dir := Bi | Uni.

Definition sid_initiator (id : N) : side :=
  if N.land id sid_init_mask =? 0
  then (if sid_init_zero_is_client then Client else Server)
  else (if sid_init_zero_is_client then Server else Client).
Definition sid_dir (id : N) : dir :=
  if N.land id sid_dir_mask =? 0
  then (if sid_dir_zero_is_bi then Bi else Uni)
  else (if sid_dir_zero_is_bi then Uni else Bi).
Definition sid_index (id : N) : N := N.shiftr id sid_index_shift.
Definition side_n (s : side) : N := match s with Client => 0 | Server => 1 end.
Definition dir_n (d : dir) : N := match d with Bi => 0 | Uni => 1 end.
Definition side_eqb a b := side_n a =? side_n b.
Definition dir_eqb a b := dir_n a =? dir_n b.
Definition sid_new (index : N) (d : dir) (s : side) : N :=
  N.lor (N.lor (N.shiftl index sid_new_index_shift mod 2 ^ 64) (N.shiftl (dir_n d) sid_new_dir_shift)) (side_n s).
Definition sid_is_request (id : N) : bool :=
  if is_request_bi_client then dir_eqb (sid_dir id) Bi && side_eqb (sid_initiator id) Client else false.
Definition sid_is_push (id : N) : bool :=
  if is_push_uni_server then dir_eqb (sid_dir id) Uni && side_eqb (sid_initiator id) Server else false.
Definition sid_try_from (v : N) : option N :=
  if (if sid_try_from_strict_gt then vi_max <? v else vi_max <=? v) then None else Some v.
(* `StreamId + usize`: rhs < 2^64, saturating_add on u64, capped at MAX >> k *)
Definition sid_add (id rhs : N) : N :=
  let index := N.min (N.min (sid_index id + rhs) (2 ^ 64 - 1)) (N.shiftr vi_max sid_add_cap_shift) in
  sid_new index (sid_dir id) (sid_initiator id).
