(* C06: the receive path for the bytes of ONE frame, as the composition of the component models (no new
   behaviour is modelled here): Frame::decode (Model/FrameDec.v) -> for a HEADERS frame decode_stateless
   (Model/QpackStateless.v) -> Header::try_from and the role's message constructor (Model/Headers.v);
   for a SETTINGS frame Settings::decode (Model/Settings.v).  This is the order in which
   server/request.rs resolve_request, client/stream.rs recv_response and connection.rs poll_recv_trailers /
   poll_control call them on what FrameStream::poll_next hands out.  A Panic of any stage is RpPanic. *)
From H3V Require Import Base.Bytes Spec.FrameVocab Model.Varint Model.FrameDec Model.PrefixInt Model.Huffman
  Model.PrefixString Model.Static Model.QpackStateless Model.HttpCrate Model.Headers Model.Settings.

Inductive rp_role := RpServerRequest | RpClientResponse | RpTrailers.

Inductive rp_message :=
| RpReq (o : outcome request)
| RpResp (o : outcome response)
| RpTrl (o : outcome hmap).

Inductive rp_out :=
| RpFrameRefused (e : ferr)                   (* incomplete / unknown / malformed / forbidden frame *)
| RpQpackRefused (e : dec_err)                (* QPACK_DECOMPRESSION_FAILED or HeaderTooLong *)
| RpMessage (m : rp_message)                  (* delivered or refused message head / trailers *)
| RpSettings (r : res st_err fsettings)       (* SETTINGS entries or H3_SETTINGS_ERROR *)
| RpFrame (f : frame)                         (* any other frame: handed to the stream state machines *)
| RpPanic (site : N).

Definition rp_message_of (role : rp_role) (grow : N -> bool) (fs : list (bytes * bytes)) : rp_out :=
  match role with
  | RpServerRequest => match resolve_request grow fs with Panicked s => RpPanic s | o => RpMessage (RpReq o) end
  | RpClientResponse => match recv_response grow fs with Panicked s => RpPanic s | o => RpMessage (RpResp o) end
  | RpTrailers => match recv_trailers grow fs with Panicked s => RpPanic s | o => RpMessage (RpTrl o) end
  end.

Definition recv_path (role : rp_role) (grow : N -> bool) (max : option N) (v : bytes) : rp_out :=
  match fst (FrameDec.frame_decode v) with
  | Panic s => RpPanic s
  | Err e => RpFrameRefused e
  | Ok (FHeaders block) =>
      match decode_stateless max block with
      | Panic s => RpPanic s
      | Err e => RpQpackRefused e
      | Ok (fs, _) => rp_message_of role grow fs
      end
  | Ok (FSettings payload) =>
      match st_decode payload with
      | Panic s => RpPanic s
      | r => RpSettings r
      end
  | Ok f => RpFrame f
  end.
