(* Model of the stateless QPACK path of h3:
     h3/src/qpack/block.rs    HeaderBlockField::decode, HeaderPrefix, Indexed, LiteralWithNameRef, Literal
     h3/src/qpack/decoder.rs  decode_stateless (and the From<...> for DecoderError conversions it goes through)
     h3/src/qpack/encoder.rs  encode_stateless
     h3/src/qpack/field.rs    HeaderField::mem_size
   Masks, prefix sizes, flag patterns, the presence of each refusal and the size comparison come from
   Gen/GenQStateless.v; the integer / string codecs are the C15 models; the static table is Model/Static.v.
   usize is 64 bit.  mem_size additions are written without wrap: each field adds at most
   |name|+|value|+32 <= 64 * (input octets) + 32, so a u64 overflow needs an input of more than 2^57 octets. *)
From H3V Require Import Base.Bytes Gen.GenQStateless Model.PrefixInt Model.Huffman Model.PrefixString Model.Static.

(* DecoderError, restricted to the variants decode_stateless can produce, plus the fuel marker *)
Inductive dec_err :=
| DInvalidInteger (e : pi_err)          (* ParseError::Integer(e)  -> InvalidInteger(e), UnexpectedEnd included *)
| DInvalidString (e : ps_err)           (* ParseError::String(e)   -> InvalidString(e) *)
| DInvalidStaticIndex (i : N)
| DUnknownPrefix (b : N)                (* ParseError::InvalidPrefix(p) and the `_ =>` arm *)
| DMissingRefs (n : N)
| DBadBaseIndex (delta : N)             (* InvalidBase(-1 - delta) *)
| DHeaderTooLong (size : N)
| DOutOfFuel.                           (* not a Rust value: the model's loop fuel ran out (proved impossible) *)

Definition usize_max : N := 2 ^ 64 - 1.

(* field.mem_size() *)
Definition mem_size (f : field) : N := len (fst f) + len (snd f) + qs_overhead.

(* ---------------------------------------------------------------- block.rs *)

Fixpoint hbf_dispatch (arms : list (N * N * bool * hbf_kind)) (first : N) : hbf_kind :=
  match arms with
  | [] => qs_dispatch_default
  | (mask, value, negated, kind) :: r =>
      if xorb negated (N.land first mask =? value) then kind else hbf_dispatch r first
  end.
Definition hbf_decode (first : N) : hbf_kind := hbf_dispatch qs_dispatch first.

Definition lift_int {A} (r : res pi_err A) : res dec_err A :=
  match r with Ok a => Ok a | Err e => Err (DInvalidInteger e) | Panic s => Panic s end.
Definition lift_str {A} (r : res ps_err A) : res dec_err A :=
  match r with Ok a => Ok a | Err e => Err (DInvalidString e) | Panic s => Panic s end.

(* HeaderPrefix::decode: (encoded_insert_count, sign_negative, delta_base, rest) *)
Definition hp_decode (bs : bytes) : res dec_err (N * bool * N * bytes) :=
  match lift_int (pi_decode qs_hp_ric_bits bs) with
  | Ok (_, eic, r1) =>
      match lift_int (pi_decode qs_hp_base_bits r1) with
      | Ok (sign, delta, r2) =>
          if usize_max <? eic then Err (DInvalidInteger PiOverflow)
          else if usize_max <? delta then Err (DInvalidInteger PiOverflow)
          else Ok (eic, sign =? qs_hp_sign_value, delta, r2)
      | Err e => Err e
      | Panic s => Panic s
      end
  | Err e => Err e
  | Panic s => Panic s
  end.

(* HeaderPrefix::encode *)
Definition hp_encode (eic : N) (sign : bool) (delta : N) : res unit bytes :=
  match pi_encode qs_hp_enc_ric_bits 0 eic with
  | Ok a => match pi_encode qs_hp_enc_base_bits (if sign then 1 else 0) delta with
            | Ok b => Ok (a ++ b)
            | Err u => Err u
            | Panic s => Panic s
            end
  | Err u => Err u
  | Panic s => Panic s
  end.

Inductive indexed := IdxStatic (i : N) | IdxDynamic (i : N).

(* Indexed::decode *)
Definition indexed_decode (bs : bytes) : res dec_err (indexed * bytes) :=
  match lift_int (pi_decode qs_idx_bits bs) with
  | Ok (f, i, r) =>
      if f =? qs_idx_static_flags then
        if usize_max <? i then Err (DInvalidInteger PiOverflow) else Ok (IdxStatic i, r)
      else if f =? qs_idx_dynamic_flags then
        if usize_max <? i then Err (DInvalidInteger PiOverflow) else Ok (IdxDynamic i, r)
      else Err (DUnknownPrefix f)
  | Err e => Err e
  | Panic s => Panic s
  end.

Inductive nameref := NrStatic (i : N) (value : bytes) | NrDynamic (i : N) (value : bytes).

(* LiteralWithNameRef::decode: both arms read the value string before the caller looks at the variant *)
Definition nameref_decode (bs : bytes) : res dec_err (nameref * bytes) :=
  match lift_int (pi_decode qs_nr_bits bs) with
  | Ok (f, i, r) =>
      if N.land f qs_nr_static_mask =? qs_nr_static_value then
        if usize_max <? i then Err (DInvalidInteger PiOverflow)
        else match lift_str (ps_decode qs_nr_static_string_size r) with
             | Ok (v, r') => Ok (NrStatic i v, r')
             | Err e => Err e
             | Panic s => Panic s
             end
      else if N.land f qs_nr_dynamic_mask =? qs_nr_dynamic_value then
        if usize_max <? i then Err (DInvalidInteger PiOverflow)
        else match lift_str (ps_decode qs_nr_dynamic_string_size r) with
             | Ok (v, r') => Ok (NrDynamic i v, r')
             | Err e => Err e
             | Panic s => Panic s
             end
      else Err (DUnknownPrefix f)
  | Err e => Err e
  | Panic s => Panic s
  end.

(* Literal::decode: (name, value, rest) *)
Definition literal_decode (bs : bytes) : res dec_err (bytes * bytes * bytes) :=
  match bs with
  | [] => Err (DInvalidInteger PiUnexpectedEnd)
  | first :: _ =>
      if negb (N.land first qs_lit_mask =? qs_lit_value) then Err (DUnknownPrefix first)
      else
        match lift_str (ps_decode qs_lit_name_size bs) with
        | Ok (name, r1) =>
            match lift_str (ps_decode qs_lit_value_size r1) with
            | Ok (value, r2) => Ok (name, value, r2)
            | Err e => Err e
            | Panic s => Panic s
            end
        | Err e => Err e
        | Panic s => Panic s
        end
  end.

(* ---------------------------------------------------------------- decoder.rs *)

Definition static_or_err (i : N) : res dec_err field :=
  match st_get i with
  | Some f => Ok f
  | None => Err (DInvalidStaticIndex i)
  end.

(* one iteration of the `while buf.has_remaining()` loop body, up to the decoded field *)
Definition field_decode (bs : bytes) : res dec_err (field * bytes) :=
  match bs with
  | [] => Panic 40                                              (* buf.chunk()[0] on an empty buffer: not reached *)
  | first :: _ =>
      match hbf_decode first with
      | HIndexedWithPostBase =>
          if qs_postbase_indexed_refused then Err (DMissingRefs 0) else Err (DUnknownPrefix first)
      | HLiteralWithPostBaseNameRef =>
          if qs_postbase_nameref_refused then Err (DMissingRefs 0) else Err (DUnknownPrefix first)
      | HIndexed =>
          match indexed_decode bs with
          | Ok (IdxStatic i, r) =>
              match static_or_err i with Ok f => Ok (f, r) | Err e => Err e | Panic s => Panic s end
          | Ok (IdxDynamic i, r) =>
              if qs_indexed_dynamic_refused then Err (DMissingRefs 0) else Err (DUnknownPrefix first)
          | Err e => Err e
          | Panic s => Panic s
          end
      | HLiteralWithNameRef =>
          match nameref_decode bs with
          | Ok (NrDynamic _ _, _) =>
              if qs_nameref_dynamic_refused then Err (DMissingRefs 0) else Err (DUnknownPrefix first)
          | Ok (NrStatic i value, r) =>
              match static_or_err i with
              | Ok f => Ok ((fst f, value), r)                                        (* with_value *)
              | Err e => Err e
              | Panic s => Panic s
              end
          | Err e => Err e
          | Panic s => Panic s
          end
      | HLiteral =>
          match literal_decode bs with
          | Ok (name, value, r) => Ok ((name, value), r)
          | Err e => Err e
          | Panic s => Panic s
          end
      | HUnknown => Err (DUnknownPrefix first)
      end
  end.

(* `None` as max stands for "no limit" (used by C11); `Some m` is the u64 argument *)
Definition too_long (mem : N) (max : option N) : bool :=
  match max with
  | None => false
  | Some m => if qs_too_long_strict then m <? mem else m <=? mem
  end.

(* the loop: fields are pushed in order; returns (fields, mem_size) *)
Fixpoint fields_loop (fuel : nat) (bs : bytes) (max : option N) (mem : N) (acc : list field)
  : res dec_err (list field * N) :=
  match bs with
  | [] => Ok (rev acc, mem)
  | _ :: _ =>
      match fuel with
      | O => Err DOutOfFuel
      | S fuel' =>
          match field_decode bs with
          | Ok (f, r) =>
              let mem' := mem + mem_size f in
              if too_long mem' max then Err (DHeaderTooLong mem')
              else fields_loop fuel' r max mem' (f :: acc)
          | Err e => Err e
          | Panic s => Panic s
          end
      end
  end.

(* decode_stateless(buf, max_size): Ok (fields, mem_size) *)
Definition decode_stateless (max : option N) (bs : bytes) : res dec_err (list field * N) :=
  match hp_decode bs with
  | Ok (eic, sign, delta, r) =>
      if qs_ric_nonzero_rejected && negb (eic =? 0) then Err (DMissingRefs eic)
      else if qs_base_checked && qs_negative_base_is_error && sign then Err (DBadBaseIndex delta)
      else fields_loop (length r) r max 0 []
  | Err e => Err e
  | Panic s => Panic s
  end.

(* which Code the three call sites attach: everything except HeaderTooLong is QPACK_DECOMPRESSION_FAILED *)
Definition decompression_failed (e : dec_err) : bool :=
  match e with
  | DHeaderTooLong _ => false
  | DOutOfFuel => false
  | _ => true
  end.

(* ---------------------------------------------------------------- encoder.rs *)

Definition cat2 (a b : res unit bytes) : res unit bytes :=
  match a with
  | Ok x => match b with Ok y => Ok (x ++ y) | Err u => Err u | Panic s => Panic s end
  | Err u => Err u
  | Panic s => Panic s
  end.

(* the representation chosen for one field *)
Definition field_encode (f : field) : res unit bytes :=
  match st_find f with
  | Some index => pi_encode qs_idx_enc_bits qs_idx_enc_static_flags index                    (* Indexed::Static *)
  | None =>
      match st_find_name (fst f) with
      | Some index =>                                                                        (* LiteralWithNameRef::Static *)
          cat2 (pi_encode qs_nr_enc_bits qs_nr_enc_flags index)
               (ps_encode qs_nr_enc_string_size qs_nr_enc_string_flags (snd f))
      | None =>                                                                              (* Literal *)
          cat2 (ps_encode qs_lit_enc_name_size qs_lit_enc_name_flags (fst f))
               (ps_encode qs_lit_enc_value_size qs_lit_enc_value_flags (snd f))
      end
  end.

Fixpoint fields_encode (fs : list field) : res unit (bytes * N) :=
  match fs with
  | [] => Ok ([], 0)
  | f :: r =>
      match field_encode f with
      | Ok b =>
          match fields_encode r with
          | Ok (bs, size) => Ok (b ++ bs, mem_size f + size)
          | Err u => Err u
          | Panic s => Panic s
          end
      | Err u => Err u
      | Panic s => Panic s
      end
  end.

(* encode_stateless(block, fields): (bytes appended to block, returned size).
   HeaderPrefix::new(required, base, _, 0) is the all-zero prefix whatever required/base are. *)
Definition encode_stateless (fs : list field) : res unit (bytes * N) :=
  match hp_encode 0 false 0 with
  | Ok p =>
      match fields_encode fs with
      | Ok (bs, size) => Ok (p ++ bs, size)
      | Err u => Err u
      | Panic s => Panic s
      end
  | Err u => Err u
  | Panic s => Panic s
  end.
