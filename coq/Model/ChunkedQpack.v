(* qpack/prefix_int.rs `decode` and qpack/prefix_string/mod.rs `decode` on a non-contiguous `Buf` (Model/ChunkedBuf.v),
   written against the Buf operations exactly as the Rust bodies call them:
     prefix_int::decode:     every octet through `buf.get::<u8>()` = proto/coding.rs `Decode for u8`:
                               if buf.remaining() < 1 { return Err(UnexpectedEnd(1)) }  Ok(buf.get_u8())
     prefix_string::decode:  prefix_int::decode(size - 1, buf)?; `buf.remaining() < len` -> UnexpectedEnd; the u32 guard of
                             the Huffman branch; `buf.copy_to_bytes(len)`; raw octets or hpack_decode of exactly those.
   Neither body calls chunk() itself.  Same generated constants as the flat models Model/PrefixInt.v, Model/PrefixString.v. *)
From H3V Require Import Base.Bytes Gen.GenPrefixInt Gen.GenPrefixString Model.PrefixInt Model.Huffman Model.PrefixString
  Model.ChunkedBuf.

(* buf.get::<u8>() *)
Definition cb_get (cs : cbuf) : res pi_err (N * cbuf) :=
  if cb_remaining cs <? 1 then Err PiUnexpectedEnd
  else match cb_get_u8 cs with
       | Ok x => Ok x
       | Err _ => Panic 903
       | Panic s => Panic s
       end.

(* the continuation loop; one octet per round, so fuel = number of unread octets suffices *)
Fixpoint pi_dec_loop_buf (fuel : nat) (cs : cbuf) (value power : N) : res pi_err (N * cbuf) :=
  match cb_get cs with
  | Err e => Err e
  | Panic s => Panic s
  | Ok (byte, cs1) =>
      if 64 <=? power then Panic 4
      else
        let add := N.shiftl (N.land byte pi_dec_val_mask) power mod 2 ^ 64 in
        if 2 ^ 64 <=? value + add then Panic 5
        else
          let value := value + add in
          let power := power + pi_dec_step in
          if N.land byte pi_dec_cont_mask =? 0 then Ok (value, cs1)
          else if cmp_ge pi_dec_overflow_ge power pi_max_power then Err PiOverflow
          else match fuel with
               | O => Panic 902
               | S f => pi_dec_loop_buf f cs1 value power
               end
  end.

Definition pi_decode_buf (size : N) (cs : cbuf) : res pi_err (N * N * cbuf) :=
  if negb (cmp_lt (negb pi_dec_size_le) size pi_dec_size_max) then Panic 1
  else
    match cb_get cs with
    | Err e => Err e
    | Panic s => Panic s
    | Ok (first, cs1) =>
        let flags := N.shiftr first size mod 256 in
        if pi_dec_mask_width <? size then Panic 2
        else if 8 <=? pi_dec_mask_width - size then Panic 3
        else
          let mask := N.shiftr pi_dec_mask_full (pi_dec_mask_width - size) in
          let first := N.land first mask in
          if cmp_lt pi_dec_short_lt first mask then Ok (flags, first, cs1)
          else
            match pi_dec_loop_buf (length (concat cs1)) cs1 mask pi_dec_power_init with
            | Ok (v, rest) => Ok (flags, v, rest)
            | Err e => Err e
            | Panic s => Panic s
            end
    end.

Definition ps_decode_buf (size : N) (cs : cbuf) : res ps_err (bytes * cbuf) :=
  if size <? ps_dec_size_offset then Panic 30
  else
    match pi_decode_buf (size - ps_dec_size_offset) cs with
    | Panic s => Panic s
    | Err PiUnexpectedEnd => Err PsUnexpectedEnd
    | Err e => Err (PsInteger e)
    | Ok (flags, n, c1) =>
        if (if ps_dec_remaining_lt then cb_remaining c1 <? n else cb_remaining c1 <=? n) then Err PsUnexpectedEnd
        else if negb (N.land flags ps_dec_h_mask =? 0) && (2 ^ ps_dec_guard_width - 1 <? ps_guard_value n) then Err PsBufSize
        else
          match cb_copy_to_bytes n c1 with
          | Panic s => Panic s
          | Err _ => Panic 903
          | Ok (payload, c2) =>
              if N.land flags ps_dec_h_mask =? 0 then Ok (payload, c2)
              else match hpack_decode payload with
                   | Ok v => Ok (v, c2)
                   | Err e => Err (PsHuffman e)
                   | Panic s => Panic s
                   end
          end
    end.
