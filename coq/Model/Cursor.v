(* Model of h3/src/buf.rs `Cursor<'a, B>` over a `BufList<B>` (the reader `FrameDecoder::decode` hands to
   `Frame::decode`): `remaining`, `chunk`, `advance`, `position`, with the fields `pos_total`, `pos_front`, `index`
   exactly as in the Rust code, and of the `bytes::Buf` default methods `get_u8` / `copy_to_slice` that
   `VarInt::decode` calls on it.  Every place where the Rust code can panic is a `Panic n` value, n = the line of
   buf.rs (133 remaining's subtraction, 138 chunk's two index expressions, 143 advance's assert, 146 / 147 the
   index and subtraction inside advance's loop); 900 / 901 are the asserts of the bytes default methods.
   No proofs here (Proofs/CursorProofs.v). *)
From H3V Require Import Base.Bytes.

Record cursor := { c_bufs : list bytes; c_total : N; c_front : N; c_index : N }.

(* BufList::cursor() *)
Definition cur_new (bufs : list bytes) : cursor := {| c_bufs := bufs; c_total := 0; c_front := 0; c_index := 0 |}.

(* BufList::remaining(): sum of the chunks *)
Definition bl_len (bufs : list bytes) : N := len (concat bufs).

(* Cursor::position() *)
Definition cur_position (c : cursor) : N := c_total c.

(* Cursor::remaining(): self.buf.remaining() - self.pos_total *)
Definition cur_remaining (c : cursor) : res unit N :=
  if bl_len (c_bufs c) <? c_total c then Panic 133 else Ok (bl_len (c_bufs c) - c_total c).

(* Cursor::chunk(): &self.buf.bufs[self.index].chunk()[self.pos_front..] *)
Definition cur_chunk (c : cursor) : res unit bytes :=
  match nth_error (c_bufs c) (N.to_nat (c_index c)) with
  | None => Panic 138                                         (* bufs[index] out of bounds *)
  | Some b => if len b <? c_front c then Panic 138             (* [pos_front..] past the end *)
              else Ok (skipn (N.to_nat (c_front c)) b)
  end.

(* the `while cnt > 0` loop of Cursor::advance, structural on the buffers from `index` on;
   result: (pos_total, pos_front, index) *)
Fixpoint adv_loop (suffix : list bytes) (cnt total front index : N) : res unit (N * N * N) :=
  if cnt =? 0 then Ok (total, front, index)
  else
    match suffix with
    | [] => Panic 146                                          (* bufs[index] out of bounds *)
    | b :: r =>
        if len b <? front then Panic 147                       (* front.remaining() - pos_front underflows *)
        else
          let rem := len b - front in
          if cnt <? rem then Ok (total + cnt, front + cnt, index)
          else adv_loop r (cnt - rem) (total + rem) 0 (index + 1)
    end.

(* Cursor::advance(cnt) *)
Definition cur_advance (cnt : N) (c : cursor) : res unit cursor :=
  if bl_len (c_bufs c) <? c_total c then Panic 143              (* the subtraction inside the assert *)
  else if bl_len (c_bufs c) - c_total c <? cnt then Panic 143   (* assert!(cnt <= remaining) *)
  else
    match adv_loop (skipn (N.to_nat (c_index c)) (c_bufs c)) cnt (c_total c) (c_front c) (c_index c) with
    | Ok (t, f, i) => Ok {| c_bufs := c_bufs c; c_total := t; c_front := f; c_index := i |}
    | Err e => Err e
    | Panic s => Panic s
    end.

(* bytes::Buf::get_u8 (default method): assert!(remaining >= 1); chunk()[0]; advance(1) *)
Definition cur_get_u8 (c : cursor) : res unit (N * cursor) :=
  match cur_remaining c with
  | Panic s => Panic s
  | Err e => Err e
  | Ok r =>
      if r <? 1 then Panic 900
      else match cur_chunk c with
           | Panic s => Panic s
           | Err e => Err e
           | Ok [] => Panic 901                                (* chunk()[0] on an empty chunk *)
           | Ok (b :: _) =>
               match cur_advance 1 c with
               | Ok c' => Ok (b, c')
               | Err e => Err e
               | Panic s => Panic s
               end
           end
  end.

(* bytes::Buf::copy_to_slice (default method) for a destination of k bytes:
   assert!(remaining >= k); while off < k { src = chunk(); cnt = min(src.len(), k - off); copy; advance(cnt) }
   fuel: one round per chunk; 902 = out of fuel (an empty chunk would spin forever in Rust) *)
Fixpoint copy_loop (fuel : nat) (k : N) (c : cursor) : res unit (bytes * cursor) :=
  if k =? 0 then Ok ([], c)
  else
    match fuel with
    | O => Panic 902
    | S f =>
        match cur_chunk c with
        | Panic s => Panic s
        | Err e => Err e
        | Ok src =>
            let cnt := N.min (len src) k in
            match cur_advance cnt c with
            | Panic s => Panic s
            | Err e => Err e
            | Ok c' =>
                match copy_loop f (k - cnt) c' with
                | Ok (out, c'') => Ok (firstn (N.to_nat cnt) src ++ out, c'')
                | Err e => Err e
                | Panic s => Panic s
                end
            end
        end
    end.

Definition cur_copy_to_slice (k : N) (c : cursor) : res unit (bytes * cursor) :=
  match cur_remaining c with
  | Panic s => Panic s
  | Err e => Err e
  | Ok r => if r <? k then Panic 900 else copy_loop (S (length (c_bufs c))) k c
  end.

(* ---------------------------------------------------------------- VarInt::decode run on a Cursor
   (proto/varint.rs:78-112 with r = the cursor): has_remaining, get_u8, remaining, copy_to_slice.
   Same table Gen/GenVarint.dec_rows as Model/Varint.vi_decode, which is the same function on the flat view. *)
From H3V Require Import Gen.GenVarint.

Definition cur_vi_decode (c : cursor) : res N N * cursor :=
  match cur_remaining c with
  | Panic s => (Panic s, c)
  | Err _ => (Panic 903, c)
  | Ok rem0 =>
      if rem0 =? 0 then (Err dec_empty_err, c)                           (* !r.has_remaining() *)
      else
        match cur_get_u8 c with
        | Panic s => (Panic s, c)
        | Err _ => (Panic 903, c)
        | Ok (b0, c1) =>
            let tag := N.shiftr b0 dec_tag_shift in
            let v0 := N.land b0 dec_mask in
            match assoc tag dec_rows with
            | None => (Panic 1, c1)                                       (* unreachable!() *)
            | Some (need, (errc, (copy, total))) =>
                match cur_remaining c1 with
                | Panic s => (Panic s, c1)
                | Err _ => (Panic 903, c1)
                | Ok rem1 =>
                    if rem1 <? need then (Err errc, c1)
                    else
                      match cur_copy_to_slice copy c1 with
                      | Panic s => (Panic s, c1)
                      | Err _ => (Panic 903, c1)
                      | Ok (bs, c2) =>
                          (Ok (be_value (firstn (N.to_nat total) (v0 :: bs ++ repeat 0 8))), c2)
                      end
                end
            end
        end
  end.
