(* Model of h3/src/qpack/prefix_string/mod.rs: string literals = prefixed length + raw or Huffman payload. *)
From H3V Require Import Base.Bytes Model.PrefixInt Model.Huffman.

Inductive ps_err :=
| PsUnexpectedEnd
| PsInteger (e : pi_err)
| PsHuffman (e : huff_err)
| PsBufSize.

(* decode(size, buf): (value, remaining bytes of buf) *)
Definition ps_decode (size : N) (bs : bytes) : res ps_err (bytes * bytes) :=
  if size =? 0 then Panic 30                                   (* size - 1 underflows u8 *)
  else
    match pi_decode (size - 1) bs with
    | Panic s => Panic s
    | Err PiUnexpectedEnd => Err PsUnexpectedEnd               (* From<IntegerError> *)
    | Err e => Err (PsInteger e)
    | Ok (flags, n, r) =>
        (* len.try_into::<usize>() cannot fail on a 64-bit target *)
        if len r <? n then Err PsUnexpectedEnd
        else
          let payload := firstn (N.to_nat n) r in
          let rest := skipn (N.to_nat n) r in
          if N.land flags 1 =? 0 then Ok (payload, rest)
          else if 2 ^ 32 - 1 <? N.min (N.min (n * 8) (2 ^ 64 - 1) + 8) (2 ^ 64 - 1) then Err PsBufSize
               (* u32::try_from((len as u64).saturating_mul(8).saturating_add(8))?: the Huffman decoder
                  addresses bits with u32 positions and looks 8 bits ahead *)
          else
            match hpack_decode payload with
            | Ok v => Ok (v, rest)
            | Err e => Err (PsHuffman e)
            | Panic s => Panic s
            end
    end.

(* encode(size, flags, value, buf): the bytes written (always Huffman coded) *)
Definition ps_encode (size flags : N) (value : bytes) : res unit bytes :=
  match hpack_encode value with
  | Panic s => Panic s
  | Err u => Err u
  | Ok encoded =>
      if size =? 0 then Panic 31
      else
        match pi_encode (size - 1) (N.lor (N.shiftl flags 1 mod 256) 1) (len encoded) with
        | Ok hd => Ok (hd ++ encoded)
        | Err u => Err u
        | Panic s => Panic s
        end
  end.
