(* Model of h3/src/qpack/prefix_string/mod.rs: string literals = prefixed length + raw or Huffman payload. *)
From H3V Require Import Base.Bytes Gen.GenPrefixString Model.PrefixInt Model.Huffman.

Inductive ps_err :=
| PsUnexpectedEnd
| PsInteger (e : pi_err)
| PsHuffman (e : huff_err)
| PsBufSize.

(* the length guard of `decode`: saturating u64 operations applied in order to the length *)
Definition sat64 (x : N) : N := N.min x (2 ^ 64 - 1).
Definition ps_guard_value (n : N) : N :=
  fold_left (fun (acc : N) (op : bool * N) => if fst op then sat64 (acc * snd op) else sat64 (acc + snd op))
            ps_dec_guard_ops n.

(* decode(size, buf): (value, remaining bytes of buf).  Constants, operators and the guard expression are
   the generated Gen/GenPrefixString.v (the statement sequence itself is anchored by the translator). *)
Definition ps_decode (size : N) (bs : bytes) : res ps_err (bytes * bytes) :=
  if size <? ps_dec_size_offset then Panic 30                  (* size - 1 underflows u8 *)
  else
    match pi_decode (size - ps_dec_size_offset) bs with
    | Panic s => Panic s
    | Err PiUnexpectedEnd => Err PsUnexpectedEnd               (* From<IntegerError> *)
    | Err e => Err (PsInteger e)
    | Ok (flags, n, r) =>
        (* len.try_into::<usize>() cannot fail on a 64-bit target *)
        if (if ps_dec_remaining_lt then len r <? n else len r <=? n) then Err PsUnexpectedEnd
        else
          let payload := firstn (N.to_nat n) r in
          let rest := skipn (N.to_nat n) r in
          if N.land flags ps_dec_h_mask =? 0 then Ok (payload, rest)
          else if 2 ^ ps_dec_guard_width - 1 <? ps_guard_value n then Err PsBufSize
               (* u32::try_from((len as u64).saturating_mul(8).saturating_add(8))?: the Huffman decoder
                  addresses bits with u32 positions and looks 8 bits ahead *)
          else
            match hpack_decode payload with
            | Ok v => Ok (v, rest)
            | Err e => Err (PsHuffman e)
            | Panic s => Panic s
            end
    end.

(* encode(size, flags, value, buf): the bytes written (always Huffman coded) *)
Definition ps_encode (size flags : N) (value : bytes) : res unit bytes :=
  match hpack_encode value with
  | Panic s => Panic s
  | Err u => Err u
  | Ok encoded =>
      if size <? ps_enc_size_offset then Panic 31
      else
        match pi_encode (size - ps_enc_size_offset)
                        (N.lor (N.shiftl flags ps_enc_flag_shift mod 256) ps_enc_flag_or) (len encoded) with
        | Ok hd => Ok (hd ++ encoded)
        | Err u => Err u
        | Panic s => Panic s
        end
  end.
