(* Model of h3/src/qpack/vas.rs: VirtualAddressSpace (absolute / relative / post-base index mapping).
   usize is 64 bit; `+= 1` on the counters cannot overflow in any feasible history and is not modelled;
   `delta -= 1` underflow and `base + index` overflow (index comes from the wire) are panic sites. *)
From H3V Require Import Base.Bytes.

Record vas := mkVas { v_inserted : N; v_dropped : N; v_delta : N }.

Definition vas0 : vas := mkVas 0 0 0.

Inductive vas_err := VERelative (i : N) | VEPostbase (i : N) | VEIndex (i : N).

Definition usize_lim : N := 2 ^ 64.

(* add: returns the new space; the absolute index of the new entry is its v_inserted *)
Definition vas_add (v : vas) : vas := mkVas (v_inserted v + 1) (v_dropped v) (v_delta v + 1).

Definition vas_drop (v : vas) : res unit vas :=
  if v_delta v =? 0 then Panic 2001
  else Ok (mkVas (v_inserted v) (v_dropped v + 1) (v_delta v - 1)).

Definition vas_relative (v : vas) (index : N) : res vas_err N :=
  if (v_inserted v <? index) || (v_delta v =? 0) || (v_inserted v - index <=? v_dropped v)
  then Err (VERelative index)
  else Ok (v_inserted v - v_dropped v - index - 1).

Definition vas_evicted (v : vas) (index : N) : bool :=
  negb (index =? 0) && (index <=? v_dropped v).

Definition vas_relative_base (v : vas) (base index : N) : res vas_err N :=
  if (v_delta v =? 0) || (base <? index) || (base - index <=? v_dropped v)
  then Err (VERelative index)
  else Ok (base - v_dropped v - index - 1).

Definition vas_post_base (v : vas) (base index : N) : res vas_err N :=
  if v_delta v =? 0 then Err (VEPostbase index)
  else if usize_lim <=? base + index then Panic 2002
  else if (v_inserted v <=? base + index) || (base + index <? v_dropped v)
  then Err (VEPostbase index)
  else Ok (base + index - v_dropped v).

(* position in the container -> absolute index *)
Definition vas_index (v : vas) (index : N) : res vas_err N :=
  if v_delta v <=? index then Err (VEIndex index) else Ok (index + v_dropped v + 1).

Definition vas_largest_ref (v : vas) : N := v_inserted v - v_dropped v.
Definition vas_total_inserted (v : vas) : N := v_inserted v.
