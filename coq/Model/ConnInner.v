(* Model of the connection driver as far as control and unidirectional streams are concerned:
     h3/src/connection.rs         ConnectionInner::{new, send_control_stream_headers, poll_accept_recv, poll_control,
                                  process_goaway, poll_grease_stream, handle_connection_error, poll_connection_error}
     h3/src/server/connection.rs  accept / poll_accept_request_stream_internal / poll_control / poll_next_control / shutdown(0)
     h3/src/client/connection.rs  poll_close
   over a model of the transport (the SimQuic contract: per-stream queues of undelivered events, the list of
   announced-but-not-yet-accepted peer streams, credit for opening send streams, per-stream write budgets) and
   the frame layer of Model/FrameStream.v (C02's model of FrameStream::poll_next).

   One `drive` call = one poll of the task running `builder().build(conn).await` followed by the role's driver
   (`accept().await` / `poll_fn(poll_close).await`).  A history is a list of transport events and polls.

   Not modelled (outside C04's alphabet): loss of the QUIC connection, peer STOP_SENDING on h3's own streams other
   than the grease stream,
   bidirectional streams, other tasks storing a connection error in the shared state; a result `ROutside` marks
   the places.  The byte lengths of the two writes whose length depends on `fastrand` (the control stream header
   when grease is on, the grease stream's write) are intervals; when a finite budget falls inside one the result
   is `RIndet` (the generators never go there).
   Panics: those of AcceptRecv / FrameStream, 53 = FrameProtocolError without a code, 93 = loop fuel exhausted. *)
From H3V Require Import Base.Bytes Gen.GenCodes Gen.GenVarint Gen.GenFrameTypes Gen.GenStreamTypes Spec.FrameVocab
  Model.Varint Model.FrameDec Model.FrameStream Model.AcceptRecv.
From H3V Require Model.Settings.

Inductive role := RServer | RClient.

(* ------------------------------------------------------------------ transport *)
Record txs := { tx_budget : option N; tx_slack : N }.   (* None = unlimited; true budget in [budget, budget+slack] *)

Record wlog := { l_stops : list (N * N); l_closed : option N; l_opened : N; l_fins : N }.

Record world := {
  w_incoming : list N;          (* announced peer uni streams not yet accepted *)
  w_rx : list (N * rx);         (* undelivered events per peer stream *)
  w_credit : N;                 (* credit for poll_open_send *)
  w_default : option N;         (* write budget of streams created from now on *)
  w_tx : list (N * txs);        (* write budgets of h3's own streams *)
  w_next : N;                   (* id of the next locally opened uni stream *)
  w_log : wlog;
  w_finp : list (N * N);        (* per own stream: how many more poll_finish calls answer Pending *)
  w_pstop : list (N * N)        (* own streams the peer sent STOP_SENDING for, with the code *)
}.

Definition new_world (r : role) (credit : N) (dflt : option N) : world :=
  {| w_incoming := []; w_rx := []; w_credit := credit; w_default := dflt; w_tx := [];
     w_next := match r with RClient => 2 | RServer => 3 end;
     w_log := {| l_stops := []; l_closed := None; l_opened := 0; l_fins := 0 |}; w_finp := []; w_pstop := [] |}.

Fixpoint aset {V} (k : N) (v : V) (l : list (N * V)) : list (N * V) :=
  match l with
  | [] => [(k, v)]
  | (k', v') :: r => if k =? k' then (k, v) :: r else (k', v') :: aset k v r
  end.

Definition rxq (w : world) (id : N) : rx := match assoc id (w_rx w) with Some q => q | None => [] end.

Definition set_rxq (w : world) (id : N) (q : rx) : world :=
  {| w_incoming := w_incoming w; w_rx := aset id q (w_rx w); w_credit := w_credit w; w_default := w_default w;
     w_tx := w_tx w; w_next := w_next w; w_log := w_log w; w_finp := w_finp w; w_pstop := w_pstop w |}.
Definition set_incoming (w : world) (l : list N) : world :=
  {| w_incoming := l; w_rx := w_rx w; w_credit := w_credit w; w_default := w_default w;
     w_tx := w_tx w; w_next := w_next w; w_log := w_log w; w_finp := w_finp w; w_pstop := w_pstop w |}.
Definition set_log (w : world) (l : wlog) : world :=
  {| w_incoming := w_incoming w; w_rx := w_rx w; w_credit := w_credit w; w_default := w_default w;
     w_tx := w_tx w; w_next := w_next w; w_log := l; w_finp := w_finp w; w_pstop := w_pstop w |}.
Definition set_tx (w : world) (t : list (N * txs)) : world :=
  {| w_incoming := w_incoming w; w_rx := w_rx w; w_credit := w_credit w; w_default := w_default w;
     w_tx := t; w_next := w_next w; w_log := w_log w; w_finp := w_finp w; w_pstop := w_pstop w |}.
Definition set_credit (w : world) (c : N) : world :=
  {| w_incoming := w_incoming w; w_rx := w_rx w; w_credit := c; w_default := w_default w;
     w_tx := w_tx w; w_next := w_next w; w_log := w_log w; w_finp := w_finp w; w_pstop := w_pstop w |}.
Definition set_finp (w : world) (f : list (N * N)) : world :=
  {| w_incoming := w_incoming w; w_rx := w_rx w; w_credit := w_credit w; w_default := w_default w;
     w_tx := w_tx w; w_next := w_next w; w_log := w_log w; w_finp := f; w_pstop := w_pstop w |}.
Definition set_pstop (w : world) (f : list (N * N)) : world :=
  {| w_incoming := w_incoming w; w_rx := w_rx w; w_credit := w_credit w; w_default := w_default w;
     w_tx := w_tx w; w_next := w_next w; w_log := w_log w; w_finp := w_finp w; w_pstop := f |}.
Definition set_default (w : world) (d : option N) : world :=
  {| w_incoming := w_incoming w; w_rx := w_rx w; w_credit := w_credit w; w_default := d;
     w_tx := w_tx w; w_next := w_next w; w_log := w_log w; w_finp := w_finp w; w_pstop := w_pstop w |}.

Definition add_stop (w : world) (id code : N) : world :=
  let l := w_log w in
  set_log w {| l_stops := l_stops l ++ [(id, code)]; l_closed := l_closed l; l_opened := l_opened l; l_fins := l_fins l |}.
(* OpenStreams::close: the first code is the one the peer sees *)
Definition log_close (w : world) (code : N) : world :=
  let l := w_log w in
  set_log w {| l_stops := l_stops l;
               l_closed := match l_closed l with Some c => Some c | None => Some code end;
               l_opened := l_opened l; l_fins := l_fins l |}.
Definition log_fin (w : world) : world :=
  let l := w_log w in
  set_log w {| l_stops := l_stops l; l_closed := l_closed l; l_opened := l_opened l; l_fins := l_fins l + 1 |}.

(* the budget record of a stream is created on first use with the default in force at that moment *)
Definition tx_of (w : world) (id : N) : txs :=
  match assoc id (w_tx w) with Some t => t | None => {| tx_budget := w_default w; tx_slack := 0 |} end.
Definition touch_tx (w : world) (id : N) : world := set_tx w (aset id (tx_of w id) (w_tx w)).

(* poll_open_send: None = Pending (no credit) *)
Definition open_send (w : world) : option (N * world) :=
  if w_credit w =? 0 then None
  else
    let id := w_next w in
    let w1 := touch_tx w id in
    let l := w_log w1 in
    Some (id, {| w_incoming := w_incoming w1; w_rx := w_rx w1; w_credit := w_credit w1 - 1; w_default := w_default w1;
                 w_tx := w_tx w1; w_next := id + 4;
                 w_log := {| l_stops := l_stops l; l_closed := l_closed l; l_opened := l_opened l + 1; l_fins := l_fins l |};
                 w_finp := w_finp w1; w_pstop := w_pstop w1 |}).

(* the events of a history *)
Inductive wev :=
| ENewUni (id : N)              (* the peer opens a unidirectional stream *)
| EArrive (id : N) (e : ev)     (* a chunk / FIN / RESET arrives on it *)
| EGrant (n : N)                (* n more credits for opening uni streams *)
| EWrite (id : N) (k : N)       (* stream id may accept k more bytes *)
| EDefault (k : N)              (* budget of streams created later *)
| EFinPend (id : N) (n : N)     (* the next n poll_finish calls on own stream id answer Pending *)
| EPeerStop (id : N) (code : N) (* the peer sends STOP_SENDING for own stream id *)
| EPoll.                        (* the driver task is polled once *)

Definition apply_wev (e : wev) (w : world) : world :=
  match e with
  | ENewUni id => set_incoming (set_rxq w id (rxq w id)) (w_incoming w ++ [id])
  | EArrive id x => if terminated (rxq w id) then w else set_rxq w id (rxq w id ++ [x])
  | EGrant n => set_credit w (w_credit w + n)
  | EWrite id k =>
      let t := tx_of w id in
      set_tx w (aset id {| tx_budget := Some (match tx_budget t with Some b => b | None => 0 end + k); tx_slack := tx_slack t |} (w_tx w))
  | EDefault k => set_default w (Some k)
  | EFinPend id n => set_finp w (aset id (match assoc id (w_finp w) with Some m => m | None => 0 end + n) (w_finp w))
  | EPeerStop id code => set_pstop w (aset id code (w_pstop w))
  | EPoll => w
  end.

(* SendStream::poll_ready with a WriteBuf in flight whose length lies in [lo, hi] *)
Definition writes := list (N * (N * N)).
Inductive wres := WDone | WPending | WIndet | WStopped.
Fixpoint wr_remove (id : N) (l : writes) : writes :=
  match l with
  | [] => []
  | (k, v) :: r => if k =? id then wr_remove id r else (k, v) :: wr_remove id r
  end.
Definition poll_ready (id : N) (wr : writes) (w : world) : wres * writes * world :=
  match assoc id wr with
  | None => (WDone, wr, w)
  | Some (lo, hi) =>
    (* write_some: a stream the peer asked us to stop fails first; the buffer is gone *)
    match assoc id (w_pstop w) with
    | Some _ => (WStopped, wr_remove id wr, w)
    | None =>
      let t := tx_of w id in
      match tx_budget t with
      | None => (WDone, wr_remove id wr, w)
      | Some v =>
          let sl := tx_slack t in
          if hi <=? v then
            (WDone, wr_remove id wr,
             set_tx w (aset id {| tx_budget := Some (v - hi); tx_slack := sl + (hi - lo) |} (w_tx w)))
          else if v + sl <? lo then
            (WPending, aset id (lo - (v + sl), hi - v) wr,
             set_tx w (aset id {| tx_budget := Some 0; tx_slack := 0 |} (w_tx w)))
          else (WIndet, wr, w)
      end
    end
  end.

(* ------------------------------------------------------------------ ConnectionInner *)
Inductive gstep := GNotStarted | GStarted | GDataPrepared | GDataSent | GFinished.

(* what the role's driver did with a control frame (ghost log: "acted upon") *)
Inductive act := ASettings (payload : bytes) | AGoaway (id : N) | ACancelPush (id : N) | AMaxPushId (id : N).

(* where a connection error came from (ghost) *)
Inductive cause :=
| CzTwoControl | CzTwoEncoder | CzTwoDecoder   (* poll_accept_recv: the slot was already claimed *)
| CzHeaderInternal                              (* poll_next_varint's H3_INTERNAL_ERROR *)
| CzCtlReset | CzCtlClosed | CzCtlTruncated    (* the control stream was reset / ended between frames / ended inside a frame *)
| CzCtlProto (k : perr_kind)                    (* the frame layer refused a frame of the control stream *)
| CzFrame (f : frame).                          (* the control automaton or the role's driver refused frame f *)

Record conn := {
  c_pending : list (N * arecv);          (* pending_recv_streams, with the stream id *)
  c_control : option (N * fstream);      (* control_recv (its queue lives in the world) *)
  c_enc : bool; c_dec : bool;            (* qpack_streams.{encoder,decoder}_recv.is_some() *)
  c_wt : N;                              (* accepted_streams.wt_uni_streams.len() *)
  c_got : bool;                          (* got_peer_settings *)
  c_err : option N;                      (* handled_connection_error (its code) *)
  c_gflag : bool; c_gstep : gstep; c_gid : N;   (* send_grease_stream_flag, grease_step, the grease stream's id *)
  c_settings : option Settings.applied;  (* shared.settings (OnceLock) *)
  c_closing : bool;                      (* shared.closing *)
  c_recv_closing : option N;             (* the role's recv_closing *)
  c_acted : list act;                    (* ghost: frames the role's driver acted upon *)
  c_taken : list frame;                  (* ghost: frames poll_next handed to poll_control *)
  c_handed : list frame;                 (* ghost: frames poll_control returned to the role's driver (the cfg(h3_verif) log) *)
  c_cause : option cause;                (* ghost: which site produced the connection error *)
  c_ctl0 : option fstream;               (* ghost: the control FrameStream (with its queue) when it was claimed *)
  c_trace : list action;                 (* ghost: since then, the arrivals on that stream and the poll_next calls *)
  c_sent : bool;                         (* the server's sent_closing.is_some() *)
  c_seen : list (N * option N)           (* ghost: streams that left pending_recv_streams: resolved with that type / dropped *)
}.

Definition new_conn (grease : bool) : conn :=
  {| c_pending := []; c_control := None; c_enc := false; c_dec := false; c_wt := 0; c_got := false; c_err := None;
     c_gflag := grease; c_gstep := GNotStarted; c_gid := 0; c_settings := None; c_closing := false;
     c_recv_closing := None; c_acted := []; c_taken := []; c_handed := []; c_cause := None; c_ctl0 := None; c_trace := []; c_sent := false; c_seen := [] |}.

Definition set_pending (c : conn) (p : list (N * arecv)) : conn :=
  {| c_pending := p; c_control := c_control c; c_enc := c_enc c; c_dec := c_dec c; c_wt := c_wt c; c_got := c_got c;
     c_err := c_err c; c_gflag := c_gflag c; c_gstep := c_gstep c; c_gid := c_gid c; c_settings := c_settings c;
     c_closing := c_closing c; c_recv_closing := c_recv_closing c; c_acted := c_acted c; c_taken := c_taken c; c_handed := c_handed c; c_cause := c_cause c; c_ctl0 := c_ctl0 c; c_trace := c_trace c; c_sent := c_sent c; c_seen := c_seen c |}.
Definition set_slots (c : conn) (ctl : option (N * fstream)) (e d : bool) (wt : N) : conn :=
  {| c_pending := c_pending c; c_control := ctl; c_enc := e; c_dec := d; c_wt := wt; c_got := c_got c;
     c_err := c_err c; c_gflag := c_gflag c; c_gstep := c_gstep c; c_gid := c_gid c; c_settings := c_settings c;
     c_closing := c_closing c; c_recv_closing := c_recv_closing c; c_acted := c_acted c; c_taken := c_taken c; c_handed := c_handed c; c_cause := c_cause c; c_ctl0 := c_ctl0 c; c_trace := c_trace c; c_sent := c_sent c; c_seen := c_seen c |}.
Definition set_control (c : conn) (ctl : option (N * fstream)) : conn := set_slots c ctl (c_enc c) (c_dec c) (c_wt c).
Definition set_err (c : conn) (e : option N) (z : cause) : conn :=
  {| c_pending := c_pending c; c_control := c_control c; c_enc := c_enc c; c_dec := c_dec c; c_wt := c_wt c; c_got := c_got c;
     c_err := e; c_gflag := c_gflag c; c_gstep := c_gstep c; c_gid := c_gid c; c_settings := c_settings c;
     c_closing := c_closing c; c_recv_closing := c_recv_closing c; c_acted := c_acted c; c_taken := c_taken c; c_handed := c_handed c; c_cause := Some z; c_ctl0 := c_ctl0 c; c_trace := c_trace c; c_sent := c_sent c; c_seen := c_seen c |}.
Definition log_taken (c : conn) (f : frame) : conn :=
  {| c_pending := c_pending c; c_control := c_control c; c_enc := c_enc c; c_dec := c_dec c; c_wt := c_wt c; c_got := c_got c;
     c_err := c_err c; c_gflag := c_gflag c; c_gstep := c_gstep c; c_gid := c_gid c; c_settings := c_settings c;
     c_closing := c_closing c; c_recv_closing := c_recv_closing c; c_acted := c_acted c; c_taken := c_taken c ++ [f]; c_handed := c_handed c; c_cause := c_cause c; c_ctl0 := c_ctl0 c; c_trace := c_trace c; c_sent := c_sent c; c_seen := c_seen c |}.
Definition set_ghost (c : conn) (s0 : option fstream) (t : list action) : conn :=
  {| c_pending := c_pending c; c_control := c_control c; c_enc := c_enc c; c_dec := c_dec c; c_wt := c_wt c; c_got := c_got c;
     c_err := c_err c; c_gflag := c_gflag c; c_gstep := c_gstep c; c_gid := c_gid c; c_settings := c_settings c;
     c_closing := c_closing c; c_recv_closing := c_recv_closing c; c_acted := c_acted c; c_taken := c_taken c; c_handed := c_handed c; c_cause := c_cause c; c_ctl0 := s0; c_trace := t; c_sent := c_sent c; c_seen := c_seen c |}.
Definition log_seen (c : conn) (id : N) (ty : option N) : conn :=
  {| c_pending := c_pending c; c_control := c_control c; c_enc := c_enc c; c_dec := c_dec c; c_wt := c_wt c; c_got := c_got c;
     c_err := c_err c; c_gflag := c_gflag c; c_gstep := c_gstep c; c_gid := c_gid c; c_settings := c_settings c;
     c_closing := c_closing c; c_recv_closing := c_recv_closing c; c_acted := c_acted c; c_taken := c_taken c; c_handed := c_handed c; c_cause := c_cause c; c_ctl0 := c_ctl0 c; c_trace := c_trace c; c_sent := c_sent c; c_seen := c_seen c ++ [(id, ty)] |}.
Definition set_sent (c : conn) : conn :=
  {| c_pending := c_pending c; c_control := c_control c; c_enc := c_enc c; c_dec := c_dec c; c_wt := c_wt c; c_got := c_got c;
     c_err := c_err c; c_gflag := c_gflag c; c_gstep := c_gstep c; c_gid := c_gid c; c_settings := c_settings c;
     c_closing := c_closing c; c_recv_closing := c_recv_closing c; c_acted := c_acted c; c_taken := c_taken c; c_handed := c_handed c; c_cause := c_cause c; c_ctl0 := c_ctl0 c; c_trace := c_trace c; c_sent := true; c_seen := c_seen c |}.
Definition log_handed (c : conn) (f : frame) : conn :=
  {| c_pending := c_pending c; c_control := c_control c; c_enc := c_enc c; c_dec := c_dec c; c_wt := c_wt c; c_got := c_got c;
     c_err := c_err c; c_gflag := c_gflag c; c_gstep := c_gstep c; c_gid := c_gid c; c_settings := c_settings c;
     c_closing := c_closing c; c_recv_closing := c_recv_closing c; c_acted := c_acted c; c_taken := c_taken c; c_handed := c_handed c ++ [f]; c_cause := c_cause c; c_ctl0 := c_ctl0 c; c_trace := c_trace c; c_sent := c_sent c; c_seen := c_seen c |}.
Definition set_grease (c : conn) (f : bool) (s : gstep) (id : N) : conn :=
  {| c_pending := c_pending c; c_control := c_control c; c_enc := c_enc c; c_dec := c_dec c; c_wt := c_wt c; c_got := c_got c;
     c_err := c_err c; c_gflag := f; c_gstep := s; c_gid := id; c_settings := c_settings c;
     c_closing := c_closing c; c_recv_closing := c_recv_closing c; c_acted := c_acted c; c_taken := c_taken c; c_handed := c_handed c; c_cause := c_cause c; c_ctl0 := c_ctl0 c; c_trace := c_trace c; c_sent := c_sent c; c_seen := c_seen c |}.
Definition set_got_settings (c : conn) (s : option Settings.applied) : conn :=
  {| c_pending := c_pending c; c_control := c_control c; c_enc := c_enc c; c_dec := c_dec c; c_wt := c_wt c; c_got := true;
     c_err := c_err c; c_gflag := c_gflag c; c_gstep := c_gstep c; c_gid := c_gid c; c_settings := s;
     c_closing := c_closing c; c_recv_closing := c_recv_closing c; c_acted := c_acted c; c_taken := c_taken c; c_handed := c_handed c; c_cause := c_cause c; c_ctl0 := c_ctl0 c; c_trace := c_trace c; c_sent := c_sent c; c_seen := c_seen c |}.
Definition set_closing (c : conn) (rc : option N) : conn :=
  {| c_pending := c_pending c; c_control := c_control c; c_enc := c_enc c; c_dec := c_dec c; c_wt := c_wt c; c_got := c_got c;
     c_err := c_err c; c_gflag := c_gflag c; c_gstep := c_gstep c; c_gid := c_gid c; c_settings := c_settings c;
     c_closing := true; c_recv_closing := rc; c_acted := c_acted c; c_taken := c_taken c; c_handed := c_handed c; c_cause := c_cause c; c_ctl0 := c_ctl0 c; c_trace := c_trace c; c_sent := c_sent c; c_seen := c_seen c |}.
Definition log_act (c : conn) (a : act) : conn :=
  {| c_pending := c_pending c; c_control := c_control c; c_enc := c_enc c; c_dec := c_dec c; c_wt := c_wt c; c_got := c_got c;
     c_err := c_err c; c_gflag := c_gflag c; c_gstep := c_gstep c; c_gid := c_gid c; c_settings := c_settings c;
     c_closing := c_closing c; c_recv_closing := c_recv_closing c; c_acted := c_acted c ++ [a]; c_taken := c_taken c; c_handed := c_handed c; c_cause := c_cause c; c_ctl0 := c_ctl0 c; c_trace := c_trace c; c_sent := c_sent c; c_seen := c_seen c |}.

(* results of the poll functions of this file *)
Inductive pres (A : Type) :=
| PReady (a : A) | PPending | PErr (code : N) | PPanic (n : N) | PIndet | POutside.
Arguments PReady {A} a. Arguments PPending {A}. Arguments PErr {A} code. Arguments PPanic {A} n.
Arguments PIndet {A}. Arguments POutside {A}.

(* the state the connection functions work on: h3's, the transport's, the writes in flight *)
Definition cst := (conn * world * writes)%type.

(* handle_connection_error(InternalConnectionError::new(code, ..)): the first error wins, closes the connection *)
Definition fail {A} (z : cause) (code : N) (s : cst) : pres A * cst :=
  let '(c, w, wr) := s in
  match c_err c with
  | Some e => (PErr e, s)
  | None => (PErr code, (set_err c (Some code) z, log_close w code, wr))
  end.

Definition fs_with_q (s : fstream) (q : rx) : fstream :=
  {| st_buf := st_buf s; st_eos := st_eos s; st_memo := st_memo s; st_rem := st_rem s; st_q := q |}.

(* the `for stream in pending_recv_streams` loop of poll_accept_recv; `kept` = entries still Some afterwards *)
Fixpoint par_iter (wt : bool) (todo kept : list (N * arecv)) (s : cst) : pres unit * cst :=
  let '(c, w, wr) := s in
  match todo with
  | [] => (PReady tt, (set_pending c kept, w, wr))
  | (id, a) :: rest =>
      match poll_type a (rxq w id) with
      | (Pending, a', q') => par_iter wt rest (kept ++ [(id, a')]) (c, set_rxq w id q', wr)
      | (Ready (Err PEnd), _, q') => par_iter wt rest kept (log_seen c id None, set_rxq w id q', wr)
      | (Ready (Err (PInternal code)), _, q') => fail CzHeaderInternal code (set_pending c (kept ++ rest), set_rxq w id q', wr)
      | (Ready (Err (PIncoming _)), _, q') => (POutside, (c, set_rxq w id q', wr))
      | (Ready (Panic n), _, q') => (PPanic n, (c, set_rxq w id q', wr))
      | (Ready (Ok _), a', q') =>
          let w1 := set_rxq w id q' in
          let c := log_seen c id (ar_ty a') in
          let c0 := set_pending c (kept ++ rest) in
          match into_stream_kind a' with
          | Ok UControl =>
              match c_control c with
              | Some _ => fail CzTwoControl code_par_two_control (c0, w1, wr)
              | None =>
                  par_iter wt rest kept
                    (set_ghost (set_control c (Some (id, into_frame_stream a'))) (Some (fs_with_q (into_frame_stream a') q')) [],
                     w1, wr)
              end
          | Ok UEncoder =>
              if c_enc c then fail CzTwoEncoder code_par_two_encoder (c0, w1, wr)
              else par_iter wt rest kept (set_slots c (c_control c) true (c_dec c) (c_wt c), w1, wr)
          | Ok UDecoder =>
              if c_dec c then fail CzTwoDecoder code_par_two_decoder (c0, w1, wr)
              else par_iter wt rest kept (set_slots c (c_control c) (c_enc c) true (c_wt c), w1, wr)
          | Ok UWebTransportUni =>
              if wt then par_iter wt rest kept (set_slots c (c_control c) (c_enc c) (c_dec c) (c_wt c + 1), w1, wr)
              else par_iter wt rest kept (c, w1, wr)
          | Ok UUnknown => par_iter wt rest kept (c, add_stop w1 id code_par_stop_unknown, wr)
          | Ok UPush => par_iter wt rest kept (c, w1, wr)
          | Err _ => (PPanic 62, (c, w1, wr))
          | Panic n => (PPanic n, (c, w1, wr))
          end
      end
  end.

Definition poll_accept_recv (wt : bool) (s : cst) : pres unit * cst :=
  let '(c, w, wr) := s in
  match c_err c with
  | Some e => (PErr e, s)
  | None =>
      let p := c_pending c ++ map (fun id => (id, ar_new)) (w_incoming w) in
      par_iter wt p [] (set_pending c p, set_incoming w [], wr)
  end.

(* poll_grease_stream *)
Definition grease_write_lo : N := 9.    (* type(1..8) + frame type(1..8) + len(1) + "grease"(6) *)
Definition grease_write_hi : N := 23.
Inductive gres := GReady | GPending | GIndet.

Definition grease_finish (s : cst) : gres * cst :=
  let '(c, w, wr) := s in
  (* DataSent: poll_finish (Pending while the transport says so); then `send_grease_stream_flag = false` *)
  match c_gstep c with
  | GDataSent =>
      match assoc (c_gid c) (w_finp w) with
      | Some (Npos p) => (GPending, (c, set_finp w (aset (c_gid c) (Npos p - 1) (w_finp w)), wr))
      | _ => (GReady, (set_grease c false GFinished (c_gid c), log_fin w, wr))
      end
  | _ => (GReady, (set_grease c false (c_gstep c) (c_gid c), w, wr))
  end.
Definition grease_ready (s : cst) : gres * cst :=
  let '(c, w, wr) := s in
  match c_gstep c with
  | GDataPrepared =>
      match poll_ready (c_gid c) wr w with
      | (WDone, wr', w') => grease_finish (set_grease c (c_gflag c) GDataSent (c_gid c), w', wr')
      | (WPending, wr', w') => (GPending, (c, w', wr'))
      | (WIndet, wr', w') => (GIndet, (c, w', wr'))
      | (WStopped, wr', w') => (GReady, (set_grease c false (c_gstep c) (c_gid c), w', wr'))   (* `Err(_)`: don't try again *)
      end
  | _ => grease_finish s
  end.
Definition grease_send (s : cst) : gres * cst :=
  let '(c, w, wr) := s in
  match c_gstep c with
  | GStarted => grease_ready (set_grease c (c_gflag c) GDataPrepared (c_gid c), w,
                              aset (c_gid c) (grease_write_lo, grease_write_hi) wr)
  | _ => grease_ready s
  end.
Definition poll_grease_stream (s : cst) : gres * cst :=
  let '(c, w, wr) := s in
  match c_gstep c with
  | GNotStarted =>
      match open_send w with
      | None => (GPending, s)
      | Some (id, w') => grease_send (set_grease c (c_gflag c) GStarted id, w', wr)
      end
  | _ => grease_send s
  end.

(* frames poll_control hands to the role's driver *)
Definition kind_n (k : frame_kind) : N :=
  match k with KHeaders => 0 | KSettings => 1 | KCancelPush => 2 | KPushPromise => 3 | KGoaway => 4 | KMaxPushId => 5 end.
Definition kind_in (k : frame_kind) (l : list frame_kind) : bool := existsb (fun x => kind_n x =? kind_n k) l.
Definition frame_kind_of (f : frame) : option frame_kind :=
  match f with
  | FHeaders _ => Some KHeaders | FSettings _ => Some KSettings | FCancelPush _ => Some KCancelPush
  | FPushPromise _ _ => Some KPushPromise | FGoaway _ => Some KGoaway | FMaxPushId _ => Some KMaxPushId
  | FData _ | FWebTransport _ => None
  end.
Definition passes (f : frame) (l : list frame_kind) : bool :=
  match frame_kind_of f with Some k => kind_in k l | None => false end.

(* `(&settings).into()` on the decoded SETTINGS payload (C13's model) *)
Definition applied_of (payload : bytes) : Settings.applied :=
  match Settings.st_decode payload with
  | Ok s => Settings.apply_settings s
  | _ => Settings.default_applied
  end.
Definition set_once {A} (c : option A) (a : A) : option A := match c with None => Some a | Some _ => c end.

(* the tail of poll_control once a frame has been taken out of the control stream *)
Definition hand (f : frame) (s : cst) : pres frame * cst :=
  let '(c, w, wr) := s in (PReady f, (log_handed c f, w, wr)).
Definition after_frame (f : frame) (s : cst) : pres frame * cst :=
  let '(c, w, wr) := s in
  if c_gflag c then
    match poll_grease_stream s with
    | (GReady, s') => hand f s'
    | (GPending, s') => if grease_pending_propagates then (PPending, s') else hand f s'
    | (GIndet, s') => (PIndet, s')
    end
  else hand f s.

(* poll_control's arms for a frame that has just been taken out of the control stream (and logged as taken) *)
Definition control_frame (f : frame) (s : cst) : pres frame * cst :=
  let '(c, w, wr) := s in
  match f with
  | FSettings p =>
      if c_got c then fail (CzFrame f) code_pc_second_settings s
      else after_frame f (set_got_settings c (set_once (c_settings c) (applied_of p)), w, wr)
  | _ =>
      if negb (c_got c) then fail (CzFrame f) code_pc_missing_settings s
      else if passes f pc_pass_through then after_frame f s
      else fail (CzFrame f) code_pc_unexpected_frame s
  end.

Definition poll_control (wt : bool) (s : cst) : pres frame * cst :=
  let '(c, _, _) := s in
  match c_err c with
  | Some e => (PErr e, s)
  | None =>
    match poll_accept_recv wt s with
    | (PReady _, (c1, w1, wr1)) =>
        match c_control c1 with
        | None => (PPending, (c1, w1, wr1))
        | Some (id, fs) =>
            let '(r, fs') := poll_next (fs_with_q fs (rxq w1 id)) in
            let w2 := set_rxq w1 id (st_q fs') in
            let c2 := set_ghost (set_control c1 (Some (id, fs_with_q fs' []))) (c_ctl0 c1) (c_trace c1 ++ [CallAuto]) in
            let s2 := (c2, w2, wr1) in
            match r with
            | Pending => (PPending, s2)
            | Ready (Panic n) => (PPanic n, s2)
            | Ready (Err (FsQuic (QTerminated _))) => fail CzCtlReset code_pc_reset s2
            | Ready (Err (FsQuic _)) => (POutside, s2)
            | Ready (Err FsUnexpectedEnd) => fail CzCtlTruncated code_pc_unexpected_end s2
            | Ready (Err (FsProto k _)) =>
                match perr_code k with Some code => fail (CzCtlProto k) code s2 | None => (PPanic 53, s2) end
            | Ready (Ok None) => fail CzCtlClosed code_pc_closed s2
            | Ready (Ok (Some f)) => control_frame f (log_taken c2 f, w2, wr1)
            end
        end
    | (PPending, s1) => (PPending, s1)
    | (PErr e, s1) => (PErr e, s1)
    | (PPanic n, s1) => (PPanic n, s1)
    | (PIndet, s1) => (PIndet, s1)
    | (POutside, s1) => (POutside, s1)
    end
  end.

(* process_goaway *)
Definition gcmp_eval (o : gcmp) (a b : N) : bool :=
  match o with GLt => a <? b | GLe => a <=? b | GGt => b <? a | GGe => b <=? a end.
Definition process_goaway (id : N) (s : cst) : pres unit * cst :=
  let '(c, w, wr) := s in
  match c_recv_closing c with
  | Some prev => if gcmp_eval goaway_reject_cmp prev id then fail (CzFrame (FGoaway id)) code_goaway_increase s
                 else (PReady tt, (set_closing c (Some id), w, wr))
  | None => (PReady tt, (set_closing c (Some id), w, wr))
  end.

Definition log_s (a : act) (s : cst) : cst := let '(c, w, wr) := s in (log_act c a, w, wr).

Definition lift {A B} (r : pres A) : pres B :=
  match r with
  | PReady _ => PPanic 95 | PPending => PPending | PErr e => PErr e | PPanic n => PPanic n
  | PIndet => PIndet | POutside => POutside
  end.

(* server: poll_next_control *)
Definition srv_next_control (wt : bool) (s : cst) : pres unit * cst :=
  match poll_control wt s with
  | (PReady f, s1) =>
      match f with
      | FSettings p => (PReady tt, log_s (ASettings p) s1)
      | FGoaway id =>
          match process_goaway id s1 with
          | (PReady _, s2) => (PReady tt, log_s (AGoaway id) s2)
          | (r, s2) => (r, s2)
          end
      | FMaxPushId id => if kind_in KMaxPushId srv_ignored then (PReady tt, log_s (AMaxPushId id) s1)
                         else fail (CzFrame f) code_srv_unexpected s1
      | FCancelPush id => if kind_in KCancelPush srv_ignored then (PReady tt, log_s (ACancelPush id) s1)
                          else fail (CzFrame f) code_srv_unexpected s1
      | _ => fail (CzFrame f) code_srv_unexpected s1
      end
  | (r, s1) => (lift r, s1)
  end.
(* client: the body of the `while let Poll::Ready(result) = self.inner.poll_control(cx)` loop of poll_close;
   PReady = go round again *)
Definition cli_next_control (wt : bool) (s : cst) : pres unit * cst :=
  match poll_control wt s with
  | (PReady (FSettings p), s1) => (PReady tt, log_s (ASettings p) s1)
  | (PReady (FGoaway id), s1) =>
      if negb (sid_is_request id) then fail (CzFrame (FGoaway id)) code_cli_goaway_id s1
      else
        match process_goaway id s1 with
        | (PReady _, s2) => (PReady tt, log_s (AGoaway id) s2)
        | (r, s2) => (r, s2)
        end
  | (PReady f, s1) => fail (CzFrame f) code_cli_unexpected s1
  | (r, s1) => (lift r, s1)
  end.

(* server: `while (self.poll_next_control(cx)?).is_ready() {}`; client: the `while let` loop - both end with
   PPending or a failure *)
Fixpoint control_loop (next : cst -> pres unit * cst) (fuel : nat) (s : cst) : pres unit * cst :=
  match fuel with
  | O => (PPanic 93, s)
  | S f =>
      match next s with
      | (PReady _, s1) => control_loop next f s1
      | (r, s1) => (r, s1)
      end
  end.
Definition next_control (r : role) (wt : bool) : cst -> pres unit * cst :=
  match r with RServer => srv_next_control wt | RClient => cli_next_control wt end.

(* ------------------------------------------------------------------ the driver task *)
Inductive dres := RPending | RNone | RErr (code : N) | RPanic (n : N) | RIndet | ROutside.
Inductive phase :=
| PhOpen (k : N)     (* ConnectionInner::new: k of the three poll_open_send done *)
| PhHeaders          (* send_control_stream_headers: the join3 of the three header writes *)
| PhRun              (* the role's driver *)
| PhShutdown         (* server: accept() saw the end and is writing its last GOAWAY *)
| PhNone             (* server: accept() answered None; the application calls accept() again at the next poll *)
| PhDone.

Record drv := {
  d_role : role; d_grease : bool; d_wt : bool;
  d_ph : phase; d_s : cst; d_res : dres; d_polls : N; d_at : option N
}.

Definition new_drv (r : role) (grease wt : bool) (credit : N) (dflt : option N) : drv :=
  {| d_role := r; d_grease := grease; d_wt := wt; d_ph := PhOpen 0;
     d_s := (new_conn grease, new_world r credit dflt, []); d_res := RPending; d_polls := 0; d_at := None |}.

Definition base_id (r : role) : N := match r with RClient => 2 | RServer => 3 end.
Definition control_send_id (r : role) : N := base_id r.
Definition encoder_send_id (r : role) : N := base_id r + 4.
Definition decoder_send_id (r : role) : N := base_id r + 8.
(* stream type + SETTINGS frame of the default configuration: 26 bytes; with grease one more setting whose
   identifier takes 1, 2, 4 or 8 bytes and whose value takes 1 *)
Definition control_header_size (grease : bool) : N * N := if grease then (28, 35) else (26, 26).
Definition goaway_frame_size : N * N := (3, 3).   (* type, length 1, StreamId 0 *)

Definition fuel_of (s : cst) : nat :=
  let '(c, w, _) := s in
  S (S (fold_right (fun e n => (match e with Chunk b => length b | _ => 0 end + 1 + n)%nat) O
          (concat (map snd (w_rx w)))
        + fold_right (fun p n => (length (ar_buf (snd p)) + n)%nat) O (c_pending c)
        + match c_control c with Some (_, fs) => length (concat (st_buf fs)) | None => O end)).

Definition finish (d : drv) (ph : phase) (s : cst) (r : dres) : drv :=
  {| d_role := d_role d; d_grease := d_grease d; d_wt := d_wt d; d_ph := ph; d_s := s; d_res := r;
     d_polls := d_polls d;
     (* the poll at which the present result was first returned *)
     d_at := match r with
             | RPending => d_at d
             | RNone => match d_res d with RNone => d_at d | _ => Some (d_polls d) end
             | _ => Some (d_polls d)
             end |}.

Definition of_pres {A} (r : pres A) : dres :=
  match r with
  | PReady _ => RPanic 96 | PPending => RPending | PErr e => RErr e | PPanic n => RPanic n
  | PIndet => RIndet | POutside => ROutside
  end.

(* server: the last GOAWAY of accept() is being written *)
Definition run_shutdown (d : drv) (s : cst) : drv :=
  let '(c, w, wr) := s in
  match poll_ready (control_send_id (d_role d)) wr w with
  | (WDone, wr', w') => finish d PhNone (c, w', wr') RNone
  | (WPending, wr', w') => finish d PhShutdown (c, w', wr') RPending
  | (WIndet, wr', w') => finish d PhDone (c, w', wr') RIndet
  | (WStopped, wr', w') => finish d PhDone (c, w', wr') ROutside
  end.

Definition run_driver (d : drv) (s : cst) : drv :=
  match d_role d with
  | RServer =>
      match control_loop (next_control RServer (d_wt d)) (fuel_of s) s with
      | (PPending, (c, w, wr)) =>
          (* poll_accept_bi is Pending (no bidirectional streams here); `done` = a GOAWAY was received and no request is running *)
          match c_recv_closing c with
          | Some _ =>
              if c_sent c then
                (* shutdown(0) again: `*sent_id <= max_id`, nothing is written; accept() answers None again *)
                finish d PhNone (c, w, wr) RNone
              else
                (* shutdown(0): sent_closing = Some(0), set_closing, write GOAWAY(0) on the control stream *)
                run_shutdown d (set_sent (set_closing c (c_recv_closing c)), w,
                                aset (control_send_id RServer) goaway_frame_size wr)
          | None => finish d PhRun (c, w, wr) RPending
          end
      | (r, s1) => finish d PhDone s1 (of_pres r)
      end
  | RClient =>
      match control_loop (next_control RClient (d_wt d)) (fuel_of s) s with
      | (PPending, s1) => finish d PhRun s1 RPending
      | (r, s1) => finish d PhDone s1 (of_pres r)
      end
  end.

Definition run_headers (d : drv) (s : cst) : drv :=
  let '(c, w, wr) := s in
  let r := d_role d in
  match poll_ready (control_send_id r) wr w with
  | (WIndet, wr1, w1) => finish d PhDone (c, w1, wr1) RIndet
  | (WStopped, wr1, w1) => finish d PhDone (c, w1, wr1) ROutside
  | (r1, wr1, w1) =>
      match poll_ready (decoder_send_id r) wr1 w1 with
      | (WIndet, wr2, w2) => finish d PhDone (c, w2, wr2) RIndet
      | (WStopped, wr2, w2) => finish d PhDone (c, w2, wr2) ROutside
      | (r2, wr2, w2) =>
          match poll_ready (encoder_send_id r) wr2 w2 with
          | (WIndet, wr3, w3) => finish d PhDone (c, w3, wr3) RIndet
          | (WStopped, wr3, w3) => finish d PhDone (c, w3, wr3) ROutside
          | (r3, wr3, w3) =>
              match r1, r2, r3 with
              | WDone, WDone, WDone => run_driver d (c, w3, wr3)
              | _, _, _ => finish d PhHeaders (c, w3, wr3) RPending
              end
          end
      end
  end.

Fixpoint run_open (n : nat) (k : N) (d : drv) (s : cst) : drv :=
  let '(c, w, wr) := s in
  if 3 <=? k then
    let r := d_role d in
    run_headers d (c, w, aset (encoder_send_id r) (1, 1)
                          (aset (decoder_send_id r) (1, 1)
                             (aset (control_send_id r) (control_header_size (d_grease d)) wr)))
  else
    match n with
    | O => finish d PhDone s (RPanic 97)
    | S n' =>
        match open_send w with
        | None => finish d (PhOpen k) s RPending
        | Some (_, w') => run_open n' (k + 1) d (c, w', wr)
        end
    end.

(* one poll of the task *)
Definition drive (d : drv) : drv :=
  let d1 := {| d_role := d_role d; d_grease := d_grease d; d_wt := d_wt d; d_ph := d_ph d; d_s := d_s d;
               d_res := d_res d; d_polls := d_polls d + 1; d_at := d_at d |} in
  match d_ph d1 with
  | PhDone => d1
  | PhOpen k => run_open 4 k d1 (d_s d1)
  | PhHeaders => run_headers d1 (d_s d1)
  | PhRun => run_driver d1 (d_s d1)
  | PhShutdown => run_shutdown d1 (d_s d1)
  | PhNone => run_driver d1 (d_s d1)
  end.

(* ghost: an arrival on the claimed control stream is appended to its trace *)
Definition ghost_arrive (e : wev) (c : conn) : conn :=
  match e, c_control c with
  | EArrive id x, Some (cid, _) => if id =? cid then set_ghost c (c_ctl0 c) (c_trace c ++ [Arrive x]) else c
  | _, _ => c
  end.

Definition step (d : drv) (e : wev) : drv :=
  match e with
  | EPoll => drive d
  | _ =>
      let '(c, w, wr) := d_s d in
      {| d_role := d_role d; d_grease := d_grease d; d_wt := d_wt d; d_ph := d_ph d; d_s := (ghost_arrive e c, apply_wev e w, wr);
         d_res := d_res d; d_polls := d_polls d; d_at := d_at d |}
  end.

Definition run_history (h : list wev) (d : drv) : drv := fold_left step h d.

(* observables *)
Definition built (d : drv) : bool := match d_ph d with PhOpen _ | PhHeaders => false | _ => true end.
(* the driver is waiting for the transport to take bytes of its own control stream (or is still being built) *)
Definition blocked (d : drv) : bool := match d_ph d with PhOpen _ | PhHeaders | PhShutdown => true | _ => false end.
Definition conn_of (d : drv) : conn := let '(c, _, _) := d_s d in c.
Definition world_of (d : drv) : world := let '(_, w, _) := d_s d in w.
