(* Model of h3/src/qpack/decoder.rs: Decoder::{on_encoder_recv, decode_header} over structured instructions. *)
From H3V Require Import Base.Bytes Gen.GenQpack Model.Vas Model.DynTable Model.QInstr.

Inductive dec_err :=
| DEDynamicTable (e : dt_err)
| DEInvalidStaticIndex (i : N)
| DEMissingRefs (n : N)
| DEBadBaseIndex
| DEBufSize.

Inductive dec_action := AInsert (f : field) | ATableSizeUpdate (n : N).

(* the table look-ups of Decoder::parse_instruction *)
Definition dec_resolve (t : dt) (i : einstr) : res dec_err dec_action :=
  match i with
  | ISizeUpdate n => Ok (ATableSizeUpdate n)
  | IInsertLit n v => Ok (AInsert (n, v))
  | IDuplicate idx =>
      match dt_get_relative t idx with
      | Ok f => Ok (AInsert f) | Err e => Err (DEDynamicTable e) | Panic s => Panic s
      end
  | IInsertStatic idx v =>
      match static_get idx with
      | Some f => Ok (AInsert (fst f, v)) | None => Err (DEInvalidStaticIndex idx)
      end
  | IInsertDyn idx v =>
      match dt_get_relative t idx with
      | Ok f => Ok (AInsert (fst f, v)) | Err e => Err (DEDynamicTable e) | Panic s => Panic s
      end
  end.

Fixpoint dec_apply (t : dt) (is : list einstr) : dt * res dec_err unit :=
  match is with
  | [] => (t, Ok tt)
  | i :: r =>
      match dec_resolve t i with
      | Ok (AInsert f) =>
          match dt_put t f with
          | Ok t1 => dec_apply t1 r
          | Err e => (t, Err (DEDynamicTable e))
          | Panic s => (t, Panic s)
          end
      | Ok (ATableSizeUpdate n) =>
          match dt_set_max_size t n with
          | Ok t1 => dec_apply t1 r
          | Err e => (t, Err (DEDynamicTable e))
          | Panic s => (t, Panic s)
          end
      | Err e => (t, Err e)
      | Panic s => (t, Panic s)
      end
  end.

(* Decoder::on_encoder_recv: the new insert count and the InsertCountIncrement written (u8::try_from) *)
Definition dec_on_encoder_recv (t : dt) (is : list einstr) : dt * res dec_err (N * option dinstr) :=
  let start := dt_total_inserted t in
  match dec_apply t is with
  | (t1, Ok _) =>
      let now := dt_total_inserted t1 in
      if now =? start then (t1, Ok (now, None))
      else if now <? start then (t1, Panic 2401)
      else if 255 <? now - start then (t1, Err DEBufSize)
      else (t1, Ok (now, Some (DIncrement (now - start))))
  | (t1, Err e) => (t1, Err e)
  | (t1, Panic s) => (t1, Panic s)
  end.

(* Decoder::parse_header_field *)
Definition dec_field (t : dt) (base : N) (r : brep) : res dec_err field :=
  let lift (x : res dt_err field) (k : field -> field) : res dec_err field :=
    match x with Ok f => Ok (k f) | Err e => Err (DEDynamicTable e) | Panic s => Panic s end in
  match r with
  | BIndexedStatic i => match static_get i with Some f => Ok f | None => Err (DEInvalidStaticIndex i) end
  | BIndexedDyn i => lift (dt_get_relative_base t base i) (fun f => f)
  | BIndexedPost i => lift (dt_get_postbase t base i) (fun f => f)
  | BLitStaticName i v => match static_get i with Some f => Ok (fst f, v) | None => Err (DEInvalidStaticIndex i) end
  | BLitDynName i v => lift (dt_get_relative_base t base i) (fun f => (fst f, v))
  | BLitPostName i v => lift (dt_get_postbase t base i) (fun f => (fst f, v))
  | BLiteral n v => Ok (n, v)
  end.

Fixpoint dec_fields (t : dt) (base : N) (rs : list brep) : res dec_err (list field) :=
  match rs with
  | [] => Ok []
  | r :: rest =>
      match dec_field t base r with
      | Ok f => match dec_fields t base rest with Ok fs => Ok (f :: fs) | Err e => Err e | Panic s => Panic s end
      | Err e => Err e
      | Panic s => Panic s
      end
  end.

(* Decoder::decode_header: the fields and dyn_ref *)
Definition dec_decode_header (t : dt) (b : hblock) : res dec_err (list field * bool) :=
  match hp_get (fst b) (dt_total_inserted t) (dt_max_mem_size t) with
  | Panic s => Panic s
  | Err _ => Err DEBadBaseIndex
  | Ok (required, base) =>
      if dt_total_inserted t <? required then Err (DEMissingRefs required)
      else match dec_fields t base (snd b) with
           | Ok fs => Ok (fs, 0 <? required)
           | Err e => Err e
           | Panic s => Panic s
           end
  end.
