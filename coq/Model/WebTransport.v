(* Model of the WebTransport stream plumbing of h3 / h3-webtransport (property C19):
     h3/src/webtransport/session_id.rs     SessionId: From<StreamId>, Encode
     h3/src/stream.rs                      UniStreamHeader / BidiStreamHeader encoders, WriteBuf (header only),
                                           BufRecvStream (poll_read, poll_data, futures and tokio AsyncRead, split),
                                           AcceptRecvStream
                                           (poll_next_varint, poll_type, into_stream)
     h3/src/buf.rs                         BufList: remaining, advance, take_first_chunk, take_chunk
     h3/src/proto/frame.rs                 Frame::decode up to the WebTransport special case
     h3/src/frame.rs                       FrameDecoder::decode, FrameStream::poll_next, into_inner
     h3/src/connection.rs                  poll_accept_recv: what happens to ONE incoming uni stream
     h3-webtransport/src/server.rs         accept (session id), accept_uni, accept_bi, open_uni, open_bi
   Constants, the session-id conversion, the header layout, the memo reset and the routing guard come from
   the generated Gen/GenWebTransport.v.  No proofs here. *)
From H3V Require Import Base.Bytes Gen.GenCodes Gen.GenWebTransport Model.Varint.

(* ------------------------------------------------------------------ session id, stream headers *)

(* impl From<StreamId> for SessionId *)
Definition session_of_stream (sid : N) : N :=
  if wt_from_stream_into_inner then sid else sid_index sid.

(* BufMutExt::write_var: VarInt::from_u64(x).unwrap().encode(buf) *)
Definition write_var (x : N) : res unit bytes :=
  match vi_from_u64 x with
  | None => Panic 1
  | Some v => match vi_encode v with Some e => Ok e | None => Panic 2 end
  end.

(* impl Encode for SessionId *)
Definition session_encode (s : N) : res unit bytes := write_var (s / wt_encode_divisor).

Definition hdr_encode (ty : N) (type_first : bool) (s : N) : res unit bytes :=
  match write_var ty with
  | Ok t => match session_encode s with
            | Ok e => Ok (if type_first then t ++ e else e ++ t)
            | Err u => Err u | Panic p => Panic p
            end
  | Err u => Err u | Panic p => Panic p
  end.

(* UniStreamHeader::WebTransportUni(session).encode / BidiStreamHeader::WebTransportBidi(session).encode *)
Definition uni_header (s : N) : res unit bytes := hdr_encode wt_uni_hdr_type wt_uni_hdr_type_first s.
Definition bidi_header (s : N) : res unit bytes := hdr_encode wt_bidi_hdr_type wt_bidi_hdr_type_first s.

(* WriteBuf built from a stream header: `frame` is None, so only buf[pos..len] exists *)
Record wbuf := { w_bytes : bytes; w_pos : N }.
Definition wb_of (hdr : bytes) : wbuf := {| w_bytes := hdr; w_pos := 0 |}.
Definition wb_remaining (w : wbuf) : N := len (w_bytes w) - w_pos w.
Definition wb_chunk (w : wbuf) : bytes := skipn (N.to_nat (w_pos w)) (w_bytes w).
Definition wb_advance (cnt : N) (w : wbuf) : wbuf :=
  let rem := wb_remaining w in
  if 0 <? rem then {| w_bytes := w_bytes w; w_pos := w_pos w + N.min cnt rem |} else w.
(* OpenBi / OpenUni: `while buf.has_remaining() { ready!(stream.poll_send(cx, buf)) }` against a transport
   that takes at most k bytes of chunk() per call (k = 0: Pending, polled again later) *)
Fixpoint wb_send (ks : list N) (w : wbuf) : bytes * wbuf :=
  match ks with
  | [] => ([], w)
  | k :: ks' =>
      if wb_remaining w =? 0 then ([], w) else
      let c := wb_chunk w in
      let n := N.min k (len c) in
      let (out, w') := wb_send ks' (wb_advance n w) in
      (firstn (N.to_nat n) c ++ out, w')
  end.

(* ------------------------------------------------------------------ transport events, BufList, BufRecvStream *)

(* One delivery of the transport.  RecvStream::Buf may be a NON-contiguous Buf; h3 flattens every delivery on
   entry - BufList::push_bytes and BufRecvStream::poll_data both call copy_to_bytes(remaining()) (generated fact
   GenBufList.push_bytes_copies_whole_buffer; SimQuic SEG<n> exercises it) - so a delivery is its byte string. *)
Inductive ev := Chunk (b : bytes) | Fin | Reset (code : N).

Definition bl_remaining (bufs : list bytes) : N := len (concat bufs).

(* BufList::advance; None = index panic on an exhausted list *)
Fixpoint bl_advance (cnt : N) (bufs : list bytes) : option (list bytes) :=
  match bufs with
  | [] => if cnt =? 0 then Some [] else None
  | c :: r =>
      if cnt =? 0 then Some bufs
      else if cnt <? len c then Some (skipn (N.to_nat cnt) c :: r)
      else bl_advance (cnt - len c) r
  end.

(* BufList::take_chunk *)
Definition bl_take_chunk (limit : N) (bufs : list bytes) : option bytes * list bytes :=
  match bufs with
  | [] => (None, [])
  | c :: r =>
      let n := N.to_nat (N.min limit (len c)) in
      let rest := skipn n c in
      (Some (firstn n c), if len rest =? 0 then r else rest :: r)
  end.

(* BufRecvStream without its transport handle; the receive queue of the transport is passed alongside *)
Record brs := { r_buf : list bytes; r_eos : bool }.
Definition brs_new : brs := {| r_buf := []; r_eos := false |}.
Definition brs_set_buf (s : brs) (b : list bytes) : brs := {| r_buf := b; r_eos := r_eos s |}.
Definition brs_set_eos (s : brs) : brs := {| r_buf := r_buf s; r_eos := true |}.

Inductive rd := RdPending | RdData | RdEos | RdReset (code : N) | RdPanic (site : N).

(* BufRecvStream::poll_read.  FIN and RESET stay at the head of the queue (sticky).  push_bytes
   debug_asserts a non-empty chunk (the harness is built with debug assertions). *)
Definition brs_poll_read (q : list ev) (s : brs) : rd * list ev * brs :=
  match q with
  | [] => (RdPending, q, s)
  | Chunk b :: q' =>
      if len b =? 0 then (RdPanic 10, q', s)
      else (RdData, q', brs_set_buf s (r_buf s ++ [b]))
  | Fin :: _ => (RdEos, q, brs_set_eos s)
  | Reset c :: _ => (RdReset c, q, s)
  end.

(* results of the application-facing read calls *)
Inductive rdres := RData (b : bytes) | REnd | RReset (code : N) | RPending | RPanic (site : N).

(* impl RecvStream for BufRecvStream: poll_data *)
Definition brs_poll_data (q : list ev) (s : brs) : rdres * list ev * brs :=
  match r_buf s with
  | c :: rest => (RData c, q, brs_set_buf s rest)
  | [] =>
      match q with
      | [] => (RPending, q, s)
      | Chunk b :: q' => (RData b, q', s)
      | Fin :: _ => (REnd, q, brs_set_eos s)
      | Reset c :: _ => (RReset c, q, s)
      end
  end.

(* impl AsyncRead for BufRecvStream: poll_read(buf) with buf.len() = limit; Ok(0) is the end-of-stream answer *)
Definition brs_take (limit : N) (q : list ev) (s : brs) : rdres * list ev * brs :=
  match bl_take_chunk limit (r_buf s) with
  | (Some c, bufs') => if len c =? 0 then (REnd, q, brs_set_buf s bufs') else (RData c, q, brs_set_buf s bufs')
  | (None, _) => (REnd, q, s)
  end.
(* the guard in front of the transport poll: true = bytes are handed out of the buffer without polling.
   1: `if !p.has_remaining() { poll }`, 2: `if !p.is_eos() { poll }` (generated per impl) *)
Definition read_guard (g : N) (s : brs) : bool :=
  if g =? 1 then 0 <? bl_remaining (r_buf s) else r_eos s.
Definition brs_read_with (g : N) (limit : N) (q : list ev) (s : brs) : rdres * list ev * brs :=
  if read_guard g s then brs_take limit q s
  else match brs_poll_read q s with
       | (RdPending, q', s') => (RPending, q', s')
       | (RdEos, q', s') => (REnd, q', s')
       | (RdReset c, q', s') => (RReset c, q', s')
       | (RdPanic p, q', s') => (RPanic p, q', s')
       | (RdData, q', s') => brs_take limit q' s'
       end.
(* impl futures_util::io::AsyncRead for BufRecvStream (limit = buf.len(), Ok(0) = end) *)
Definition brs_async_read (limit : N) (q : list ev) (s : brs) : rdres * list ev * brs :=
  brs_read_with wt_fut_guard limit q s.
(* impl tokio::io::AsyncRead for BufRecvStream (limit = ReadBuf::remaining(), nothing filled = end) *)
Definition brs_tokio_read (limit : N) (q : list ev) (s : brs) : rdres * list ev * brs :=
  brs_read_with wt_tokio_guard limit q s.

(* impl BidiStream for BufRecvStream: split into (send half, receive half); one of them keeps the buffer *)
Definition brs_split (s : brs) : brs * brs :=
  let with_buf := {| r_buf := r_buf s; r_eos := r_eos s |} in
  let without := {| r_buf := []; r_eos := r_eos s |} in
  if wt_split_buf_to_recv then (without, with_buf) else (with_buf, without).

(* ------------------------------------------------------------------ AcceptRecvStream (unidirectional streams) *)

Record ars := { a_s : brs; a_ty : option N; a_id : option N; a_exp : option N }.
Definition ars_new : ars := {| a_s := brs_new; a_ty := None; a_id := None; a_exp := None |}.
Definition ars_set_s (a : ars) (s : brs) : ars := {| a_s := s; a_ty := a_ty a; a_id := a_id a; a_exp := a_exp a |}.
Definition ars_set_exp (a : ars) (e : option N) : ars := {| a_s := a_s a; a_ty := a_ty a; a_id := a_id a; a_exp := e |}.
Definition ars_set_ty (a : ars) (t : N) : ars := {| a_s := a_s a; a_ty := Some t; a_id := a_id a; a_exp := a_exp a |}.
Definition ars_set_id (a : ars) (i : N) : ars := {| a_s := a_s a; a_ty := a_ty a; a_id := Some i; a_exp := a_exp a |}.

Inductive pterr := PtEndOfStream | PtInternal (code : N).

(* `buf.chunk()[0]`: first byte of the front chunk; None = index panic (empty front chunk) *)
Definition first_byte (bufs : list bytes) : option N :=
  match bufs with (b0 :: _) :: _ => Some b0 | _ => None end.

(* the block at the top of the loop of poll_next_varint *)
Inductive attempt :=
| AtValue (v : N) (bufs' : list bytes) (exp' : option N)
| AtNeedMore (exp' : option N)
| AtErr (code : N)
| AtPanic (site : N).

Definition memo_update (exp : option N) (bufs : list bytes) : res unit (option N) :=
  match exp with
  | Some e => Ok (Some e)
  | None =>
      if wt_memo_min <=? bl_remaining bufs then
        match first_byte bufs with
        | Some b0 => Ok (Some (vi_encoded_size b0))
        | None => Panic 20
        end
      else Ok None
  end.

Definition varint_attempt (exp : option N) (bufs : list bytes) : attempt :=
  match memo_update exp bufs with
  | Ok (Some e) =>
      if e <=? bl_remaining bufs then
        match vi_decode (concat bufs) with
        | (Ok v, rest) =>
            match bl_advance (bl_remaining bufs - len rest) bufs with
            | Some bufs' => AtValue v bufs' (if wt_memo_reset then None else Some e)
            | None => AtPanic 21
            end
        | (Err _, _) => AtErr wt_varint_err_code
        | (Panic p, _) => AtPanic p
        end
      else AtNeedMore (Some e)
  | Ok None => AtNeedMore None
  | Err _ => AtPanic 0
  | Panic p => AtPanic p
  end.

Inductive pnv := PnvValue (v : N) | PnvPending | PnvErr (e : pterr) | PnvPanic (site : N).

(* what the loop does once `stream_stopped` is set: one more look at the buffer, then EndOfStream *)
Definition pnv_stopped (q : list ev) (a : ars) : pnv * list ev * ars :=
  match varint_attempt (a_exp a) (r_buf (a_s a)) with
  | AtValue v bufs' e' => (PnvValue v, q, ars_set_exp (ars_set_s a (brs_set_buf (a_s a) bufs')) e')
  | AtNeedMore e' => (PnvErr PtEndOfStream, q, ars_set_exp a e')
  | AtErr c => (PnvErr (PtInternal c), q, a)
  | AtPanic p => (PnvPanic p, q, a)
  end.

(* AcceptRecvStream::poll_next_varint: the buffer is consulted first, then one transport event is read *)
Fixpoint poll_next_varint (q : list ev) (a : ars) : pnv * list ev * ars :=
  match varint_attempt (a_exp a) (r_buf (a_s a)) with
  | AtValue v bufs' e' => (PnvValue v, q, ars_set_exp (ars_set_s a (brs_set_buf (a_s a) bufs')) e')
  | AtErr c => (PnvErr (PtInternal c), q, a)
  | AtPanic p => (PnvPanic p, q, a)
  | AtNeedMore e' =>
      let a1 := ars_set_exp a e' in
      match q with
      | [] => (PnvPending, [], a1)
      | Chunk b :: q' =>
          if len b =? 0 then (PnvPanic 10, q', a1)
          else poll_next_varint q' (ars_set_s a1 (brs_set_buf (a_s a1) (r_buf (a_s a1) ++ [b])))
      | Fin :: _ => pnv_stopped q (ars_set_s a1 (brs_set_eos (a_s a1)))
      | Reset _ :: _ => pnv_stopped q a1
      end
  end.

Inductive ptres := PtReady | PtPending | PtError (e : pterr) | PtPanic (site : N).

Definition needs_id (ty : option N) : bool :=
  match ty with Some t => existsb (N.eqb t) wt_second_varint_types | None => false end.

(* AcceptRecvStream::poll_type *)
Definition poll_type (q : list ev) (a : ars) : ptres * list ev * ars :=
  let r1 :=
    match a_ty a with
    | Some _ => (PtReady, q, a)
    | None =>
        match poll_next_varint q a with
        | (PnvValue v, q', a') => (PtReady, q', ars_set_ty a' v)
        | (PnvPending, q', a') => (PtPending, q', a')
        | (PnvErr e, q', a') => (PtError e, q', a')
        | (PnvPanic p, q', a') => (PtPanic p, q', a')
        end
    end in
  match r1 with
  | (PtReady, q1, a1) =>
      if needs_id (a_ty a1) && (match a_id a1 with None => true | Some _ => false end) then
        match poll_next_varint q1 a1 with
        | (PnvValue v, q', a') => (PtReady, q', ars_set_id a' v)
        | (PnvPending, q', a') => (PtPending, q', a')
        | (PnvErr e, q', a') => (PtError e, q', a')
        | (PnvPanic p, q', a') => (PtPanic p, q', a')
        end
      else (PtReady, q1, a1)
  | other => other
  end.

(* AcceptRecvStream::into_stream *)
Inductive accepted :=
| AcControl | AcPush | AcEncoder | AcDecoder
| AcWtUni (session : N) (s : brs)
| AcUnknown
| AcPanic (site : N).

Definition into_stream (a : ars) : accepted :=
  match a_ty a with
  | None => AcPanic 40
  | Some t =>
      if t =? wt_st_control then AcControl
      else if t =? wt_st_push then AcPush
      else if t =? wt_st_encoder then AcEncoder
      else if t =? wt_st_decoder then AcDecoder
      else if t =? wt_into_stream_type then
        match a_id a with Some i => AcWtUni i (a_s a) | None => AcPanic 41 end
      else AcUnknown
  end.

(* the guard of the WebTransportUni arm of poll_accept_recv *)
Definition gate_open (enable_webtransport : bool) : bool :=
  if wt_gate =? 0 then true
  else if wt_gate =? 1 then enable_webtransport
  else negb enable_webtransport.

(* ConnectionInner::poll_accept_recv restricted to ONE entry of pending_recv_streams *)
Inductive route :=
| RtPending (a : ars)                  (* stays in pending_recv_streams *)
| RtRemoved                            (* ended before its header was complete: removed silently *)
| RtConnError (code : N)
| RtSurfaced (session : N) (s : brs)   (* pushed to accepted_streams.wt_uni_streams *)
| RtDropped                            (* resolved but falls through `_ => ()`: handle dropped, nothing else *)
| RtStopped (code : N)                 (* unknown type (or a refused 0x54 stream, if the code has an arm for it): stop_sending(code) *)
| RtOther (ty : N)                     (* control / push / QPACK streams: not this property *)
| RtPanic (site : N).

Definition route_uni (enable_webtransport : bool) (q : list ev) (a : ars) : route * list ev :=
  match poll_type q a with
  | (PtPending, q', a') => (RtPending a', q')
  | (PtError PtEndOfStream, q', _) => (RtRemoved, q')
  | (PtError (PtInternal c), q', _) => (RtConnError c, q')
  | (PtPanic p, q', _) => (RtPanic p, q')
  | (PtReady, q', a') =>
      match into_stream a' with
      | AcWtUni i s =>
          if gate_open enable_webtransport then (RtSurfaced i s, q')
          else if wt_disabled_stops then (RtStopped wt_disabled_stop_code, q')
          else (RtDropped, q')
      | AcUnknown => (RtStopped wt_unknown_stop_code, q')
      | AcControl => (RtOther wt_st_control, q')
      | AcPush => (RtOther wt_st_push, q')
      | AcEncoder => (RtOther wt_st_encoder, q')
      | AcDecoder => (RtOther wt_st_decoder, q')
      | AcPanic p => (RtPanic p, q')
      end
  end.

(* ------------------------------------------------------------------ FrameStream (bidirectional streams) *)

Definition usize_max : N := 2 ^ 64 - 1.

Record fs := { f_s : brs; f_exp : option N; f_rem : N }.
Definition fs_new : fs := {| f_s := brs_new; f_exp := None; f_rem := 0 |}.
Definition fs_set_s (f : fs) (s : brs) : fs := {| f_s := s; f_exp := f_exp f; f_rem := f_rem f |}.
Definition fs_set_exp (f : fs) (e : option N) : fs := {| f_s := f_s f; f_exp := e; f_rem := f_rem f |}.
Definition fs_set_rem (f : fs) (r : N) : fs := {| f_s := f_s f; f_exp := f_exp f; f_rem := r |}.

(* Frame::decode on the cursor's view, up to the point this property needs: the frame type and, for the
   WebTransport signal (checked before any length is read), the session id *)
Inductive fdec :=
| FdWt (session : N) (consumed : N)
| FdIncomplete (min : N)
| FdOther (ty : N)
| FdPanic (site : N).

Definition frame_decode_head (view : bytes) : fdec :=
  let remaining := len view in
  match vi_decode view with
  | (Ok ty, rest) =>
      if ty =? wt_frame_checked then
        match vi_decode rest with
        | (Ok s, rest') => FdWt s (remaining - len rest')
        | (Err k, _) => FdIncomplete k
        | (Panic p, _) => FdPanic p
        end
      else FdOther ty
  | (Err _, _) => FdIncomplete (remaining + wt_frame_type_incomplete_add)
  | (Panic p, _) => FdPanic p
  end.

Inductive dres := DWt (session : N) | DNone | DOther (ty : N) | DPanic (site : N).

(* FrameDecoder::decode (first frame only; a non-WebTransport first frame is the request path, C02/C03) *)
Definition fs_decode (f : fs) : dres * fs :=
  let bufs := r_buf (f_s f) in
  if bl_remaining bufs =? 0 then (DNone, f)
  else if (match f_exp f with Some min => bl_remaining bufs <? min | None => false end) then (DNone, f)
  else
    match frame_decode_head (concat bufs) with
    | FdWt s pos =>
        match bl_advance pos bufs with
        | Some bufs' => (DWt s, fs_set_exp (fs_set_s f (brs_set_buf (f_s f) bufs')) None)
        | None => (DPanic 30, f)
        end
    | FdIncomplete min => (DNone, fs_set_exp f (Some min))
    | FdOther ty => (DOther ty, f)
    | FdPanic p => (DPanic p, f)
    end.

Inductive pnres :=
| PnWt (session : N)
| PnPending
| PnEndNone              (* Ok(None): stream ended cleanly before any frame *)
| PnUnexpectedEnd        (* FrameStreamError::UnexpectedEnd *)
| PnQuic (code : N)      (* FrameStreamError::Quic(StreamTerminated) *)
| PnOther (ty : N)       (* first frame is not the WebTransport signal *)
| PnPanic (site : N).

Definition pn_of_decode (d : dres) (f : fs) (k : pnres) : pnres * fs :=
  match d with
  | DWt s => (PnWt s, fs_set_rem f usize_max)
  | DNone => (k, f)
  | DOther ty => (PnOther ty, f)
  | DPanic p => (PnPanic p, f)
  end.

(* the loop of FrameStream::poll_next: try_recv (one transport event unless eos), then decode *)
Fixpoint fs_next_loop (q : list ev) (f : fs) : pnres * list ev * fs :=
  let at_end (q : list ev) (f : fs) :=
    let (d, f') := fs_decode f in
    let (r, f'') := pn_of_decode d f' (if 0 <? bl_remaining (r_buf (f_s f')) then PnUnexpectedEnd else PnEndNone) in
    (r, q, f'') in
  if r_eos (f_s f) then at_end q f
  else
    match q with
    | [] => let (d, f') := fs_decode f in let (r, f'') := pn_of_decode d f' PnPending in (r, q, f'')
    | Chunk b :: q' =>
        if len b =? 0 then (PnPanic 10, q', f) else
        let f1 := fs_set_s f (brs_set_buf (f_s f) (r_buf (f_s f) ++ [b])) in
        let (d, f') := fs_decode f1 in
        match d with
        | DNone => fs_next_loop q' f'
        | _ => let (r, f'') := pn_of_decode d f' PnPending in (r, q', f'')
        end
    | Fin :: _ => at_end q (fs_set_s f (brs_set_eos (f_s f)))
    | Reset c :: _ => (PnQuic c, q, f)
    end.

Definition fs_poll_next (q : list ev) (f : fs) : pnres * list ev * fs :=
  if f_rem f =? 0 then fs_next_loop q f else (PnPanic 31, q, f).

(* FrameStream::into_inner *)
Definition fs_into_inner (f : fs) : brs := f_s f.

(* ------------------------------------------------------------------ the application's view *)

Inductive rmode := ModeData | ModeRead (limit : N) | ModeTokio (limit : N).
Definition read_call (m : rmode) (q : list ev) (s : brs) : rdres * list ev * brs :=
  match m with
  | ModeData => brs_poll_data q s
  | ModeRead l => brs_async_read l q s
  | ModeTokio l => brs_tokio_read l q s
  end.
(* what the application reads from after accept_bi: the stream itself, or the receive half of split() *)
Definition after_accept (split : bool) (s : brs) : brs := if split then snd (brs_split s) else s.

Inductive ending := EFin | EReset (code : N) | EPanic (site : N) | EOutOfFuel.

(* reads until Pending or the end; pieces are appended to [acc] *)
Fixpoint read_loop (fuel : nat) (m : rmode) (q : list ev) (s : brs) (acc : list bytes)
  : option ending * list ev * brs * list bytes :=
  match fuel with
  | O => (Some EOutOfFuel, q, s, acc)
  | S k =>
      match read_call m q s with
      | (RData b, q', s') => read_loop k m q' s' (acc ++ [b])
      | (REnd, q', s') => (Some EFin, q', s', acc)
      | (RReset c, q', s') => (Some (EReset c), q', s', acc)
      | (RPending, q', s') => (None, q', s', acc)
      | (RPanic p, q', s') => (Some (EPanic p), q', s', acc)
      end
  end.
Fixpoint ev_bytes (q : list ev) : bytes :=
  match q with
  | [] => []
  | Chunk b :: r => b ++ ev_bytes r
  | _ :: r => ev_bytes r
  end.
Definition read_fuel (q : list ev) (s : brs) : nat := S (S (length (concat (r_buf s)) + length (ev_bytes q))).

Inductive item := Arrive (e : ev) | Poll.

(* a task that awaits accept_uni() and then reads the stream it got to the end *)
Inductive uphase :=
| UAccepting (a : ars)
| UReading (session : N) (s : brs)
| UEnded (session : N) (e : ending)
| UNever (r : route).       (* accept_uni never yields this stream *)
Record uapp := { u_q : list ev; u_ph : uphase; u_out : list bytes }.
Definition uapp_init : uapp := {| u_q := []; u_ph := UAccepting ars_new; u_out := [] |}.

Definition uni_read (m : rmode) (session : N) (q : list ev) (s : brs) (acc : list bytes) : uapp :=
  match read_loop (read_fuel q s) m q s acc with
  | (Some e, q', _, out) => {| u_q := q'; u_ph := UEnded session e; u_out := out |}
  | (None, q', s', out) => {| u_q := q'; u_ph := UReading session s'; u_out := out |}
  end.

Definition uni_poll (enable_webtransport : bool) (m : rmode) (st : uapp) : uapp :=
  match u_ph st with
  | UAccepting a =>
      match route_uni enable_webtransport (u_q st) a with
      | (RtPending a', q') => {| u_q := q'; u_ph := UAccepting a'; u_out := u_out st |}
      | (RtSurfaced i s, q') => uni_read m i q' s (u_out st)
      | (r, q') => {| u_q := q'; u_ph := UNever r; u_out := u_out st |}
      end
  | UReading i s => uni_read m i (u_q st) s (u_out st)
  | _ => st
  end.

Definition uni_step (en : bool) (m : rmode) (st : uapp) (it : item) : uapp :=
  match it with
  | Arrive e => {| u_q := u_q st ++ [e]; u_ph := u_ph st; u_out := u_out st |}
  | Poll => uni_poll en m st
  end.
Definition uni_run (en : bool) (m : rmode) (h : list item) : uapp := fold_left (uni_step en m) h uapp_init.

(* a task that awaits accept_bi() and, when it is a WebTransport stream, reads it to the end *)
Inductive bphase :=
| BAccepting (f : fs)
| BReading (session : N) (s : brs)
| BEnded (session : N) (e : ending)
| BNotWt (r : pnres).
Record bapp := { b_q : list ev; b_ph : bphase; b_out : list bytes }.
Definition bapp_init : bapp := {| b_q := []; b_ph := BAccepting fs_new; b_out := [] |}.

Definition bidi_read (m : rmode) (session : N) (q : list ev) (s : brs) (acc : list bytes) : bapp :=
  match read_loop (read_fuel q s) m q s acc with
  | (Some e, q', _, out) => {| b_q := q'; b_ph := BEnded session e; b_out := out |}
  | (None, q', s', out) => {| b_q := q'; b_ph := BReading session s'; b_out := out |}
  end.

Definition bidi_poll (split : bool) (m : rmode) (st : bapp) : bapp :=
  match b_ph st with
  | BAccepting f =>
      match fs_poll_next (b_q st) f with
      | (PnPending, q', f') => {| b_q := q'; b_ph := BAccepting f'; b_out := b_out st |}
      | (PnWt i, q', f') => bidi_read m i q' (after_accept split (fs_into_inner f')) (b_out st)
      | (r, q', _) => {| b_q := q'; b_ph := BNotWt r; b_out := b_out st |}
      end
  | BReading i s => bidi_read m i (b_q st) s (b_out st)
  | _ => st
  end.

Definition bidi_step (split : bool) (m : rmode) (st : bapp) (it : item) : bapp :=
  match it with
  | Arrive e => {| b_q := b_q st ++ [e]; b_ph := b_ph st; b_out := b_out st |}
  | Poll => bidi_poll split m st
  end.
Definition bidi_run (split : bool) (m : rmode) (h : list item) : bapp :=
  fold_left (bidi_step split m) h bapp_init.
