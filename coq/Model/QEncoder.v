(* Model of h3/src/qpack/encoder.rs (Encoder::{encode, on_decoder_recv}, set_dynamic_table_size) and of
   DynamicTableEncoder (dynamic.rs).  `block_refs` (a HashMap) is an association list; its iteration order only
   matters on the unreachable `InvalidTrackingCount` path of track_cancel. *)
From H3V Require Import Base.Bytes Gen.GenQpack Model.Vas Model.DynTable Model.QInstr.

Record tenc := mkTenc { te_t : dt; te_base : N; te_sid : N; te_refs : refs }.

(* DynamicTable::encoder: refresh both maps from the live entries (later entries win), base = largest_ref *)
Fixpoint refresh_maps (v : vas) (fs : list field) (idx : N) (fm : list (field * N)) (nm : list (bytes * N))
  : res dt_err (list (field * N) * list (bytes * N)) :=
  match fs with
  | [] => Ok (fm, nm)
  | f :: r =>
      match vas_index v idx with
      | Ok a => refresh_maps v r (idx + 1) (aset field_eqb f a fm) (aset bytes_eqb (fst f) a nm)
      | _ => Panic 2301
      end
  end.

Definition dt_encoder (t : dt) (sid : N) : res dt_err tenc :=
  match refresh_maps (dt_vas t) (dt_fields t) 0 (dt_fmap t) (dt_nmap t) with
  | Ok (fm, nm) => Ok (mkTenc (with_maps t fm nm) (vas_largest_ref (dt_vas t)) sid [])
  | Err e => Err e
  | Panic s => Panic s
  end.

Definition te_with_t (e : tenc) (t : dt) : tenc := mkTenc t (te_base e) (te_sid e) (te_refs e).

(* DynamicTableEncoder::track_ref *)
Definition te_track_ref (e : tenc) (r : N) : tenc :=
  mkTenc (dt_track_ref (te_t e) r) (te_base e) (te_sid e) (refs_incr r (te_refs e)).

Inductive lookup :=
| LStatic (i : N)
| LRelative (index absolute : N)
| LPostBase (index absolute : N)
| LNotFound.

Definition te_lookup_result (e : tenc) (a : option N) : tenc * lookup :=
  match a with
  | Some a =>
      if a <=? te_base e then (te_track_ref e a, LRelative (te_base e - a) a)
      else (te_track_ref e a, LPostBase (a - te_base e - 1) a)
  | None => (e, LNotFound)
  end.

Definition te_find (e : tenc) (f : field) : tenc * lookup :=
  te_lookup_result e (aget field_eqb f (dt_fmap (te_t e))).

Definition te_find_name (e : tenc) (name : bytes) : tenc * lookup :=
  match static_find_name name with
  | Some i => (e, LStatic i)
  | None => te_lookup_result e (aget bytes_eqb name (dt_nmap (te_t e)))
  end.

Inductive insres :=
| RInserted (postbase absolute : N)
| RDuplicated (relative postbase absolute : N)
| RInsertedNameRef (postbase relative absolute : N)
| RInsertedStaticNameRef (postbase index absolute : N)
| RNotInserted (l : lookup).

(* DynamicTableEncoder::insert.  2302 = `index - ref_index - 1` / `index - base - 1` underflow *)
Definition te_insert (e : tenc) (f : field) : res dt_err (tenc * insres) :=
  let t := te_t e in
  if cmp_eval q_blocked_gate_cmp (dt_bcount t) (dt_bmax t) then
    let '(e1, l) := te_find_name e (fst f) in Ok (e1, RNotInserted l)
  else
    match dt_insert t f with
    | Err EMaxTableSizeReached => let '(e1, l) := te_find_name e (fst f) in Ok (e1, RNotInserted l)
    | Err er => Err er
    | Panic s => Panic s
    | Ok (t1, None) => let '(e1, l) := te_find_name (te_with_t e t1) (fst f) in Ok (e1, RNotInserted l)
    | Ok (t1, Some index) =>
        let e1 := te_track_ref (te_with_t e t1) index in
        let base := te_base e in
        if index <=? base then Panic 2302
        else
          let t2 := te_t e1 in
          match aget field_eqb f (dt_fmap t2) with
          | Some ref_index =>
              if index <=? ref_index then Panic 2302
              else
                let fm := aset field_eqb f index (dt_fmap t2) in
                let nm := match aget bytes_eqb (fst f) (dt_nmap t2) with
                          | Some _ => aset bytes_eqb (fst f) index (dt_nmap t2)
                          | None => dt_nmap t2
                          end in
                let e2 := te_track_ref (te_with_t e1 (with_maps t2 fm nm)) ref_index in
                Ok (e2, RDuplicated (index - ref_index - 1) (index - base - 1) index)
          | None =>
              let fm := aset field_eqb f index (dt_fmap t2) in
              match static_find_name (fst f) with
              | Some si => Ok (te_with_t e1 (with_maps t2 fm (dt_nmap t2)), RInsertedStaticNameRef (index - base - 1) si index)
              | None =>
                  match aget bytes_eqb (fst f) (dt_nmap t2) with
                  | Some ref_index =>
                      if index <=? ref_index then Panic 2302
                      else
                        let nm := aset bytes_eqb (fst f) index (dt_nmap t2) in
                        let e2 := te_track_ref (te_with_t e1 (with_maps t2 fm nm)) ref_index in
                        Ok (e2, RInsertedNameRef (index - base - 1) (index - ref_index - 1) index)
                  | None =>
                      let nm := aset bytes_eqb (fst f) index (dt_nmap t2) in
                      Ok (te_with_t e1 (with_maps t2 fm nm), RInserted (index - base - 1) index)
                  end
              end
          end
    end.

(* what one field contributes: the representation, the encoder-stream instruction (if any), the reference *)
Record femit := mkEmit { fe_rep : brep; fe_instr : option einstr; fe_ref : option N }.

(* Encoder::encode_field *)
Definition encode_field (e : tenc) (f : field) : res dt_err (tenc * femit) :=
  match static_find f with
  | Some i => Ok (e, mkEmit (BIndexedStatic i) None None)
  | None =>
      let '(e1, l) := te_find e f in
      match l with
      | LRelative index absolute => Ok (e1, mkEmit (BIndexedDyn index) None (Some absolute))
      | _ =>
          match te_insert e1 f with
          | Err er => Err er
          | Panic s => Panic s
          | Ok (e2, r) =>
              Ok (e2,
                  match r with
                  | RDuplicated relative postbase absolute =>
                      mkEmit (BIndexedPost postbase) (Some (IDuplicate relative)) (Some absolute)
                  | RInserted postbase absolute =>
                      mkEmit (BIndexedPost postbase) (Some (IInsertLit (fst f) (snd f))) (Some absolute)
                  | RInsertedStaticNameRef postbase index absolute =>
                      mkEmit (BIndexedPost postbase) (Some (IInsertStatic index (snd f))) (Some absolute)
                  | RInsertedNameRef postbase relative absolute =>
                      mkEmit (BIndexedPost postbase) (Some (IInsertDyn relative (snd f))) (Some absolute)
                  | RNotInserted (LStatic index) => mkEmit (BLitStaticName index (snd f)) None None
                  | RNotInserted (LRelative index absolute) => mkEmit (BLitDynName index (snd f)) None (Some absolute)
                  | RNotInserted (LPostBase index absolute) => mkEmit (BLitPostName index (snd f)) None (Some absolute)
                  | RNotInserted LNotFound => mkEmit (BLiteral (fst f) (snd f)) None None
                  end)
          end
      end
  end.

Record encoded := mkEncoded { en_required : N; en_block : hblock; en_instrs : list einstr }.

Fixpoint encode_fields (e : tenc) (fs : list field) (required : N) (reps : list brep) (ins : list einstr)
  : tenc * res dt_err (N * list brep * list einstr) :=
  match fs with
  | [] => (e, Ok (required, reps, ins))
  | f :: r =>
      match encode_field e f with
      | Ok (e1, em) =>
          let required' := match fe_ref em with Some a => N.max required a | None => required end in
          let ins' := match fe_instr em with Some i => ins ++ [i] | None => ins end in
          encode_fields e1 r required' (reps ++ [fe_rep em]) ins'
      | Err er => (e, Err er)
      | Panic s => (e, Panic s)
      end
  end.

Inductive enc_err :=
| EEInsertion (e : dt_err)
| EEInvalidInteger
| EEUnknownInstruction.

(* the Drop of an uncommitted DynamicTableEncoder: cancel this block's references (errors ignored) *)
Definition te_drop_uncommitted (e : tenc) : dt :=
  match dt_track_cancel (te_refs e) (dt_track (te_t e)) with
  | Ok tr => with_track (te_t e) tr
  | _ => te_t e
  end.

(* DynamicTableEncoder::commit *)
Definition te_commit (e : tenc) (largest : N) : dt :=
  dt_register_blocked (dt_track_block (te_t e) (te_sid e) (te_refs e)) largest.

(* Encoder::encode *)
Definition enc_encode (t : dt) (sid : N) (fs : list field) : dt * res enc_err encoded :=
  match dt_encoder t sid with
  | Err er => (t, Err (EEInsertion er))
  | Panic s => (t, Panic s)
  | Ok e0 =>
      match encode_fields e0 fs 0 [] [] with
      | (e1, Ok (required, reps, ins)) =>
          match hp_new required (te_base e1) (dt_total_inserted (te_t e1)) (dt_max (te_t e1)) with
          | Ok p => (te_commit e1 required, Ok (mkEncoded required (p, reps) ins))
          | Err _ => (te_drop_uncommitted e1, Panic 2200)
          | Panic s => (te_drop_uncommitted e1, Panic s)
          end
      | (e1, Err er) => (te_drop_uncommitted e1, Err (EEInsertion er))
      | (e1, Panic s) => (te_drop_uncommitted e1, Panic s)
      end
  end.

(* Encoder::on_decoder_recv over already-split instructions; InsertCountIncrement::decode rejects n > 64 *)
Fixpoint enc_on_decoder_recv (t : dt) (is : list dinstr) : dt * res enc_err unit :=
  match is with
  | [] => (t, Ok tt)
  | DAck sid :: r =>
      match dt_untrack_block t sid with
      | Ok t1 => enc_on_decoder_recv t1 r
      | Err er => (t, Err (EEInsertion er))
      | Panic s => (t, Panic s)
      end
  | DCancel sid :: r =>
      match dt_untrack_block t sid with
      | Ok t1 =>
          match dt_untrack_block t1 sid with
          | Ok t2 => enc_on_decoder_recv t2 r
          | Err _ => enc_on_decoder_recv t1 r
          | Panic s => (t1, Panic s)
          end
      | Err _ => enc_on_decoder_recv t r
      | Panic s => (t, Panic s)
      end
  | DIncrement n :: r =>
      if q_increment_limit <? n then (t, Err EEInvalidInteger)
      else match dt_update_largest_received t n with
           | Ok t1 => enc_on_decoder_recv t1 r
           | Err er => (t, Err (EEInsertion er))
           | Panic s => (t, Panic s)
           end
  end.

(* encoder::set_dynamic_table_size *)
Definition enc_set_table_size (t : dt) (size : N) : dt * res enc_err einstr :=
  match dt_set_max_size t size with
  | Ok t1 => (t1, Ok (ISizeUpdate size))
  | Err er => (t, Err (EEInsertion er))
  | Panic s => (t, Panic s)
  end.
