(* Byte codecs of the structured instructions and representations of Model/QInstr.v, composed from the prefix-integer
   and string-literal models of C15 exactly as stream.rs / block.rs compose prefix_int::encode and prefix_string::encode.
   Used by the correspondence run to compare the model's wire bytes with the bytes the real Encoder wrote. *)
From H3V Require Import Base.Bytes Model.PrefixInt Model.PrefixString Model.QInstr.

Definition wcat (a b : res unit bytes) : res unit bytes :=
  match a with
  | Ok x => match b with Ok y => Ok (x ++ y) | Err e => Err e | Panic s => Panic s end
  | Err e => Err e
  | Panic s => Panic s
  end.

(* stream.rs: encoder instructions *)
Definition wire_einstr (i : einstr) : res unit bytes :=
  match i with
  | ISizeUpdate n => pi_encode 5 1 n
  | IInsertStatic idx v => wcat (pi_encode 6 3 idx) (ps_encode 8 0 v)
  | IInsertDyn idx v => wcat (pi_encode 6 2 idx) (ps_encode 8 0 v)
  | IInsertLit n v => wcat (ps_encode 6 1 n) (ps_encode 8 0 v)
  | IDuplicate idx => pi_encode 5 0 idx
  end.

(* stream.rs: decoder instructions *)
Definition wire_dinstr (i : dinstr) : res unit bytes :=
  match i with
  | DAck sid => pi_encode 7 1 sid
  | DCancel sid => pi_encode 6 1 sid
  | DIncrement n => pi_encode 6 0 n
  end.

(* block.rs: HeaderPrefix::encode and the field line representations *)
Definition wire_prefix (p : hprefix) : res unit bytes :=
  wcat (pi_encode 8 0 (hp_eic p)) (pi_encode 7 (if hp_sign p then 1 else 0) (hp_delta p)).

Definition wire_brep (r : brep) : res unit bytes :=
  match r with
  | BIndexedStatic i => pi_encode 6 3 i
  | BIndexedDyn i => pi_encode 6 2 i
  | BIndexedPost i => pi_encode 4 1 i
  | BLitStaticName i v => wcat (pi_encode 4 5 i) (ps_encode 8 0 v)
  | BLitDynName i v => wcat (pi_encode 4 4 i) (ps_encode 8 0 v)
  | BLitPostName i v => wcat (pi_encode 3 0 i) (ps_encode 8 0 v)
  | BLiteral n v => wcat (ps_encode 4 2 n) (ps_encode 8 0 v)
  end.

Fixpoint wire_list {A} (f : A -> res unit bytes) (l : list A) : res unit bytes :=
  match l with
  | [] => Ok []
  | x :: r => wcat (f x) (wire_list f r)
  end.

Definition wire_block (b : hblock) : res unit bytes := wcat (wire_prefix (fst b)) (wire_list wire_brep (snd b)).
Definition wire_einstrs (l : list einstr) : res unit bytes := wire_list wire_einstr l.
