(* Model of the SETTINGS code of h3:
     proto/frame.rs   SettingId::{grease,is_supported,is_forbidden}, Settings::{insert,get,len,encode,decode},
                      Frame::decode for the SETTINGS type
     config.rs        TryFrom<Config> for frame::Settings, From<&frame::Settings> for config::Settings, defaults
     stream.rs        WriteBuf::from(UniStreamHeader::Control(settings)) and its Buf impl (no payload)
     connection.rs    send_control_stream_headers (the part that builds the bytes), poll_control's SETTINGS arm
     shared_state.rs  settings() / set_settings()
   Tables, constants, comparison operators and statement orders come from Gen/GenSettings.v.
   A frame::Settings value is modelled by its live prefix entries[..len]; the rest of the array is
   (SettingId::NONE, 0) in every reachable value (only `insert` writes to it).  64-bit usize. *)
From H3V Require Import Base.Bytes Gen.GenCodes Gen.GenVarint Gen.GenSettings Model.Varint.

Definition entry := (N * N)%type.
Definition fsettings := list entry.

Inductive st_err :=
| Exceeded | Malformed | Repeated (id : N) | InvalidSettingId (id : N) | InvalidSettingValue (id v : N)
| OutOfFuel.

Definition elen (s : fsettings) : N := N.of_nat (length s).

Definition cmp_eval (c : cmpop) (a b : N) : bool :=
  match c with
  | CmpGe => b <=? a | CmpGt => b <? a | CmpEq => a =? b | CmpLt => a <? b | CmpLe => a <=? b
  end.

Definition is_none {A} (o : option A) : bool := match o with None => true | Some _ => false end.
Definition mem (x : N) (l : list N) : bool := existsb (N.eqb x) l.
Definition has_id (id : N) (s : fsettings) : bool := existsb (fun e => fst e =? id) s.

(* ---------- Settings::insert ---------- *)
Definition insert_check_fails (c : insert_check) (id v : N) (s : fsettings) : option st_err :=
  match c with
  | ChkExceeded => if cmp_eval exceeded_cmp (elen s) settings_len then Some Exceeded else None
  | ChkInvalidSettingValue =>
      if is_none (vi_from_u64 id) || is_none (vi_from_u64 v) then Some (InvalidSettingValue id v) else None
  | ChkRepeated => if has_id id s then Some (Repeated id) else None
  end.

Fixpoint first_failure (cs : list insert_check) (id v : N) (s : fsettings) : option st_err :=
  match cs with
  | [] => None
  | c :: r => match insert_check_fails c id v s with Some e => Some e | None => first_failure r id v s end
  end.

(* `self.entries[self.len] = ..` indexes a SETTINGS_LEN array: out of bounds = panic *)
Definition st_insert (id v : N) (s : fsettings) : res st_err fsettings :=
  match first_failure insert_checks id v s with
  | Some e => Err e
  | None => if settings_len <=? elen s then Panic 40 else Ok (s ++ [(id, v)])
  end.

(* ---------- Settings::get ---------- *)
Definition st_array (s : fsettings) : list entry :=
  s ++ repeat (sid_NONE, 0) (N.to_nat settings_len - length s).
Definition st_get (id : N) (s : fsettings) : option N :=
  assoc id (if get_scans_all then st_array s else s).

(* ---------- FrameHeader::len for Settings: `VarInt::from_u64(..).unwrap().size()` ---------- *)
Definition vsize (x : N) : res st_err N :=
  match vi_from_u64 x with
  | None => Panic 41
  | Some y => match vi_size y with Some n => Ok n | None => Panic 42 end
  end.
Fixpoint st_len_from (acc : N) (s : fsettings) : res st_err N :=
  match s with
  | [] => Ok acc
  | (id, v) :: r =>
      res_bind (vsize id) (fun a => res_bind (vsize v) (fun b => st_len_from (acc + a + b) r))
  end.
Definition st_len (s : fsettings) : res st_err N := st_len_from 0 s.

(* ---------- writing into a BufMut of capacity [cap] (a `&mut [u8]`: writing past it panics) ---------- *)
Definition put (cap : N) (bs w : bytes) : res st_err bytes :=
  if cap <? len w + len bs then Panic 43 else Ok (w ++ bs).
(* BufMutExt::write_var: `VarInt::from_u64(x).unwrap().encode(self)` *)
Definition write_var (cap x : N) (w : bytes) : res st_err bytes :=
  match vi_from_u64 x with
  | None => Panic 44
  | Some y => match vi_encode y with None => Panic 45 | Some e => put cap e w end
  end.
Fixpoint encode_entries (cap : N) (s : fsettings) (w : bytes) : res st_err bytes :=
  match s with
  | [] => Ok w
  | (id, v) :: r =>
      res_bind (write_var cap id w) (fun w1 => res_bind (write_var cap v w1) (fun w2 => encode_entries cap r w2))
  end.
(* Settings::encode = encode_header (type, len) then the entries *)
Definition st_encode (cap : N) (s : fsettings) (w : bytes) : res st_err bytes :=
  res_bind (write_var cap frame_type_settings w) (fun w1 =>
  res_bind (st_len s) (fun n =>
  res_bind (write_var cap n w1) (fun w2 => encode_entries cap s w2))).
(* UniStreamHeader::Control(settings).encode *)
Definition control_header_encode (cap : N) (s : fsettings) (w : bytes) : res st_err bytes :=
  res_bind (write_var cap stream_type_control w) (fun w1 => st_encode cap s w1).

(* WriteBuf::from(UniStreamHeader::Control(s)): buf[..len] after encode_value into the fixed array *)
Record writebuf := { wb_hdr : bytes; wb_pos : N }.
Definition writebuf_control (s : fsettings) : res st_err writebuf :=
  match control_header_encode write_buf_encode_size s [] with
  | Ok b => Ok {| wb_hdr := b; wb_pos := 0 |}
  | Err e => Err e
  | Panic p => Panic p
  end.
(* its Buf impl when `frame` is None (usize subtraction underflow = panic) *)
Definition wb_remaining (b : writebuf) : res st_err N :=
  if len (wb_hdr b) <? wb_pos b then Panic 46 else Ok (len (wb_hdr b) - wb_pos b).
Definition wb_chunk (b : writebuf) : res st_err bytes :=
  if len (wb_hdr b) <? wb_pos b then Panic 47 else Ok (skipn (N.to_nat (wb_pos b)) (wb_hdr b)).
Definition wb_advance (cnt : N) (b : writebuf) : res st_err writebuf :=
  if len (wb_hdr b) <? wb_pos b then Panic 48
  else let rem := len (wb_hdr b) - wb_pos b in
       Ok {| wb_hdr := wb_hdr b; wb_pos := if 0 <? rem then wb_pos b + N.min cnt rem else wb_pos b |}.
(* a transport draining it: look at chunk(), take at most k bytes, advance *)
Fixpoint wb_consume (ks : list N) (b : writebuf) : res st_err (bytes * writebuf) :=
  match ks with
  | [] => Ok ([], b)
  | k :: ks' =>
      res_bind (wb_chunk b) (fun c =>
        let n := N.min k (len c) in
        res_bind (wb_advance n b) (fun b' =>
          res_bind (wb_consume ks' b') (fun ob => Ok (firstn (N.to_nat n) c ++ fst ob, snd ob))))
  end.

(* ---------- config.rs ---------- *)
Record config := { c_grease : bool; c_mfs : N; c_wt : bool; c_ec : bool; c_dg : bool; c_wtmax : N }.
Definition b2n (b : bool) : N := if b then 1 else 0.
Definition cfg_value (c : config) (f : cfg_field) : N :=
  match f with
  | F_mfs => c_mfs c | F_wt => b2n (c_wt c) | F_ec => b2n (c_ec c) | F_dg => b2n (c_dg c) | F_wtmax => c_wtmax c
  end.
(* SettingId::grease() with g = fastrand::u64(0..grease_bound); no u64 overflow below that bound *)
Definition grease_id (g : N) : N := g * grease_mul + grease_add.
(* the grease insert's error is swallowed (`Err(_err) => { warn }`) *)
Definition grease_step (g : N) (c : config) (s : fsettings) : res st_err fsettings :=
  if c_grease c then
    match st_insert (grease_id g) grease_value s with
    | Ok s' => Ok s' | Err _ => Ok s | Panic p => Panic p
    end
  else Ok s.
Fixpoint cfg_insert_all (c : config) (l : list (N * cfg_field)) (s : fsettings) : res st_err fsettings :=
  match l with
  | [] => Ok s
  | (id, f) :: r => res_bind (st_insert id (cfg_value c f) s) (cfg_insert_all c r)
  end.
(* TryFrom<Config> for frame::Settings *)
Definition cfg_to_settings (g : N) (c : config) : res st_err fsettings :=
  if grease_first then res_bind (grease_step g c []) (cfg_insert_all c cfg_inserts)
  else res_bind (cfg_insert_all c cfg_inserts []) (grease_step g c).

(* what the builders can produce: Config::default() then the setters each builder has *)
Definition bool_default (f : cfg_field) : bool := negb (default_field f =? 0).
Definition client_builder (grease : bool) (mfs : N) (ec dg : bool) : config :=
  {| c_grease := grease; c_mfs := mfs; c_wt := bool_default F_wt; c_ec := ec; c_dg := dg;
     c_wtmax := default_field F_wtmax |}.
Definition server_builder (grease : bool) (mfs : N) (wt ec dg : bool) (wtmax : N) : config :=
  {| c_grease := grease; c_mfs := mfs; c_wt := wt; c_ec := ec; c_dg := dg; c_wtmax := wtmax |}.

(* send_control_stream_headers: Err = code of the connection error, Ok = the WriteBuf handed to the
   transport for the control stream *)
Definition setup_control (g : N) (c : config) : res N writebuf :=
  match cfg_to_settings g c with
  | Ok s => match writebuf_control s with Ok b => Ok b | Err _ => Panic 49 | Panic p => Panic p end
  | Err _ => Err code_setup_error
  | Panic p => Panic p
  end.

(* ---------- Settings::decode ---------- *)
Fixpoint st_decode_loop (fuel : nat) (buf : bytes) (s : fsettings) : res st_err fsettings :=
  match fuel with
  | O => Err OutOfFuel
  | S f =>
      if len buf =? 0 then Ok s
      else if cmp_eval dec_min_cmp (len buf) dec_min then Err Malformed
      else
        match vi_decode buf with
        | (Ok id, r1) =>
            match vi_decode r1 with
            | (Ok v, r2) =>
                if mem id forbidden_ids then Err (InvalidSettingId id)
                else if mem id supported_ids then
                  match st_insert id v s with
                  | Ok s' => st_decode_loop f r2 s'
                  | Err e => Err e
                  | Panic p => Panic p
                  end
                else st_decode_loop f r2 s
            | (Err _, _) => Err Malformed
            | (Panic p, _) => Panic p
            end
        | (Err _, _) => Err Malformed
        | (Panic p, _) => Panic p
        end
  end.
Definition st_decode (buf : bytes) : res st_err fsettings := st_decode_loop (S (length buf)) buf [].

(* ---------- Frame::decode, as far as a SETTINGS frame is concerned ---------- *)
Inductive frame_res :=
| FrSettings (s : fsettings) (rest : bytes)
| FrIncomplete
| FrSettingsError (e : st_err)
| FrOther                       (* another frame type: not modelled here *)
| FrPanic (p : N).
Definition frame_decode (bs : bytes) : frame_res :=
  match vi_decode bs with
  | (Ok ty, r1) =>
      if negb (ty =? frame_type_settings) then FrOther
      else
        match vi_decode r1 with
        | (Ok n, r2) =>
            if len r2 <? n then FrIncomplete
            else
              match st_decode (firstn (N.to_nat n) r2) with
              | Ok s => FrSettings s (skipn (N.to_nat n) r2)
              | Err e => FrSettingsError e
              | Panic p => FrPanic p
              end
        | (Err _, _) => FrIncomplete
        | (Panic p, _) => FrPanic p
        end
  | (Err _, _) => FrIncomplete
  | (Panic p, _) => FrPanic p
  end.

(* ---------- From<&frame::Settings> for config::Settings (booleans as 0/1) ---------- *)
Record applied := { a_mfs : N; a_wt : N; a_ec : N; a_dg : N; a_wtmax : N }.
Definition field_n (f : cfg_field) : N :=
  match f with F_mfs => 0 | F_wt => 1 | F_ec => 2 | F_dg => 3 | F_wtmax => 4 end.
Fixpoint row_of (f : cfg_field) (rows : list (cfg_field * (N * bool))) : option (N * bool) :=
  match rows with
  | [] => None
  | (f', r) :: t => if field_n f =? field_n f' then Some r else row_of f t
  end.
Definition applied_field (s : fsettings) (f : cfg_field) : N :=
  match row_of f apply_rows with
  | Some (id, as_bool) =>
      match st_get id s with
      | Some v => if as_bool then (if v =? 0 then 0 else 1) else v
      | None => default_field f
      end
  | None => default_field f
  end.
Definition apply_settings (s : fsettings) : applied :=
  {| a_mfs := applied_field s F_mfs; a_wt := applied_field s F_wt; a_ec := applied_field s F_ec;
     a_dg := applied_field s F_dg; a_wtmax := applied_field s F_wtmax |}.
Definition default_applied : applied :=
  {| a_mfs := default_field F_mfs; a_wt := default_field F_wt; a_ec := default_field F_ec;
     a_dg := default_field F_dg; a_wtmax := default_field F_wtmax |}.

(* ---------- the peer-settings cell and poll_control's SETTINGS arm ---------- *)
Record peer_state := { got_peer_settings : bool; cell : option applied }.
Definition init_peer : peer_state := {| got_peer_settings := false; cell := None |}.
(* ConnectionState::settings(): the cell or Default *)
Definition settings_view (st : peer_state) : applied :=
  match cell st with Some a => a | None => default_applied end.
(* OnceLock::set *)
Definition set_once (c : option applied) (a : applied) : option applied :=
  match c with None => Some a | Some _ => c end.
(* Err = code of the connection error *)
Definition on_control_frame (fr : frame_res) (st : peer_state) : res N peer_state :=
  match fr with
  | FrSettings s _ =>
      if got_peer_settings st then Err code_second_settings
      else Ok {| got_peer_settings := true; cell := set_once (cell st) (apply_settings s) |}
  | FrSettingsError _ => Err code_settings_error
  | FrPanic p => Panic p
  | FrIncomplete | FrOther => Ok st   (* waiting for bytes / other frames: C02, C04 *)
  end.

(* ---------- handle_connection_error on an InternalConnectionError: the code is returned to the caller and the
   QUIC connection is closed with it (`closed` = the code the peer sees: the first close wins) ---------- *)
Definition handle_connection_error (code : N) (closed : option N) : N * option N :=
  (code, match closed with None => Some code | Some c => Some c end).

(* ---------- the control stream after its type byte: frames as they become complete; a SETTINGS frame goes
   through poll_control's arm, anything else ends this model's run ---------- *)
Fixpoint recv_control (fuel : nat) (bs : bytes) (st : peer_state) : res N peer_state :=
  match fuel with
  | O => Ok st
  | S f =>
      match bs with
      | [] => Ok st
      | _ =>
          match frame_decode bs with
          | FrSettings s rest =>
              match on_control_frame (FrSettings s rest) st with
              | Ok st' => recv_control f rest st'
              | Err c => Err c
              | Panic p => Panic p
              end
          | fr => on_control_frame fr st
          end
      end
  end.

(* ---------- the builders: Config::default() and then any sequence of setter calls (booleans as 0/1) ---------- *)
Inductive role := RClient | RServer.
Definition setter_n (s : setter) : N :=
  match s with S_mfs => 0 | S_grease => 1 | S_wt => 2 | S_ec => 3 | S_dg => 4 | S_wtmax => 5 end.
Fixpoint targets_of (s : setter) (tbl : list (setter * list cfg_target)) : option (list cfg_target) :=
  match tbl with
  | [] => None
  | (s', ts) :: r => if setter_n s =? setter_n s' then Some ts else targets_of s r
  end.
Definition n2b (v : N) : bool := negb (v =? 0).
Definition set_target (v : N) (c : config) (t : cfg_target) : config :=
  match t with
  | T_grease => {| c_grease := n2b v; c_mfs := c_mfs c; c_wt := c_wt c; c_ec := c_ec c; c_dg := c_dg c; c_wtmax := c_wtmax c |}
  | T_field F_mfs => {| c_grease := c_grease c; c_mfs := v; c_wt := c_wt c; c_ec := c_ec c; c_dg := c_dg c; c_wtmax := c_wtmax c |}
  | T_field F_wt => {| c_grease := c_grease c; c_mfs := c_mfs c; c_wt := n2b v; c_ec := c_ec c; c_dg := c_dg c; c_wtmax := c_wtmax c |}
  | T_field F_ec => {| c_grease := c_grease c; c_mfs := c_mfs c; c_wt := c_wt c; c_ec := n2b v; c_dg := c_dg c; c_wtmax := c_wtmax c |}
  | T_field F_dg => {| c_grease := c_grease c; c_mfs := c_mfs c; c_wt := c_wt c; c_ec := c_ec c; c_dg := n2b v; c_wtmax := c_wtmax c |}
  | T_field F_wtmax => {| c_grease := c_grease c; c_mfs := c_mfs c; c_wt := c_wt c; c_ec := c_ec c; c_dg := c_dg c; c_wtmax := v |}
  end.
Definition setters_of (r : role) := match r with RClient => client_setters | RServer => server_setters end.
(* a setter the builder does not have cannot be called: such a call is skipped *)
Definition apply_call (r : role) (c : config) (call : setter * N) : config :=
  match targets_of (fst call) (setters_of r) with
  | Some ts => fold_left (set_target (snd call)) ts c
  | None => c
  end.
Definition default_config : config :=
  {| c_grease := default_send_grease; c_mfs := default_field F_mfs; c_wt := bool_default F_wt;
     c_ec := bool_default F_ec; c_dg := bool_default F_dg; c_wtmax := default_field F_wtmax |}.
Definition builder_config (r : role) (calls : list (setter * N)) : config :=
  fold_left (apply_call r) calls default_config.

(* Builder::build: `self.config` (a Copy value) is handed to ConnectionInner::new, which stores it and sends the control
   stream header from it; the builder itself is left as it is and can be used again.  (connection's config, builder after) *)
Definition builder_build (c : config) : config * config := (c, c).
Definition build_twice (r : role) (calls1 calls2 : list (setter * N)) : config * config :=
  let (c1, b1) := builder_build (builder_config r calls1) in
  let (c2, _) := builder_build (fold_left (apply_call r) calls2 b1) in
  (c1, c2).
