(* The writer automaton: which WriteBufs an h3 endpoint hands to which stream, for any program of API calls.
   Mirrors h3/src/config.rs (TryFrom<Config> for frame::Settings, Settings::insert), h3/src/connection.rs
   (ConnectionInner::new / send_control_stream_headers / shutdown / poll_grease_stream, RequestStream::{send_data,
   send_trailers, finish}), h3/src/server/connection.rs (accept, shutdown, the graceful-shutdown rejection),
   h3/src/server/request.rs (the 431 answer of resolve), h3/src/server/stream.rs (send_response),
   h3/src/client/connection.rs (send_request, shutdown).
   QPACK field sections are opaque byte strings given by the program (their content is C11's concern); every random
   grease draw is an input; stream ids are allocated as QUIC does (sequentially per kind). *)
From H3V Require Import Base.Bytes Gen.GenWriters Model.Varint Model.Datagram Model.FrameEnc Model.WriteBuf.

Record config := { cf_grease : bool; cf_mfs : N; cf_ext : bool; cf_wt : bool; cf_dgram : bool; cf_wtn : N }.

Definition b2n (b : bool) : N := if b then 1 else 0.
Definition cf_field (c : config) (i : N) : N :=
  if i =? 0 then cf_mfs c else if i =? 1 then b2n (cf_ext c) else if i =? 2 then b2n (cf_wt c)
  else if i =? 3 then b2n (cf_dgram c) else cf_wtn c.

(* frame::Settings::insert; None = Err(..) *)
Definition settings_insert (es : list (N * N)) (id v : N) : option (list (N * N)) :=
  if settings_len <=? N.of_nat (length es) then None
  else match vi_from_u64 id, vi_from_u64 v with
       | Some _, Some _ => if existsb (fun e => fst e =? id) es then None else Some (es ++ [(id, v)])
       | _, _ => None
       end.

(* TryFrom<Config> for frame::Settings with the grease draw g; Ok None = Err(SettingsError) *)
Fixpoint config_inserts_run (cfg : config) (g : N) (ins : list (option N * N)) (es : list (N * N))
  : res unit (option (list (N * N))) :=
  match ins with
  | [] => Ok (Some es)
  | (None, v) :: r =>
      if cf_grease cfg then
        match grease_value g sid_grease_mul sid_grease_add with
        | Ok id => config_inserts_run cfg g r (match settings_insert es id v with Some es' => es' | None => es end)
        | Err e => Err e
        | Panic s => Panic s
        end
      else config_inserts_run cfg g r es
  | (Some id, fld) :: r =>
      match settings_insert es id (cf_field cfg fld) with
      | Some es' => config_inserts_run cfg g r es'
      | None => Ok None
      end
  end.
Definition config_settings (cfg : config) (g : N) : res unit (option (list (N * N))) :=
  config_inserts_run cfg g config_inserts [].

(* ---- connection state ---- *)
Inductive skind := KControl | KEncoder | KDecoder | KGrease | KRequest.

(* what was handed to one stream, in order; Some k = the transport had accepted only k bytes of that buffer when
   h3 stopped polling the write (only the grease stream can be left like that, see OPeerFrame) *)
Record sstate := { s_id : N; s_kind : skind; s_out : list (wbuf * option N); s_fin : bool }.
(* a RequestStream the application holds; stopped: the peer sent STOP_SENDING for our half, every write fails *)
Record handle := { h_sid : N; h_grease : bool; h_alive : bool; h_stopped : bool }.

Record conn := {
  c_server : bool;
  c_streams : list sstate;
  c_handles : list handle;
  c_control : N;
  c_grease_frame : bool;       (* inner.send_grease_frame / SendRequest.send_grease_frame *)
  c_grease_stream : bool;      (* send_grease_stream_flag *)
  c_grease_id : option N;      (* GreaseStatus::DataPrepared: the grease stream whose write is still in flight *)
  c_closing : bool;
  c_sent_closing : option N;
  c_last_accepted : option N;
  c_next_uni : N;
  c_next_bidi : N;
  c_ongoing : list N;
  c_got_settings : bool;       (* got_peer_settings *)
  c_recv_closing : option N;   (* recv_closing *)
  c_conn_error : bool;         (* a connection error was raised (the connection is closed; h3 polls nothing any more) *)
  c_ctl_stopped : bool }.      (* the peer sent STOP_SENDING for our control stream: the next write on it fails *)

Definition upd_streams (c : conn) (ss : list sstate) : conn :=
  {| c_server := c_server c; c_streams := ss; c_handles := c_handles c; c_control := c_control c; c_grease_frame := c_grease_frame c; c_grease_stream := c_grease_stream c; c_grease_id := c_grease_id c; c_closing := c_closing c; c_sent_closing := c_sent_closing c; c_last_accepted := c_last_accepted c; c_next_uni := c_next_uni c; c_next_bidi := c_next_bidi c; c_ongoing := c_ongoing c; c_got_settings := c_got_settings c; c_recv_closing := c_recv_closing c; c_conn_error := c_conn_error c; c_ctl_stopped := c_ctl_stopped c |}.
Definition set_handles (c : conn) (hs : list handle) : conn :=
  {| c_server := c_server c; c_streams := c_streams c; c_handles := hs; c_control := c_control c; c_grease_frame := c_grease_frame c; c_grease_stream := c_grease_stream c; c_grease_id := c_grease_id c; c_closing := c_closing c; c_sent_closing := c_sent_closing c; c_last_accepted := c_last_accepted c; c_next_uni := c_next_uni c; c_next_bidi := c_next_bidi c; c_ongoing := c_ongoing c; c_got_settings := c_got_settings c; c_recv_closing := c_recv_closing c; c_conn_error := c_conn_error c; c_ctl_stopped := c_ctl_stopped c |}.
Definition set_ongoing (c : conn) (l : list N) : conn :=
  {| c_server := c_server c; c_streams := c_streams c; c_handles := c_handles c; c_control := c_control c; c_grease_frame := c_grease_frame c; c_grease_stream := c_grease_stream c; c_grease_id := c_grease_id c; c_closing := c_closing c; c_sent_closing := c_sent_closing c; c_last_accepted := c_last_accepted c; c_next_uni := c_next_uni c; c_next_bidi := c_next_bidi c; c_ongoing := l; c_got_settings := c_got_settings c; c_recv_closing := c_recv_closing c; c_conn_error := c_conn_error c; c_ctl_stopped := c_ctl_stopped c |}.
Definition set_grease_frame (c : conn) (b : bool) : conn :=
  {| c_server := c_server c; c_streams := c_streams c; c_handles := c_handles c; c_control := c_control c; c_grease_frame := b; c_grease_stream := c_grease_stream c; c_grease_id := c_grease_id c; c_closing := c_closing c; c_sent_closing := c_sent_closing c; c_last_accepted := c_last_accepted c; c_next_uni := c_next_uni c; c_next_bidi := c_next_bidi c; c_ongoing := c_ongoing c; c_got_settings := c_got_settings c; c_recv_closing := c_recv_closing c; c_conn_error := c_conn_error c; c_ctl_stopped := c_ctl_stopped c |}.
(* grease stream bookkeeping: flag, stream in flight, next uni id *)
Definition set_grease_stream (c : conn) (flag : bool) (inflight : option N) (next_uni : N) : conn :=
  {| c_server := c_server c; c_streams := c_streams c; c_handles := c_handles c; c_control := c_control c; c_grease_frame := c_grease_frame c; c_grease_stream := flag; c_grease_id := inflight; c_closing := c_closing c; c_sent_closing := c_sent_closing c; c_last_accepted := c_last_accepted c; c_next_uni := next_uni; c_next_bidi := c_next_bidi c; c_ongoing := c_ongoing c; c_got_settings := c_got_settings c; c_recv_closing := c_recv_closing c; c_conn_error := c_conn_error c; c_ctl_stopped := c_ctl_stopped c |}.
Definition set_closing (c : conn) (sent : N) : conn :=
  {| c_server := c_server c; c_streams := c_streams c; c_handles := c_handles c; c_control := c_control c; c_grease_frame := c_grease_frame c; c_grease_stream := c_grease_stream c; c_grease_id := c_grease_id c; c_closing := true; c_sent_closing := Some sent; c_last_accepted := c_last_accepted c; c_next_uni := c_next_uni c; c_next_bidi := c_next_bidi c; c_ongoing := c_ongoing c; c_got_settings := c_got_settings c; c_recv_closing := c_recv_closing c; c_conn_error := c_conn_error c; c_ctl_stopped := c_ctl_stopped c |}.
Definition set_last_accepted (c : conn) (l : N) : conn :=
  {| c_server := c_server c; c_streams := c_streams c; c_handles := c_handles c; c_control := c_control c; c_grease_frame := c_grease_frame c; c_grease_stream := c_grease_stream c; c_grease_id := c_grease_id c; c_closing := c_closing c; c_sent_closing := c_sent_closing c; c_last_accepted := Some l; c_next_uni := c_next_uni c; c_next_bidi := c_next_bidi c; c_ongoing := c_ongoing c; c_got_settings := c_got_settings c; c_recv_closing := c_recv_closing c; c_conn_error := c_conn_error c; c_ctl_stopped := c_ctl_stopped c |}.
Definition set_next_bidi (c : conn) (n : N) : conn :=
  {| c_server := c_server c; c_streams := c_streams c; c_handles := c_handles c; c_control := c_control c; c_grease_frame := c_grease_frame c; c_grease_stream := c_grease_stream c; c_grease_id := c_grease_id c; c_closing := c_closing c; c_sent_closing := c_sent_closing c; c_last_accepted := c_last_accepted c; c_next_uni := c_next_uni c; c_next_bidi := n; c_ongoing := c_ongoing c; c_got_settings := c_got_settings c; c_recv_closing := c_recv_closing c; c_conn_error := c_conn_error c; c_ctl_stopped := c_ctl_stopped c |}.
Definition set_got_settings (c : conn)  : conn :=
  {| c_server := c_server c; c_streams := c_streams c; c_handles := c_handles c; c_control := c_control c; c_grease_frame := c_grease_frame c; c_grease_stream := c_grease_stream c; c_grease_id := c_grease_id c; c_closing := c_closing c; c_sent_closing := c_sent_closing c; c_last_accepted := c_last_accepted c; c_next_uni := c_next_uni c; c_next_bidi := c_next_bidi c; c_ongoing := c_ongoing c; c_got_settings := true; c_recv_closing := c_recv_closing c; c_conn_error := c_conn_error c; c_ctl_stopped := c_ctl_stopped c |}.
Definition set_recv_closing (c : conn) (id : N) : conn :=
  {| c_server := c_server c; c_streams := c_streams c; c_handles := c_handles c; c_control := c_control c; c_grease_frame := c_grease_frame c; c_grease_stream := c_grease_stream c; c_grease_id := c_grease_id c; c_closing := true; c_sent_closing := c_sent_closing c; c_last_accepted := c_last_accepted c; c_next_uni := c_next_uni c; c_next_bidi := c_next_bidi c; c_ongoing := c_ongoing c; c_got_settings := c_got_settings c; c_recv_closing := Some id; c_conn_error := c_conn_error c; c_ctl_stopped := c_ctl_stopped c |}.
Definition set_conn_error (c : conn)  : conn :=
  {| c_server := c_server c; c_streams := c_streams c; c_handles := c_handles c; c_control := c_control c; c_grease_frame := c_grease_frame c; c_grease_stream := c_grease_stream c; c_grease_id := c_grease_id c; c_closing := c_closing c; c_sent_closing := c_sent_closing c; c_last_accepted := c_last_accepted c; c_next_uni := c_next_uni c; c_next_bidi := c_next_bidi c; c_ongoing := c_ongoing c; c_got_settings := c_got_settings c; c_recv_closing := c_recv_closing c; c_conn_error := true; c_ctl_stopped := c_ctl_stopped c |}.
Definition set_ctl_stopped (c : conn)  : conn :=
  {| c_server := c_server c; c_streams := c_streams c; c_handles := c_handles c; c_control := c_control c; c_grease_frame := c_grease_frame c; c_grease_stream := c_grease_stream c; c_grease_id := c_grease_id c; c_closing := c_closing c; c_sent_closing := c_sent_closing c; c_last_accepted := c_last_accepted c; c_next_uni := c_next_uni c; c_next_bidi := c_next_bidi c; c_ongoing := c_ongoing c; c_got_settings := c_got_settings c; c_recv_closing := c_recv_closing c; c_conn_error := c_conn_error c; c_ctl_stopped := true |}.

Fixpoint has_stream (ss : list sstate) (id : N) : bool :=
  match ss with [] => false | s :: r => (s_id s =? id) || has_stream r id end.

Definition add_stream (c : conn) (id : N) (k : skind) : conn :=
  if has_stream (c_streams c) id then c
  else upd_streams c (c_streams c ++ [{| s_id := id; s_kind := k; s_out := []; s_fin := false |}]).

Fixpoint map_stream (f : sstate -> sstate) (id : N) (ss : list sstate) : list sstate :=
  match ss with
  | [] => []
  | s :: r => if s_id s =? id then f s :: r else s :: map_stream f id r
  end.

Definition push_out (w : wbuf) (cut : option N) (s : sstate) : sstate :=
  {| s_id := s_id s; s_kind := s_kind s; s_out := s_out s ++ [(w, cut)]; s_fin := s_fin s |}.
Definition set_fin (s : sstate) : sstate :=
  {| s_id := s_id s; s_kind := s_kind s; s_out := s_out s; s_fin := true |}.
(* the transport has meanwhile accepted `cut` bytes (None: all) of every buffer of the stream *)
Definition set_cut (cut : option N) (s : sstate) : sstate :=
  {| s_id := s_id s; s_kind := s_kind s; s_out := map (fun o => (fst o, cut)) (s_out s); s_fin := s_fin s |}.

(* stream::write(stream, data): the WriteBuf is built (a panic of the encoder is a panic of the call) and handed over *)
Definition write_to (c : conn) (id : N) (w : res unit wbuf) (cut : option N) : res unit conn :=
  match w with
  | Ok wb => Ok (upd_streams c (map_stream (push_out wb cut) id (c_streams c)))
  | Err e => Err e
  | Panic s => Panic s
  end.

Definition finish_stream (c : conn) (id : N) : conn := upd_streams c (map_stream set_fin id (c_streams c)).

(* ---- ConnectionInner::new + send_control_stream_headers ---- *)
Definition header_of (code : N) (es : list (N * N)) : res unit uni_header :=
  if code =? 0 then Ok (UControl es) else if code =? 1 then Ok UEncoder else if code =? 2 then Ok UDecoder
  else Panic 40.
Definition kind_of_header (code : N) : skind :=
  if code =? 0 then KControl else if code =? 1 then KEncoder else KDecoder.

Fixpoint nth_n {A} (l : list A) (i : N) : option A :=
  match l with
  | [] => None
  | x :: r => if i =? 0 then Some x else nth_n r (i - 1)
  end.

(* the stream a role (0 control_send, 1 encoder_send, 2 decoder_send) got, and the header written on it *)
Definition setup_write (first_uni : N) (es : list (N * N)) (role : N) (c : conn) : res unit conn :=
  match nth_n setup_open_pos role, nth_n setup_headers role with
  | Some pos, Some code =>
      let id := first_uni + 4 * pos in
      match header_of code es with
      | Ok u => write_to (add_stream c id (kind_of_header code)) id (wb_from_uni u) None
      | Err e => Err e
      | Panic s => Panic s
      end
  | _, _ => Panic 41
  end.

Definition first_uni_of (server : bool) : N := if server then 3 else 2.

(* Ok None: the builder returned an error before anything was written *)
Definition setup (server : bool) (cfg : config) (g : N) : res unit (option conn) :=
  match config_settings cfg g with
  | Ok None => Ok None
  | Err e => Err e
  | Panic s => Panic s
  | Ok (Some es) =>
      let first_uni := first_uni_of server in
      let c0 := {| c_server := server; c_streams := []; c_handles := [];
                   c_control := match nth_n setup_open_pos 0 with Some p => first_uni + 4 * p | None => first_uni end;
                   c_grease_frame := cf_grease cfg; c_grease_stream := cf_grease cfg; c_grease_id := None;
                   c_closing := false;
                   c_sent_closing := None; c_last_accepted := None;
                   c_next_uni := first_uni + 12; c_next_bidi := (if server then 1 else 0); c_ongoing := [];
                   c_got_settings := false; c_recv_closing := None; c_conn_error := false; c_ctl_stopped := false |} in
      match res_bind (res_bind (setup_write first_uni es 0 c0) (setup_write first_uni es 2)) (setup_write first_uni es 1) with
      | Ok c => Ok (Some c)
      | Err e => Err e
      | Panic s => Panic s
      end
  end.

(* ---- API calls ---- *)
(* a frame the peer sent on ITS control stream, as ConnectionInner::poll_control and the role handlers sort it *)
Inductive peer_frame :=
| PSettings                 (* a well-formed SETTINGS frame *)
| PGoaway (id : N)
| PPush                     (* MAX_PUSH_ID or CANCEL_PUSH *)
| PSkipped                  (* a reserved / unknown type: FrameStream drops it, poll_control does not return *)
| PIllegal.                 (* anything else (DATA, HEADERS, PUSH_PROMISE, HTTP/2 types, malformed payload) *)

(* what accept() + resolve_request() make of the next client stream *)
Inductive accept_outcome :=
| AHandle (stopped : bool)            (* the application gets a RequestStream (stopped: STOP_SENDING already received) *)
| ATooLarge (block : bytes)           (* the request exceeded max_field_section_size: resolve() answers 431 itself *)
| AFailed (conn_error : bool).        (* resolve failed: stream error (reset) or connection error; nothing written *)

Inductive op :=
| OPeerControl (f : peer_frame) (gs gf : N) (accepted : option N)
    (* the endpoint polls its connection (server accept(), client poll_close()) and poll_control meets frame f of the peer.
       Whenever poll_control RETURNS a frame, poll_grease_stream runs once (opening the stream and handing it
       (StreamType::grease(), Frame::Grease) with the draws gs, gf, or resuming that write); accepted = Some k: the
       transport has taken k bytes so far and returned Pending - the result of poll_grease_stream is ignored and it is
       not polled again until the next returned frame; None: written completely, the stream is finished *)
| OPoll
    (* server: accept() is polled with no new stream: once a GOAWAY was received and no request is ongoing it returns
       None after sending its final GOAWAY *)
| OAccept (sid : N) (outcome : accept_outcome)
| ORequest (block : option bytes)     (* client send_request; None = HeaderTooBig (after the stream was opened) *)
| OHeaders (h : N) (block : option bytes)   (* send_response / send_trailers on handle h; None = nothing written *)
| OData (h : N) (p : list bytes)
| OFinish (h : N) (g : N)
| OStop (h : N)
| OStopSending (h : N)                (* the peer sends STOP_SENDING for the stream of handle h *)
| OStopControl                        (* the peer sends STOP_SENDING for our control stream *)
| ODrop (h : N)
| OShutdown (n : N).

Fixpoint map_nth {A} (f : A -> A) (i : N) (l : list A) : list A :=
  match l with
  | [] => []
  | x :: r => if i =? 0 then f x :: r else x :: map_nth f (i - 1) r
  end.

Definition live_handle (c : conn) (h : N) : option handle :=
  match nth_n (c_handles c) h with
  | Some hd => if h_alive hd then Some hd else None
  | None => None
  end.

(* a handle whose writes still reach the transport *)
Definition writable_handle (c : conn) (h : N) : option handle :=
  match live_handle c h with
  | Some hd => if h_stopped hd then None else Some hd
  | None => None
  end.

Definition cmp_skip (a b : N) : bool :=
  if shutdown_skip_cmp =? 0 then a <=? b else if shutdown_skip_cmp =? 1 then a <? b
  else if shutdown_skip_cmp =? 2 then b <=? a else b <? a.

(* ConnectionInner::shutdown *)
Definition inner_shutdown (c : conn) (max_id : N) : res unit conn :=
  (* a connection that already failed reports that error: nothing is written, nothing recorded *)
  if shutdown_checks_conn_error && c_conn_error c then Ok c else
  if match c_sent_closing c with Some s => cmp_skip s max_id | None => false end then Ok c
  else if c_ctl_stopped c then Ok (set_conn_error (set_closing c max_id))   (* the write fails: H3_CLOSED_CRITICAL_STREAM *)
  else if shutdown_frame_is_goaway
       then write_to (set_closing c max_id) (c_control c) (wb_from_frame (FGoaway max_id)) None
       else Panic 42.

(* server::Connection::shutdown(max_requests) / client::Connection::shutdown *)
Definition api_shutdown (c : conn) (n : N) : res unit conn :=
  if c_server c then
    inner_shutdown c (match c_last_accepted c with
                      | Some id => sid_add (sid_add id n) 1
                      | None => sid_add (sid_new 0 Bi Client) n
                      end)
  else inner_shutdown c 0.

Definition remove_id (id : N) (l : list N) : list N := filter (fun x => negb (x =? id)) l.

Definition clear_grease (hd : handle) : handle :=
  {| h_sid := h_sid hd; h_alive := h_alive hd; h_grease := if finish_clears_flag then false else h_grease hd;
     h_stopped := h_stopped hd |}.
Definition kill (hd : handle) : handle :=
  {| h_sid := h_sid hd; h_grease := h_grease hd; h_alive := false; h_stopped := h_stopped hd |}.
Definition stop_handle (hd : handle) : handle :=
  {| h_sid := h_sid hd; h_grease := h_grease hd; h_alive := h_alive hd; h_stopped := true |}.

(* poll_grease_stream, once *)
Definition grease_poll (c : conn) (gs gf : N) (accepted : option N) : res unit conn :=
  if c_grease_stream c then
    match c_grease_id c with
    | Some id =>
        (* DataPrepared: poll_ready again *)
        let c1 := upd_streams c (map_stream (set_cut accepted) id (c_streams c)) in
        Ok (match accepted with
            | None => set_grease_stream (if grease_stream_finishes then finish_stream c1 id else c1) false None (c_next_uni c1)
            | Some _ => c1
            end)
    | None =>
        let id := c_next_uni c in
        let c1 := add_stream c id KGrease in
        match grease_value gs st_grease_mul st_grease_add with
        | Ok ty =>
            match write_to c1 id (wb_from_pair ty (FGrease gf)) accepted with
            | Ok c2 => Ok (match accepted with
                           | None => set_grease_stream (if grease_stream_finishes then finish_stream c2 id else c2)
                                                       false None (c_next_uni c + 4)
                           | Some _ => set_grease_stream c2 true (Some id) (c_next_uni c + 4)
                           end)
            | Err e => Err e
            | Panic s => Panic s
            end
        | Err e => Err e
        | Panic s => Panic s
        end
    end
  else Ok c.

(* ConnectionInner::process_goaway *)
Definition process_goaway (c : conn) (id : N) : conn :=
  if match c_recv_closing c with Some prev => prev <? id | None => false end then set_conn_error c
  else set_recv_closing c id.

(* accept() finding nothing to accept *)
Definition accept_idle (c : conn) : res unit conn :=
  if c_conn_error c then Ok c
  else match c_recv_closing c, c_ongoing c with
       | Some _, [] => api_shutdown c 0
       | _, _ => Ok c
       end.

Definition step (c : conn) (o : op) : res unit conn :=
  match o with
  | OPeerControl f gs gf accepted =>
      if c_conn_error c then Ok c else
      match f with
      | PSkipped => Ok c
      | PIllegal => Ok (set_conn_error c)
      | PSettings =>
          if c_got_settings c then Ok (set_conn_error c)
          else grease_poll (set_got_settings c) gs gf accepted
      | PGoaway id =>
          if negb (c_got_settings c) then Ok (set_conn_error c)
          else match grease_poll c gs gf accepted with
               | Ok c1 => if negb (c_server c1) && negb (sid_is_request id) then Ok (set_conn_error c1)
                          else Ok (process_goaway c1 id)
               | Err e => Err e
               | Panic s => Panic s
               end
      | PPush =>
          if negb (c_got_settings c) then Ok (set_conn_error c)
          else match grease_poll c gs gf accepted with
               | Ok c1 => if c_server c1 then Ok c1 else Ok (set_conn_error c1)
               | Err e => Err e
               | Panic s => Panic s
               end
      end
  | OPoll => if c_server c then accept_idle c else Ok c
  | OAccept sid outcome =>
      if negb (c_server c) then Ok c else
      let c0 := add_stream c sid KRequest in
      if c_conn_error c0 then Ok c0 else
      if match c_sent_closing c0 with Some m => m <=? sid | None => false end then
        (* rejected; accept() returns None (and sends its final GOAWAY) only when no request is ongoing *)
        match c_ongoing c0 with
        | [] => api_shutdown c0 0
        | _ => Ok c0
        end
      else
        let last := match c_last_accepted c0 with Some l => N.max l sid | None => sid end in
        let grease := c_grease_frame c0 in
        let c1 := set_ongoing (set_last_accepted (set_grease_frame c0 false) last) (c_ongoing c0 ++ [sid]) in
        match outcome with
        | ATooLarge block =>
            match write_to c1 sid (wb_from_frame (FHeaders block)) None with
            | Ok c2 => Ok (set_ongoing c2 (remove_id sid (c_ongoing c2)))
            | Err e => Err e
            | Panic s => Panic s
            end
        | AFailed ce =>
            let c2 := set_ongoing c1 (remove_id sid (c_ongoing c1)) in
            Ok (if ce then set_conn_error c2 else c2)
        | AHandle stopped =>
            Ok (set_handles c1 (c_handles c1 ++ [{| h_sid := sid; h_grease := grease; h_alive := true; h_stopped := stopped |}]))
        end
  | ORequest block =>
      if c_server c || c_closing c then Ok c else
      let id := c_next_bidi c in
      let c1 := set_next_bidi (add_stream c id KRequest) (c_next_bidi c + 4) in
      match block with
      | None => Ok c1
      | Some b =>
          match write_to c1 id (wb_from_frame (FHeaders b)) None with
          | Ok c2 =>
              Ok (set_grease_frame
                    (set_handles c2 (c_handles c2 ++ [{| h_sid := id; h_grease := c_grease_frame c2; h_alive := true; h_stopped := false |}]))
                    false)
          | Err e => Err e
          | Panic s => Panic s
          end
      end
  | OHeaders h block =>
      match writable_handle c h, block with
      | Some hd, Some b => write_to c (h_sid hd) (wb_from_frame (FHeaders b)) None
      | _, _ => Ok c
      end
  | OData h p =>
      match writable_handle c h with
      | Some hd => write_to c (h_sid hd) (wb_from_frame (FData p)) None
      | None => Ok c
      end
  | OFinish h g =>
      match live_handle c h with
      | Some hd =>
          if h_stopped hd && h_grease hd && finish_frame_is_grease then Ok c   (* the grease write fails: early return *)
          else
          let r := if h_grease hd && finish_frame_is_grease
                   then write_to c (h_sid hd) (wb_from_frame (FGrease g)) None else Ok c in
          match r with
          | Ok c1 =>
              Ok (finish_stream (set_handles c1 (if h_grease hd then map_nth clear_grease h (c_handles c1) else c_handles c1))
                                (h_sid hd))
          | Err e => Err e
          | Panic s => Panic s
          end
      | None => Ok c
      end
  | OStop h => Ok c
  | OStopControl => Ok (set_ctl_stopped c)
  | OStopSending h =>
      match live_handle c h with
      | Some _ => Ok (set_handles c (map_nth stop_handle h (c_handles c)))
      | None => Ok c
      end
  | ODrop h =>
      match live_handle c h with
      | Some hd => Ok (set_ongoing (set_handles c (map_nth kill h (c_handles c))) (remove_id (h_sid hd) (c_ongoing c)))
      | None => Ok c
      end
  | OShutdown n => api_shutdown c n
  end.

Fixpoint run_ops (c : conn) (prog : list op) : res unit conn :=
  match prog with
  | [] => Ok c
  | o :: r => res_bind (step c o) (fun c' => run_ops c' r)
  end.

(* the whole life of an endpoint: build, then the program.  Ok None = the builder failed without writing *)
Definition run (server : bool) (cfg : config) (g : N) (prog : list op) : res unit (option conn) :=
  match setup server cfg g with
  | Ok (Some c) => match run_ops c prog with Ok c' => Ok (Some c') | Err e => Err e | Panic s => Panic s end
  | Ok None => Ok None
  | Err e => Err e
  | Panic s => Panic s
  end.

(* what is on the wire of a stream once the transport has taken what h3 gave it *)
Definition out_bytes (o : wbuf * option N) : bytes :=
  match snd o with
  | None => wb_view (fst o)
  | Some k => firstn (N.to_nat k) (wb_view (fst o))
  end.
Definition stream_wire (s : sstate) : bytes := concat (map out_bytes (s_out s)).
