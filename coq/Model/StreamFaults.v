(* C07 model: n request tasks over one connection.

   What is modelled (Rust items, h3/src):
   * frame.rs FrameStream::{try_recv, poll_next, poll_data} and FrameDecoder::decode at the level of
     classified chunks (one transport chunk = one event of Spec.StreamScoped.ev): `buf` are the chunks
     already read into the BufList, `rx` the transport's undelivered queue, `remaining` = remaining_data,
     `eos` = BufRecvStream.eos.  The order "try_recv first, then decode what is buffered" is kept, so a
     RESET queued behind buffered frames wins over them exactly as in the code.
   * connection.rs RequestStream::{poll_recv_data (with its zero-length-DATA loop), send_data, finish},
     server/request.rs resolve_request (accept_with_frame + resolve), server/stream.rs send_response,
     client/connection.rs send_request, client/stream.rs recv_response.
   * error/connection_error_creators.rs CloseStream::{handle_quic_stream_error,
     handle_connection_error_on_stream}, HandleFrameStreamErrorOnRequestStream, and the driver's
     poll_connection_error/close_if_needed; shared_state.rs (cell = OnceLock get_or_init, closing, settings).
   * the application tasks of the harness (bin/c07.rs): server  resolve -> recv_data* -> send_response ->
     send_data -> finish ; client  send_request -> send_data -> finish -> recv_response -> recv_data*,
     with a yield between the sending calls.
   Which arms store to the cell and every code come from Gen.GenStreamFaults.
   Not modelled: bytes inside frames (QPACK, field validation: C11/C12), write back-pressure (SimQuic
   accepts writes at once), split() halves, WebTransport (remaining_data = usize::MAX). *)
From H3V Require Import Base.Bytes Gen.GenCodes Gen.GenStreamFaults Spec.StreamScoped.

(* ------------------------------------------------------------------ shared state + driver *)
Record shared := {
  cell : option N;        (* SharedState.connection_error: code of the stored InternalConnectionError *)
  closing : bool;         (* SharedState.closing *)
  peer_max : option N;    (* SharedState.settings: the peer's max_field_section_size once received *)
  closes : list N;        (* OpenStreams::close(code) calls, oldest first *)
  drv : option N          (* ConnectionInner.handled_connection_error = what accept()/poll_close() returned *)
}.
Definition sh0 : shared := {| cell := None; closing := false; peer_max := None; closes := []; drv := None |}.
Definition set_cell (c : option N) (s : shared) : shared :=
  {| cell := c; closing := closing s; peer_max := peer_max s; closes := closes s; drv := drv s |}.
Definition set_closing (s : shared) : shared :=
  {| cell := cell s; closing := true; peer_max := peer_max s; closes := closes s; drv := drv s |}.
Definition set_peer_max (v : N) (s : shared) : shared :=
  {| cell := cell s; closing := closing s; peer_max := Some v; closes := closes s; drv := drv s |}.

(* ConnectionState::set_conn_error: get_or_init, the first store wins; returns the stored code *)
Definition store (c : N) (s : shared) : shared * N :=
  match cell s with
  | Some c0 => (s, c0)
  | None => (set_cell (Some c) s, c)
  end.

(* one poll of the driver as far as errors go: poll_connection_error + close_if_needed (every error a
   request can store is an InternalConnectionError, so it closes with that code) *)
Definition driver_poll (s : shared) : shared :=
  match drv s with
  | Some _ => s
  | None =>
      match cell s with
      | Some c => {| cell := cell s; closing := closing s; peer_max := peer_max s;
                     closes := closes s ++ [c]; drv := Some c |}
      | None => s
      end
  end.

(* ------------------------------------------------------------------ errors handed to the application *)
Inductive serr :=
| SStream (code : N)            (* StreamError::StreamError { code } *)
| SRemoteTerminate (code : N)   (* StreamError::RemoteTerminate { code } *)
| SHeaderTooBig
| SRemoteClosing
| SConn (code : N)              (* StreamError::ConnectionError(Local Application code) *)
| SUndefined.                   (* StreamError::Undefined(_) *)
Inductive api := AResolve | ARecv | ASendResp | ASendData | AFinish | ASendReq | ARecvResp | ARecvTrl | ASendTrl.
Inductive result := ROk | RErr (a : api) (e : serr) | RPanic (site : N) | RUnmodelled.

(* CloseStream::handle_connection_error_on_stream *)
Definition conn_error_on_stream (c : N) (s : shared) : shared * serr :=
  if hcs_stores then let '(s', c') := store c s in (s', SConn c') else (s, SConn c).

Definition serr_of_variant (v : sevariant) (c : N) : serr :=
  match v with
  | VRemoteTerminate => SRemoteTerminate c
  | VStreamError => SStream c
  | VHeaderTooBig => SHeaderTooBig
  | VRemoteClosing => SRemoteClosing
  | VConnectionError => SConn c
  | VUndefined => SUndefined
  end.

(* CloseStream::handle_quic_stream_error on StreamErrorIncoming::StreamTerminated { error_code } *)
Definition on_stream_terminated (code : N) (s : shared) : shared * serr :=
  let c := if hq_term_code_is_peers then code else hq_term_const in
  if hq_term_stores then let '(s', c') := store c s in (s', SConn c')
  else (s, serr_of_variant hq_term_variant c).

(* CloseStream::handle_quic_stream_error on StreamErrorIncoming::Unknown(_) *)
Definition on_stream_unknown (s : shared) : shared * serr :=
  if hq_unknown_stores then let '(s', c') := store H3_INTERNAL_ERROR s in (s', SConn c')
  else (s, serr_of_variant hq_unknown_variant 0).

(* ------------------------------------------------------------------ FrameStream over classified chunks *)
Record fstream := { buf : list ev; remaining : N; eos : bool; rx : list ev }.
Definition fs0 : fstream := {| buf := []; remaining := 0; eos := false; rx := [] |}.

Inductive tr := TPending | TEnd | TMore | TErr (c : option N).
Definition try_recv (s : fstream) : tr * fstream :=
  if eos s then (TEnd, s) else
  match rx s with
  | [] => (TPending, s)
  | EFin :: _ => (TEnd, {| buf := buf s; remaining := remaining s; eos := true; rx := rx s |})
  | EReset c :: _ => (TErr c, s)
  | c :: r => (TMore, {| buf := buf s ++ [c]; remaining := remaining s; eos := false; rx := r |})
  end.

(* FrameDecoder::decode + Frame::decode on the head of the buffer *)
Inductive dres := DNone | DHeaders (k : hkind) | DData (total : N) | DUnmodelled.
Definition decode (b : list ev) : dres * list ev :=
  match b with
  | [] => (DNone, b)
  | EHeaders k :: b' => (DHeaders k, b')
  | EData t part :: b' => (DData t, match part with [] => b' | _ => EMore part :: b' end)
  | EPartial :: [] => (DNone, b)            (* Incomplete: the bytes stay *)
  | _ => (DUnmodelled, b)                   (* raw payload bytes at a frame boundary, bytes after a partial frame *)
  end.

Inductive pn :=
| PnPending | PnEnd | PnHeaders (k : hkind) | PnData (total : N) | PnErrQuic (c : option N) | PnUnexpectedEnd
| PnUnmodelled | PnPanic (site : N).

Definition decode_or (b : list ev) (e : bool) (q : list ev) (none_case : pn) : pn * fstream :=
  match decode b with
  | (DHeaders k, b') => (PnHeaders k, {| buf := b'; remaining := 0; eos := e; rx := q |})
  | (DData n, b') => (PnData n, {| buf := b'; remaining := n; eos := e; rx := q |})
  | (DUnmodelled, _) => (PnUnmodelled, {| buf := b; remaining := 0; eos := e; rx := q |})
  | (DNone, _) => (none_case, {| buf := b; remaining := 0; eos := e; rx := q |})
  end.

Definition end_case (b : list ev) : pn := match b with [] => PnEnd | _ => PnUnexpectedEnd end.

(* the loop of poll_next while the stream is not at its end: read ONE transport event, then decode *)
Fixpoint pn_loop (q b : list ev) : pn * fstream :=
  match q with
  | [] => decode_or b false [] PnPending
  | EFin :: _ => decode_or b true q (end_case b)
  | EReset c :: _ => (PnErrQuic c, {| buf := b; remaining := 0; eos := false; rx := q |})
  | c :: r =>
      match decode (b ++ [c]) with
      | (DNone, _) => pn_loop r (b ++ [c])
      | _ => decode_or (b ++ [c]) false r PnPending
      end
  end.

Definition poll_next (s : fstream) : pn * fstream :=
  if negb (remaining s =? 0) then (PnPanic 67, s)       (* assert!(self.remaining_data == 0) *)
  else if eos s then decode_or (buf s) true (rx s) (end_case (buf s))
  else pn_loop (rx s) (buf s).

(* BufList::take_chunk(limit) *)
Inductive tk := TkEmpty | TkGot (d : bytes) (b : list ev) | TkUnmodelled.
Definition take_chunk (lim : N) (b : list ev) : tk :=
  match b with
  | [] => TkEmpty
  | EMore bs :: b' =>
      let n := N.to_nat (N.min lim (len bs)) in
      match skipn n bs with
      | [] => TkGot (firstn n bs) b'
      | rest => TkGot (firstn n bs) (EMore rest :: b')
      end
  | _ => TkUnmodelled                        (* frame bytes would be handed out as payload *)
  end.

Inductive pd := PdPending | PdSome (d : bytes) | PdNone | PdErrQuic (c : option N) | PdUnexpectedEnd | PdUnmodelled.
Definition set_buf_rem (b : list ev) (r : N) (s : fstream) : fstream :=
  {| buf := b; remaining := r; eos := eos s; rx := rx s |}.
Definition poll_data (s : fstream) : pd * fstream :=
  if remaining s =? 0 then (PdNone, s) else
  match try_recv s with
  | (TErr c, s1) => (PdErrQuic c, s1)
  | (t, s1) =>
      let fin := match t with TEnd => true | _ => false end in
      match take_chunk (remaining s1) (buf s1) with
      | TkUnmodelled => (PdUnmodelled, s1)
      | TkEmpty => if fin then (PdUnexpectedEnd, s1) else (PdPending, s1)
      | TkGot d b' =>
          if fin && (len d <? remaining s1) && (match b' with [] => true | _ => false end)
          then (PdUnexpectedEnd, set_buf_rem b' (remaining s1) s1)
          else (PdSome d, set_buf_rem b' (remaining s1 - len d) s1)
      end
  end.

(* ------------------------------------------------------------------ RequestStream::poll_recv_data *)
(* RdTrailers k: `None`, the HEADERS frame that ended the body is kept in RequestStream.trailers *)
Inductive rd := RdPending | RdSome (d : bytes) | RdNone | RdTrailers (k : hkind) | RdErr (e : serr) | RdPanic (site : N) | RdUnmodelled.

(* HandleFrameStreamErrorOnRequestStream: Quic(StreamTerminated | Unknown) and UnexpectedEnd *)
Definition fse_quic (o : option N) (sh : shared) : shared * serr :=
  if fse_quic_via_hq then
    match o with Some c => on_stream_terminated c sh | None => on_stream_unknown sh end
  else conn_error_on_stream H3_INTERNAL_ERROR sh.
Definition fse_end (sh : shared) : shared * serr :=
  if fse_end_stores then conn_error_on_stream fse_end_code sh else (sh, SStream fse_end_code).

Fixpoint recv_data_loop (fuel : nat) (sh : shared) (s : fstream) : rd * shared * fstream :=
  if remaining s =? 0 then
    match fuel with
    | O => (RdUnmodelled, sh, s)
    | S f =>
        match poll_next s with
        | (PnPending, s1) => (RdPending, sh, s1)
        | (PnErrQuic c, s1) => let '(sh', e) := fse_quic c sh in (RdErr e, sh', s1)
        | (PnUnexpectedEnd, s1) => let '(sh', e) := fse_end sh in (RdErr e, sh', s1)
        | (PnEnd, s1) => (RdNone, sh, s1)
        | (PnHeaders k, s1) => (RdTrailers k, sh, s1)           (* self.trailers = Some(encoded) *)
        | (PnData _, s1) => recv_data_loop f sh s1
        | (PnUnmodelled, s1) => (RdUnmodelled, sh, s1)
        | (PnPanic n, s1) => (RdPanic n, sh, s1)
        end
    end
  else
    match poll_data s with
    | (PdPending, s1) => (RdPending, sh, s1)
    | (PdSome d, s1) => (RdSome d, sh, s1)
    | (PdNone, s1) => (RdNone, sh, s1)
    | (PdErrQuic c, s1) => let '(sh', e) := fse_quic c sh in (RdErr e, sh', s1)
    | (PdUnexpectedEnd, s1) => let '(sh', e) := fse_end sh in (RdErr e, sh', s1)
    | (PdUnmodelled, s1) => (RdUnmodelled, sh, s1)
    end.
Definition poll_recv_data (sh : shared) (s : fstream) : rd * shared * fstream :=
  recv_data_loop (S (length (buf s) + length (rx s))) sh s.

(* ------------------------------------------------------------------ one request task *)
Inductive pc :=
| SWait | SResolve | SRecv | SRecvTrl | SSendResp | SSendData | SSendTrl | SFinish
| CSendReq | CSendData | CSendTrl | CFinish | CRecvResp | CRecv | CRecvTrl
| Done.

Record req := {
  cfg : rcfg;               (* role, size of the field section we send, body we send *)
  todo : list ev;           (* what the peer has not delivered yet *)
  fs : fstream;
  pcr : pc;
  stopped : option N;       (* peer's STOP_SENDING for our sending half *)
  acc : bytes;              (* body bytes handed to the application, in order *)
  trl : option hkind;       (* RequestStream.trailers: a trailer frame taken off the stream, not yet decoded *)
  gottrl : bool;            (* recv_trailers handed a trailer section to the application *)
  tx : list witem;          (* frames written *)
  calls : list call;        (* reset / stop_sending / finish on this stream *)
  res : option result
}.

Definition init_req (c : rcfg) (script : list ev) : req :=
  {| cfg := c; todo := script; fs := fs0;
     pcr := match c_role c with Server => SWait | Client => CSendReq end;
     stopped := None; acc := []; trl := None; gottrl := false; tx := []; calls := []; res := None |}.

Definition upd (r : req) (f : fstream) (p : pc) (a : bytes) (t : list witem) (cs : list call) (rs : option result) : req :=
  {| cfg := cfg r; todo := todo r; fs := f; pcr := p; stopped := stopped r;
     acc := a; trl := trl r; gottrl := gottrl r; tx := t; calls := cs; res := rs |}.
Definition set_trl (r : req) (o : option hkind) (g : bool) : req :=
  {| cfg := cfg r; todo := todo r; fs := fs r; pcr := pcr r; stopped := stopped r;
     acc := acc r; trl := o; gottrl := g; tx := tx r; calls := calls r; res := res r |}.
Definition finish_with (r : req) (f : fstream) (rs : result) (t : list witem) (cs : list call) : req :=
  upd r f Done (acc r) t cs (Some rs).
Definition goto (r : req) (f : fstream) (p : pc) : req := upd r f p (acc r) (tx r) (calls r) None.

Inductive status := Continue | Stop.

(* stream::write through SimQuic: fails with StreamTerminated once the peer asked to stop sending *)
Definition write_err (r : req) (sh : shared) : option (shared * serr) :=
  match stopped r with
  | Some c => Some (on_stream_terminated c sh)
  | None => None
  end.

Definition opt_call (mk : N -> call) (c : option N) : list call :=
  match c with Some x => [mk x] | None => [] end.

(* ------------------------------------------------------------------ RequestStream::poll_recv_trailers *)
Inductive tr_res :=
| TrPending (kept : option hkind)     (* Pending; self.trailers as left behind *)
| TrDone (got : bool)                 (* Ok(Some(map)) / Ok(None) *)
| TrErr (e : serr) (cs : list call)   (* error, with the stop_sending calls made on the way *)
| TrPanic (site : N) | TrUnmodelled.

(* the last part: decode_stateless + Header::try_from on the trailer section; the client wrapper
   (client/stream.rs poll_recv_trailers) cancels on HeaderTooBig *)
Definition trailers_decode (p : pc) (k : hkind) (sh : shared) (f : fstream) : tr_res * shared * fstream :=
  match k with
  | HOk => (TrDone true, sh, f)
  | HOversized =>
      let '(sh', e) := if trl_toobig_stores then conn_error_on_stream H3_INTERNAL_ERROR sh
                       else (sh, serr_of_variant trl_toobig_variant 0) in
      (TrErr e (match p with CRecvTrl => opt_call CStop cli_trl_toobig_stop | _ => [] end), sh', f)
  | HBadQpack => let '(sh', e) := conn_error_on_stream trl_qpack_code sh in (TrErr e [], sh', f)
  | HMalformed =>
      let '(sh', e) := if trl_malformed_stores then conn_error_on_stream trl_malformed_code sh
                       else (sh, serr_of_variant trl_malformed_variant trl_malformed_code) in
      (TrErr e (opt_call CStop trl_malformed_stop), sh', f)
  end.

(* after the trailer frame: no known frame may follow; the section is looked at once the stream has ended *)
Definition trailers_tail (p : pc) (k : hkind) (sh : shared) (f : fstream) : tr_res * shared * fstream :=
  if trl_waits_for_end && negb (eos f && match buf f with [] => true | _ => false end) then
    match poll_next f with
    | (PnPending, f1) => (TrPending (Some k), sh, f1)
    | (PnErrQuic c, f1) => let '(sh', e) := fse_quic c sh in (TrErr e [], sh', f1)
    | (PnUnexpectedEnd, f1) => let '(sh', e) := fse_end sh in (TrErr e [], sh', f1)
    | (PnEnd, f1) => trailers_decode p k sh f1
    | (PnHeaders _, f1) | (PnData _, f1) =>
        let '(sh', e) := conn_error_on_stream trl_unexpected_code sh in (TrErr e [], sh', f1)
    | (PnUnmodelled, f1) => (TrUnmodelled, sh, f1)
    | (PnPanic n, f1) => (TrPanic n, sh, f1)
    end
  else trailers_decode p k sh f.

Definition recv_trailers (sh : shared) (p : pc) (kept : option hkind) (f : fstream) : tr_res * shared * fstream :=
  match kept with
  | Some k => trailers_tail p k sh f
  | None =>
      match poll_next f with
      | (PnPending, f1) => (TrPending None, sh, f1)
      | (PnErrQuic c, f1) => let '(sh', e) := fse_quic c sh in (TrErr e [], sh', f1)
      | (PnUnexpectedEnd, f1) => let '(sh', e) := fse_end sh in (TrErr e [], sh', f1)
      | (PnEnd, f1) => (TrDone false, sh, f1)
      | (PnHeaders k, f1) => trailers_tail p k sh f1
      | (PnData _, f1) => let '(sh', e) := conn_error_on_stream trl_unexpected_code sh in (TrErr e [], sh', f1)
      | (PnUnmodelled, f1) => (TrUnmodelled, sh, f1)
      | (PnPanic n, f1) => (TrPanic n, sh, f1)
      end
  end.

Definition exec_pc (sh : shared) (r : req) : shared * req * status :=
  match pcr r with
  | SWait => (sh, r, Stop)
  | Done => (sh, r, Stop)
  (* ---- server: RequestResolver::resolve_request *)
  | SResolve =>
      match poll_next (fs r) with
      | (PnPending, f) => (sh, goto r f SResolve, Stop)
      | (PnErrQuic c, f) => let '(sh', e) := fse_quic c sh in (sh', finish_with r f (RErr AResolve e) (tx r) (calls r), Stop)
      | (PnUnexpectedEnd, f) => let '(sh', e) := fse_end sh in (sh', finish_with r f (RErr AResolve e) (tx r) (calls r), Stop)
      | (PnEnd, f) =>
          let '(sh', e) := if srv_incomplete_stores then conn_error_on_stream srv_incomplete_code sh
                           else (sh, SStream srv_incomplete_code) in
          (sh', finish_with r f (RErr AResolve e) (tx r) (calls r ++ opt_call CReset srv_incomplete_reset), Stop)
      | (PnData _, f) =>
          let '(sh', e) := if srv_first_not_headers_stores then conn_error_on_stream srv_first_not_headers_code sh
                           else (sh, SStream srv_first_not_headers_code) in
          (sh', finish_with r f (RErr AResolve e) (tx r) (calls r), Stop)
      | (PnHeaders HBadQpack, f) =>
          let '(sh', e) := conn_error_on_stream srv_qpack_code sh in
          (sh', finish_with r f (RErr AResolve e) (tx r) (calls r), Stop)
      | (PnHeaders HOversized, f) =>
          (* resolve(): send the error response (send_response: size check against the peer's limit, then write) *)
          if srv_toobig_sends_response then
            if over SIZE_OF_431_SECTION (peer_max sh) then (sh, finish_with r f (RErr AResolve SHeaderTooBig) (tx r) (calls r), Stop)
            else match write_err r sh with
                 | Some (sh', e) => (sh', finish_with r f (RErr AResolve e) (tx r) (calls r), Stop)
                 | None =>
                     let '(sh', e) := if srv_toobig_stores then conn_error_on_stream H3_INTERNAL_ERROR sh
                                      else (sh, serr_of_variant srv_toobig_variant 0) in
                     (sh', finish_with r f (RErr AResolve e) (tx r ++ [WHeaders srv_toobig_status]) (calls r), Stop)
                 end
          else
            let '(sh', e) := if srv_toobig_stores then conn_error_on_stream H3_INTERNAL_ERROR sh
                             else (sh, serr_of_variant srv_toobig_variant 0) in
            (sh', finish_with r f (RErr AResolve e) (tx r) (calls r), Stop)
      | (PnHeaders HMalformed, f) =>
          let '(sh', e) := if srv_malformed_stores then conn_error_on_stream srv_malformed_code sh
                           else (sh, SStream srv_malformed_code) in
          (sh', finish_with r f (RErr AResolve e) (tx r)
                  (calls r ++ (if srv_malformed_resets then [CReset srv_malformed_code] else [])
                           ++ (if srv_malformed_stops then [CStop srv_malformed_code] else [])), Stop)
      | (PnHeaders HOk, f) => (sh, goto r f SRecv, Continue)
      | (PnUnmodelled, f) => (sh, finish_with r f RUnmodelled (tx r) (calls r), Stop)
      | (PnPanic n, f) => (sh, finish_with r f (RPanic n) (tx r) (calls r), Stop)
      end
  (* ---- both roles: recv_data until None *)
  | SRecv | CRecv =>
      match poll_recv_data sh (fs r) with
      | (RdPending, sh', f) => (sh', goto r f (pcr r), Stop)
      | (RdSome d, sh', f) => (sh', upd r f (pcr r) (acc r ++ d) (tx r) (calls r) None, Continue)
      | (RdNone, sh', f) => (sh', goto r f (match pcr r with SRecv => SRecvTrl | _ => CRecvTrl end), Continue)
      | (RdTrailers k, sh', f) =>
          (sh', set_trl (goto r f (match pcr r with SRecv => SRecvTrl | _ => CRecvTrl end)) (Some k) (gottrl r), Continue)
      | (RdErr e, sh', f) => (sh', finish_with r f (RErr ARecv e) (tx r) (calls r), Stop)
      | (RdPanic n, sh', f) => (sh', finish_with r f (RPanic n) (tx r) (calls r), Stop)
      | (RdUnmodelled, sh', f) => (sh', finish_with r f RUnmodelled (tx r) (calls r), Stop)
      end
  (* ---- server: send_response, send_data, finish *)
  | SSendResp =>
      if over (c_hsize (cfg r)) (peer_max sh) then (sh, finish_with r (fs r) (RErr ASendResp SHeaderTooBig) (tx r) (calls r), Stop)
      else match write_err r sh with
           | Some (sh', e) => (sh', finish_with r (fs r) (RErr ASendResp e) (tx r) (calls r), Stop)
           | None => (sh, upd r (fs r) SSendData (acc r) (tx r ++ [WHeaders STATUS_OK]) (calls r) None, Stop)
           end
  | SSendData | CSendData =>
      match write_err r sh with
      | Some (sh', e) =>
          if send_data_err_via_hq then (sh', finish_with r (fs r) (RErr ASendData e) (tx r) (calls r), Stop)
          else let '(sh2, e2) := conn_error_on_stream H3_INTERNAL_ERROR sh in
               (sh2, finish_with r (fs r) (RErr ASendData e2) (tx r) (calls r), Stop)
      | None =>
          (sh, upd r (fs r) (match pcr r, c_trl (cfg r) with
                             | SSendData, Some _ => SSendTrl | SSendData, None => SFinish
                             | _, Some _ => CSendTrl | _, None => CFinish
                             end)
                   (acc r) (tx r ++ [WData (c_body (cfg r))]) (calls r) None, Stop)
      end
  (* ---- both roles: send_trailers (size check against the peer's limit, then the write) *)
  | SSendTrl | CSendTrl =>
      match c_trl (cfg r) with
      | None => (sh, goto r (fs r) (match pcr r with SSendTrl => SFinish | _ => CFinish end), Stop)   (* not entered *)
      | Some z =>
          if send_trailers_limit_cmp && over z (peer_max sh)
          then (sh, finish_with r (fs r) (RErr ASendTrl SHeaderTooBig) (tx r) (calls r), Stop)
          else match write_err r sh with
               | Some (sh', e) =>
                   if send_trailers_err_via_hq then (sh', finish_with r (fs r) (RErr ASendTrl e) (tx r) (calls r), Stop)
                   else let '(sh2, e2) := conn_error_on_stream H3_INTERNAL_ERROR sh in
                        (sh2, finish_with r (fs r) (RErr ASendTrl e2) (tx r) (calls r), Stop)
               | None =>
                   (sh, upd r (fs r) (match pcr r with SSendTrl => SFinish | _ => CFinish end)
                            (acc r) (tx r ++ [WTrailers]) (calls r) None, Stop)
               end
      end
  (* ---- both roles: recv_trailers *)
  | SRecvTrl | CRecvTrl =>
      match recv_trailers sh (pcr r) (trl r) (fs r) with
      | (TrPending o, sh', f) => (sh', set_trl (goto r f (pcr r)) o (gottrl r), Stop)
      | (TrDone got, sh', f) =>
          match pcr r with
          | SRecvTrl => (sh', set_trl (goto r f SSendResp) None got, Stop)       (* yield before answering *)
          | _ => (sh', set_trl (finish_with r f ROk (tx r) (calls r)) None got, Stop)
          end
      | (TrErr e cs, sh', f) => (sh', finish_with r f (RErr ARecvTrl e) (tx r) (calls r ++ cs), Stop)
      | (TrPanic n, sh', f) => (sh', finish_with r f (RPanic n) (tx r) (calls r), Stop)
      | (TrUnmodelled, sh', f) => (sh', finish_with r f RUnmodelled (tx r) (calls r), Stop)
      end
  (* ---- both roles: finish(): the connection's one grease frame if this request carries it, then poll_finish *)
  | SFinish | CFinish =>
      match (if c_grease (cfg r) then write_err r sh else None) with
      | Some (sh', e) =>
          if finish_err_via_hq then (sh', finish_with r (fs r) (RErr AFinish e) (tx r) (calls r), Stop)
          else let '(sh2, e2) := conn_error_on_stream H3_INTERNAL_ERROR sh in
               (sh2, finish_with r (fs r) (RErr AFinish e2) (tx r) (calls r), Stop)
      | None =>
          let t := tx r ++ (if c_grease (cfg r) then [WGrease] else []) in
          (* the transport's poll_finish reports a STOP_SENDING it has seen: StreamTerminated, or (h3-quinn) Unknown *)
          match stopped r with
          | Some c =>
              let '(sh', e) := if c_unk (cfg r) then on_stream_unknown sh else on_stream_terminated c sh in
              if finish_err_via_hq then (sh', finish_with r (fs r) (RErr AFinish e) t (calls r), Stop)
              else let '(sh2, e2) := conn_error_on_stream H3_INTERNAL_ERROR sh in
                   (sh2, finish_with r (fs r) (RErr AFinish e2) t (calls r), Stop)
          | None =>
              match pcr r with
              | SFinish => (sh, finish_with r (fs r) ROk t (calls r ++ [CFin]), Stop)
              | _ => (sh, upd r (fs r) CRecvResp (acc r) t (calls r ++ [CFin]) None, Continue)
              end
          end
      end
  (* ---- client: send_request, send_data, finish, recv_response *)
  | CSendReq =>
      if closing sh then (sh, finish_with r (fs r) (RErr ASendReq SRemoteClosing) (tx r) (calls r), Stop)
      else if over (c_hsize (cfg r)) (peer_max sh) then (sh, finish_with r (fs r) (RErr ASendReq SHeaderTooBig) (tx r) (calls r), Stop)
      else match write_err r sh with
           | Some (sh', e) => (sh', finish_with r (fs r) (RErr ASendReq e) (tx r) (calls r), Stop)
           | None => (sh, upd r (fs r) CSendData (acc r) (tx r ++ [WHeaders 0]) (calls r) None, Stop)
           end
  | CRecvResp =>
      match poll_next (fs r) with
      | (PnPending, f) => (sh, goto r f CRecvResp, Stop)
      | (PnErrQuic c, f) => let '(sh', e) := fse_quic c sh in (sh', finish_with r f (RErr ARecvResp e) (tx r) (calls r), Stop)
      | (PnUnexpectedEnd, f) => let '(sh', e) := fse_end sh in (sh', finish_with r f (RErr ARecvResp e) (tx r) (calls r), Stop)
      | (PnEnd, f) =>
          let '(sh', e) := if cli_fin_stores then conn_error_on_stream cli_fin_code sh else (sh, SStream cli_fin_code) in
          (sh', finish_with r f (RErr ARecvResp e) (tx r) (calls r), Stop)
      | (PnData _, f) =>
          let '(sh', e) := conn_error_on_stream cli_first_not_headers_code sh in
          (sh', finish_with r f (RErr ARecvResp e) (tx r) (calls r), Stop)
      | (PnHeaders HBadQpack, f) =>
          let '(sh', e) := conn_error_on_stream cli_qpack_code sh in
          (sh', finish_with r f (RErr ARecvResp e) (tx r) (calls r), Stop)
      | (PnHeaders HOversized, f) =>
          let '(sh', e) := if cli_toobig_stores then conn_error_on_stream H3_INTERNAL_ERROR sh
                           else (sh, serr_of_variant cli_toobig_variant 0) in
          (sh', finish_with r f (RErr ARecvResp e) (tx r) (calls r ++ opt_call CStop cli_toobig_stop), Stop)
      | (PnHeaders HMalformed, f) =>
          let '(sh', e) := if cli_malformed_stores then conn_error_on_stream cli_malformed_code sh
                           else (sh, SStream cli_malformed_code) in
          (sh', finish_with r f (RErr ARecvResp e) (tx r) (calls r ++ opt_call CStop cli_malformed_stop), Stop)
      | (PnHeaders HOk, f) => (sh, goto r f CRecv, Continue)
      | (PnUnmodelled, f) => (sh, finish_with r f RUnmodelled (tx r) (calls r), Stop)
      | (PnPanic n, f) => (sh, finish_with r f (RPanic n) (tx r) (calls r), Stop)
      end
  end.

(* one poll of the task: run until it blocks, yields or ends *)
Fixpoint poll_task (fuel : nat) (sh : shared) (r : req) : shared * req :=
  match fuel with
  | O => (sh, finish_with r (fs r) RUnmodelled (tx r) (calls r))
  | S f =>
      match exec_pc sh r with
      | (sh', r', Stop) => (sh', r')
      | (sh', r', Continue) => poll_task f sh' r'
      end
  end.
Definition task_fuel (r : req) : nat := length (buf (fs r)) + length (rx (fs r)) + 8.

(* ------------------------------------------------------------------ the world *)
Record world := { sh : shared; reqs : list req }.

Inductive action :=
| Open (i : nat)        (* server: the peer's stream i is announced, the driver is polled and accepts it *)
| Deliver (i : nat)     (* the next event of request i's script reaches its stream *)
| PeerStop (i : nat) (c : N)
| Poll (i : nat)        (* the executor polls task i once *)
| DriverPoll
| Settings (v : N)      (* the peer's SETTINGS (max_field_section_size = v) arrive, the driver is polled *)
| Goaway.               (* the peer's GOAWAY arrives, the driver is polled *)

Fixpoint set_nth {A} (i : nat) (x : A) (l : list A) : list A :=
  match l, i with
  | [], _ => []
  | _ :: t, O => x :: t
  | h :: t, S k => h :: set_nth k x t
  end.

Definition push_rx (e : ev) (f : fstream) : fstream :=
  (* SimQuic World::push: nothing is queued behind a terminal event *)
  match last (rx f) EPartial with
  | EFin | EReset _ => f
  | _ => {| buf := buf f; remaining := remaining f; eos := eos f; rx := rx f ++ [e] |}
  end.

Definition with_fs (r : req) (f : fstream) (t : list ev) : req :=
  {| cfg := cfg r; todo := t; fs := f; pcr := pcr r; stopped := stopped r;
     acc := acc r; trl := trl r; gottrl := gottrl r; tx := tx r; calls := calls r; res := res r |}.
Definition with_stop (r : req) (c : N) : req :=
  {| cfg := cfg r; todo := todo r; fs := fs r; pcr := pcr r;
     stopped := match stopped r with Some c0 => Some c0 | None => Some c end;
     acc := acc r; trl := trl r; gottrl := gottrl r; tx := tx r; calls := calls r; res := res r |}.
Definition with_pc (r : req) (p : pc) : req :=
  {| cfg := cfg r; todo := todo r; fs := fs r; pcr := p; stopped := stopped r;
     acc := acc r; trl := trl r; gottrl := gottrl r; tx := tx r; calls := calls r; res := res r |}.

(* the part of an action that concerns request r itself, given the shared state it sees *)
Definition req_step (a : action) (s : shared) (r : req) : shared * req :=
  match a with
  | Open _ =>
      match pcr r, drv s with
      | SWait, None => (s, with_pc r SResolve)
      | _, _ => (s, r)
      end
  | Deliver _ =>
      match todo r with
      | [] => (s, r)
      | e :: t => (s, with_fs r (push_rx e (fs r)) t)
      end
  | PeerStop _ c => (s, with_stop r c)
  | Poll _ => poll_task (task_fuel r) s r
  | _ => (s, r)
  end.

Definition target (a : action) : option nat :=
  match a with
  | Open i | Deliver i | PeerStop i _ | Poll i => Some i
  | _ => None
  end.

(* the connection-level part of an action, before the request part *)
Definition global_step (a : action) (s : shared) : shared :=
  match a with
  | Open _ | DriverPoll => driver_poll s
  | Settings v =>
      let s1 := driver_poll s in
      match drv s1, peer_max s1 with
      | None, None => set_peer_max v s1
      | _, _ => s1
      end
  | Goaway =>
      let s1 := driver_poll s in
      match drv s1 with
      | None => set_closing s1
      | _ => s1
      end
  | _ => s
  end.

Definition step (w : world) (a : action) : world :=
  let s1 := global_step a (sh w) in
  match target a with
  | None => {| sh := s1; reqs := reqs w |}
  | Some i =>
      match nth_error (reqs w) i with
      | None => {| sh := s1; reqs := reqs w |}
      | Some r => let '(s2, r') := req_step a s1 r in {| sh := s2; reqs := set_nth i r' (reqs w) |}
      end
  end.

Definition run (sched : list action) (w : world) : world := fold_left step sched w.

(* n requests about to start: their constants and what the peer will send on each stream *)
Definition init_world (l : list (rcfg * list ev)) : world :=
  {| sh := sh0; reqs := map (fun p => init_req (fst p) (snd p)) l |}.

(* the actions that concern request j: its own, and the connection-level ones *)
Definition touches (j : nat) (a : action) : bool :=
  match target a with
  | Some i => Nat.eqb i j
  | None => true
  end.

(* ------------------------------------------------------------------ what is observed *)
Definition outcome_of (r : option result) : outcome :=
  match r with
  | None => ONone
  | Some ROk => OOk
  | Some (RErr _ (SStream c)) => OStreamErr KStreamError (Some c)
  | Some (RErr _ (SRemoteTerminate c)) => OStreamErr KRemoteTerminate (Some c)
  | Some (RErr _ SHeaderTooBig) => OStreamErr KHeaderTooBig None
  | Some (RErr _ SRemoteClosing) => OStreamErr KRemoteClosing None
  | Some (RErr _ (SConn c)) => OConnErr c
  | Some (RErr _ SUndefined) => OStreamErr KUndefined None
  | Some _ => OOther
  end.
Definition observe (r : req) : observed :=
  {| ob_out := outcome_of (res r); ob_data := acc r; ob_trl := gottrl r; ob_calls := calls r; ob_tx := tx r |}.
Definition observe_conn (s : shared) : connobs :=
  {| co_cell := cell s; co_closes := closes s; co_driver := drv s |}.

(* ------------------------------------------------------------------ vocabulary of the theorem statements *)
(* the disturbances a schedule may contain are those announced in (stops, L, G) *)
Definition action_ok (stops : nat -> option N) (L : option N) (G : bool) (a : action) : Prop :=
  match a with
  | PeerStop i c => stops i = Some c
  | Settings v => L = Some v
  | Goaway => G = true
  | _ => True
  end.

Definition env_of (stops : nat -> option N) (L : option N) (G : bool) (i : nat) : renv :=
  {| e_stop := stops i; e_limit := L; e_goaway := G |}.

(* every request's script is in the class of the property *)
Definition in_class (l : list (rcfg * list ev)) : Prop :=
  forall i c S, nth_error l i = Some (c, S) -> classify_script c S <> None.

(* a request meets the specification table: finished -> one of the allowed outcomes; running -> it has
   shown nothing but a prefix of its data *)
Definition request_ok (E : renv) (c : rcfg) (S : list ev) (r : req) : Prop :=
  exists al, classify c E S = Some al /\
    match res r with
    | Some _ => sat (observe r) al = true
    | None => prefixb (acc r) (all_data S) = true
    end.

Definition undisturbed (E : renv) (c : rcfg) : Prop :=
  e_stop E = None /\ over (c_hsize c) (e_limit E) = false /\
  (forall z, c_trl c = Some z -> over z (e_limit E) = false) /\ (c_role c = Client -> e_goaway E = false).

(* a request step may do one of two things to the shared state: nothing, or the first store to the error cell *)
Definition sh_mono (s s' : shared) : Prop :=
  s' = s \/ (cell s = None /\ cell s' <> None /\ closing s' = closing s /\ peer_max s' = peer_max s /\
             closes s' = closes s /\ drv s' = drv s).

(* the actions performed by (or delivered to) a request's own task; `Open` is not one: it polls the driver *)
Definition task_action (a : action) : bool :=
  match a with Deliver _ | PeerStop _ _ | Poll _ => true | _ => false end.

(* the rest of request j's life: it is accepted, everything the peer still holds arrives, its task is polled *)
Definition completion (j n : nat) : list action :=
  Open j :: repeat (Deliver j) n ++ repeat (Poll j) 5.
