(* The connected pair used by C20: one Encoder, one Decoder, the encoder stream (encoder -> decoder, in order,
   delivered late), the decoder stream (decoder -> encoder: Insert Count Increments written by on_encoder_recv and
   Section Acknowledgements written when a section with dyn_ref was decoded), and the emitted field sections. *)
From H3V Require Import Base.Bytes Gen.GenQpack Model.Vas Model.DynTable Model.QInstr Model.QEncoder Model.QDecoder.

Inductive op :=
| OEncode (sid : N) (fs : list field)      (* Encoder::encode *)
| ODeliver (k : N)                         (* the next k encoder-stream instructions reach Decoder::on_encoder_recv (one call) *)
| ODecode (j : N) (honest : bool)          (* Decoder::decode_header on section j.
                                              honest: as the owner of the request stream would - not before the earlier sections
                                              of the same stream are done, once; on success the section is done and, with dyn_ref,
                                              a HeaderAck is queued.  not honest: a bare call, nothing recorded *)
| OFeedback (k : N)                        (* the next k decoder-stream instructions reach Encoder::on_decoder_recv (one call) *)
| OCancel (sid : N)                        (* the decoder abandons the stream: its sections are done, decoder::stream_canceled queued *)
| OResize (n : N).                         (* encoder::set_dynamic_table_size *)

Record section := mkSection { sec_sid : N; sec_block : hblock; sec_fields : list field; sec_required : N; sec_done : bool }.

Definition sec_set_done (x : section) : section :=
  mkSection (sec_sid x) (sec_block x) (sec_fields x) (sec_required x) true.

Fixpoint mark_done (l : list section) (j : N) : list section :=
  match l with
  | [] => []
  | x :: r => if j =? 0 then sec_set_done x :: r else x :: mark_done r (j - 1)
  end.

(* is an earlier section (index < j) of the same stream still not done? *)
Fixpoint earlier_pending (l : list section) (j sid : N) : bool :=
  match l with
  | [] => false
  | x :: r => if j =? 0 then false
              else ((sec_sid x =? sid) && negb (sec_done x)) || earlier_pending r (j - 1) sid
  end.

Definition cancel_stream (l : list section) (sid : N) : list section :=
  map (fun x => if sec_sid x =? sid then sec_set_done x else x) l.

Record sys := mkSys {
  s_enc : dt;
  s_dec : dt;
  s_eq : list einstr;        (* encoder stream, not yet delivered *)
  s_dq : list dinstr;        (* decoder stream, not yet delivered *)
  s_secs : list section      (* emitted sections, in order *)
}.

Inductive outcome :=
| REncoded (e : encoded)
| REncErr (e : enc_err)
| RDelivered (inserted : N) (inc : option dinstr)
| RDecErr (e : dec_err)
| RDecoded (fs : list field) (dyn_ref : bool)
| RFeedback
| RQueued
| RResized
| RNoSuchSection
| RHeld
| RAlreadyDone
| RPanic (site : N).

Definition sys_init (cap blocked : N) : option sys :=
  match dt_set_max_size dt_new cap with
  | Ok t => match dt_set_max_blocked t blocked with
            | Ok t' => Some (mkSys t' t' [] [] [])
            | _ => None
            end
  | _ => None
  end.

Definition sys_step (s : sys) (o : op) : sys * outcome :=
  match o with
  | OEncode sid fs =>
      match enc_encode (s_enc s) sid fs with
      | (t, Ok e) =>
          (mkSys t (s_dec s) (s_eq s ++ en_instrs e) (s_dq s)
                 (s_secs s ++ [mkSection sid (en_block e) fs (en_required e) false]), REncoded e)
      | (t, Err er) => (mkSys t (s_dec s) (s_eq s) (s_dq s) (s_secs s), REncErr er)
      | (t, Panic p) => (mkSys t (s_dec s) (s_eq s) (s_dq s) (s_secs s), RPanic p)
      end
  | ODeliver k =>
      let now := firstn (N.to_nat k) (s_eq s) in
      let later := skipn (N.to_nat k) (s_eq s) in
      match dec_on_encoder_recv (s_dec s) now with
      | (t, Ok (ins, inc)) =>
          (mkSys (s_enc s) t later (s_dq s ++ match inc with Some i => [i] | None => [] end) (s_secs s),
           RDelivered ins inc)
      | (t, Err er) => (mkSys (s_enc s) t later (s_dq s) (s_secs s), RDecErr er)
      | (t, Panic p) => (mkSys (s_enc s) t later (s_dq s) (s_secs s), RPanic p)
      end
  | ODecode j honest =>
      match nth_opt (s_secs s) j with
      | None => (s, RNoSuchSection)
      | Some sec =>
          if honest && sec_done sec then (s, RAlreadyDone)
          else if honest && earlier_pending (s_secs s) j (sec_sid sec) then (s, RHeld)
          else
          match dec_decode_header (s_dec s) (sec_block sec) with
          | Ok (fs, dyn_ref) =>
              if honest then
                (mkSys (s_enc s) (s_dec s) (s_eq s)
                       (s_dq s ++ if dyn_ref then [DAck (sec_sid sec)] else []) (mark_done (s_secs s) j),
                 RDecoded fs dyn_ref)
              else (s, RDecoded fs dyn_ref)
          | Err er => (s, RDecErr er)
          | Panic p => (s, RPanic p)
          end
      end
  | OFeedback k =>
      let now := firstn (N.to_nat k) (s_dq s) in
      let later := skipn (N.to_nat k) (s_dq s) in
      match enc_on_decoder_recv (s_enc s) now with
      | (t, Ok _) => (mkSys t (s_dec s) (s_eq s) later (s_secs s), RFeedback)
      | (t, Err er) => (mkSys t (s_dec s) (s_eq s) later (s_secs s), REncErr er)
      | (t, Panic p) => (mkSys t (s_dec s) (s_eq s) later (s_secs s), RPanic p)
      end
  | OCancel sid => (mkSys (s_enc s) (s_dec s) (s_eq s) (s_dq s ++ [DCancel sid]) (cancel_stream (s_secs s) sid), RQueued)
  | OResize n =>
      match enc_set_table_size (s_enc s) n with
      | (t, Ok i) => (mkSys t (s_dec s) (s_eq s ++ [i]) (s_dq s) (s_secs s), RResized)
      | (t, Err er) => (mkSys t (s_dec s) (s_eq s) (s_dq s) (s_secs s), REncErr er)
      | (t, Panic p) => (mkSys t (s_dec s) (s_eq s) (s_dq s) (s_secs s), RPanic p)
      end
  end.

Fixpoint sys_run (s : sys) (os : list op) : sys * list outcome :=
  match os with
  | [] => (s, [])
  | o :: r => let '(s1, x) := sys_step s o in let '(s2, xs) := sys_run s1 r in (s2, x :: xs)
  end.
