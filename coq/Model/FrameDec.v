(* Model of h3/src/proto/frame.rs: `Frame::<PayloadLen>::decode` over the remaining-bytes view of its
   `Buf` argument, together with the ok/error decision of `Settings::decode`.

   What is abstracted: the argument is a `buf::Cursor` over a `BufList`; here it is the flat list of the
   bytes that cursor would yield (its chunk structure is not visible to `Frame::decode`, which only uses
   `remaining/get_u8/copy_to_slice/copy_to_bytes/take/advance`).  That `Cursor` really behaves like its flat
   view for every chunking is evidence from the correspondence run (all chunkings of every case), not a theorem.
   The second component of the result is `cur.position()` after the call (bytes consumed); it is only read by
   the caller for `Ok` and `UnknownFrame`.
   Every constant, every arm of `match ty`, the order of the special cases and the presence of the
   `Malformed` mappings / trailing-bytes test come from Gen/GenFrameTypes.v.  64-bit usize. *)
From H3V Require Import Base.Bytes Gen.GenVarint Gen.GenFrameTypes Spec.FrameVocab Model.Varint.

Inductive ferr :=
| Malformed
| Unsupported (ty : N)
| Unknown (ty : N)
| Incomplete (min : N)
| ESettings (e : settings_err)
| EInvalidStreamId (v : N)
| EInvalidPushId (v : N)
| EInvalidFrameValue.

Definition memN (x : N) (l : list N) : bool := existsb (N.eqb x) l.

(* Settings::decode, reduced to its ok/error decision: `seen` are the identifiers inserted so far.
   fuel: every round consumes at least two bytes; Panic 90 = out of fuel (never, see proofs) *)
Fixpoint settings_scan (fuel : nat) (v : bytes) (seen : list N) : res settings_err unit :=
  match fuel with
  | O => Panic 90
  | S f =>
    match v with
    | [] => Ok tt
    | _ =>
      if len v <? fs_settings_min then Err SMalformed else
      match vi_decode v with
      | (Panic s, _) => Panic s
      | (Err _, _) => Err SMalformed
      | (Ok id, r1) =>
        match vi_decode r1 with
        | (Panic s, _) => Panic s
        | (Err _, _) => Err SMalformed
        | (Ok val, r2) =>
          if memN id fs_forbidden_ids then Err (SInvalidId id)
          else if memN id fs_supported_ids then
            (* Settings::insert *)
            if fs_settings_len <=? len seen then Err SExceeded
            else match vi_from_u64 id, vi_from_u64 val with
                 | Some _, Some _ =>
                     if memN id seen then Err (SRepeated id) else settings_scan f r2 (seen ++ [id])
                 | _, _ => Err (SInvalidValue id val)
                 end
          else settings_scan f r2 seen
        end
      end
    end
  end.

Definition settings_check (p : bytes) : res settings_err unit := settings_scan (S (length p)) p [].

(* the verdict handed to the specification's `scheck` parameter (a panic is proved impossible) *)
Definition settings_verdict (p : bytes) : option settings_err :=
  match settings_check p with Ok _ => None | Err e => Some e | Panic _ => Some SExceeded end.

(* `.map_err(|_| FrameError::Malformed)?` when present, else `?` through From<UnexpectedEnd> *)
Definition short_err (mal : bool) (k : N) : ferr := if mal then Malformed else Incomplete k.

(* PushId::try_from(u64) = VarInt::try_from *)
Definition push_id_try_from (v : N) : res ferr N :=
  match vi_from_u64 v with Some x => Ok x | None => Err (EInvalidPushId v) end.

(* one arm of `match ty` run on the payload reader `p`: the result and what `p` still holds afterwards *)
Definition read_arm (a : arm) (ty l : N) (p : bytes) : res ferr frame * bytes :=
  match a with
  | ArmHeaders =>
      if len p <? l then (Panic 30, p)         (* copy_to_bytes past the end *)
      else (Ok (FHeaders (firstn (N.to_nat l) p)), skipn (N.to_nat l) p)
  | ArmSettings =>
      match settings_check p with
      | Ok _ => (Ok (FSettings p), [])
      | Err e => (Err (ESettings e), [])
      | Panic s => (Panic s, [])
      end
  | ArmCancelPush mal =>
      match vi_decode p with
      | (Ok v, r) => (res_bind (push_id_try_from v) (fun x => Ok (FCancelPush x)), r)
      | (Err k, r) => (Err (short_err mal k), r)
      | (Panic s, r) => (Panic s, r)
      end
  | ArmMaxPushId mal =>
      match vi_decode p with
      | (Ok v, r) => (res_bind (push_id_try_from v) (fun x => Ok (FMaxPushId x)), r)
      | (Err k, r) => (Err (short_err mal k), r)
      | (Panic s, r) => (Panic s, r)
      end
  | ArmPushPromise mal =>
      match vi_decode p with
      | (Ok v, r) => (Ok (FPushPromise v r), [])
      | (Err k, r) => (Err (short_err mal k), r)
      | (Panic s, r) => (Panic s, r)
      end
  | ArmGoaway mal =>
      match vi_decode p with
      | (Ok v, r) => (Ok (FGoaway v), r)
      | (Err k, r) => (Err (short_err mal k), r)
      | (Panic s, r) => (Panic s, r)
      end
  | ArmUnsupported => (Err (Unsupported ty), p)
  | ArmUnreachable => (Panic 31, p)
  end.

Definition frame_decode (v : bytes) : res ferr frame * N :=
  let remaining := len v in
  match vi_decode v with
  | (Panic s, _) => (Panic s, 0)
  | (Err _, _) => (Err (Incomplete (remaining + fdec_ty_addend)), 0)
  | (Ok ty, r1) =>
    if ty =? fdec_wt_type then
      match vi_decode r1 with
      | (Panic s, _) => (Panic s, 0)
      | (Err k, _) => (Err (Incomplete k), 0)
      | (Ok sid, r2) => (Ok (FWebTransport sid), remaining - len r2)
      end
    else
      match vi_decode r1 with
      | (Panic s, _) => (Panic s, 0)
      | (Err _, _) => (Err (Incomplete (remaining + fdec_len_addend)), 0)
      | (Ok l, r2) =>
        let hdr := remaining - len r2 in
        if ty =? fdec_data_type then (Ok (FData l), hdr)
        else if (if fdec_payload_cmp_strict then len r2 <? l else len r2 <=? l)
        then (Err (Incomplete (fdec_payload_addend + l)), 0)
        else
          let p := if fdec_payload_bounded then firstn (N.to_nat l) r2 else r2 in
          match assoc ty fdec_arms with
          | None => (Err (Unknown ty), hdr + (if fdec_unknown_advances then l else 0))
          | Some a =>
            match read_arm a ty l p with
            | (Ok f, rest) =>
                if fdec_trailing_check && negb (len rest =? 0) then (Err Malformed, 0)
                else (Ok f, hdr + (len p - len rest))
            | (Err e, _) => (Err e, 0)
            | (Panic s, _) => (Panic s, 0)
            end
          end
      end
  end.
