(* C16: the other varint writers / readers and checked constructors of the anchored files, and Display for StreamId.
   Kept outside Model/Varint.v (which many properties import).  The bodies named here are pinned as whole texts by
   translate/gen_varint.py (AnchorLost otherwise); the boolean / comparison facts come from Gen/GenVarint.v. *)
From H3V Require Import Base.Bytes Gen.GenVarint Model.Varint.

(* `VarInt::from_u64(self.0).unwrap().encode(buf)`: the body of `impl Encode for StreamId` (proto/stream.rs) and of
   `impl Encode for SessionId` (webtransport/session_id.rs).  None = the unwrap panic. *)
Definition checked_encode (x : N) : option bytes :=
  match vi_from_u64 x with Some v => vi_encode v | None => None end.
Definition sid_encode (id : N) : option bytes := checked_encode id.

(* SessionId: try_from(u64) has its own comparison against VarInt::MAX.0 (it does not delegate);
   Encode as above; Decode = `Ok(Self(VarInt::decode(buf)?.into_inner()))` *)
Definition sess_try_from (v : N) : option N :=
  if (if sess_try_from_strict_gt then vi_max <? v else vi_max <=? v) then None else Some v.
Definition sess_encode (id : N) : option bytes := checked_encode id.
Definition sess_decode (bs : bytes) : res N N * bytes := vi_decode bs.

(* StreamType: encode = `buf.write_var(self.0)`, decode = `Ok(StreamType(buf.get_var()?))` (the coding.rs copies) *)
Definition st_encode (v : N) : option bytes := vi_write_var v.
Definition st_decode (bs : bytes) : res N N * bytes := vi_get_var bs.

(* Display for StreamId: what the initiator word, the direction word and the number say.  The three facts tell
   whether the word of the Side::Client arm reads "client" (and Server "server"), whether the Dir::Bi arm reads "bi"
   (and Uni "uni"), and whether the number printed is self.index() (false: the raw id). *)
Definition flip_side (s : side) : side := match s with Client => Server | Server => Client end.
Definition flip_dir (d : dir) : dir := match d with Bi => Uni | Uni => Bi end.
Definition sid_display (id : N) : side * dir * N :=
  (if disp_side_words_straight then sid_initiator id else flip_side (sid_initiator id),
   if disp_dir_words_straight then sid_dir id else flip_dir (sid_dir id),
   if disp_number_is_index then sid_index id else id).
