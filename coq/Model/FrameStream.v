(* Model of h3/src/frame.rs (`FrameDecoder::decode`, `FrameStream::{try_recv, poll_next, poll_data}`),
   of the parts of h3/src/stream.rs (`BufRecvStream::poll_read`, `eos`) and h3/src/buf.rs
   (`BufList::{push_bytes, remaining, advance, take_chunk}`) they use, and of a transport receive half.

   State: the BufList as its list of chunks (oldest first), the `eos` flag, the decoder's `expected` memo,
   `remaining_data`, and the transport's queue of undelivered events.
   Abstracted: `Frame::decode` runs on `concat buf` instead of a `Cursor` (see Model/FrameDec.v); wakers (a
   `Pending` result registers the task with the transport; the executor re-polls after the next arrival - the
   history of calls and arrivals is an explicit input here); `Bytes` reference counting.
   Panics of the Rust code are `Panic n` values: 67 = poll_next's assert, 20 = debug_assert in push_bytes
   (empty chunk from the transport), 50/51 = BufList::advance past the end (index out of bounds), 52 = a
   FrameError variant without a mapping arm; 91/92 = model fuel exhausted (proved unreachable). *)
From H3V Require Import Base.Bytes Gen.GenFrameTypes Spec.FrameVocab Model.Varint Model.FrameDec.

Definition usize_max : N := 2 ^ 64 - 1.

(* ---------- transport receive half ---------- *)
Definition rx := list ev.

Definition rx_poll (q : rx) : poll (res qerr (option bytes)) * rx :=
  match q with
  | [] => (Pending, [])
  | Chunk b :: q' => (Ready (Ok (Some b)), q')
  | Fin :: _ => (Ready (Ok None), q)
  | Abort e :: _ => (Ready (Err e), q)
  end.

Definition is_terminal (e : ev) : bool := match e with Chunk _ => false | _ => true end.
Definition terminated (q : rx) : bool := existsb is_terminal q.

(* ---------- BufList<Bytes> ---------- *)
Definition buflist := list bytes.
Definition bl_remaining (b : buflist) : N := len (concat b).

(* Buf::advance for BufList: `self.bufs[0]` panics (None) when the list runs out *)
Fixpoint bl_advance (cnt : N) (b : buflist) : option buflist :=
  if cnt =? 0 then Some b else
  match b with
  | [] => None
  | c :: r => if cnt <? len c then Some (skipn (N.to_nat cnt) c :: r) else bl_advance (cnt - len c) r
  end.

Definition bl_take_chunk (max : N) (b : buflist) : option bytes * buflist :=
  match b with
  | [] => (None, [])
  | c :: r =>
      let n := N.to_nat (N.min max (len c)) in
      let c' := skipn n c in
      (Some (firstn n c), if len c' =? 0 then r else c' :: r)
  end.

(* ---------- FrameStream ---------- *)
Record fstream := { st_buf : buflist; st_eos : bool; st_memo : option N; st_rem : N; st_q : rx }.

Definition fs_new (q : rx) : fstream :=
  {| st_buf := []; st_eos := false; st_memo := None; st_rem := 0; st_q := q |}.

Inductive fserr := FsProto (k : perr_kind) (e : ferr) | FsQuic (e : qerr) | FsUnexpectedEnd.

Definition ferr_kind_of (e : ferr) : option ferr_kind :=
  match e with
  | Malformed => Some FK_Malformed
  | Unsupported _ => Some FK_UnsupportedFrame
  | EInvalidFrameValue => Some FK_InvalidFrameValue
  | ESettings _ => Some FK_Settings
  | EInvalidStreamId _ => Some FK_InvalidStreamId
  | EInvalidPushId _ => Some FK_InvalidPushId
  | Unknown _ | Incomplete _ => None
  end.
Definition ferr_kind_n (k : ferr_kind) : N :=
  match k with FK_Malformed => 0 | FK_UnsupportedFrame => 1 | FK_InvalidFrameValue => 2 | FK_Settings => 3
             | FK_InvalidStreamId => 4 | FK_InvalidPushId => 5 end.
Fixpoint kind_assoc (k : ferr_kind) (l : list (ferr_kind * perr_kind)) : option perr_kind :=
  match l with
  | [] => None
  | (k', v) :: r => if ferr_kind_n k =? ferr_kind_n k' then Some v else kind_assoc k r
  end.
Definition map_ferr (e : ferr) : option fserr :=
  match ferr_kind_of e with
  | Some k => match kind_assoc k fd_err_map with Some pk => Some (FsProto pk e) | None => None end
  | None => None
  end.

(* FrameDecoder::decode(&mut self, src): the loop that skips unknown frames.
   Returns the result, the BufList and the memo afterwards. *)
Fixpoint dec_loop (fuel : nat) (b : buflist) (memo : option N)
  : res fserr (option frame) * buflist * option N :=
  match fuel with
  | O => (Panic 91, b, memo)
  | S f =>
    if bl_remaining b =? 0 then (Ok None, b, memo)
    else if (match memo with
             | Some m => if fd_memo_cmp_strict then bl_remaining b <? m else bl_remaining b <=? m
             | None => false
             end)
    then (Ok None, b, memo)
    else
      match frame_decode (concat b) with
      | (Err (Unknown _), pos) =>
          match bl_advance pos b with
          | Some b' => dec_loop f b' (if fd_unknown_resets_memo then None else memo)
          | None => (Panic 50, b, memo)
          end
      | (Err (Incomplete m), _) => (Ok None, b, Some m)
      | (Ok fr, pos) =>
          match bl_advance pos b with
          | Some b' => (Ok (Some fr), b', if fd_ok_resets_memo then None else memo)
          | None => (Panic 51, b, memo)
          end
      | (Err e, _) => (match map_ferr e with Some pe => Err pe | None => Panic 52 end, b, memo)
      | (Panic s, _) => (Panic s, b, memo)
      end
  end.

Definition decoder_decode (s : fstream) : res fserr (option frame) * fstream :=
  match dec_loop (S (length (concat (st_buf s)))) (st_buf s) (st_memo s) with
  | (r, b, m) => (r, {| st_buf := b; st_eos := st_eos s; st_memo := m; st_rem := st_rem s; st_q := st_q s |})
  end.

(* FrameStream::try_recv with BufRecvStream::poll_read inlined *)
Definition try_recv (s : fstream) : poll (res fserr bool) * fstream :=
  if st_eos s then (Ready (Ok true), s)
  else
    match rx_poll (st_q s) with
    | (Pending, _) => (Pending, s)
    | (Ready (Err e), _) => (Ready (Err (FsQuic e)), s)
    | (Ready (Panic n), _) => (Ready (Panic n), s)
    | (Ready (Ok (Some c)), q') =>
        match c with
        | [] => (Ready (Panic 20), s)
        | _ => (Ready (Ok false),
                {| st_buf := st_buf s ++ [c]; st_eos := false; st_memo := st_memo s; st_rem := st_rem s; st_q := q' |})
        end
    | (Ready (Ok None), q') =>
        (Ready (Ok true),
         {| st_buf := st_buf s; st_eos := true; st_memo := st_memo s; st_rem := st_rem s; st_q := q' |})
    end.

Definition with_rem (s : fstream) (r : N) : fstream :=
  {| st_buf := st_buf s; st_eos := st_eos s; st_memo := st_memo s; st_rem := r; st_q := st_q s |}.
Definition with_buf (s : fstream) (b : buflist) : fstream :=
  {| st_buf := b; st_eos := st_eos s; st_memo := st_memo s; st_rem := st_rem s; st_q := st_q s |}.

(* the `loop` of poll_next: one transport event per round, then a decode of what is buffered *)
Fixpoint next_loop (fuel : nat) (s : fstream) : poll (res fserr (option frame)) * fstream :=
  match fuel with
  | O => (Ready (Panic 92), s)
  | S f =>
    match try_recv s with
    | (Ready (Err e), s1) => (Ready (Err e), s1)
    | (Ready (Panic n), s1) => (Ready (Panic n), s1)
    | (endp, s1) =>
      match decoder_decode s1 with
      | (Err e, s2) => (Ready (Err e), s2)
      | (Panic n, s2) => (Ready (Panic n), s2)
      | (Ok (Some (FData l)), s2) => (Ready (Ok (Some (FData l))), with_rem s2 l)
      | (Ok (Some (FWebTransport x)), s2) => (Ready (Ok (Some (FWebTransport x))), with_rem s2 usize_max)
      | (Ok (Some fr), s2) => (Ready (Ok (Some fr)), s2)
      | (Ok None, s2) =>
        match endp with
        | Ready (Ok false) => next_loop f s2
        | Pending => (Pending, s2)
        | _ (* Ready (Ok true) *) =>
            if fs_next_end_checks_buffer && negb (bl_remaining (st_buf s2) =? 0)
            then (Ready (Err FsUnexpectedEnd), s2)
            else (Ready (Ok None), s2)
        end
      end
    end
  end.

Definition poll_next (s : fstream) : poll (res fserr (option frame)) * fstream :=
  if negb (st_rem s =? 0) then (Ready (Panic 67), s)
  else next_loop (S (length (st_q s))) s.

Definition poll_data (s : fstream) : poll (res fserr (option bytes)) * fstream :=
  if st_rem s =? 0 then (Ready (Ok None), s)
  else
    match try_recv s with
    | (Ready (Err e), s1) => (Ready (Err e), s1)
    | (Ready (Panic n), s1) => (Ready (Panic n), s1)
    | (r, s1) =>
      let endb := match r with Ready (Ok b) => b | _ => false end in
      match bl_take_chunk (st_rem s1) (st_buf s1) with
      | (None, b') =>
          if endb then
            (if fs_data_none_end_guard && negb (st_rem s1 =? usize_max)
             then (Ready (Err FsUnexpectedEnd), with_buf s1 b')
             else (Ready (Ok None), with_buf s1 b'))
          else (Pending, with_buf s1 b')
      | (Some d, b') =>
          if endb && fs_data_short_last_guard && (len d <? st_rem s1) && (bl_remaining b' =? 0)
          then (Ready (Err FsUnexpectedEnd), with_buf s1 b')
          else (Ready (Ok (Some d)), with_rem (with_buf s1 b') (st_rem s1 - len d))
      end
    end.

(* ---------- histories: arrivals interleaved with calls ---------- *)
(* CallAuto is the documented call pattern: poll_data while a DATA payload is owed, else poll_next *)
Inductive action := Arrive (e : ev) | CallNext | CallData | CallAuto.

(* the transport appends an event unless a terminal one is already queued (sticky) *)
Definition arrive (e : ev) (s : fstream) : fstream :=
  if terminated (st_q s) then s
  else {| st_buf := st_buf s; st_eos := st_eos s; st_memo := st_memo s; st_rem := st_rem s; st_q := st_q s ++ [e] |}.

Inductive obs :=
| ONext (r : poll (res fserr (option frame)))
| OData (r : poll (res fserr (option bytes))).

(* a result after which the caller must not call again: an error, a panic, the clean end, or a
   WebTransport header (the documented use is `into_inner()` and raw reads from there on) *)
Definition obs_final (o : obs) : bool :=
  match o with
  | ONext (Ready (Ok (Some (FWebTransport _)))) => true
  | ONext (Ready (Ok (Some _))) => false
  | ONext (Ready _) => true
  | ONext Pending => false
  | OData (Ready (Ok _)) => false
  | OData (Ready _) => true
  | OData Pending => false
  end.

(* runs a history; calls after a final result are ignored *)
Fixpoint run (h : list action) (s : fstream) (done : bool) : list obs * fstream :=
  match h with
  | [] => ([], s)
  | Arrive e :: h' => run h' (arrive e s) done
  | CallNext :: h' =>
      if done then run h' s done else
      let '(r, s') := poll_next s in
      let '(os, s'') := run h' s' (obs_final (ONext r)) in (ONext r :: os, s'')
  | CallData :: h' =>
      if done then run h' s done else
      let '(r, s') := poll_data s in
      let '(os, s'') := run h' s' (obs_final (OData r)) in (OData r :: os, s'')
  | CallAuto :: h' =>
      if done then run h' s done else
      if st_rem s =? 0 then
        let '(r, s') := poll_next s in
        let '(os, s'') := run h' s' (obs_final (ONext r)) in (ONext r :: os, s'')
      else
        let '(r, s') := poll_data s in
        let '(os, s'') := run h' s' (obs_final (OData r)) in (OData r :: os, s'')
  end.

(* ---------- error codes (InternalConnectionError::got_frame_error, handle_frame_stream_error_on_request_stream) ---------- *)
Definition perr_kind_n (k : perr_kind) : N :=
  match k with PK_Malformed => 0 | PK_ForbiddenFrame => 1 | PK_InvalidFrameValue => 2 | PK_Settings => 3
             | PK_InvalidStreamId => 4 | PK_InvalidPushId => 5 end.
Fixpoint pcode_assoc (k : perr_kind) (l : list (perr_kind * N)) : option N :=
  match l with
  | [] => None
  | (k', v) :: r => if perr_kind_n k =? perr_kind_n k' then Some v else pcode_assoc k r
  end.
Definition perr_code (k : perr_kind) : option N := pcode_assoc k perr_code_map.
(* the connection error code a request stream raises for a FrameStreamError; None: not a connection error of h3 *)
Definition fserr_code (e : fserr) : option N :=
  match e with
  | FsProto k _ => perr_code k
  | FsUnexpectedEnd => Some unexpected_end_code
  | FsQuic _ => None
  end.

(* the other site: ConnectionInner::poll_control (control stream) *)
Definition fserr_code_ctl (e : fserr) : option N :=
  match e with
  | FsProto k _ => if ctl_proto_via_table then perr_code k else None
  | FsUnexpectedEnd => Some ctl_unexpected_end_code
  | FsQuic _ => None
  end.
