(* Model of the receive side of a request stream:
   h3/src/connection.rs `RequestStream::{poll_recv_data, poll_recv_trailers}`,
   h3/src/server/request.rs `RequestResolver::{resolve_request, accept_with_frame}` (up to the first frame),
   h3/src/client/stream.rs `RequestStream::recv_response` (up to the first frame),
   h3/src/error/connection_error_creators.rs `handle_frame_stream_error_on_request_stream`, `handle_quic_stream_error`,
   over the FrameStream of Model/FrameStream.v.

   Abstracted: a HEADERS block is opaque - QPACK decoding and message validation of its contents (C11, C12, C10)
   are taken to succeed, so "the message is delivered" means the block is handed on; the send half is only present
   as the `reset` h3 issues on it; a connection error raised here (`handle_connection_error_on_stream`) is the value
   returned to the caller - its journey to the connection driver is C05's subject.
   Every error code and the shape of the body loop come from Gen/GenReqStream.v.
   Panic 93 = model fuel exhausted (unreachable), 60 = a frame error without a code row. *)
From H3V Require Import Base.Bytes Gen.GenCodes Gen.GenFrameTypes Gen.GenReqStream Spec.FrameVocab
  Model.FrameDec Model.FrameStream.

Inductive role := RServer | RClient.

(* h3::error::StreamError as far as this layer produces it *)
Inductive rerr :=
| RConnLocal (code : N)         (* ConnectionError(Local{Application{code}}): h3 raises a connection error *)
| RStream (code : N)            (* StreamError{code}: only this stream is affected *)
| RRemoteTerminate (code : N)   (* the peer reset the stream *)
| RConnRemote (e : qerr).       (* what the transport reported, handed on as it is: the connection was closed / lost
                                   (StreamError::ConnectionError(Remote / Timeout)), or - e = QStreamUnknown - a stream
                                   failure of the transport's own kind (StreamError::Undefined, stream-scoped) *)

(* handle_frame_stream_error_on_request_stream *)
Definition err_of_fserr {A} (e : fserr) : res rerr A :=
  match e with
  | FsQuic (QTerminated c) => Err (RRemoteTerminate c)
  | FsQuic q => Err (RConnRemote q)
  | _ => match fserr_code e with Some c => Err (RConnLocal c) | None => Panic 60 end
  end.

Record rstream := { rs_fs : fstream; rs_trailers : option bytes; rs_reset : option N }.

Definition rs_new (q : rx) : rstream := {| rs_fs := fs_new q; rs_trailers := None; rs_reset := None |}.
Definition with_fs (rs : rstream) (s : fstream) : rstream :=
  {| rs_fs := s; rs_trailers := rs_trailers rs; rs_reset := rs_reset rs |}.

(* FrameStream::has_data / is_eos *)
Definition has_data (s : fstream) : bool := negb (st_rem s =? 0).
Definition is_eos (s : fstream) : bool := st_eos s && (bl_remaining (st_buf s) =? 0).

Definition data_part (rs : rstream) : poll (res rerr (option bytes)) * rstream :=
  match poll_data (rs_fs rs) with
  | (Pending, s') => (Pending, with_fs rs s')
  | (Ready (Ok o), s') => (Ready (Ok o), with_fs rs s')
  | (Ready (Err e), s') => (Ready (err_of_fserr e), with_fs rs s')
  | (Ready (Panic n), s') => (Ready (Panic n), with_fs rs s')
  end.

(* RequestStream::poll_recv_data *)
Fixpoint recv_data_loop (fuel : nat) (rs : rstream) : poll (res rerr (option bytes)) * rstream :=
  match fuel with
  | O => (Ready (Panic 93), rs)
  | S f =>
    if has_data (rs_fs rs) then data_part rs
    else
      match poll_next (rs_fs rs) with
      | (Pending, s') => (Pending, with_fs rs s')
      | (Ready (Panic n), s') => (Ready (Panic n), with_fs rs s')
      | (Ready (Err e), s') => (Ready (err_of_fserr e), with_fs rs s')
      | (Ready (Ok None), s') => (Ready (Ok None), with_fs rs s')
      | (Ready (Ok (Some (FHeaders b))), s') =>
          (Ready (Ok None), {| rs_fs := s'; rs_trailers := Some b; rs_reset := rs_reset rs |})
      | (Ready (Ok (Some (FData _))), s') =>
          if rd_data_header_continues then
            (if rd_is_loop then recv_data_loop f (with_fs rs s') else data_part (with_fs rs s'))
          else (Ready (Ok None), with_fs rs s')
      | (Ready (Ok (Some _)), s') => (Ready (Err (RConnLocal rd_other_code)), with_fs rs s')
      end
  end.

Definition ev_bytes (e : ev) : bytes := match e with Chunk c => c | _ => [] end.
Definition pending_bytes (s : fstream) : nat :=
  length (concat (st_buf s)) + length (concat (map ev_bytes (st_q s))).

Definition poll_recv_data (rs : rstream) : poll (res rerr (option bytes)) * rstream :=
  recv_data_loop (S (pending_bytes (rs_fs rs))) rs.

(* RequestStream::poll_recv_trailers; the block is handed on undecoded *)
Definition trailers_tail (rs : rstream) (s : fstream) (b : bytes) : poll (res rerr (option bytes)) * rstream :=
  if rt_checks_after && negb (is_eos s) then
    match poll_next s with
    | (Ready (Err e), s') => (Ready (err_of_fserr e), {| rs_fs := s'; rs_trailers := None; rs_reset := rs_reset rs |})
    | (Ready (Panic n), s') => (Ready (Panic n), {| rs_fs := s'; rs_trailers := None; rs_reset := rs_reset rs |})
    | (Ready (Ok (Some _)), s') =>
        (Ready (Err (RConnLocal rt_after_code)), {| rs_fs := s'; rs_trailers := None; rs_reset := rs_reset rs |})
    | (Ready (Ok None), s') => (Ready (Ok (Some b)), {| rs_fs := s'; rs_trailers := None; rs_reset := rs_reset rs |})
    | (Pending, s') => (Pending, {| rs_fs := s'; rs_trailers := Some b; rs_reset := rs_reset rs |})
    end
  else (Ready (Ok (Some b)), {| rs_fs := s; rs_trailers := None; rs_reset := rs_reset rs |}).

Definition poll_recv_trailers (rs : rstream) : poll (res rerr (option bytes)) * rstream :=
  match rs_trailers rs with
  | Some b => trailers_tail rs (rs_fs rs) b
  | None =>
      match poll_next (rs_fs rs) with
      | (Pending, s') => (Pending, with_fs rs s')
      | (Ready (Panic n), s') => (Ready (Panic n), with_fs rs s')
      | (Ready (Err e), s') => (Ready (err_of_fserr e), with_fs rs s')
      | (Ready (Ok None), s') => (Ready (Ok None), with_fs rs s')
      | (Ready (Ok (Some (FHeaders b))), s') => trailers_tail rs s' b
      | (Ready (Ok (Some _)), s') => (Ready (Err (RConnLocal rt_first_other_code)), with_fs rs s')
      end
  end.

(* the first frame: server `resolve_request` / client `recv_response`; Ok = the header block *)
Definition poll_first (r : role) (rs : rstream) : poll (res rerr bytes) * rstream :=
  match poll_next (rs_fs rs) with
  | (Pending, s') => (Pending, with_fs rs s')
  | (Ready (Panic n), s') => (Ready (Panic n), with_fs rs s')
  | (Ready (Err e), s') => (Ready (err_of_fserr e), with_fs rs s')
  | (Ready (Ok (Some (FHeaders h))), s') => (Ready (Ok h), with_fs rs s')
  | (Ready (Ok None), s') =>
      match r with
      | RServer =>
          (Ready (Err (if srv_none_is_stream_error then RStream srv_none_code else RConnLocal srv_none_code)),
           {| rs_fs := s'; rs_trailers := rs_trailers rs;
              rs_reset := match srv_none_reset with Some c => Some c | None => rs_reset rs end |})
      | RClient => (Ready (Err (RConnLocal cli_none_code)), with_fs rs s')
      end
  | (Ready (Ok (Some _)), s') =>
      (Ready (Err (RConnLocal (match r with RServer => srv_other_code | RClient => cli_other_code end))), with_fs rs s')
  end.

(* ---------- the documented application: first frame, then recv_data until None, then recv_trailers ---------- *)
Inductive phase := PFirst | PBody | PTrailers | PDone.
Inductive raction := RArrive (e : ev) | RCall.
Inductive robs :=
| OHead (r : poll (res rerr bytes))
| OBody (r : poll (res rerr (option bytes)))
| OTrail (r : poll (res rerr (option bytes))).

Definition rarrive (e : ev) (rs : rstream) : rstream := with_fs rs (arrive e (rs_fs rs)).

Fixpoint rrun (r : role) (h : list raction) (rs : rstream) (ph : phase) : list robs * rstream :=
  match h with
  | [] => ([], rs)
  | RArrive e :: h' => rrun r h' (rarrive e rs) ph
  | RCall :: h' =>
      match ph with
      | PFirst =>
          let '(res, rs') := poll_first r rs in
          let ph' := match res with Pending => PFirst | Ready (Ok _) => PBody | Ready _ => PDone end in
          let '(os, rs'') := rrun r h' rs' ph' in (OHead res :: os, rs'')
      | PBody =>
          let '(res, rs') := poll_recv_data rs in
          let ph' := match res with
                     | Pending => PBody | Ready (Ok (Some _)) => PBody | Ready (Ok None) => PTrailers
                     | Ready _ => PDone end in
          let '(os, rs'') := rrun r h' rs' ph' in (OBody res :: os, rs'')
      | PTrailers =>
          let '(res, rs') := poll_recv_trailers rs in
          let ph' := match res with Pending => PTrailers | Ready _ => PDone end in
          let '(os, rs'') := rrun r h' rs' ph' in (OTrail res :: os, rs'')
      | PDone => rrun r h' rs ph
      end
  end.
