(* Model of h3/src/qpack/dynamic.rs: DynamicTable (fields, sizes, eviction, reference tracking, blocked
   streams).  HashMap / BTreeMap are association lists (first match wins, one entry per key by construction).
   Methods that take `&mut self` and return `Result` are functions `dt -> res dt_err (dt * ...)`; the state after an
   `Err` is not modelled for the inner methods (every inner `Err` is raised before the first mutation, except
   `evict`'s and `track_cancel`'s which are unreachable under the table invariant, see Proofs/DynTableProofs.v). *)
From H3V Require Import Base.Bytes Gen.GenQpack Gen.GenStatic Model.Vas.

(* ---------------------------------------------------------------- fields *)
Definition field := (bytes * bytes)%type.

Fixpoint bytes_eqb (a b : bytes) : bool :=
  match a, b with
  | [], [] => true
  | x :: a', y :: b' => (x =? y) && bytes_eqb a' b'
  | _, _ => false
  end.

Definition field_eqb (f g : field) : bool := bytes_eqb (fst f) (fst g) && bytes_eqb (snd f) (snd g).

(* HeaderField::mem_size *)
Definition mem_size (f : field) : N := len (fst f) + len (snd f) + q_overhead.

(* ---------------------------------------------------------------- static table (static_.rs) *)
Fixpoint nth_opt {A} (l : list A) (n : N) : option A :=
  match l with
  | [] => None
  | x :: r => if n =? 0 then Some x else nth_opt r (n - 1)
  end.

Definition static_get (i : N) : option field := nth_opt static_rows i.

Fixpoint find_arm (f : field) (arms : list (bytes * bytes * N)) : option N :=
  match arms with
  | [] => None
  | (n, v, i) :: r => if field_eqb f (n, v) then Some i else find_arm f r
  end.
Definition static_find (f : field) : option N := find_arm f static_find_arms.

Fixpoint find_name_arm (name : bytes) (arms : list (bytes * N)) : option N :=
  match arms with
  | [] => None
  | (n, i) :: r => if bytes_eqb name n then Some i else find_name_arm name r
  end.
Definition static_find_name (name : bytes) : option N := find_name_arm name static_find_name_arms.

(* ---------------------------------------------------------------- association lists *)
Section AMap.
  Context {K V : Type} (eqb : K -> K -> bool).
  Fixpoint aget (k : K) (l : list (K * V)) : option V :=
    match l with
    | [] => None
    | (k', v) :: r => if eqb k k' then Some v else aget k r
    end.
  (* insert or overwrite *)
  Fixpoint aset (k : K) (v : V) (l : list (K * V)) : list (K * V) :=
    match l with
    | [] => [(k, v)]
    | (k', v') :: r => if eqb k k' then (k, v) :: r else (k', v') :: aset k v r
    end.
  Fixpoint adel (k : K) (l : list (K * V)) : list (K * V) :=
    match l with
    | [] => []
    | (k', v') :: r => if eqb k k' then r else (k', v') :: adel k r
    end.
End AMap.

(* ---------------------------------------------------------------- the table *)
Inductive dt_err :=
| EBadRelativeIndex (i : N)
| EBadPostbaseIndex (i : N)
| EBadIndex (i : N)
| EMaxTableSizeReached
| EMaximumTableSizeTooLarge
| EMaxBlockedStreamsTooLarge
| EUnknownStreamId (s : N)
| ENoTrackingData
| EInvalidTrackingCount.

Definition refs := list (N * N).   (* absolute index -> count *)

Record dt := mkDt {
  dt_fields : list field;          (* VecDeque, front = oldest *)
  dt_curr : N;
  dt_max : N;
  dt_vas : vas;
  dt_fmap : list (field * N);
  dt_nmap : list (bytes * N);
  dt_track : refs;
  dt_blocks : list (N * list refs);   (* stream id -> queue of blocks *)
  dt_lkr : N;                      (* largest_known_received *)
  dt_bmax : N;
  dt_bcount : N;
  dt_bstreams : list (N * N)       (* required_ref -> number of blocked sections *)
}.

Definition dt_new : dt := mkDt [] 0 0 vas0 [] [] [] [] 0 0 0 [].

Definition with_max (t : dt) (m : N) : dt :=
  mkDt (dt_fields t) (dt_curr t) m (dt_vas t) (dt_fmap t) (dt_nmap t) (dt_track t) (dt_blocks t)
       (dt_lkr t) (dt_bmax t) (dt_bcount t) (dt_bstreams t).
Definition with_bmax (t : dt) (m : N) : dt :=
  mkDt (dt_fields t) (dt_curr t) (dt_max t) (dt_vas t) (dt_fmap t) (dt_nmap t) (dt_track t) (dt_blocks t)
       (dt_lkr t) m (dt_bcount t) (dt_bstreams t).
Definition with_maps (t : dt) (fm : list (field * N)) (nm : list (bytes * N)) : dt :=
  mkDt (dt_fields t) (dt_curr t) (dt_max t) (dt_vas t) fm nm (dt_track t) (dt_blocks t)
       (dt_lkr t) (dt_bmax t) (dt_bcount t) (dt_bstreams t).
Definition with_track (t : dt) (tr : refs) : dt :=
  mkDt (dt_fields t) (dt_curr t) (dt_max t) (dt_vas t) (dt_fmap t) (dt_nmap t) tr (dt_blocks t)
       (dt_lkr t) (dt_bmax t) (dt_bcount t) (dt_bstreams t).
Definition with_blocks (t : dt) (b : list (N * list refs)) : dt :=
  mkDt (dt_fields t) (dt_curr t) (dt_max t) (dt_vas t) (dt_fmap t) (dt_nmap t) (dt_track t) b
       (dt_lkr t) (dt_bmax t) (dt_bcount t) (dt_bstreams t).
Definition with_blocked (t : dt) (lkr cnt : N) (bs : list (N * N)) : dt :=
  mkDt (dt_fields t) (dt_curr t) (dt_max t) (dt_vas t) (dt_fmap t) (dt_nmap t) (dt_track t) (dt_blocks t)
       lkr (dt_bmax t) cnt bs.
Definition with_store (t : dt) (fs : list field) (curr : N) (v : vas) (fm : list (field * N)) (nm : list (bytes * N)) : dt :=
  mkDt fs curr (dt_max t) v fm nm (dt_track t) (dt_blocks t) (dt_lkr t) (dt_bmax t) (dt_bcount t) (dt_bstreams t).

Definition dt_total_inserted (t : dt) : N := vas_total_inserted (dt_vas t).
Definition dt_max_mem_size (t : dt) : N := dt_max t.

(* is_tracked *)
Definition dt_is_tracked (t : dt) (r : N) : bool :=
  match aget N.eqb r (dt_track t) with Some c => 0 <? c | None => false end.

(* track_ref *)
Definition refs_incr (r : N) (m : refs) : refs :=
  match aget N.eqb r m with Some c => aset N.eqb r (c + 1) m | None => aset N.eqb r 1 m end.
Definition dt_track_ref (t : dt) (r : N) : dt := with_track t (refs_incr r (dt_track t)).

(* can_free: how many of the oldest entries have to go to make room for `required` bytes;
   stops at the first referenced entry.  Ok None = impossible. *)
Fixpoint cf_loop (t : dt) (lower : N) (fs : list field) (idx hyp ev : N) : res dt_err (N * N) :=
  match fs with
  | [] => Ok (hyp, ev)
  | f :: r =>
      if cmp_eval q_can_free_loop_cmp hyp lower then Ok (hyp, ev)
      else match vas_index (dt_vas t) idx with
           | Ok a =>
               if dt_is_tracked t a then Ok (hyp, ev)
               else if hyp <? mem_size f then Panic 2103
               else cf_loop t lower r (idx + 1) (hyp - mem_size f) (ev + 1)
           | _ => Panic 2102          (* vas.index(idx).unwrap() *)
           end
  end.

Definition dt_can_free (t : dt) (required : N) : res dt_err (option N) :=
  if cmp_eval q_can_free_toolarge_cmp required (dt_max t) then Err EMaxTableSizeReached
  else if dt_max t <? dt_curr t then Panic 2101          (* max_size - curr_size underflows *)
  else if cmp_eval q_can_free_room_cmp (dt_max t - dt_curr t) required then Ok (Some 0)
  else
    let lower := dt_max t - required in
    match cf_loop t lower (dt_fields t) 0 (dt_curr t) 0 with
    | Ok (hyp, ev) =>
        if dt_max t <? hyp then Panic 2105
        else if cmp_eval q_can_free_final_cmp required (dt_max t - hyp) then Ok (Some ev) else Ok None
    | Err e => Err e
    | Panic s => Panic s
    end.

(* evict: pop `n` oldest entries; the two maps forget an entry only when it points at an evicted index *)
Fixpoint dt_evict (n : nat) (t : dt) : res dt_err dt :=
  match n with
  | O => Ok t
  | S k =>
      match dt_fields t with
      | [] => Err EMaxTableSizeReached
      | f :: r =>
          if dt_curr t <? mem_size f then Panic 2104
          else match vas_drop (dt_vas t) with
               | Ok v' =>
                   let nm := match aget bytes_eqb (fst f) (dt_nmap t) with
                             | Some i => if vas_evicted v' i then adel bytes_eqb (fst f) (dt_nmap t) else dt_nmap t
                             | None => dt_nmap t
                             end in
                   let fm := match aget field_eqb f (dt_fmap t) with
                             | Some i => if vas_evicted v' i then adel field_eqb f (dt_fmap t) else dt_fmap t
                             | None => dt_fmap t
                             end in
                   dt_evict k (with_store t r (dt_curr t - mem_size f) v' fm nm)
               | _ => Panic 2001
               end
      end
  end.

(* DynamicTable::insert (private): the new absolute index, or None when nothing was inserted *)
Definition dt_insert (t : dt) (f : field) : res dt_err (dt * option N) :=
  if dt_max t =? 0 then Ok (t, None)
  else match dt_can_free t (mem_size f) with
       | Err e => Err e
       | Panic s => Panic s
       | Ok None => Ok (t, None)
       | Ok (Some n) =>
           match dt_evict (N.to_nat n) t with
           | Err e => Err e
           | Panic s => Panic s
           | Ok t1 =>
               let v' := vas_add (dt_vas t1) in
               Ok (with_store t1 (dt_fields t1 ++ [f]) (dt_curr t1 + mem_size f) v' (dt_fmap t1) (dt_nmap t1),
                   Some (v_inserted v'))
           end
       end.

(* put (decoder side) *)
Definition dt_put (t : dt) (f : field) : res dt_err dt :=
  match dt_insert t f with
  | Err e => Err e
  | Panic s => Panic s
  | Ok (t1, None) => Ok t1
  | Ok (t1, Some index) =>
      let fm := aset field_eqb f index (dt_fmap t1) in
      match static_find_name (fst f) with
      | Some _ => Ok (with_maps t1 fm (dt_nmap t1))
      | None => Ok (with_maps t1 fm (aset bytes_eqb (fst f) index (dt_nmap t1)))
      end
  end.

Definition dt_set_max_blocked (t : dt) (m : N) : res dt_err dt :=
  if cmp_eval q_set_max_blocked_cmp m q_blocked_streams_max then Err EMaxBlockedStreamsTooLarge
  else Ok (with_bmax t m).

Definition dt_set_max_size (t : dt) (size : N) : res dt_err dt :=
  if cmp_eval q_set_max_size_cmp size q_cap_max then Err EMaximumTableSizeTooLarge
  else if dt_max t <=? size then Ok (with_max t size)
  else match dt_can_free t (dt_max t - size) with
       | Err e => Err e
       | Panic s => Panic s
       | Ok None => Ok (with_max t size)
       | Ok (Some n) =>
           match dt_evict (N.to_nat n) t with
           | Ok t1 => Ok (with_max t1 size)
           | Err e => Err e
           | Panic s => Panic s
           end
       end.

(* get_relative (decoder side, relative to the current insert count) *)
Definition dt_get_relative (t : dt) (index : N) : res dt_err field :=
  match vas_relative (dt_vas t) index with
  | Ok real => match nth_opt (dt_fields t) real with Some f => Ok f | None => Err (EBadIndex real) end
  | Err _ => Err (EBadRelativeIndex index)
  | Panic s => Panic s
  end.

(* DynamicTableDecoder::{get_relative, get_postbase} (relative to a base) *)
Definition dt_get_relative_base (t : dt) (base index : N) : res dt_err field :=
  match vas_relative_base (dt_vas t) base index with
  | Ok real => match nth_opt (dt_fields t) real with Some f => Ok f | None => Err (EBadIndex real) end
  | Err _ => Err (EBadRelativeIndex index)
  | Panic s => Panic s
  end.
Definition dt_get_postbase (t : dt) (base index : N) : res dt_err field :=
  match vas_post_base (dt_vas t) base index with
  | Ok real => match nth_opt (dt_fields t) real with Some f => Ok f | None => Err (EBadIndex real) end
  | Err _ => Err (EBadPostbaseIndex index)
  | Panic s => Panic s
  end.

(* track_cancel: give back the references of one block *)
Fixpoint dt_track_cancel (rs : refs) (tr : refs) : res dt_err refs :=
  match rs with
  | [] => Ok tr
  | (r, c) :: rest =>
      match aget N.eqb r tr with
      | None => Err EInvalidTrackingCount
      | Some have =>
          if have <? c then Err EInvalidTrackingCount
          else if have =? c then dt_track_cancel rest (adel N.eqb r tr)
          else dt_track_cancel rest (aset N.eqb r (have - c) tr)
      end
  end.

(* track_block *)
Definition dt_track_block (t : dt) (sid : N) (rs : refs) : dt :=
  match aget N.eqb sid (dt_blocks t) with
  | Some q => with_blocks t (aset N.eqb sid (q ++ [rs]) (dt_blocks t))
  | None => with_blocks t (aset N.eqb sid [rs] (dt_blocks t))
  end.

(* untrack_block: the oldest block of the stream is acknowledged *)
Definition dt_untrack_block (t : dt) (sid : N) : res dt_err dt :=
  match aget N.eqb sid (dt_blocks t) with
  | None => Err (EUnknownStreamId sid)
  | Some q =>
      let '(blk, t1) :=
        match q with
        | b :: (_ :: _) as rest => (Some b, with_blocks t (aset N.eqb sid rest (dt_blocks t)))
        | [b] => (Some b, with_blocks t (adel N.eqb sid (dt_blocks t)))
        | [] => (None, with_blocks t (adel N.eqb sid (dt_blocks t)))
        end in
      match blk with
      | None => Ok t1
      | Some b =>
          match dt_track_cancel b (dt_track t1) with
          | Ok tr => Ok (with_track t1 tr)
          | Err e => Err e
          | Panic s => Panic s
          end
      end
  end.

(* register_blocked *)
Definition dt_register_blocked (t : dt) (largest : N) : dt :=
  if cmp_eval q_register_blocked_cmp largest (dt_lkr t) then t
  else
    let bs := match aget N.eqb largest (dt_bstreams t) with
              | Some c => aset N.eqb largest (c + 1) (dt_bstreams t)
              | None => aset N.eqb largest 1 (dt_bstreams t)
              end in
    with_blocked t (dt_lkr t) (dt_bcount t + 1) bs.

(* update_largest_received *)
Definition dt_update_largest_received (t : dt) (increment : N) : res dt_err dt :=
  let lkr := dt_lkr t + increment in
  if dt_bcount t =? 0 then Ok (with_blocked t lkr (dt_bcount t) (dt_bstreams t))
  else
    let acked := filter (fun kv => fst kv <=? lkr) (dt_bstreams t) in
    let blocked := filter (fun kv => negb (fst kv <=? lkr)) (dt_bstreams t) in
    let total := fold_left (fun a kv => a + snd kv) acked 0 in
    if dt_bcount t <? total then Panic 2106
    else Ok (with_blocked t lkr (dt_bcount t - total) blocked).
