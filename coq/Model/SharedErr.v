(* Model of the shared connection-error state of h3 (C05):
     h3/src/shared_state.rs            SharedState { connection_error: OnceLock, waker: AtomicWaker }
                                       get_conn_error / set_conn_error / set_conn_error_and_wake
     h3/src/error/connection_error_creators.rs
                                       ConnectionInner::{poll_connection_error, handle_connection_error,
                                       close_if_needed, convert_to_connection_error}, CloseStream::*
   as a small-step semantics: every access to the shared state (and every pre-emption point the code
   carries under cfg(h3_verif)) is one atomic step of one task; the tasks are one connection driver and
   k stream tasks.  `step` executes one step of the task named by an `action`; an interleaving is an
   arbitrary list of actions.

   The ORDER of the statements inside poll_connection_error / handle_connection_error /
   set_conn_error_and_wake, the first-store-wins behaviour of set_conn_error, the close table and
   the conversion table are NOT written here: they are read from the Rust source into
   Gen/GenSharedErr.v and interpreted (`cfg`, `gen_cfg`).

   AtomicWaker: register(w) stores the waker; wake() takes the stored waker, if any, and wakes it;
   a wake with an empty slot is lost.  OnceLock::get_or_init: the first store wins, later ones
   return the stored value.  Both are taken as atomic (linearizable) operations.
   Only the driver registers in this slot.  Every driver poll brings its OWN waker (poll number
   `gen`): the slot remembers which one it holds, and `woken` says whether the waker of the current
   poll was woken -- a wake-up delivered to a waker of an earlier poll does not count. *)
From H3V Require Import Base.Bytes Gen.GenCodes Gen.GenSharedErr Spec.FirstErrorWins.

Record cfg := {
  c_poll : list pce_op;          (* body of poll_connection_error *)
  c_hit : list handle_op;        (* its `if let Some(err) = get_conn_error()` branch *)
  c_handle : list handle_op;     (* body of handle_connection_error *)
  c_raise : list raise_op;       (* body of set_conn_error_and_wake *)
  c_first_wins : bool;           (* set_conn_error is get_or_init *)
  c_memo : bool;                 (* convert_to_connection_error stores handled_connection_error *)
  c_sd_guard : bool;             (* ConnectionInner::shutdown starts with `if let Some(e) = get_conn_error() { return Err(handle_connection_error(e)) }` *)
  c_close : list (origin_pat * code_src);
  c_convert : list (origin_pat * conv_target) }.

Definition gen_cfg : cfg :=
  {| c_poll := poll_body; c_hit := check_hit; c_handle := handle_body; c_raise := raise_body;
     c_first_wins := store_first_wins; c_memo := convert_sets_memo; c_sd_guard := shutdown_guard;
     c_close := close_arms; c_convert := convert_arms |}.

(* ---- the two match tables *)
Definition pat_matches (p : origin_pat) (e : err) : bool :=
  match p, e with
  | PatInternal, Internal _ => true
  | PatQuicInternal, Quic QInternal => true
  | PatQuicTimeout, Quic QTimeout => true
  | PatQuicAppClose, Quic (QAppClose _) => true
  | PatQuicUndefined, Quic QUndefined => true
  | PatQuicAny, Quic _ => true
  | _, _ => false
  end.

Fixpoint first_arm {A : Type} (arms : list (origin_pat * A)) (e : err) : option A :=
  match arms with
  | [] => None
  | (p, a) :: r => if pat_matches p e then Some a else first_arm r e
  end.

(* close_if_needed: Some code = close_connection(code, _) is called *)
Definition close_code (c : cfg) (e : err) : option N :=
  match first_arm (c_close c) e with
  | Some (CodeConst k) => Some k
  | Some CodeOfError => match e with Internal k => Some k | Quic _ => None end
  | None => None
  end.

(* the free function convert_to_connection_error; the Rust match is exhaustive, so the
   arm list always has a matching arm for the generated table *)
Definition convert (c : cfg) (e : err) : cerr :=
  match first_arm (c_convert c) e, e with
  | Some ToLocal, Internal k => CLocal k
  | Some ToTimeout, _ => CTimeout
  | Some ToRemote, Quic q => CRemote q
  | _, Internal k => CLocal k
  | _, Quic q => CRemote q
  end.

(* OnceLock::get_or_init(|| e) (or, were it replaced, a plain overwrite) *)
Definition store (c : cfg) (cl : option err) (e : err) : option err :=
  match cl with
  | Some x => if c_first_wins c then Some x else Some e
  | None => Some e
  end.

(* ---- programs *)
Inductive instr :=
| I_memo                 (* if let Some(e) = self.handled_connection_error { return e } *)
| I_register             (* self.waker().register(cx.waker()) *)
| I_check                (* if let Some(err) = self.get_conn_error() { <hit branch> } *)
| I_guard                (* shutdown: if let Some(err) = self.get_conn_error() { return Err(self.handle_connection_error(err)) } *)
| I_point (n : N)        (* verif::preempt(..): no effect *)
| I_set (e : err)        (* let err = self.set_conn_error(e) *)
| I_close (e : err)      (* self.close_if_needed(err) *)
| I_convert (e : err)    (* return self.convert_to_connection_error(err) *)
| I_end (pending : bool). (* the poll function returns: Pending, or Ready(not an error) *)

Inductive sinstr :=
| S_store (e : err)      (* let err = self.set_conn_error(e) *)
| S_wake                 (* self.waker().wake() *)
| S_point (n : N)
| S_ret.                 (* StreamError::ConnectionError(convert(err)) is returned to the caller *)

(* what a driver poll function does besides its first poll_connection_error, in order:
   more calls of poll_connection_error (poll_control, poll_accept_recv, poll_accept_bi each
   start with one) and possibly an error the driver detects itself *)
Inductive dcall := CallPCE | CallHandle (e : err).

Definition pce_instr (o : pce_op) : instr :=
  match o with POMemo => I_memo | PORegister => I_register | POCheck => I_check | POPoint n => I_point n end.
Definition hop (e : err) (o : handle_op) : instr :=
  match o with HOMemo => I_memo | HOSet => I_set e | HOClose => I_close e | HOConvert => I_convert e end.
Definition rop (e : err) (o : raise_op) : sinstr :=
  match o with ROStore => S_store e | ROWake => S_wake | ROPoint n => S_point n end.

(* handle_connection_error(e): the statements up to the store run on e, the rest on what the store returned *)
Fixpoint upto_set (l : list handle_op) : list handle_op :=
  match l with
  | [] => []
  | HOSet :: _ => [HOSet]
  | o :: r => o :: upto_set r
  end.
Fixpoint after_set (l : list handle_op) : list handle_op :=
  match l with
  | [] => []
  | HOSet :: r => r
  | _ :: r => after_set r
  end.

Definition call_prog (c : cfg) (d : dcall) : list instr :=
  match d with
  | CallPCE => map pce_instr (c_poll c)
  | CallHandle e => map (hop e) (upto_set (c_handle c))
  end.

(* every driver poll (accept / poll_close / poll_accept_request_stream / poll_control ...) starts
   with poll_connection_error *)
Definition poll_prog (c : cfg) (calls : list dcall) (pend : bool) : list instr :=
  map pce_instr (c_poll c) ++ flat_map (call_prog c) calls ++ [I_end pend].

(* ConnectionInner::shutdown (server shutdown / client shutdown / the shutdown(0) at the end of accept) *)
Definition shutdown_prog (c : cfg) (r : option err) : list instr :=
  (if c_sd_guard c then [I_guard] else []) ++
  match r with Some e => call_prog c (CallHandle e) | None => [I_end false] end.

Definition raise_prog (c : cfg) (e : err) : list sinstr := map (rop e) (c_raise c) ++ [S_ret].

(* ---- the world *)
Record stask := { sprog : list sinstr; sacc : option err }.
Definition sidle : stask := {| sprog := []; sacc := None |}.

Record world := {
  cell : option err;        (* SharedState.connection_error *)
  wslot : option nat;       (* SharedState.waker holds the waker the driver passed to poll number n *)
  woken : bool;             (* the waker of the driver's current (latest) poll has been woken *)
  gen : nat;                (* number of the driver's current (latest) poll: every poll brings its own waker *)
  dprog : list instr;       (* rest of the driver's current poll; [] = not inside a poll *)
  parked : bool;            (* the driver's last poll returned Pending *)
  handled : option cerr;    (* ConnectionInner.handled_connection_error *)
  streams : list stask;
  trace : list event }.     (* observation, newest first *)

Definition init (k : nat) : world :=
  {| cell := None; wslot := None; woken := false; gen := O; dprog := []; parked := false; handled := None;
     streams := repeat sidle k; trace := [] |}.

Fixpoint upd {A : Type} (l : list A) (i : nat) (x : A) : list A :=
  match l, i with
  | [], _ => []
  | _ :: r, O => x :: r
  | a :: r, S j => a :: upd r j x
  end.

Inductive action :=
| ABegin (calls : list dcall) (pend : bool)   (* the driver task starts a poll *)
| AShutdown (r : option err)                  (* the driver task calls shutdown(): the guard, then the GOAWAY write which the
                                                 transport refuses with e (r = Some e: handle_connection_error(e)) or accepts /
                                                 is not needed (r = None: Ok(())) *)
| AStep                                       (* the driver executes its next statement *)
| ARaise (i : nat) (e : err)                  (* stream task i detects e and calls set_conn_error_and_wake *)
| ASStep (i : nat).                           (* stream task i executes its next statement *)

Definition dstep (c : cfg) (w : world) : world :=
  match dprog w with
  | [] => w
  | I_memo :: rest =>
      match handled w with
      | Some ce =>
          {| cell := cell w; wslot := wslot w; woken := woken w; gen := gen w; dprog := []; parked := false;
             handled := handled w; streams := streams w; trace := EReport HDriver ce :: trace w |}
      | None =>
          {| cell := cell w; wslot := wslot w; woken := woken w; gen := gen w; dprog := rest; parked := parked w;
             handled := handled w; streams := streams w; trace := trace w |}
      end
  | I_register :: rest =>
      {| cell := cell w; wslot := Some (gen w); woken := woken w; gen := gen w; dprog := rest; parked := parked w;
         handled := handled w; streams := streams w; trace := trace w |}
  | I_check :: rest =>
      {| cell := cell w; wslot := wslot w; woken := woken w; gen := gen w;
         dprog := match cell w with Some e => map (hop e) (c_hit c) | None => rest end;
         parked := parked w; handled := handled w; streams := streams w; trace := trace w |}
  | I_guard :: rest =>
      {| cell := cell w; wslot := wslot w; woken := woken w; gen := gen w;
         dprog := match cell w with Some e => call_prog c (CallHandle e) | None => rest end;
         parked := parked w; handled := handled w; streams := streams w; trace := trace w |}
  | I_point _ :: rest =>
      {| cell := cell w; wslot := wslot w; woken := woken w; gen := gen w; dprog := rest; parked := parked w;
         handled := handled w; streams := streams w; trace := trace w |}
  | I_set e :: _ =>
      let cl := store c (cell w) e in
      let e' := match cl with Some x => x | None => e end in
      {| cell := cl; wslot := wslot w; woken := woken w; gen := gen w;
         dprog := map (hop e') (after_set (c_handle c));
         parked := parked w; handled := handled w; streams := streams w;
         trace := ERaise HDriver e :: trace w |}
  | I_close e :: rest =>
      {| cell := cell w; wslot := wslot w; woken := woken w; gen := gen w; dprog := rest; parked := parked w;
         handled := handled w; streams := streams w;
         trace := match close_code c e with Some k => EClose k :: trace w | None => trace w end |}
  | I_convert e :: _ =>
      {| cell := cell w; wslot := wslot w; woken := woken w; gen := gen w; dprog := []; parked := false;
         handled := if c_memo c then Some (convert c e) else handled w;
         streams := streams w; trace := EReport HDriver (convert c e) :: trace w |}
  | I_end p :: _ =>
      {| cell := cell w; wslot := wslot w; woken := woken w; gen := gen w; dprog := []; parked := p;
         handled := handled w; streams := streams w;
         trace := (if p then EPending else EReadyOk) :: trace w |}
  end.

Definition sstep (c : cfg) (w : world) (i : nat) : world :=
  match nth_error (streams w) i with
  | None => w
  | Some s =>
      match sprog s with
      | [] => w
      | S_store e :: rest =>
          let cl := store c (cell w) e in
          {| cell := cl; wslot := wslot w; woken := woken w; gen := gen w; dprog := dprog w; parked := parked w;
             handled := handled w;
             streams := upd (streams w) i {| sprog := rest; sacc := cl |};
             trace := ERaise (HStream i) e :: trace w |}
      | S_wake :: rest =>
          {| cell := cell w; wslot := None;
             woken := match wslot w with
                      | Some g => if Nat.eqb g (gen w) then true else woken w
                      | None => woken w
                      end;
             gen := gen w;
             dprog := dprog w; parked := parked w; handled := handled w;
             streams := upd (streams w) i {| sprog := rest; sacc := sacc s |};
             trace := trace w |}
      | S_point _ :: rest =>
          {| cell := cell w; wslot := wslot w; woken := woken w; gen := gen w; dprog := dprog w; parked := parked w;
             handled := handled w;
             streams := upd (streams w) i {| sprog := rest; sacc := sacc s |};
             trace := trace w |}
      | S_ret :: rest =>
          {| cell := cell w; wslot := wslot w; woken := woken w; gen := gen w; dprog := dprog w; parked := parked w;
             handled := handled w;
             streams := upd (streams w) i {| sprog := rest; sacc := None |};
             trace := match sacc s with
                      | Some e => EReport (HStream i) (convert c e) :: trace w
                      | None => trace w
                      end |}
      end
  end.

Definition step (c : cfg) (w : world) (a : action) : world :=
  match a with
  | ABegin calls pend =>
      match dprog w with
      | [] =>
          {| cell := cell w; wslot := wslot w; woken := false; gen := S (gen w); dprog := poll_prog c calls pend;
             parked := false; handled := handled w; streams := streams w; trace := trace w |}
      | _ :: _ => w
      end
  | AShutdown r =>
      match dprog w with
      | [] =>
          {| cell := cell w; wslot := wslot w; woken := false; gen := S (gen w); dprog := shutdown_prog c r;
             parked := false; handled := handled w; streams := streams w; trace := trace w |}
      | _ :: _ => w
      end
  | AStep => dstep c w
  | ARaise i e =>
      match nth_error (streams w) i with
      | Some s =>
          match sprog s with
          | [] =>
              {| cell := cell w; wslot := wslot w; woken := woken w; gen := gen w; dprog := dprog w; parked := parked w;
                 handled := handled w;
                 streams := upd (streams w) i {| sprog := raise_prog c e; sacc := None |};
                 trace := trace w |}
          | _ :: _ => w
          end
      | None => w
      end
  | ASStep i => sstep c w i
  end.

Definition run (c : cfg) (acts : list action) (w : world) : world := fold_left (step c) acts w.

(* every interleaving of every number of tasks *)
Inductive reachable (c : cfg) (k : nat) : world -> Prop :=
| reach_init : reachable c k (init k)
| reach_step : forall w a, reachable c k w -> reachable c k (step c w a).

(* the observation in the order things happened *)
Definition obs (w : world) : list event := rev (trace w).

(* a stream task is between its store and its wake-up call (or before both) *)
Definition wake_coming (w : world) : Prop := exists s, In s (streams w) /\ In S_wake (sprog s).
Definition quiescent (w : world) : Prop := forall s, In s (streams w) -> sprog s = [].
Definition driver_idle (w : world) : Prop := dprog w = [].
