(* Model of h3/src/qpack/prefix_int.rs.  Constants, masks and comparison operators come from
   Gen/GenPrefixInt.v.  u8 / u64 arithmetic is explicit; sites where the Rust code would panic
   (assert!, shift by >= width, checked add in a debug/overflow-checked build) are [Panic n]. *)
From H3V Require Import Base.Bytes Gen.GenPrefixInt.

Inductive pi_err := PiOverflow | PiUnexpectedEnd.

Definition cmp_lt (strict : bool) (a b : N) : bool := if strict then a <? b else a <=? b.
Definition cmp_ge (incl : bool) (a b : N) : bool := if incl then b <=? a else b <? a.

(* the continuation loop of `decode`; structural on the remaining bytes *)
Fixpoint pi_dec_loop (bs : bytes) (value power : N) : res pi_err (N * bytes) :=
  match bs with
  | [] => Err PiUnexpectedEnd                                   (* buf.get::<u8>()? *)
  | byte :: r =>
      if 64 <=? power then Panic 4                              (* u64 << power, power >= 64 *)
      else
        let add := N.shiftl (N.land byte pi_dec_val_mask) power mod 2 ^ 64 in
        if 2 ^ 64 <=? value + add then Panic 5                  (* value += ...  overflows u64 *)
        else
          let value := value + add in
          let power := power + pi_dec_step in
          if N.land byte pi_dec_cont_mask =? 0 then Ok (value, r)
          else if cmp_ge pi_dec_overflow_ge power pi_max_power then Err PiOverflow
          else pi_dec_loop r value power
  end.

(* decode(size, buf) on the remaining-bytes view: (flags, value, rest) *)
Definition pi_decode (size : N) (bs : bytes) : res pi_err (N * N * bytes) :=
  if negb (cmp_lt (negb pi_dec_size_le) size pi_dec_size_max) then Panic 1      (* assert!(size <= 8) *)
  else
    match bs with
    | [] => Err PiUnexpectedEnd
    | first :: r =>
        let flags := N.shiftr first size mod 256 in
        if pi_dec_mask_width <? size then Panic 2                                (* 8 - size underflows *)
        else if 8 <=? pi_dec_mask_width - size then Panic 3                      (* u8 >> 8 *)
        else
          let mask := N.shiftr pi_dec_mask_full (pi_dec_mask_width - size) in
          let first := N.land first mask in
          if cmp_lt pi_dec_short_lt first mask then Ok (flags, first, r)
          else
            match pi_dec_loop r mask pi_dec_power_init with
            | Ok (v, rest) => Ok (flags, v, rest)
            | Err e => Err e
            | Panic s => Panic s
            end
    end.

(* the `while remaining >= 128` loop of `encode`; fuel 70 > 64 bits / 1 bit per round *)
Fixpoint pi_enc_loop (fuel : nat) (remaining : N) : res unit bytes :=
  match fuel with
  | O => Panic 9
  | S f =>
      if cmp_ge pi_enc_loop_ge remaining pi_enc_loop_bound then
        let rest := remaining mod pi_enc_modulus mod 256 in
        if 256 <=? rest + pi_enc_cont_add then Panic 8                           (* rest + 128 overflows u8 *)
        else
          match pi_enc_loop f (remaining / pi_enc_divisor) with
          | Ok tl => Ok ((rest + pi_enc_cont_add) :: tl)
          | Err e => Err e
          | Panic s => Panic s
          end
      else Ok [remaining mod 256]
  end.

(* encode(size, flags, value, buf): the bytes written *)
Definition pi_encode (size flags value : N) : res unit bytes :=
  if negb (cmp_lt (negb pi_enc_size_le) size pi_enc_size_max) then Panic 6       (* assert!(size <= 8) *)
  else
    let mask := 255 - N.shiftl pi_enc_mask_full size mod 256 in                  (* !(0xFF << size) as u8 *)
    let flags := N.shiftl flags size mod 256 in
    if cmp_lt pi_enc_short_lt value mask then Ok [N.lor flags (value mod 256)]
    else if value <? mask then Panic 7                                           (* value - mask underflows *)
    else
      match pi_enc_loop 70 (value - mask) with
      | Ok tl => Ok (N.lor mask flags :: tl)
      | Err e => Err e
      | Panic s => Panic s
      end.
