(* Model of h3/src/qpack/static_.rs: `StaticTable::get`, `find`, `find_name`, interpreting the rows and
   match arms regenerated from the Rust source into Gen/GenStatic.v (never a retyped table).
   A Rust `match` on byte-string patterns takes the FIRST arm that matches, so do `st_find`/`st_find_name`. *)
From H3V Require Import Base.Bytes Gen.GenStatic.

Definition field := (bytes * bytes)%type.

Fixpoint bytes_eq (a b : bytes) : bool :=
  match a, b with
  | [], [] => true
  | x :: a', y :: b' => (x =? y) && bytes_eq a' b'
  | _, _ => false
  end.

(* PREDEFINED_HEADERS.get(index) *)
Fixpoint rows_get (rows : list field) (i : nat) : option field :=
  match rows, i with
  | [], _ => None
  | f :: _, O => Some f
  | _ :: r, S k => rows_get r k
  end.

(* indices are usize; anything >= the table length is None (the guard keeps N.to_nat away from huge numbers) *)
Definition st_get (index : N) : option field :=
  if index <? N.of_nat (length static_rows) then rows_get static_rows (N.to_nat index) else None.

(* match (&field.name[..], &field.value[..]) { (b"..", b"..") => Some(i), ..., _ => None } *)
Fixpoint find_arms (name value : bytes) (arms : list (bytes * bytes * N)) : option N :=
  match arms with
  | [] => None
  | (n, v, i) :: r => if bytes_eq name n && bytes_eq value v then Some i else find_arms name value r
  end.
Definition st_find (f : field) : option N := find_arms (fst f) (snd f) static_find_arms.

(* match name { b".." => Some(i), ..., _ => None } *)
Fixpoint find_name_arms (name : bytes) (arms : list (bytes * N)) : option N :=
  match arms with
  | [] => None
  | (n, i) :: r => if bytes_eq name n then Some i else find_name_arms name r
  end.
Definition st_find_name (name : bytes) : option N := find_name_arms name static_find_name_arms.
