(* C01: the composed message pipeline of one request stream direction, as executable Gallina.

     application message --(header mapping, proto/headers.rs: Header::{request,response,trailer} + HeaderIter)-->
     field lists --(qpack::encode_stateless)--> field-section blocks
     --(send_request / send_response, send_data per piece, send_trailers, finish: one WriteBuf per frame)--> frames
     --(transport drains each WriteBuf under an acceptance script)--> bytes of the stream
     --(any chunking, any interleaving of arrivals with the receiving application's calls)-->
     FrameStream + RequestStream (recv_response / resolve_request, recv_data*, recv_trailers) --> blocks, body pieces
     --(qpack::decode_stateless, Header::try_from, into_request_parts / into_response_parts / into_fields)-->
     what the receiving application sees.

   The layers owned by other properties (C11 field-section codec, C12 header mapping, C14 writers, C02/C03 frame and
   request stream readers) are Section variables here: the pipeline is the glue h3 puts between them
   (client/connection.rs send_request, server/stream.rs send_response, connection.rs send_data / send_trailers /
   finish / poll_recv_data / poll_recv_trailers, client/stream.rs recv_response, server/request.rs resolve_request).
   Model/EndToEndRef.v instantiates the variables with small reference layers so that the whole pipeline runs;
   Proofs/EndToEndInst.v instantiates them with the component models.  No proofs in this file. *)
From H3V Require Import Base.Bytes.

Definition fieldl := list (bytes * bytes).

(* what an application hands to h3: head (request: method, target, header map; response: status, header map), the
   body as the pieces given to successive send_data calls, optional trailers *)
Record message (H T : Type) := Msg { m_head : H; m_pieces : list bytes; m_trailers : option T }.
Arguments Msg {H T} _ _ _.
Arguments m_head {H T} _.
Arguments m_pieces {H T} _.
Arguments m_trailers {H T} _.

(* one WriteBuf written by the sending half of a request stream *)
Inductive sframe := SHeaders (block : bytes) | SData (payload : bytes) | SGrease (g : N).

(* what the request-stream layer hands up to the message layer, one item per completed application call *)
Inductive ritem :=
| RFirst (block : bytes)            (* first HEADERS frame: recv_response / resolve_request *)
| RData (piece : bytes)             (* recv_data = Some piece *)
| RDataEnd                          (* recv_data = None *)
| RTrailers (block : option bytes)  (* recv_trailers = Some / None, after the stream ended cleanly *)
| RFail (why : N).

(* what the receiving application observes *)
Inductive aevent (H' T' : Type) :=
| AHead (h : H') | ABody (b : bytes) | ABodyEnd | ATrailers (t : T') | AEnd | AError (why : N).
Arguments AHead {H' T'} _.
Arguments ABody {H' T'} _.
Arguments ABodyEnd {H' T'}.
Arguments ATrailers {H' T'} _.
Arguments AEnd {H' T'}.
Arguments AError {H' T'} _.

(* what happens at the receiving end of the stream, in order: a chunk arrives, FIN arrives, the application task
   runs its current call once *)
Inductive hevent := HArrive (chunk : bytes) | HFin | HPoll.

Definition is_nil {A} (l : list A) : bool := match l with [] => true | _ => false end.

(* adjacent body pieces are one body; an empty piece is no piece *)
Definition flush_body {H' T'} (acc : bytes) : list (aevent H' T') :=
  match acc with [] => [] | _ => [ABody acc] end.
Fixpoint merge_body {H' T'} (acc : bytes) (l : list (aevent H' T')) : list (aevent H' T') :=
  match l with
  | [] => flush_body acc
  | ABody b :: r => merge_body (acc ++ b) r
  | e :: r => flush_body acc ++ e :: merge_body [] r
  end.

(* the same on the items of the request-stream layer *)
Definition flush_items (acc : bytes) : list ritem := match acc with [] => [] | _ => [RData acc] end.
Fixpoint merge_items (acc : bytes) (l : list ritem) : list ritem :=
  match l with
  | [] => flush_items acc
  | RData p :: r => merge_items (acc ++ p) r
  | e :: r => flush_items acc ++ e :: merge_items [] r
  end.

(* a reading without error items *)
Definition no_fail (l : list ritem) : Prop := Forall (fun i => match i with RFail _ => False | _ => True end) l.

Section Pipeline.
  Variables H H' T T' : Type.
  (* C12 *)
  Variable fields_of_head : H -> option fieldl.
  Variable head_of_fields : fieldl -> option H'.
  Variable fields_of_trailers : T -> option fieldl.
  Variable trailers_of_fields : fieldl -> option T'.
  (* C11 *)
  Variable encode_section : fieldl -> option bytes.
  Variable decode_section : bytes -> option fieldl.
  (* C14: the bytes the transport has accepted once it drained the WriteBufs of these frames, taking
     k1, k2, ... bytes per write; None when the script ends before everything is written *)
  Variable wire_write : list sframe -> list N -> option bytes.
  (* C02 + C03: the receiving FrameStream / RequestStream *)
  Variable rstate : Type.
  Variable r_init : rstate.
  Variable r_arrive : bytes -> rstate -> rstate.
  Variable r_fin : rstate -> rstate.
  Variable r_poll : rstate -> list ritem * rstate.

  Definition encode_fields (o : option fieldl) : option bytes :=
    match o with Some fs => encode_section fs | None => None end.

  (* send_request / send_response; send_data per piece; send_trailers?; finish (which writes the grease frame
     when this is the connection's first finished request and grease is on) *)
  Definition sender_program (grease : option N) (m : message H T) : option (list sframe) :=
    match encode_fields (fields_of_head (m_head m)) with
    | None => None
    | Some hb =>
        let tail := match grease with Some g => [SGrease g] | None => [] end in
        match m_trailers m with
        | None => Some (SHeaders hb :: map SData (m_pieces m) ++ tail)
        | Some t =>
            match encode_fields (fields_of_trailers t) with
            | None => None
            | Some tb => Some (SHeaders hb :: map SData (m_pieces m) ++ SHeaders tb :: tail)
            end
        end
    end.

  Definition wire (grease : option N) (m : message H T) (ks : list N) : option bytes :=
    match sender_program grease m with
    | Some fs => wire_write fs ks
    | None => None
    end.

  (* the receiving side under a history *)
  Fixpoint rx_run (h : list hevent) (s : rstate) : list ritem * rstate :=
    match h with
    | [] => ([], s)
    | HArrive c :: r => rx_run r (r_arrive c s)
    | HFin :: r => rx_run r (r_fin s)
    | HPoll :: r =>
        let '(o, s1) := r_poll s in
        let '(o2, s2) := rx_run r s1 in
        (o ++ o2, s2)
    end.

  (* client/stream.rs recv_response, server/request.rs accept_with_frame + resolve, connection.rs
     poll_recv_trailers: decode the block, map the fields *)
  Definition app_event (i : ritem) : list (aevent H' T') :=
    match i with
    | RFirst b =>
        match decode_section b with
        | Some fs => match head_of_fields fs with Some h => [AHead h] | None => [AError 12] end
        | None => [AError 11]
        end
    | RData p => [ABody p]
    | RDataEnd => [ABodyEnd]
    | RTrailers None => [AEnd]
    | RTrailers (Some b) =>
        match decode_section b with
        | Some fs => match trailers_of_fields fs with Some t => [ATrailers t; AEnd] | None => [AError 14] end
        | None => [AError 13]
        end
    | RFail w => [AError w]
    end.

  Definition receiver_outcome (h : list hevent) : list (aevent H' T') :=
    merge_body [] (flat_map app_event (fst (rx_run h r_init))).
End Pipeline.

(* ---------- histories ---------- *)
Fixpoint hist_flat (h : list hevent) : bytes :=
  match h with
  | [] => []
  | HArrive c :: r => c ++ hist_flat r
  | _ :: r => hist_flat r
  end.

(* the transport contract: chunks are never empty, FIN arrives once, nothing arrives after it; the application
   may run at any point *)
Fixpoint hist_ok_from (fin_seen : bool) (h : list hevent) : bool :=
  match h with
  | [] => fin_seen
  | HArrive c :: r => negb fin_seen && negb (is_nil c) && hist_ok_from false r
  | HFin :: r => negb fin_seen && hist_ok_from true r
  | HPoll :: r => hist_ok_from fin_seen r
  end.
Definition hist_ok (h : list hevent) : bool := hist_ok_from false h.

(* a history from a chunking (sizes; what is left when they run out is one last chunk) and a poll pattern (how
   often the application runs after each arrival; once when the pattern runs out), FIN, then [tailpolls] runs *)
Fixpoint split_sizes (fuel : nat) (sizes : list N) (b : bytes) : list bytes :=
  match b with
  | [] => []
  | _ =>
    match fuel, sizes with
    | S f, k :: ks =>
        let n := N.to_nat (N.max 1 k) in
        firstn n b :: split_sizes f ks (skipn n b)
    | _, _ => [b]
    end
  end.
Fixpoint with_polls (chunks : list bytes) (polls : list N) : list hevent :=
  match chunks with
  | [] => []
  | c :: r =>
      let '(n, polls') := match polls with [] => (1, []) | n :: p => (n, p) end in
      HArrive c :: repeat HPoll (N.to_nat n) ++ with_polls r polls'
  end.
Definition mk_history (sizes polls : list N) (tailpolls : nat) (b : bytes) : list hevent :=
  with_polls (split_sizes (length sizes) sizes b) polls ++ HFin :: repeat HPoll tailpolls.
