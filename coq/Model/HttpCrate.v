(* Executable Gallina ports of the parts of the `http` crate (version 1.5.0, the one pinned by /repo/Cargo.lock)
   that h3's header code calls: HeaderName::from_lowercase, HeaderValue::from_bytes, Method::from_bytes,
   StatusCode::from_bytes / as_str, Scheme / Authority / PathAndQuery parsing, uri::Builder and Uri::from_parts,
   Uri accessors, Parts::from(Uri), HeaderMap::try_with_capacity / append order / get / iteration, and
   core::str::from_utf8.  Character tables are written as range predicates read off the 256-entry tables of the
   crate sources (header/name.rs HEADER_CHARS_H2, method.rs METHOD_CHARS, uri/scheme.rs SCHEME_CHARS,
   uri/mod.rs URI_CHARS, uri/path.rs build_path_map / build_query_map).  These ports are NOT verified against the
   crate by proof: the correspondence run (case families "http.xxx") compares each of them with the real crate on all 256
   bytes in every position class and on structured inputs.  No proofs in this file. *)
From H3V Require Import Base.Bytes.

Definition in_range (lo hi b : N) : bool := (lo <=? b) && (b <=? hi).
Definition one_of (l : list N) (b : N) : bool := existsb (N.eqb b) l.
Definition is_nil {A} (l : list A) : bool := match l with [] => true | _ => false end.
Fixpoint bytes_eqb (a b : bytes) : bool :=
  match a, b with
  | [], [] => true
  | x :: a', y :: b' => (x =? y) && bytes_eqb a' b'
  | _, _ => false
  end.

(* ---------------------------------------------------------------- core::str::from_utf8 (validity only) *)
Definition cont (b : N) : bool := in_range 128 191 b.
Fixpoint utf8_valid (s : bytes) : bool :=
  match s with
  | [] => true
  | b0 :: r =>
      if b0 <? 128 then utf8_valid r
      else if in_range 194 223 b0 then
        match r with b1 :: r1 => cont b1 && utf8_valid r1 | _ => false end
      else if in_range 224 239 b0 then
        match r with
        | b1 :: b2 :: r2 =>
            (if b0 =? 224 then in_range 160 191 b1
             else if b0 =? 237 then in_range 128 159 b1
             else cont b1) && cont b2 && utf8_valid r2
        | _ => false
        end
      else if in_range 240 244 b0 then
        match r with
        | b1 :: b2 :: b3 :: r3 =>
            (if b0 =? 240 then in_range 144 191 b1
             else if b0 =? 244 then in_range 128 143 b1
             else cont b1) && cont b2 && cont b3 && utf8_valid r3
        | _ => false
        end
      else false
  end.

(* ---------------------------------------------------------------- header/name.rs *)
(* HEADER_CHARS_H2[b] != 0.  Note the entry for 34 (double quote): present in this table, absent from the
   HTTP/1 table HEADER_CHARS and from RFC 9110 tchar. *)
Definition h2_name_char (b : N) : bool :=
  one_of [33; 34; 35; 36; 37; 38; 39; 42; 43; 45; 46; 94; 95; 96; 124; 126] b || in_range 48 57 b || in_range 97 122 b.
Definition MAX_HEADER_NAME_LEN : N := 65535.
(* HeaderName::from_lowercase(src).is_ok(); on success as_str() = src *)
Definition hname_ok (n : bytes) : bool :=
  match n with
  | [] => false
  | _ => (len n <=? MAX_HEADER_NAME_LEN) && forallb h2_name_char n
  end.

(* HEADER_CHARS (the HTTP/1 table used by HeaderName::from_bytes): Some c = the normalised (lower-case) byte *)
Definition h1_name_map (b : N) : option N :=
  if in_range 65 90 b then Some (b + 32)
  else if one_of [33; 35; 36; 37; 38; 39; 42; 43; 45; 46; 94; 95; 96; 124; 126] b || in_range 48 57 b || in_range 97 122 b
  then Some b else None.
Fixpoint map_opt {A B} (f : A -> option B) (l : list A) : option (list B) :=
  match l with
  | [] => Some []
  | x :: r => match f x, map_opt f r with Some y, Some r' => Some (y :: r') | _, _ => None end
  end.
(* HeaderName::from_bytes(src): the normalised name *)
Definition hname_from_bytes (n : bytes) : option bytes :=
  match n with
  | [] => None
  | _ => if len n <=? MAX_HEADER_NAME_LEN then map_opt h1_name_map n else None
  end.

(* ---------------------------------------------------------------- header/value.rs *)
Definition value_byte_ok (b : N) : bool := ((32 <=? b) && negb (b =? 127)) || (b =? 9).
(* HeaderValue::from_bytes(src).is_ok(); on success as_bytes() = src *)
Definition hvalue_ok (v : bytes) : bool := forallb value_byte_ok v.

(* ---------------------------------------------------------------- method.rs *)
Definition method_char (b : N) : bool :=
  one_of [33; 35; 36; 37; 38; 39; 42; 43; 45; 46; 94; 95; 96; 124; 126] b
  || in_range 48 57 b || in_range 65 90 b || in_range 97 122 b.
(* Method::from_bytes(src).is_ok(); on success as_str() = src *)
Definition method_ok (m : bytes) : bool :=
  match m with [] => false | _ => forallb method_char m end.

(* ---------------------------------------------------------------- status.rs *)
Definition wrapping_sub8 (a b : N) : N := (a + 256 - b) mod 256.
Definition status_parse (s : bytes) : option N :=
  match s with
  | [x; y; z] =>
      let a := wrapping_sub8 x 48 in
      let b := wrapping_sub8 y 48 in
      let c := wrapping_sub8 z 48 in
      if (a =? 0) || (9 <? a) || (9 <? b) || (9 <? c) then None
      else let st := a * 100 + b * 10 + c in
           if st =? 0 then None else Some st
  | _ => None
  end.
(* StatusCode::as_str: three decimal digits out of CODE_DIGITS *)
Definition status_as_str (n : N) : bytes := [48 + n / 100; 48 + (n / 10) mod 10; 48 + n mod 10].

(* ---------------------------------------------------------------- uri/scheme.rs *)
Definition s_http : bytes := [104; 116; 116; 112].
Definition s_https : bytes := [104; 116; 116; 112; 115].
(* SCHEME_CHARS[b] is neither 0 nor ':' *)
Definition scheme_char (b : N) : bool :=
  one_of [43; 45; 46; 126] b || in_range 48 57 b || in_range 65 90 b || in_range 97 122 b.
Definition MAX_SCHEME_LEN : N := 64.
(* Scheme::try_from(&[u8]).is_ok() (parse_exact); on success as_str() = src.  The empty string is accepted. *)
Definition scheme_ok (s : bytes) : bool :=
  if bytes_eqb s s_http || bytes_eqb s s_https then true
  else if MAX_SCHEME_LEN <? len s then false
  else forallb scheme_char s.

(* ---------------------------------------------------------------- uri/mod.rs URI_CHARS, uri/authority.rs *)
Definition uri_char (b : N) : bool :=
  one_of [33; 35; 36; 61; 63; 93; 95; 126] b || in_range 38 59 b || in_range 64 91 b || in_range 97 122 b.

Inductive aerr := AEmpty | AInvalidUriChar | AInvalidAuthority | ATooManyColons | AMismatchedBrackets
                | AInvalidBracketUsage | AEmptyAfterAt | AInvalidPercent.
Record astate := { a_colon : N; a_sb : bool; a_eb : bool; a_pct : bool; a_at : option N }.
Definition astate0 : astate := {| a_colon := 0; a_sb := false; a_eb := false; a_pct := false; a_at := None |}.
Definition MAX_COLONS : N := 8.

(* the `while i < s.len()` loop of validate_authority_bytes; returns `end` and the flags.
   at_sign_pos starts as s.len(), which can never equal end - 1: modelled by None. *)
Fixpoint auth_loop (s : bytes) (i : N) (st : astate) : res aerr (N * astate) :=
  match s with
  | [] => Ok (i, st)
  | b :: r =>
      if (b =? 47) || (b =? 63) || (b =? 35) then Ok (i, st)
      else if negb (uri_char b) then
        (if b =? 37 then
           auth_loop r (i + 1) {| a_colon := a_colon st; a_sb := a_sb st; a_eb := a_eb st; a_pct := true; a_at := a_at st |}
         else Err AInvalidUriChar)
      else if b =? 58 then
        (if MAX_COLONS <=? a_colon st then Err ATooManyColons
         else auth_loop r (i + 1) {| a_colon := a_colon st + 1; a_sb := a_sb st; a_eb := a_eb st; a_pct := a_pct st; a_at := a_at st |})
      else if b =? 91 then
        (if a_pct st || a_sb st then Err AInvalidBracketUsage
         else auth_loop r (i + 1) {| a_colon := a_colon st; a_sb := true; a_eb := a_eb st; a_pct := a_pct st; a_at := a_at st |})
      else if b =? 93 then
        (if negb (a_sb st) || a_eb st then Err AInvalidBracketUsage
         else auth_loop r (i + 1) {| a_colon := 0; a_sb := a_sb st; a_eb := true; a_pct := false; a_at := a_at st |})
      else if b =? 64 then
        auth_loop r (i + 1) {| a_colon := 0; a_sb := a_sb st; a_eb := a_eb st; a_pct := false; a_at := Some i |}
      else auth_loop r (i + 1) st
  end.

(* validate_authority_bytes: Ok(end) *)
Definition authority_parse (s : bytes) : res aerr N :=
  match s with
  | [] => Err AEmpty
  | _ =>
      match auth_loop s 0 astate0 with
      | Ok (e, st) =>
          if negb (Bool.eqb (a_sb st) (a_eb st)) then Err AMismatchedBrackets
          else if 1 <? a_colon st then Err AInvalidAuthority
          else if (0 <? e) && (match a_at st with Some p => p =? e - 1 | None => false end) then Err AEmptyAfterAt
          else if a_pct st then Err AInvalidPercent
          else Ok e
      | Err e => Err e
      | Panic p => Panic p
      end
  end.
(* Authority::try_from(&[u8]).is_ok() = create_authority: parse_non_empty, then end == len; as_str() = src *)
Definition authority_ok (s : bytes) : bool :=
  match s with
  | [] => false
  | _ => match authority_parse s with Ok e => e =? len s | _ => false end
  end.

(* ---------------------------------------------------------------- uri/path.rs *)
Inductive pclass := CValid | CQuery | CFragment | CHigh | CInvalid.
Definition path_class (b : N) : pclass :=
  if b =? 63 then CQuery
  else if b =? 35 then CFragment
  else if (b =? 33) || in_range 36 59 b || (b =? 61) || in_range 64 95 b || in_range 97 122 b || (b =? 124) || (b =? 126) then CValid
  else if in_range 128 255 b then CHigh
  else if (b =? 34) || (b =? 123) || (b =? 125) then CValid
  else CInvalid.
Definition query_class (b : N) : pclass :=
  if b =? 35 then CFragment
  else if (b =? 33) || in_range 36 59 b || (b =? 61) || in_range 63 126 b then CValid
  else if in_range 128 255 b then CHigh
  else CInvalid.

Inductive perr := PEmpty | PTooLong | PNoSlash | PInvalidChar.
Definition MAX_LEN : N := 65534.

(* second loop of scan_path_and_query: (fragment index, is_maybe_not_utf8) *)
Fixpoint scan_query (s : bytes) (i : N) (hi : bool) : res perr (option N * bool) :=
  match s with
  | [] => Ok (None, hi)
  | b :: r =>
      match query_class b with
      | CValid => scan_query r (i + 1) hi
      | CHigh => scan_query r (i + 1) true
      | CFragment => Ok (Some i, hi)
      | _ => Err PInvalidChar
      end
  end.
(* first loop: (query index, fragment index, is_maybe_not_utf8) *)
Fixpoint scan_path (s : bytes) (i : N) (hi : bool) : res perr (option N * option N * bool) :=
  match s with
  | [] => Ok (None, None, hi)
  | b :: r =>
      match path_class b with
      | CValid => scan_path r (i + 1) hi
      | CHigh => scan_path r (i + 1) true
      | CQuery =>
          match scan_query r (i + 1) hi with
          | Ok (f, hi') => Ok (Some i, f, hi')
          | Err e => Err e
          | Panic p => Panic p
          end
      | CFragment => Ok (None, Some i, hi)
      | CInvalid => Err PInvalidChar
      end
  end.
Definition scan_path_and_query (s : bytes) : res perr (option N * option N * bool) :=
  match s with
  | [] => Err PEmpty
  | b0 :: _ =>
      if MAX_LEN <? len s then Err PTooLong
      else if bytes_eqb s [42] then Ok (None, None, false)
      else if negb ((b0 =? 47) || (b0 =? 63) || (b0 =? 35)) then Err PNoSlash
      else scan_path s 0 false
  end.

(* a PathAndQuery value: data (fragment removed) and the index of '?' *)
Record pq := { pq_data : bytes; pq_query : option N }.
Definition pq_empty : pq := {| pq_data := []; pq_query := None |}.
Definition pq_slash : pq := {| pq_data := [47]; pq_query := None |}.
(* PathAndQuery::from_shared / try_from(&[u8]) *)
Definition path_parse (s : bytes) : res perr pq :=
  match scan_path_and_query s with
  | Ok (q, f, hi) =>
      let data := match f with Some i => firstn (N.to_nat i) s | None => s end in
      if hi then (if utf8_valid data then Ok {| pq_data := data; pq_query := q |} else Err PInvalidChar)
      else Ok {| pq_data := data; pq_query := q |}
  | Err e => Err e
  | Panic p => Panic p
  end.
Definition pq_as_str (p : pq) : bytes := match pq_data p with [] => [47] | d => d end.
Definition pq_path (p : pq) : bytes :=
  let ret := match pq_query p with None => pq_data p | Some q => firstn (N.to_nat q) (pq_data p) end in
  match ret with [] => [47] | _ => ret end.
Definition pq_query_str (p : pq) : option bytes :=
  match pq_query p with None => None | Some q => Some (skipn (N.to_nat (q + 1)) (pq_data p)) end.

(* ---------------------------------------------------------------- uri/mod.rs Uri, Parts, uri/builder.rs *)
(* scheme: None = Scheme2::None, Some s = a scheme whose as_str() is s; authority: its data (empty = none) *)
Record uri := { u_scheme : option bytes; u_authority : bytes; u_path : pq }.
Record parts := { pt_scheme : option bytes; pt_authority : option bytes; pt_path : option pq }.
Definition parts0 : parts := {| pt_scheme := None; pt_authority := None; pt_path := None |}.

Definition is_some {A} (o : option A) : bool := match o with Some _ => true | None => false end.

(* Uri::from_parts *)
Definition uri_from_parts (p : parts) : option uri :=
  let mk := Some {| u_scheme := pt_scheme p;
                    u_authority := match pt_authority p with Some a => a | None => [] end;
                    u_path := match pt_path p with Some q => q | None => pq_empty end |} in
  if is_some (pt_scheme p) then
    (if negb (is_some (pt_authority p)) then None
     else if negb (is_some (pt_path p)) then None
     else mk)
  else if is_some (pt_authority p) && is_some (pt_path p) then None
  else mk.

Definition uri_scheme_str (u : uri) : option bytes := u_scheme u.
Definition uri_authority (u : uri) : option bytes := match u_authority u with [] => None | a => Some a end.
Definition uri_path_and_query (u : uri) : option pq :=
  if is_some (u_scheme u) || is_nil (u_authority u) then Some (u_path u) else None.
(* impl From<Uri> for Parts *)
Definition parts_of_uri (u : uri) : parts :=
  {| pt_scheme := u_scheme u;
     pt_authority := uri_authority u;
     pt_path := if negb (is_nil (pq_data (u_path u))) || is_some (u_scheme u) then Some (u_path u) else None |}.

(* uri::Builder: None = the builder holds an error *)
Definition builder := option parts.
Definition builder_new : builder := Some parts0.
Definition builder_scheme (b : builder) (s : bytes) : builder :=
  match b with
  | None => None
  | Some p => if scheme_ok s then Some {| pt_scheme := Some s; pt_authority := pt_authority p; pt_path := pt_path p |} else None
  end.
Definition builder_authority (b : builder) (a : bytes) : builder :=
  match b with
  | None => None
  | Some p => if authority_ok a then Some {| pt_scheme := pt_scheme p; pt_authority := Some a; pt_path := pt_path p |} else None
  end.
Definition builder_path (b : builder) (s : bytes) : builder :=
  match b with
  | None => None
  | Some p =>
      match path_parse s with
      | Ok q => Some {| pt_scheme := pt_scheme p; pt_authority := pt_authority p; pt_path := Some q |}
      | Err PEmpty => Some {| pt_scheme := pt_scheme p; pt_authority := pt_authority p; pt_path := Some pq_empty |}
      | _ => None
      end
  end.
Definition builder_build (b : builder) : option uri :=
  match b with None => None | Some p => uri_from_parts p end.

(* ---------------------------------------------------------------- header/map.rs *)
Definition MAX_SIZE : N := 32768.
Definition usize_max : N := 18446744073709551615.
Fixpoint npow2_loop (fuel : nat) (p x : N) : N :=
  match fuel with
  | O => p
  | S k => if x <=? p then p else npow2_loop k (2 * p) x
  end.
(* usize::checked_next_power_of_two *)
Definition checked_next_power_of_two (x : N) : option N :=
  let p := npow2_loop 64 1 x in if p <=? usize_max then Some p else None.
(* to_raw_capacity: n.checked_add(n / 3) *)
Definition to_raw_capacity (n : N) : option N :=
  let r := n + n / 3 in if r <=? usize_max then Some r else None.
(* HeaderMap::try_with_capacity(n).is_ok() *)
Definition try_with_capacity_ok (n : N) : bool :=
  if n =? 0 then true
  else match to_raw_capacity n with
       | None => false
       | Some raw =>
           match checked_next_power_of_two raw with
           | None => false
           | Some c => negb (MAX_SIZE <? c)
           end
       end.

(* A HeaderMap by what is observable: the entries in first-insertion order, each with its values in append order *)
Definition hmap := list (bytes * list bytes).
Fixpoint hm_append (n v : bytes) (m : hmap) : hmap :=
  match m with
  | [] => [(n, [v])]
  | (k, vs) :: r => if bytes_eqb k n then (k, vs ++ [v]) :: r else (k, vs) :: hm_append n v r
  end.
(* HeaderMap::get: the first value *)
Fixpoint hm_get (n : bytes) (m : hmap) : option bytes :=
  match m with
  | [] => None
  | (k, vs) :: r => if bytes_eqb k n then hd_error vs else hm_get n r
  end.
(* iteration (iter / into_iter with the name repeated) *)
Definition hm_iter (m : hmap) : list (bytes * bytes) :=
  flat_map (fun e => map (fun v => (fst e, v)) (snd e)) m.
