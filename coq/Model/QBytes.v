(* Byte-granular delivery of the two instruction streams.  The receiver (Decoder::on_encoder_recv /
   Encoder::on_decoder_recv) is handed the unconsumed tail of the previous call followed by the next n bytes; it consumes
   the instructions that are complete within those bytes and leaves the rest.  In the model the number of complete
   instructions is computed from the wire lengths of Model/QWire.v and the step is the instruction-granular step of
   Model/QSystem.v for that number: a byte-level schedule IS an instruction-level schedule. *)
From H3V Require Import Base.Bytes Model.DynTable Model.QInstr Model.QEncoder Model.QDecoder Model.QSystem Model.QWire.

(* how many leading items are complete within `avail` bytes, and how many bytes they take *)
Fixpoint complete_within {A} (f : A -> res unit bytes) (avail : N) (q : list A) : N * N :=
  match q with
  | [] => (0, 0)
  | x :: r =>
      match f x with
      | Ok w => if len w <=? avail
                then let '(k, used) := complete_within f (avail - len w) r in (k + 1, used + len w)
                else (0, 0)
      | _ => (0, 0)
      end
  end.

Fixpoint wire_len {A} (f : A -> res unit bytes) (q : list A) : N :=
  match q with
  | [] => 0
  | x :: r => match f x with Ok w => len w | _ => 0 end + wire_len f r
  end.

Record bsys := mkBsys {
  b_sys : sys;
  b_epend : N;      (* encoder-stream bytes handed to the decoder that do not yet complete an instruction *)
  b_dpend : N       (* the same for the decoder stream *)
}.

Inductive bop :=
| BOp (o : op)                 (* an instruction-granular op; a delivery of k >= 1 instructions also hands over the bytes completing them *)
| BDeliverBytes (n : N)        (* the next n encoder-stream bytes *)
| BFeedbackBytes (n : N).      (* the next n decoder-stream bytes *)

(* the instruction-granular op a byte-granular op amounts to *)
Definition bop_op (b : bsys) (o : bop) : op * N * N :=
  match o with
  | BOp (ODeliver k) => (ODeliver k, (if k =? 0 then b_epend b else 0), b_dpend b)
  | BOp (OFeedback k) => (OFeedback k, b_epend b, (if k =? 0 then b_dpend b else 0))
  | BOp o' => (o', b_epend b, b_dpend b)
  | BDeliverBytes n =>
      let q := s_eq (b_sys b) in
      let avail := N.min (b_epend b + n) (wire_len wire_einstr q) in
      let '(k, used) := complete_within wire_einstr avail q in
      (ODeliver k, avail - used, b_dpend b)
  | BFeedbackBytes n =>
      let q := s_dq (b_sys b) in
      let avail := N.min (b_dpend b + n) (wire_len wire_dinstr q) in
      let '(k, used) := complete_within wire_dinstr avail q in
      (OFeedback k, b_epend b, avail - used)
  end.

Definition bstep (b : bsys) (o : bop) : bsys * outcome :=
  let '(o', ep, dp) := bop_op b o in
  let '(s', x) := sys_step (b_sys b) o' in
  (mkBsys s' ep dp, x).

Fixpoint brun (b : bsys) (os : list bop) : bsys * list outcome :=
  match os with
  | [] => (b, [])
  | o :: r => let '(b1, x) := bstep b o in let '(b2, xs) := brun b1 r in (b2, x :: xs)
  end.

(* the instruction-granular history a byte-granular history amounts to *)
Fixpoint bops_ops (b : bsys) (os : list bop) : list op :=
  match os with
  | [] => []
  | o :: r => let '(o', _, _) := bop_op b o in o' :: bops_ops (fst (bstep b o)) r
  end.
