(* Datagram::decode (h3-datagram/src/datagram.rs) on a non-contiguous `Buf`: VarInt::decode(&mut buf) on the generic buffer,
   the quarter stream id times four through StreamId::try_from, and `payload = buf` - the buffer itself, as the varint
   reader left it, becomes the payload (no copy, no chunk() call of its own). *)
From H3V Require Import Base.Bytes Gen.GenCodes Gen.GenDatagram Model.Varint Model.Datagram Model.ChunkedBuf Model.ChunkedVarint.

Definition dg_decode_buf (cs : cbuf) : res N (N * cbuf) :=
  match vi_decode_buf cs with
  | (Ok q, rest) =>
      match sid_try_from ((q * dec_multiplier) mod 2 ^ 64) with
      | Some s => Ok (s, rest)
      | None => Err dec_code_range
      end
  | (Err _, _) => Err dec_code_truncated
  | (Panic s, _) => Panic s
  end.
