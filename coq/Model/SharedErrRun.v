(* The schedule protocol of the correspondence harness (harness/src/bin/c05.rs), on the model.

   A case names, for every pre-emption point reached, which task runs next.  A *turn* of a task runs
   it from where it is to just after its next blocking pre-emption point, or to the end of its call.
   Blocking points: the three points of poll_connection_error and "stream:after_store"; the point
   "stream:after_wake" does not block (nothing but the return to the caller follows it).
   A turn of a task that has finished is skipped.  When the schedule is exhausted the unfinished
   tasks are completed one after the other: stream tasks in index order, then the driver.
   The scheduled driver script is one poll, or two (the second only if the first returned Pending;
   every poll with a waker of its own).
   Phase 2 (later calls, sequential): the woken flag of the last scheduled poll's waker is read, the
   driver is polled again, every stream handle that still exists raises a second error (a read fails),
   then a third one (a write fails), the driver runs shutdown() on the lost transport, the driver is
   polled a last time; shutdown() is also called right after the second poll, while the transport still works.

   Everything here is a composition of `step`s (see Proofs/SharedErrProofs.v, run_case_reachable). *)
From H3V Require Import Base.Bytes Gen.GenCodes Gen.GenSharedErr Spec.FirstErrorWins Model.SharedErr.

Fixpoint d_turn (fuel : nat) (c : cfg) (w : world) : world :=
  match fuel with
  | O => w
  | S f =>
      match dprog w with
      | [] => w
      | I_point _ :: _ => dstep c w
      | _ :: _ => d_turn f c (dstep c w)
      end
  end.

Definition blocking_spoint (n : N) : bool := n =? 0.

Fixpoint s_turn (fuel : nat) (c : cfg) (w : world) (i : nat) : world :=
  match fuel with
  | O => w
  | S f =>
      match nth_error (streams w) i with
      | None => w
      | Some s =>
          match sprog s with
          | [] => w
          | S_point n :: _ => if blocking_spoint n then sstep c w i else s_turn f c (sstep c w i) i
          | _ :: _ => s_turn f c (sstep c w i) i
          end
      end
  end.

Definition s_idle (w : world) (i : nat) : bool :=
  match nth_error (streams w) i with
  | Some s => match sprog s with [] => true | _ :: _ => false end
  | None => true
  end.
Definition d_idle (w : world) : bool := match dprog w with [] => true | _ :: _ => false end.

(* run a task to the end of its current call *)
Fixpoint d_finish (n : nat) (c : cfg) (w : world) : world :=
  match n with O => w | S m => if d_idle w then w else d_finish m c (d_turn 64 c w) end.
Fixpoint s_finish (n : nat) (c : cfg) (w : world) (i : nat) : world :=
  match n with O => w | S m => if s_idle w i then w else s_finish m c (s_turn 64 c w i) i end.

Record rstate := { rw : world; dpolls : nat; sstarted : list bool }.

Definition poll_spec := (list dcall * bool)%type.

Fixpoint last_dev (tr : list event) : option event :=
  match tr with
  | [] => None
  | EReport HDriver c :: _ => Some (EReport HDriver c)
  | EPending :: _ => Some EPending
  | EReadyOk :: _ => Some EReadyOk
  | _ :: r => last_dev r
  end.
Fixpoint last_srep (i : nat) (tr : list event) : option cerr :=
  match tr with
  | [] => None
  | EReport (HStream j) c :: r => if Nat.eqb i j then Some c else last_srep i r
  | _ :: r => last_srep i r
  end.

(* the scheduled driver script: npolls polls, the next one only when the previous returned Pending *)
Definition d_more (npolls : nat) (r : rstate) : bool :=
  match dpolls r with
  | O => true
  | S _ => Nat.ltb (dpolls r) npolls &&
           match last_dev (trace (rw r)) with Some EPending => true | _ => false end
  end.

(* the driver thread starts its next scheduled poll, if it has one, without yielding *)
Definition d_begin_if (c : cfg) (npolls : nat) (p1 : poll_spec) (r : rstate) : rstate :=
  if d_idle (rw r) then
    if d_more npolls r then
      {| rw := step c (rw r) (ABegin (fst p1) (snd p1)); dpolls := S (dpolls r); sstarted := sstarted r |}
    else r
  else r.
Definition d_turn_r (c : cfg) (r : rstate) : rstate :=
  {| rw := d_turn 64 c (rw r); dpolls := dpolls r; sstarted := sstarted r |}.

Definition turn (c : cfg) (npolls : nat) (p1 : poll_spec) (errs : list err) (r : rstate) (t : nat) : rstate :=
  match t with
  | O =>
      let r1 := d_turn_r c (d_begin_if c npolls p1 r) in
      (* a poll that returned is followed at once by the next scheduled poll, up to its first point *)
      if d_idle (rw r1) then d_turn_r c (d_begin_if c npolls p1 r1) else r1
  | S i =>
      match nth_error (sstarted r) i, nth_error errs i with
      | Some true, _ => {| rw := s_turn 64 c (rw r) i; dpolls := dpolls r; sstarted := sstarted r |}
      | Some false, Some e =>
          {| rw := s_turn 64 c (step c (rw r) (ARaise i e)) i; dpolls := dpolls r;
             sstarted := upd (sstarted r) i true |}
      | _, _ => r
      end
  end.

(* complete task t: its remaining turns (a turn of a finished task changes nothing) *)
Fixpoint turns (n : nat) (c : cfg) (npolls : nat) (p1 : poll_spec) (errs : list err) (r : rstate) (t : nat) : rstate :=
  match n with O => r | S m => turns m c npolls p1 errs (turn c npolls p1 errs r t) t end.
Definition complete (c : cfg) (npolls : nat) (p1 : poll_spec) (errs : list err) (r : rstate) (t : nat) : rstate :=
  turns 80 c npolls p1 errs r t.

Definition d_poll (c : cfg) (p : poll_spec) (w : world) : world :=
  d_finish 40 c (step c w (ABegin (fst p) (snd p))).
Definition d_shutdown (c : cfg) (r : option err) (w : world) : world :=
  d_finish 40 c (step c w (AShutdown r)).
Definition s_raise (c : cfg) (w : world) (i : nat) (e : err) : world :=
  s_finish 40 c (step c w (ARaise i e)) i.

(* later calls on the stream handles: None = this handle has no such later call *)
Fixpoint raise_all (c : cfg) (w : world) (i : nat) (es : list (option err)) : world * list (option cerr) :=
  match es with
  | [] => (w, [])
  | None :: r =>
      let (w2, l) := raise_all c w (S i) r in (w2, None :: l)
  | Some e :: r =>
      let w1 := s_raise c w i e in
      let (w2, l) := raise_all c w1 (S i) r in
      (w2, last_srep i (trace w1) :: l)
  end.

Record result := {
  r_d1 : option event; r_woken : bool; r_s1 : list (option cerr);
  r_d2 : option event; r_d2s : option event; r_s2 : list (option cerr); r_s3 : list (option cerr);
  r_d4 : option event; r_d3 : option event;
  r_close : list N; r_final : world }.

Definition seq0 (k : nat) : list nat := seq 0 k.

(* d2s: shutdown() while the transport still works; d4: shutdown() whose GOAWAY write, if it gets that far, fails with e4 *)
Definition run_case (c : cfg) (k : nat) (setup : option poll_spec) (npolls : nat) (p1 : poll_spec) (errs : list err)
           (sched : list nat) (p2 : poll_spec) (errs2 errs3 : list (option err)) (e4 : option err) : result :=
  let w0 := match setup with Some p => d_poll c p (init k) | None => init k end in
  let r0 := {| rw := w0; dpolls := O; sstarted := repeat false k |} in
  let r1 := fold_left (turn c npolls p1 errs) sched r0 in
  let r2 := fold_left (complete c npolls p1 errs) (map S (seq0 k)) r1 in
  let r3 := complete c npolls p1 errs r2 O in
  let w1 := rw r3 in
  let w2 := d_poll c p2 w1 in
  let w2s := d_shutdown c None w2 in
  let (w3a, s2) := raise_all c w2s O errs2 in
  let (w3, s3) := raise_all c w3a O errs3 in
  let w3b := d_shutdown c e4 w3 in
  let w4 := d_poll c p2 w3b in
  {| r_d1 := last_dev (trace w1); r_woken := woken w1;
     r_s1 := map (fun i => last_srep i (trace w1)) (seq0 k);
     r_d2 := last_dev (trace w2); r_d2s := last_dev (trace w2s); r_s2 := s2; r_s3 := s3;
     r_d4 := last_dev (trace w3b);
     r_d3 := last_dev (trace w4);
     r_close := closes (obs w4); r_final := w4 |}.

(* ---- the specification's answer for the same case, computed WITHOUT the model:
   the raise order is read off the schedule (a stream task stores in its first turn; the driver
   stores, if it detects an error itself, in its turn number dturn), the outcome is the abstract
   first-store-wins cell. *)
Fixpoint sched_raises (errs : list err) (derr : option (nat * err)) (dcount : nat)
         (seen : list nat) (sched : list nat) : list err :=
  match sched with
  | [] => []
  | O :: r =>
      let n := S dcount in
      match derr with
      | Some (dt, e) => if Nat.eqb n dt then e :: sched_raises errs derr n seen r
                        else sched_raises errs derr n seen r
      | None => sched_raises errs derr n seen r
      end
  | S i :: r =>
      if existsb (Nat.eqb i) seen then sched_raises errs derr dcount seen r
      else match nth_error errs i with
           | Some e => e :: sched_raises errs derr dcount (i :: seen) r
           | None => sched_raises errs derr dcount (i :: seen) r
           end
  end.

Definition spec_case (k : nat) (errs : list err) (derr : option (nat * err)) (sched : list nat) : option err :=
  fw_run (sched_raises errs derr 0 [] (sched ++ map S (seq0 k) ++ repeat O 40)).
