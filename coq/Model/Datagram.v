(* Model of h3-datagram/src/datagram.rs: Datagram::{new, encode, decode} and the
   `Buf` implementation of EncodedDatagram.  The payload is any `Buf`, modelled by its list
   of chunks (non-empty chunks: the `bytes::Buf` contract). *)
From H3V Require Import Base.Bytes Gen.GenCodes Gen.GenDatagram Model.Varint.

Record encdg := { e_hdr : bytes; e_len : N; e_pos : N; e_payload : list bytes }.

Definition pl_remaining (p : list bytes) : N := len (concat p).
Definition pl_chunk (p : list bytes) : bytes := match p with [] => [] | c :: _ => c end.
(* payload.advance(n): None models the panic of advancing past the end *)
Fixpoint pl_advance (n : N) (p : list bytes) : option (list bytes) :=
  match p with
  | [] => if n =? 0 then Some [] else None
  | c :: r => if n <? len c then Some (skipn (N.to_nat n) c :: r) else pl_advance (n - len c) r
  end.

(* Datagram::new asserts divisibility *)
Definition dg_new (sid : N) (payload : list bytes) : res unit (N * list bytes) :=
  if sid mod new_modulus =? 0 then Ok (sid, payload) else Panic 10.

(* Datagram::encode *)
Definition dg_encode (sid : N) (payload : list bytes) : res unit encdg :=
  let q := sid / enc_divisor in
  match vi_encode q, vi_size q with
  | Some e, Some sz =>
      let buffer := firstn 8 (e ++ repeat 0 8) in
      Ok {| e_hdr := if header_is_buffer then buffer else repeat 0 8;
            e_len := sz; e_pos := initial_pos; e_payload := payload |}
  | _, _ => Panic 11
  end.

Definition dg_remaining (st : encdg) : res unit N :=
  if e_len st <? e_pos st then Panic 12
  else Ok (e_len st - e_pos st + pl_remaining (e_payload st)).

Definition dg_chunk (st : encdg) : res unit bytes :=
  if e_len st <? e_pos st then Panic 13
  else if 0 <? e_len st - e_pos st then
    (if len (e_hdr st) <? e_len st then Panic 14
     else Ok (firstn (N.to_nat (e_len st - e_pos st)) (skipn (N.to_nat (e_pos st)) (e_hdr st))))
  else Ok (pl_chunk (e_payload st)).

Definition dg_advance (cnt : N) (st : encdg) : res unit encdg :=
  if e_len st <? e_pos st then Panic 15 else
  let rem_hdr := e_len st - e_pos st in
  let adv := if 0 <? rem_hdr then N.min cnt rem_hdr else 0 in
  match pl_advance (cnt - adv) (e_payload st) with
  | None => Panic 16
  | Some p => Ok {| e_hdr := e_hdr st; e_len := e_len st; e_pos := e_pos st + adv; e_payload := p |}
  end.

(* Datagram::decode on a flat buffer: the stream id and the untouched rest *)
Definition dg_decode (bs : bytes) : res N (N * bytes) :=
  match vi_decode bs with
  | (Ok q, rest) =>
      match sid_try_from ((q * dec_multiplier) mod 2 ^ 64) with
      | Some s => Ok (s, rest)
      | None => Err dec_code_range
      end
  | (Err _, _) => Err dec_code_truncated
  | (Panic s, _) => Panic s
  end.

(* a transport consuming the buffer: at each step look at chunk(), take at most k bytes of it, advance *)
Fixpoint dg_consume (ks : list N) (st : encdg) : res unit (bytes * encdg) :=
  match ks with
  | [] => Ok ([], st)
  | k :: ks' =>
      match dg_chunk st with
      | Ok c =>
          let n := N.min k (len c) in
          match dg_advance n st with
          | Ok st' =>
              match dg_consume ks' st' with
              | Ok (out, st'') => Ok (firstn (N.to_nat n) c ++ out, st'')
              | Err e => Err e | Panic s => Panic s
              end
          | Err e => Err e | Panic s => Panic s
          end
      | Err e => Err e | Panic s => Panic s
      end
  end.

Definition dg_view (st : encdg) : bytes :=
  firstn (N.to_nat (e_len st - e_pos st)) (skipn (N.to_nat (e_pos st)) (e_hdr st)) ++ concat (e_payload st).

(* ---- the call sites (h3-datagram/src/datagram_handler.rs) ---- *)

(* DatagramSender::send_datagram(data): handler.send_datagram(Datagram::new(self.stream_id, data).encode()); the transport
   then empties the buffer chunk by chunk (has_remaining / chunk / advance(chunk.len())).  usize::MAX as the per-step limit
   = "take the whole chunk"; remaining() steps always suffice (every chunk of a non-empty buffer is non-empty). *)
Definition whole_chunk : N := 18446744073709551615.
Definition dg_tx (sid : N) (payload : list bytes) : res unit bytes :=
  match dg_new sid payload with
  | Ok (s, p) =>
      match dg_encode s p with
      | Ok st =>
          match dg_remaining st with
          | Ok r =>
              match dg_consume (repeat whole_chunk (N.to_nat r)) st with
              | Ok (out, _) => Ok out
              | Err e => Err e | Panic s => Panic s
              end
          | Err e => Err e | Panic s => Panic s
          end
      | Err e => Err e | Panic s => Panic s
      end
  | Err e => Err e | Panic s => Panic s
  end.

(* DatagramReader::read_datagram on one arriving QUIC datagram: Datagram::decode(d).map_err(|err|
   self.handle_connection_error_on_stream(err)): the caller gets a connection-level error carrying err.code and the
   connection driver closes the QUIC connection with that same code (ConnectionInner::close_if_needed). *)
Inductive rx_result :=
| RxDatagram (sid : N) (payload : bytes)
| RxConnError (returned_code : N) (closed_with : N)
| RxPanic (site : N).

Definition dg_rx (bs : bytes) : rx_result :=
  match dg_decode bs with
  | Ok (s, p) => RxDatagram s p
  | Err c => RxConnError c c
  | Panic s => RxPanic s
  end.
