(* Model of h3/src/proto/headers.rs (Field::parse, try_value, TryFrom<Vec<HeaderField>> for Header,
   into_request_parts, into_response_parts, into_fields, Header::{request,response,trailer}, Pseudo::request/response,
   HeaderIter), h3/src/ext.rs (Protocol) and of the three places where a HeaderError becomes a stream error
   (server/request.rs resolve, client/stream.rs recv_response, connection.rs poll_recv_trailers).
   Tables, switches and codes come from Gen.GenHeaders (regenerated from the Rust source on every run); the `http`
   crate is Model.HttpCrate.  No proofs in this file. *)
From H3V Require Import Base.Bytes Gen.GenCodes Gen.GenHeaders Model.HttpCrate.

Inductive herr := InvalidHeaderName | InvalidHeaderValue | InvalidRequest | MissingMethod | MissingStatus
                | MissingAuthority | ContradictedAuthority | TooManyFields.

(* a Protocol value is the index of its ProtocolInner variant *)
Fixpoint assoc_bytes {V} (k : bytes) (l : list (bytes * V)) : option V :=
  match l with
  | [] => None
  | (k', v) :: r => if bytes_eqb k k' then Some v else assoc_bytes k r
  end.
Definition protocol_from_str (s : bytes) : option N := assoc_bytes s proto_from_str.
(* Protocol::as_str is a total match in Rust; a missing row of the generated table shows as Panic *)
Definition protocol_as_str (k : N) : res herr bytes :=
  match assoc k proto_as_str with Some s => Ok s | None => Panic 120 end.

Inductive field :=
| FMethod (m : bytes)          (* Method, by its as_str() *)
| FScheme (s : bytes)          (* Scheme, by its as_str() *)
| FAuthority (a : bytes)       (* Authority, by its as_str() *)
| FPath (p : pq)
| FStatus (n : N)
| FProtocol (k : N)
| FHeader (n v : bytes).

(* is_token_char *)
Definition is_token_char (b : N) : bool := existsb (fun r => in_range (fst r) (snd r) b) token_char_ranges.

(* try_value::<R>: from_utf8 first, then R::from_str; the pseudo arms that call a from_bytes directly skip the
   utf8 step *)
Definition parse_pseudo (k : pkind) (p : pparser) (v : bytes) : option field :=
  let pre := match p with PTryValue => if try_value_utf8 then utf8_valid v else true | _ => true end in
  if negb pre then None else
  match k with
  | KMethod => if method_ok v then Some (FMethod v) else None
  | KStatus => match status_parse v with Some n => Some (FStatus n) | None => None end
  | KScheme => if scheme_ok v then Some (FScheme v) else None
  | KAuthority => if authority_ok v then Some (FAuthority v) else None
  | KPath => match path_parse v with Ok q => Some (FPath q) | _ => None end
  | KProtocol => match protocol_from_str v with Some x => Some (FProtocol x) | None => None end
  end.

(* Field::parse *)
Definition field_parse (name value : bytes) : res herr field :=
  match name with
  | [] => if empty_name_is_error then Err InvalidHeaderName else Panic 100 (* name[0] out of bounds *)
  | c :: _ =>
      if negb (c =? pseudo_prefix) then
        if token_check_used && negb (forallb is_token_char name) then Err InvalidHeaderName
        else
          match (if name_ctor_lowercase then (if hname_ok name then Some name else None) else hname_from_bytes name) with
          | None => Err InvalidHeaderName
          | Some nm =>
              if value_checked && negb (hvalue_ok value) then Err InvalidHeaderValue
              else Ok (FHeader nm value)
          end
      else if pseudo_value_checked && negb (hvalue_ok value) then Err InvalidHeaderValue
      else
        match assoc_bytes name pseudo_arms with
        | Some (k, p) =>
            match parse_pseudo k p value with
            | Some f => Ok f
            | None => Err InvalidHeaderValue
            end
        | None => if unknown_pseudo_is_error then Err InvalidHeaderName else Panic 102
        end
  end.

Record pseudo := {
  p_method : option bytes; p_scheme : option bytes; p_authority : option bytes; p_path : option pq;
  p_status : option N; p_protocol : option N; p_len : N }.
Definition pseudo0 : pseudo :=
  {| p_method := None; p_scheme := None; p_authority := None; p_path := None; p_status := None; p_protocol := None; p_len := 0 |}.
Record header := { h_pseudo : pseudo; h_fields : hmap }.

Definition set_field (f : field) (ps : pseudo) : pseudo :=
  match f with
  | FMethod m => {| p_method := Some m; p_scheme := p_scheme ps; p_authority := p_authority ps; p_path := p_path ps;
                    p_status := p_status ps; p_protocol := p_protocol ps; p_len := p_len ps + 1 |}
  | FScheme s => {| p_method := p_method ps; p_scheme := Some s; p_authority := p_authority ps; p_path := p_path ps;
                    p_status := p_status ps; p_protocol := p_protocol ps; p_len := p_len ps + 1 |}
  | FAuthority a => {| p_method := p_method ps; p_scheme := p_scheme ps; p_authority := Some a; p_path := p_path ps;
                       p_status := p_status ps; p_protocol := p_protocol ps; p_len := p_len ps + 1 |}
  | FPath q => {| p_method := p_method ps; p_scheme := p_scheme ps; p_authority := p_authority ps; p_path := Some q;
                  p_status := p_status ps; p_protocol := p_protocol ps; p_len := p_len ps + 1 |}
  | FStatus n => {| p_method := p_method ps; p_scheme := p_scheme ps; p_authority := p_authority ps; p_path := p_path ps;
                    p_status := Some n; p_protocol := p_protocol ps; p_len := p_len ps + 1 |}
  | FProtocol k => {| p_method := p_method ps; p_scheme := p_scheme ps; p_authority := p_authority ps; p_path := p_path ps;
                      p_status := p_status ps; p_protocol := Some k; p_len := p_len ps + 1 |}
  | FHeader _ _ => ps
  end.

(* the `for field in headers` loop of try_from.  [grow_fails i] says whether HeaderMap::try_append reports
   MaxSizeReached for the i-th field line: in http 1.5.0 this can only happen through the hash-collision
   ("danger yellow") path of try_reserve_one, which depends on the hasher; the theorems hold for every such
   oracle, the executable model uses the constant false. *)
Fixpoint try_from_loop (grow_fails : N -> bool) (i : N) (fs : list (bytes * bytes)) (ps : pseudo) (m : hmap)
  : res herr header :=
  match fs with
  | [] => Ok {| h_pseudo := ps; h_fields := m |}
  | (n, v) :: r =>
      match field_parse n v with
      | Ok (FHeader hn hv) =>
          if grow_fails i then (if append_fallible then Err TooManyFields else Panic 111)
          else try_from_loop grow_fails (i + 1) r ps (hm_append hn hv m)
      | Ok f => try_from_loop grow_fails (i + 1) r (set_field f ps) m
      | Err e => Err e
      | Panic s => Panic s
      end
  end.

(* TryFrom<Vec<HeaderField>> for Header *)
Definition try_from (grow_fails : N -> bool) (fs : list (bytes * bytes)) : res herr header :=
  if try_with_capacity_ok (N.of_nat (length fs)) then try_from_loop grow_fails 0 fs pseudo0 []
  else if alloc_fallible then Err TooManyFields
  else Panic 110 (* HeaderMap::with_capacity: "size overflows MAX_SIZE" *).

(* Header::into_request_parts *)
Definition into_request_parts (h : header) : res herr (bytes * uri * option N * hmap) :=
  let ps := h_pseudo h in
  let b1 := match p_path ps with Some q => builder_path builder_new (pq_as_str q) | None => builder_new end in
  let b2 := match p_scheme ps with Some s => builder_scheme b1 s | None => b1 end in
  let finish (b3 : builder) : res herr (bytes * uri * option N * hmap) :=
    match p_method ps with
    | None => if req_method_required then Err MissingMethod else Panic 103
    | Some m =>
        match builder_build b3 with
        | Some u => Ok (m, u, p_protocol ps, h_fields h)
        | None => if req_uri_checked then Err InvalidRequest else Panic 104
        end
    end in
  match p_authority ps, hm_get host_name (h_fields h) with
  | None, None => if req_missing_authority then Err MissingAuthority else finish b2
  | Some a, None => finish (builder_authority b2 a)
  | None, Some hv => finish (builder_authority b2 hv)
  | Some a, Some hv =>
      if req_contradiction && negb (bytes_eqb a hv) then Err ContradictedAuthority
      else finish (builder_authority b2 hv)
  end.

(* Header::into_response_parts *)
Definition into_response_parts (h : header) : res herr (N * hmap) :=
  match p_status (h_pseudo h) with
  | Some s => Ok (s, h_fields h)
  | None => if resp_status_required then Err MissingStatus else Panic 105
  end.

Definition into_fields (h : header) : hmap := h_fields h.

(* ---- what the three call sites make of it *)
Record refusal := { r_code : N; r_reset : option N; r_stop_sending : option N; r_why : herr }.
Inductive outcome (A : Type) := Delivered (a : A) | Refused (r : refusal) | Panicked (site : N).
Arguments Delivered {A} a.
Arguments Refused {A} r.
Arguments Panicked {A} site.

Record request := { rq_method : bytes; rq_uri : uri; rq_protocol : option N; rq_headers : hmap }.
Record response := { rs_status : N; rs_headers : hmap }.

(* server/request.rs ResolvedRequest::resolve, from `Header::try_from(fields)` on *)
Definition srv_refuse (e : herr) : refusal :=
  {| r_code := srv_code; r_reset := srv_reset; r_stop_sending := srv_stop; r_why := e |}.
Definition resolve_request (grow_fails : N -> bool) (fs : list (bytes * bytes)) : outcome request :=
  match try_from grow_fails fs with
  | Ok h =>
      match into_request_parts h with
      | Ok (m, u, p, hd) => Delivered {| rq_method := m; rq_uri := u; rq_protocol := p; rq_headers := hd |}
      | Err e => Refused (srv_refuse e)
      | Panic s => Panicked s
      end
  | Err e => Refused (srv_refuse e)
  | Panic s => Panicked s
  end.

(* client/stream.rs recv_response, from `Header::try_from(fields)` on *)
Definition recv_response (grow_fails : N -> bool) (fs : list (bytes * bytes)) : outcome response :=
  match try_from grow_fails fs with
  | Ok h =>
      match into_response_parts h with
      | Ok (s, hd) => Delivered {| rs_status := s; rs_headers := hd |}
      | Err e => Refused {| r_code := cli_code_parts; r_reset := None; r_stop_sending := cli_stop_parts; r_why := e |}
      | Panic s => Panicked s
      end
  | Err e => Refused {| r_code := cli_code_try_from; r_reset := None; r_stop_sending := cli_stop_try_from; r_why := e |}
  | Panic s => Panicked s
  end.

(* connection.rs poll_recv_trailers, from `Header::try_from(fields)` on *)
Definition recv_trailers (grow_fails : N -> bool) (fs : list (bytes * bytes)) : outcome hmap :=
  match try_from grow_fails fs with
  | Ok h => Delivered (into_fields h)
  | Err e => Refused {| r_code := trl_code; r_reset := None; r_stop_sending := trl_stop; r_why := e |}
  | Panic s => Panicked s
  end.

(* ---------------------------------------------------------------- send side *)
Definition m_CONNECT : bytes := [67; 79; 78; 78; 69; 67; 84].
Definition m_OPTIONS : bytes := [79; 80; 84; 73; 79; 78; 83].

(* Pseudo::request *)
Definition pseudo_request (m : bytes) (u : uri) (ext : option N) : pseudo :=
  let pt := parts_of_uri u in
  let path := match pt_path pt with
              | None => pq_slash
              | Some q => if is_nil (pq_path q) && negb (bytes_eqb m m_OPTIONS) then pq_slash else q
              end in
  let protocol := if bytes_eqb m m_CONNECT then ext else None in
  let sp := if bytes_eqb m m_CONNECT && negb (is_some protocol) then (None, None)
            else (Some (match pt_scheme pt with Some s => s | None => s_https end), Some path) in
  {| p_method := Some m; p_scheme := fst sp; p_authority := pt_authority pt; p_path := snd sp;
     p_status := None; p_protocol := protocol;
     p_len := 3 + (if is_some (pt_authority pt) then 1 else 0) + (if is_some protocol then 1 else 0) |}.

(* Pseudo::response *)
Definition pseudo_response (status : N) : pseudo :=
  {| p_method := None; p_scheme := None; p_authority := None; p_path := None; p_status := Some status;
     p_protocol := None; p_len := 1 |}.

(* Header::request *)
Definition header_request (m : bytes) (u : uri) (fields : hmap) (ext : option N) : res herr header :=
  let ok := Ok {| h_pseudo := pseudo_request m u ext; h_fields := fields |} in
  match uri_authority u, hm_get send_host_name fields with
  | None, None => if send_missing_authority then Err MissingAuthority else ok
  | Some a, Some h => if send_contradiction && negb (bytes_eqb a h) then Err ContradictedAuthority else ok
  | _, _ => ok
  end.
Definition header_response (status : N) (fields : hmap) : header :=
  {| h_pseudo := pseudo_response status; h_fields := fields |}.
Definition header_trailer (fields : hmap) : res herr header :=
  if trailer_pseudo_default then Ok {| h_pseudo := pseudo0; h_fields := fields |} else Panic 106.

(* HeaderIter: the value written for a pseudo field *)
Definition pseudo_value (k : pkind) (ps : pseudo) : res herr (option bytes) :=
  match k with
  | KMethod => Ok (p_method ps)
  | KScheme => Ok (p_scheme ps)
  | KAuthority => Ok (p_authority ps)
  | KPath => Ok (match p_path ps with Some q => Some (pq_as_str q) | None => None end)
  | KStatus => Ok (match p_status ps with Some n => Some (status_as_str n) | None => None end)
  | KProtocol => match p_protocol ps with
                 | Some x => match protocol_as_str x with Ok s => Ok (Some s) | Err e => Err e | Panic s => Panic s end
                 | None => Ok None
                 end
  end.
Fixpoint iter_pseudo (order : list (pkind * bytes)) (ps : pseudo) : res herr (list (bytes * bytes)) :=
  match order with
  | [] => Ok []
  | (k, nm) :: r =>
      match pseudo_value k ps with
      | Ok o =>
          match iter_pseudo r ps with
          | Ok l => Ok (match o with Some v => (nm, v) :: l | None => l end)
          | Err e => Err e
          | Panic s => Panic s
          end
      | Err e => Err e
      | Panic s => Panic s
      end
  end.
(* IntoIterator for Header, collected *)
Definition header_iter (h : header) : res herr (list (bytes * bytes)) :=
  match iter_pseudo iter_order (h_pseudo h) with
  | Ok ps => Ok (if iter_pseudo_first then ps ++ hm_iter (h_fields h) else hm_iter (h_fields h) ++ ps)
  | Err e => Err e
  | Panic s => Panic s
  end.

(* what is handed to the QPACK encoder by send_request / send_response / send_trailers *)
Definition send_request (m : bytes) (u : uri) (fields : hmap) (ext : option N) : res herr (list (bytes * bytes)) :=
  match header_request m u fields ext with
  | Ok h => header_iter h
  | Err e => Err e
  | Panic s => Panic s
  end.
Definition send_response (status : N) (fields : hmap) : res herr (list (bytes * bytes)) :=
  header_iter (header_response status fields).
Definition send_trailers (fields : hmap) : res herr (list (bytes * bytes)) :=
  match header_trailer fields with
  | Ok h => header_iter h
  | Err e => Err e
  | Panic s => Panic s
  end.
