(* Model of the places where h3 compares a field-section size with a limit (C10).
     send     client/connection.rs SendRequest::send_request, server/stream.rs RequestStream::send_response,
              connection.rs RequestStream::send_trailers (both roles)
     receive  server/request.rs accept_with_frame + ResolvedRequest::resolve (the 431 answer),
              client/stream.rs recv_response and poll_recv_trailers (stop_sending), connection.rs poll_recv_trailers
     limit    shared_state.rs ConnectionState::settings(): the peer's SETTINGS once stored, Settings::default() before
   Comparison operators, which limit each site reads, the refusal status, the stop code and the default come from
   Gen/GenLimits.v; sizes and the running-size cancel come from Model/QpackStateless.v.
   What is written on a stream is represented by the payload of the HEADERS frame (framing is C14's subject). *)
From H3V Require Import Base.Bytes Gen.GenCodes Gen.GenQStateless Gen.GenLimits Model.Static Model.QpackStateless.

(* the shared settings cell: None until the peer's SETTINGS frame has been stored; then the value of
   SETTINGS_MAX_FIELD_SECTION_SIZE if the frame carried one *)
Definition peer_settings := option (option N).

(* settings().max_field_section_size *)
Definition limit_in_force (ps : peer_settings) : N :=
  match ps with
  | Some (Some p) => p
  | Some None => lim_default                   (* From<&frame::Settings>: unwrap_or(defaults...) *)
  | None => lim_default                        (* unwrap_or_default() *)
  end.

Definition exceeds (strict : bool) (size limit : N) : bool :=
  if strict then limit <? size else limit <=? size.

(* ---------------------------------------------------------------- send *)
Inductive send_out :=
| Sent (payload : bytes)                       (* Ok(()): one HEADERS frame with this payload was written *)
| SendTooBig (actual max : N)                  (* Err(StreamError::HeaderTooBig), nothing written *)
| SendFailed.                                  (* encode error / panic: not reachable, see C11 *)

Definition send_section (strict uses_peer : bool) (own : N) (ps : peer_settings) (fs : list field) : send_out :=
  match encode_stateless fs with
  | Ok (block, mem) =>
      let limit := if uses_peer then limit_in_force ps else own in
      if exceeds strict mem limit then SendTooBig mem limit else Sent block
  | _ => SendFailed
  end.

Definition send_request := send_section lim_send_request_strict lim_send_request_uses_peer.
Definition send_response := send_section lim_send_response_strict lim_send_response_uses_peer.
Definition send_trailers := send_section lim_send_trailers_strict lim_send_trailers_uses_peer.

(* ---------------------------------------------------------------- receive *)
Inductive recv_out :=
| Delivered (fs : list field)                  (* handed on to header validation (C12) *)
| RecvTooBig (actual max : N)                  (* StreamError::HeaderTooBig: stream scope *)
| RecvConnError (code : N)                     (* connection error with this code *)
| RecvPanic.

Definition recv_section (own_limit : bool) (code : N) (own : N) (ps : peer_settings) (bs : bytes) : recv_out :=
  let limit := if own_limit then own else limit_in_force ps in
  match decode_stateless (Some limit) bs with
  | Ok (fs, _) => Delivered fs
  | Err (DHeaderTooLong n) => RecvTooBig n limit
  | Err _ => RecvConnError code                   (* handle_connection_error_on_stream(InternalConnectionError { code, .. }) *)
  | Panic _ => RecvPanic
  end.

(* everything observable at a receive site *)
Record recv_obs := {
  ro_result : recv_out;
  ro_written : option bytes;                   (* HEADERS payload written on the same stream *)
  ro_stop : option N                           (* stop_sending code *)
}.

(* decimal digits of a status code, as octets *)
Definition status_octets (st : N) : bytes :=
  [48 + st / 100 mod 10; 48 + st / 10 mod 10; 48 + st mod 10].

(* Header::response(status, empty map) iterates to the single field (":status", digits) *)
Definition refusal_fields : list field := [([58; 115; 116; 97; 116; 117; 115], status_octets lim_refusal_status)].

(* server: accept_with_frame decodes; resolve() answers an oversized request *)
Definition server_recv_request (own : N) (ps : peer_settings) (bs : bytes) : recv_obs :=
  match recv_section lim_recv_request_own lim_recv_request_decomp_code own ps bs with
  | RecvTooBig n mx =>
      match send_response own ps refusal_fields with
      | Sent p => {| ro_result := RecvTooBig n mx; ro_written := Some p; ro_stop := None |}
      | SendTooBig a m =>
          if lim_refusal_send_error_propagates
          then {| ro_result := RecvTooBig a m; ro_written := None; ro_stop := None |}      (* `.await?` *)
          else {| ro_result := RecvTooBig n mx; ro_written := None; ro_stop := None |}
      | SendFailed => {| ro_result := RecvPanic; ro_written := None; ro_stop := None |}
      end
  | r => {| ro_result := r; ro_written := None; ro_stop := None |}
  end.

(* client: recv_response *)
Definition client_recv_response (own : N) (ps : peer_settings) (bs : bytes) : recv_obs :=
  match recv_section lim_recv_response_own lim_recv_response_decomp_code own ps bs with
  | RecvTooBig n mx => {| ro_result := RecvTooBig n mx; ro_written := None; ro_stop := Some lim_client_response_stop_code |}
  | r => {| ro_result := r; ro_written := None; ro_stop := None |}
  end.

(* trailers: connection.rs poll_recv_trailers; the client wrapper adds stop_sending *)
Definition server_recv_trailers (own : N) (ps : peer_settings) (bs : bytes) : recv_obs :=
  {| ro_result := recv_section lim_recv_trailers_own lim_recv_trailers_decomp_code own ps bs; ro_written := None; ro_stop := None |}.

Definition client_recv_trailers (own : N) (ps : peer_settings) (bs : bytes) : recv_obs :=
  match recv_section lim_recv_trailers_own lim_recv_trailers_decomp_code own ps bs with
  | RecvTooBig n mx => {| ro_result := RecvTooBig n mx; ro_written := None; ro_stop := Some lim_client_trailers_stop_code |}
  | r => {| ro_result := r; ro_written := None; ro_stop := None |}
  end.

(* ---------------------------------------------------------------- how the configured limit reaches a handle *)
(* Builder::max_field_section_size(L) -> Connection / SendRequest (-> SendRequest::clone) -> RequestStream::new
   (-> RequestStream::split: the receive half).  Each hop copies a value; WHICH value is read from the source
   (the lim_flow facts of Gen/GenLimits.v): the holder's own limit, the peer's settings(), or the literal 0. *)
Definition src_value (s : lim_src) (own : N) (ps : peer_settings) : N :=
  match s with
  | SrcOwn => own
  | SrcPeer => limit_in_force ps
  | SrcZero => 0
  end.

Inductive handle :=
| HClient (cloned : option peer_settings) (split : bool)   (* cloned = Some psc: through a clone taken when the settings cell was psc *)
| HServerRequest                                             (* the RequestResolver that decodes the request headers *)
| HServer (split : bool).                                    (* the RequestStream that reads request trailers *)

Definition own_at (h : handle) (configured : N) (ps : peer_settings) : N :=
  match h with
  | HClient cloned split =>
      let v1 := src_value lim_flow_builder_client configured ps in
      let v2 := match cloned with Some psc => src_value lim_flow_clone v1 psc | None => v1 end in
      let v3 := src_value lim_flow_client_stream v2 ps in
      if split then src_value lim_flow_split_recv v3 ps else v3
  | HServerRequest =>
      src_value lim_flow_server_resolver (src_value lim_flow_builder_server configured ps) ps
  | HServer split =>
      let v2 := src_value lim_flow_server_resolver (src_value lim_flow_builder_server configured ps) ps in
      let v3 := src_value lim_flow_server_stream v2 ps in
      if split then src_value lim_flow_split_recv v3 ps else v3
  end.

(* ---------------------------------------------------------------- which settings cell a SENDING handle reads *)
(* settings() reads the handle's own Arc<SharedState>; every constructor hop either shares the holder's cell (Arc clone /
   move) or makes a fresh one, which never receives the peer's SETTINGS (the lim_state facts of Gen/GenLimits.v) *)
Definition cell_view (c : lim_cell) (ps : peer_settings) : peer_settings :=
  match c with
  | SharedCell => ps
  | FreshCell => None
  end.

Inductive send_handle :=
| SRequest (via_clone : bool)                          (* SendRequest::send_request, primary handle or a clone *)
| SClientStream (via_clone split : bool)               (* client RequestStream::send_trailers, possibly on the send half of split() *)
| SServerStream (split : bool).                        (* server RequestStream::send_response / send_trailers *)

Definition settings_seen_by (h : send_handle) (ps : peer_settings) : peer_settings :=
  match h with
  | SRequest via_clone => if via_clone then cell_view lim_state_clone ps else ps
  | SClientStream via_clone split =>
      let v1 := if via_clone then cell_view lim_state_clone ps else ps in
      let v2 := cell_view lim_state_client_stream v1 in
      if split then cell_view lim_state_split_send v2 else v2
  | SServerStream split =>
      let v2 := cell_view lim_state_server_stream (cell_view lim_state_resolver ps) in
      if split then cell_view lim_state_split_send v2 else v2
  end.
