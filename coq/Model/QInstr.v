(* Model of h3/src/qpack/stream.rs (encoder / decoder stream instructions) and block.rs (field line
   representations, HeaderPrefix::{new,get}).  Instructions and representations are kept structured
   (constructors); their byte codecs (prefix integers + string literals) are the subject of C15/C11 and of the
   correspondence run, which parses the real wire bytes back into these constructors with the crate's own decoders. *)
From H3V Require Import Base.Bytes Gen.GenQpack Model.Vas.

(* 4.3 encoder instructions *)
Inductive einstr :=
| ISizeUpdate (size : N)
| IInsertStatic (index : N) (value : bytes)
| IInsertDyn (index : N) (value : bytes)
| IInsertLit (name value : bytes)
| IDuplicate (index : N).

(* 4.4 decoder instructions *)
Inductive dinstr :=
| DAck (sid : N)
| DCancel (sid : N)
| DIncrement (n : N).

(* 4.5 field line representations *)
Inductive brep :=
| BIndexedStatic (i : N)
| BIndexedDyn (i : N)
| BIndexedPost (i : N)
| BLitStaticName (i : N) (v : bytes)
| BLitDynName (i : N) (v : bytes)
| BLitPostName (i : N) (v : bytes)
| BLiteral (n v : bytes).

(* 4.5.1 encoded field section prefix *)
Record hprefix := mkPrefix { hp_eic : N; hp_sign : bool; hp_delta : N }.
Definition hp_zero : hprefix := mkPrefix 0 false 0.

Definition hblock := (hprefix * list brep)%type.

(* HeaderPrefix::new.  Panic 2201 = assert!(required <= total_inserted); 2202 = `% 0` when max_table_size < 32 *)
Definition hp_new (required base total max_size : N) : res unit hprefix :=
  if max_size =? 0 then Ok hp_zero
  else if required =? 0 then Ok hp_zero
  else if total <? required then Panic 2201
  else
    let '(sign, delta) := if base <? required then (true, required - base - 1) else (false, base - required) in
    let max_entries := max_size / q_max_entries_div_new in
    if q_eic_mul * max_entries =? 0 then Panic 2202
    else Ok (mkPrefix (required mod (q_eic_mul * max_entries) + q_eic_add) sign delta).

Inductive hp_err := HInvalidBase.

(* `x as isize` of a usize (two's complement reinterpretation) and the range of a checked isize result *)
Definition as_isize (x : N) : Z := if x <? 2 ^ 63 then Z.of_N x else (Z.of_N x - 2 ^ 64)%Z.
Definition isize_fits (z : Z) : bool := ((- 2 ^ 63 <=? z) && (z <? 2 ^ 63))%Z.

(* HeaderPrefix::get.  usize arithmetic on values read from the wire is checked (overflow-checks on):
   2203 = `% 0`, 2204 = addition overflow, 2205 = `insert_count + total_inserted - wrapped` underflows,
   2206 = the payload of the error, `required as isize - self.delta_base as isize - 1`, leaves the isize range
   (a Delta Base of 2^63 and more with the sign bit set: the cast makes it negative) *)
Definition hp_get (p : hprefix) (total max_size : N) : res hp_err (N * N) :=
  if max_size =? 0 then Ok (0, 0)
  else
    let required_r : res hp_err N :=
      if hp_eic p =? 0 then Ok 0
      else
        let ic := hp_eic p - 1 in
        let me := max_size / q_max_entries_div_get in
        if 2 * me =? 0 then Panic 2203
        else
          let wrapped := total mod (2 * me) in
          if usize_lim <=? ic + me then Panic 2204
          else
            let '(ic', wrapped') :=
              if ic + me <=? wrapped then (ic + 2 * me, wrapped)
              else if wrapped + me <? ic then (ic, wrapped + 2 * me)
              else (ic, wrapped) in
            if usize_lim <=? ic' + total then Panic 2204
            else if ic' + total <? wrapped' then Panic 2205
            else Ok (ic' + total - wrapped') in
    match required_r with
    | Panic s => Panic s
    | Err e => Err e
    | Ok required =>
        if required =? 0 then Ok (required, 0)
        else if negb (hp_sign p) then
          (if usize_lim <=? required + hp_delta p then Panic 2204 else Ok (required, required + hp_delta p))
        else if usize_lim <=? hp_delta p + 1 then Panic 2204
        else if required <? hp_delta p + 1 then
          let d := (as_isize required - as_isize (hp_delta p))%Z in
          if isize_fits d && isize_fits (d - 1) then Err HInvalidBase else Panic 2206
        else Ok (required, required - hp_delta p - 1)
    end.
