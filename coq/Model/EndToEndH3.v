(* C01: the pipeline the correspondence run executes as its model column, and about which
   C01_request_fidelity_reference_reader / C01_response_fidelity_reference_reader speak:
     header mapping  = the C12 model (Model/Headers.v over Model/HttpCrate.v)
     field sections  = the reference coding of Model/EndToEndRef.v (stand-in until C11's round trip is pinned)
     write side      = the C14 WriteBuf model drained under an acceptance script
     receive side    = the incremental reference reader of Model/EndToEndRef.v
   plus the construction of the `http` values from the strings of a case line (what Uri::try_from / HeaderName::from_bytes
   do: parse the path-and-query, lower-case the field names).  No proofs in this file. *)
From H3V Require Import Base.Bytes Model.HttpCrate Model.Headers Model.EndToEnd Model.EndToEndLayers Model.EndToEndRef.

Definition lower_ascii (b : N) : N := if (65 <=? b) && (b <=? 90) then b + 32 else b.
(* HeaderMap::append in the order given, names through HeaderName::from_bytes *)
Definition mk_hmap (fs : fieldl) : hmap := fold_left (fun m f => hm_append (map lower_ascii (fst f)) (snd f) m) fs [].

(* Uri::try_from of "s://a p" / "a" / "p": components as given, the path-and-query through PathAndQuery's parser *)
Definition mk_uri (s a p : option bytes) : option uri :=
  let q := match p with
           | Some (c :: r) => match path_parse (c :: r) with Ok q => Some q | _ => None end
           | _ => Some pq_empty
           end in
  match q with
  | None => None
  | Some q => Some {| u_scheme := s; u_authority := match a with Some x => x | None => [] end; u_path := q |}
  end.

Definition h3_grant : N := 2 ^ 62.

Definition h3_request_outcome (grease : option N) (m : message c12_request hmap) (ks sizes polls : list N)
  : option (list (aevent request hmap)) :=
  match wire c12_request hmap c12_fields_of_request c12_fields_of_trailers ref_encode_section c14_wire_write
             grease m (ks ++ repeat h3_grant (2 * (length (m_pieces m) + 3))) with
  | None => None
  | Some b =>
      Some (receiver_outcome request hmap c12_request_of_fields c12_trailers_of_fields ref_decode_section
              rstate ref_init ref_arrive ref_fin ref_poll
              (mk_history sizes polls (2 * length (m_pieces m) + 10) b))
  end.

Definition h3_response_outcome (grease : option N) (m : message c12_response hmap) (ks sizes polls : list N)
  : option (list (aevent response hmap)) :=
  match wire c12_response hmap c12_fields_of_response c12_fields_of_trailers ref_encode_section c14_wire_write
             grease m (ks ++ repeat h3_grant (2 * (length (m_pieces m) + 3))) with
  | None => None
  | Some b =>
      Some (receiver_outcome response hmap c12_response_of_fields c12_trailers_of_fields ref_decode_section
              rstate ref_init ref_arrive ref_fin ref_poll
              (mk_history sizes polls (2 * length (m_pieces m) + 10) b))
  end.
