(* C01: the pipeline the correspondence run executes as its model column, and about which
   C01_request_fidelity / C01_response_fidelity speak - every layer is the model of h3's own code:
     header mapping  = the C12 model (Model/Headers.v over Model/HttpCrate.v)
     field sections  = the C11 model of qpack::encode_stateless / decode_stateless (Model/QpackStateless.v)
     write side      = the C14 WriteBuf model drained under an acceptance script
     receive side    = the C02 + C03 models of FrameStream and RequestStream (server role for the request, client
                       role for the response) under a history of arrivals and calls
   plus the construction of the `http` values from the strings of a case line (what Uri::try_from / HeaderName::from_bytes
   do: parse the path-and-query, lower-case the field names).  No proofs in this file. *)
From H3V Require Import Base.Bytes Model.HttpCrate Model.Headers Model.EndToEnd Model.EndToEndLayers Model.RequestStream.

Definition lower_ascii (b : N) : N := if (65 <=? b) && (b <=? 90) then b + 32 else b.
(* HeaderMap::append in the order given, names through HeaderName::from_bytes *)
Definition mk_hmap (fs : fieldl) : hmap := fold_left (fun m f => hm_append (map lower_ascii (fst f)) (snd f) m) fs [].

(* Uri::try_from of "s://a p" / "a" / "p": components as given, the path-and-query through PathAndQuery's parser *)
Definition mk_uri (s a p : option bytes) : option uri :=
  let q := match p with
           | Some (c :: r) => match path_parse (c :: r) with Ok q => Some q | _ => None end
           | _ => Some pq_empty
           end in
  match q with
  | None => None
  | Some q => Some {| u_scheme := s; u_authority := match a with Some x => x | None => [] end; u_path := q |}
  end.

Definition h3_grant : N := 2 ^ 62.

Definition h3_request_outcome (grease : option N) (m : message c12_request hmap) (ks sizes polls : list N)
  : option (list (aevent request hmap)) :=
  match wire c12_request hmap c12_fields_of_request c12_fields_of_trailers c11_encode_section c14_wire_write
             grease m (ks ++ repeat h3_grant (2 * (length (m_pieces m) + 3))) with
  | None => None
  | Some b =>
      Some (receiver_outcome request hmap c12_request_of_fields c12_trailers_of_fields c11_decode_section
              c03_state c03_init c03_arrive c03_fin (c03_poll RServer)
              (mk_history sizes polls (length sizes + 2 * length (m_pieces m) + 10) b))
  end.

Definition h3_response_outcome (grease : option N) (m : message c12_response hmap) (ks sizes polls : list N)
  : option (list (aevent response hmap)) :=
  match wire c12_response hmap c12_fields_of_response c12_fields_of_trailers c11_encode_section c14_wire_write
             grease m (ks ++ repeat h3_grant (2 * (length (m_pieces m) + 3))) with
  | None => None
  | Some b =>
      Some (receiver_outcome response hmap c12_response_of_fields c12_trailers_of_fields c11_decode_section
              c03_state c03_init c03_arrive c03_fin (c03_poll RClient)
              (mk_history sizes polls (length sizes + 2 * length (m_pieces m) + 10) b))
  end.
