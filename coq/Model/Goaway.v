(* Model of graceful shutdown in h3:
     server::Connection::{accept, shutdown, poll_accept_request_stream_internal, poll_control (GOAWAY arm),
                          poll_requests_completion}             h3/src/server/connection.rs
     ConnectionInner::{shutdown, process_goaway}                h3/src/connection.rs
     client::Connection::poll_close (GOAWAY arm), SendRequest::send_request (closing test)
   Operators, addends, codes and "is this statement present" flags come from Gen/GenGoaway.v.
   StreamId arithmetic (`id + usize`, FIRST_REQUEST) is Model/Varint.v's sid_add / sid_new.
   Events are emitted in the observable vocabulary of Spec/GoawaySpec.v (types only). *)
From H3V Require Import Base.Bytes Gen.GenCodes Gen.GenVarint Gen.GenGoaway Model.Varint Spec.GoawaySpec.

Definition cmp_eval (c : cmpop) (a b : N) : bool :=
  match c with
  | CLt => a <? b | CLe => a <=? b | CGt => b <? a | CGe => b <=? a
  | CEq => a =? b | CNe => negb (a =? b)
  end.

(* StreamId::FIRST_REQUEST *)
Definition first_request : N :=
  sid_new first_request_index (if first_request_is_bi then Bi else Uni)
          (if first_request_is_client then Client else Server).

(* `x + max_requests` written k times, then `+ c` when a literal is present *)
Fixpoint add_times (k : nat) (id n : N) : N :=
  match k with O => id | S k' => add_times k' (sid_add id n) n end.
Definition add_const (id c : N) : N := if c =? 0 then id else sid_add id c.

(* server::Connection::shutdown: the identifier computed from last_accepted_stream *)
Definition shutdown_id (last : option N) (n : N) : N :=
  match last with
  | Some id => add_const (add_times (N.to_nat shutdown_some_adds_n) id n) shutdown_some_const
  | None => add_const (add_times (N.to_nat shutdown_none_adds_n) first_request n) shutdown_none_const
  end.

Record server := {
  s_last : option N;      (* last_accepted_stream *)
  s_sent : option N;      (* sent_closing *)
  s_recv : option N;      (* recv_closing *)
  s_ongoing : list N;     (* ongoing_streams (a set) *)
  s_chan : list N;        (* request_end channel: ids sent by dropped RequestEnds, FIFO *)
  s_inq : list N;         (* transport: peer bidi streams announced, not yet taken *)
  s_ctl : list N;         (* transport: GOAWAY frames on the peer's control stream, not yet read *)
  s_err : option N;       (* the connection error cell *)
  s_dead : bool           (* accept() has returned Err: the application stops using the connection *)
}.

Definition server0 : server :=
  {| s_last := None; s_sent := None; s_recv := None; s_ongoing := []; s_chan := [];
     s_inq := []; s_ctl := []; s_err := None; s_dead := false |}.

Definition set_insert (x : N) (l : list N) : list N := if existsb (N.eqb x) l then l else x :: l.
Definition set_remove (x : N) (l : list N) : list N := filter (fun y => negb (x =? y)) l.

(* ConnectionInner::shutdown(&mut sent_closing, max_id): frames written, new sent_closing *)
Definition inner_shutdown (sent : option N) (max_id : N) : list gev * option N :=
  match sent with
  | Some sent_id =>
      if guard_present && cmp_eval guard_cmp sent_id max_id then ([], sent)
      else ([EWire max_id], Some max_id)
  | None => ([EWire max_id], Some max_id)
  end.

Definition do_shutdown (s : server) (n : N) : list gev * server :=
  let '(w, sent') := inner_shutdown (s_sent s) (shutdown_id (s_last s) n) in
  (w, {| s_last := s_last s; s_sent := sent'; s_recv := s_recv s; s_ongoing := s_ongoing s;
         s_chan := s_chan s; s_inq := s_inq s; s_ctl := s_ctl s; s_err := s_err s; s_dead := s_dead s |}).

(* ConnectionInner::process_goaway over the queued frames; Some code = connection error *)
Fixpoint process_goaways (recv : option N) (ids : list N) : option N * option N :=
  match ids with
  | [] => (recv, None)
  | id :: r =>
      if order_present && (match recv with Some prev => cmp_eval order_cmp prev id | None => false end)
      then (recv, Some order_code)
      else process_goaways (Some id) r
  end.

(* poll_requests_completion: take everything out of the channel; Ready <-> nothing ongoing *)
Definition drain (ongoing chan : list N) : list N :=
  if completion_removes then fold_left (fun o id => set_remove id o) chan ongoing else ongoing.
Definition is_nil (l : list N) : bool := match l with [] => true | _ => false end.

Inductive answer := ASome (id : N) | ANone | APending.

(* the loop of poll_accept_request_stream_internal after the prologue (channel already drained):
   refused streams, the answer, what is left in the transport queue, last_accepted, ongoing *)
Fixpoint accept_loop (sent recv last : option N) (ongoing q : list N)
  : list gev * answer * list N * option N * list N :=
  match q with
  | [] =>
      let ready := is_nil ongoing in
      let done := if pending_needs_recv_closing then (match recv with Some _ => true | None => false end) && ready
                  else ready in
      ([], if done then ANone else APending, [], last, ongoing)
  | id :: q' =>
      if reject_present && (match sent with Some max_id => cmp_eval reject_cmp id max_id | None => false end)
      then
        let rej := ERejected id reject_stop_code reject_reset_code in
        if reject_none_if_idle && is_nil ongoing then ([rej], ANone, q', last, ongoing)
        else let '(out, a, q'', last', ong') := accept_loop sent recv last ongoing q' in
             (rej :: out, a, q'', last', ong')
      else
        let last' := if last_accepted_is_max
                     then (match last with Some l => Some (N.max l id) | None => Some id end)
                     else Some id in
        let inserted := if ongoing_insert_is_stream then id
                        else (match last' with Some v => v | None => id end) in
        ([], ASome id, q', last', if ongoing_insert then set_insert inserted ongoing else ongoing)
  end.

(* one poll of server::Connection::accept() (the transport never blocks a write) *)
Definition accept (s : server) : list gev * server :=
  match s_err s with
  | Some e =>
      ([EErr e], {| s_last := s_last s; s_sent := s_sent s; s_recv := s_recv s; s_ongoing := s_ongoing s;
                    s_chan := s_chan s; s_inq := s_inq s; s_ctl := s_ctl s; s_err := s_err s; s_dead := true |})
  | None =>
      let '(recv', err) := process_goaways (s_recv s) (s_ctl s) in
      match err with
      | Some e =>
          ([EErr e], {| s_last := s_last s; s_sent := s_sent s; s_recv := recv'; s_ongoing := s_ongoing s;
                        s_chan := s_chan s; s_inq := s_inq s; s_ctl := []; s_err := Some e; s_dead := true |})
      | None =>
          let ong := drain (s_ongoing s) (s_chan s) in
          let '(rej, a, q', last', ong') := accept_loop (s_sent s) recv' (s_last s) ong (s_inq s) in
          let s1 := {| s_last := last'; s_sent := s_sent s; s_recv := recv'; s_ongoing := ong';
                       s_chan := []; s_inq := q'; s_ctl := []; s_err := None; s_dead := false |} in
          match a with
          | ASome id => (rej ++ [EShown id], s1)
          | APending => (rej ++ [EPending], s1)
          | ANone =>
              match accept_none_shutdown with
              | Some n =>
                  if accept_none_only_if_unsent && (match s_sent s1 with Some _ => true | None => false end)
                  then (rej ++ [ENone], s1)
                  else let '(w, s2) := do_shutdown s1 n in (rej ++ w ++ [ENone], s2)
              | None => (rej ++ [ENone], s1)
              end
          end
      end
  end.

Definition with_inq (s : server) (q : list N) : server :=
  {| s_last := s_last s; s_sent := s_sent s; s_recv := s_recv s; s_ongoing := s_ongoing s;
     s_chan := s_chan s; s_inq := q; s_ctl := s_ctl s; s_err := s_err s; s_dead := s_dead s |}.
Definition with_ctl (s : server) (c : list N) : server :=
  {| s_last := s_last s; s_sent := s_sent s; s_recv := s_recv s; s_ongoing := s_ongoing s;
     s_chan := s_chan s; s_inq := s_inq s; s_ctl := c; s_err := s_err s; s_dead := s_dead s |}.
Definition with_chan (s : server) (c : list N) : server :=
  {| s_last := s_last s; s_sent := s_sent s; s_recv := s_recv s; s_ongoing := s_ongoing s;
     s_chan := c; s_inq := s_inq s; s_ctl := s_ctl s; s_err := s_err s; s_dead := s_dead s |}.
Definition with_err (s : server) (e : N) : server :=
  {| s_last := s_last s; s_sent := s_sent s; s_recv := s_recv s; s_ongoing := s_ongoing s;
     s_chan := s_chan s; s_inq := s_inq s; s_ctl := s_ctl s;
     s_err := match s_err s with Some e0 => Some e0 | None => Some e end; s_dead := s_dead s |}.

(* a RequestEnd is dropped: the id goes into the channel *)
Definition end_dropped (s : server) (id : N) : server :=
  if end_drop_sends then with_chan s (s_chan s ++ [id]) else s.

(* ---------- C08 histories: the application keeps the resolver of every request it was shown
   until `Complete id` drops it ---------- *)
Inductive gop := Arrive (id : N) | Shutdown (n : N) | Poll | Complete (id : N) | PeerGoaway (pid : N)
| Serve (id : N).   (* the application resolves the request it holds: served; nothing changes for the connection *)

Record gstate := { g_srv : server; g_live : list N }.   (* g_live: requests whose resolver is still held *)
Definition gstate0 : gstate := {| g_srv := server0; g_live := [] |}.

Fixpoint shown_ids (t : list gev) : list N :=
  match t with
  | [] => []
  | EShown id :: r => id :: shown_ids r
  | _ :: r => shown_ids r
  end.

Definition gstep (g : gstate) (o : gop) : list gev * gstate :=
  let s := g_srv g in
  if s_dead s then
    (* accept() has returned the connection error; the only thing the application may still try is shutdown(n):
       ConnectionInner::shutdown starts with the get_conn_error test *)
    match o, s_err s with
    | Shutdown n, Some e =>
        if shutdown_error_guard then ([EShutdown n; EErr e], g)
        else let '(w, s') := do_shutdown s n in (EShutdown n :: w, {| g_srv := s'; g_live := g_live g |})
    | _, _ => ([], g)
    end
  else
  match o with
  | Arrive id => ([EArrive id], {| g_srv := with_inq s (s_inq s ++ [id]); g_live := g_live g |})
  | Shutdown n => let '(w, s') := do_shutdown s n in (EShutdown n :: w, {| g_srv := s'; g_live := g_live g |})
  | Poll => let '(out, s') := accept s in
            (EPoll :: out, {| g_srv := s'; g_live := shown_ids out ++ g_live g |})
  | Complete id =>
      if existsb (N.eqb id) (g_live g)
      then ([EComplete id],
            {| g_srv := if end_created_at_accept then end_dropped s id else s;
               g_live := remove1 id (g_live g) |})
      else ([], g)
  | PeerGoaway pid => ([EPeerGoaway pid], {| g_srv := with_ctl s (s_ctl s ++ [pid]); g_live := g_live g |})
  | Serve _ => ([], g)
  end.

Fixpoint grun (g : gstate) (h : list gop) : list gev * gstate :=
  match h with
  | [] => ([], g)
  | o :: r => let '(out, g') := gstep g o in
              let '(out', g'') := grun g' r in (out ++ out', g'')
  end.

Definition gtrace (h : list gop) : list gev := fst (grun gstate0 h).

(* ---------- client ---------- *)
Record client := { c_recv : option N; c_closing : bool; c_ctl : list N; c_dead : bool; c_next : N;
                   c_credit : N;      (* transport: bidi streams we may still open *)
                   c_parked : bool }. (* a send_request future is suspended in poll_open_bidi *)
Definition client0 : client :=
  {| c_recv := None; c_closing := false; c_ctl := []; c_dead := false; c_next := 0; c_credit := 100; c_parked := false |}.

(* poll_close over the queued GOAWAY frames: recv_closing, closing flag, error *)
Fixpoint client_goaways (recv : option N) (closing : bool) (ids : list N) : option N * bool * option N :=
  match ids with
  | [] => (recv, closing, None)
  | id :: r =>
      if kind_present && (if kind_negated then negb (sid_is_request id) else sid_is_request id)
      then (recv, closing, Some kind_code)
      else if client_processes then
        if order_present && (match recv with Some prev => cmp_eval order_cmp prev id | None => false end)
        then (recv, closing, Some order_code)
        else client_goaways (Some id) (closing || process_sets_closing) r
      else client_goaways recv closing r
  end.

Definition cl_drive (c : client) (recv : option N) (closing : bool) (dead : bool) : client :=
  {| c_recv := recv; c_closing := closing; c_ctl := []; c_dead := dead; c_next := c_next c;
     c_credit := c_credit c; c_parked := c_parked c |}.
Definition cl_stream (c : client) (next credit : N) (parked : bool) : client :=
  {| c_recv := c_recv c; c_closing := c_closing c; c_ctl := c_ctl c; c_dead := c_dead c; c_next := next;
     c_credit := credit; c_parked := parked |}.

(* SendRequest::send_request, one poll: the closing test before the await on poll_open_bidi (skipped by a
   future that is already suspended there), poll_open_bidi, the closing test after it (reset of the fresh stream) *)
Definition send_request_poll (c : client) : list cev * client :=
  let closing := closing_test_reads_flag && c_closing c in
  if negb (c_parked c) && closing_test_first && closing then ([CRequest; CReqClosing], c)
  else if c_credit c =? 0 then ([CRequest; CReqParked], cl_stream c (c_next c) 0 true)
  else if closing_retest_after_open && closing
       then ([CRequest; CReqCancelled (c_next c) closing_retest_reset_code], cl_stream c (c_next c + 4) (c_credit c - 1) false)
       else ([CRequest; CReqOpened (c_next c)], cl_stream c (c_next c + 4) (c_credit c - 1) false).

Definition cstep (c : client) (o : cop) : list cev * client :=
  if c_dead c then ([], c) else
  match o with
  | KGoaway id => ([CGoaway id], {| c_recv := c_recv c; c_closing := c_closing c; c_ctl := c_ctl c ++ [id];
                                    c_dead := false; c_next := c_next c; c_credit := c_credit c; c_parked := c_parked c |})
  | KDrive =>
      let '(recv', closing', err) := client_goaways (c_recv c) (c_closing c) (c_ctl c) in
      match err with
      | Some e => ([CDrive; CDriveErr e], cl_drive c recv' closing' true)
      | None => ([CDrive; CDriveIdle], cl_drive c recv' closing' false)
      end
  | KStarve => ([CStarve], cl_stream c (c_next c) 0 (c_parked c))
  | KGrant n => ([CGrant n], cl_stream c (c_next c) (c_credit c + n) (c_parked c))
  | KRequest => send_request_poll c
  end.

Fixpoint crun (c : client) (h : list cop) : list cev :=
  match h with
  | [] => []
  | o :: r => let '(out, c') := cstep c o in out ++ crun c' r
  end.
