(* Model of h3/src/stream.rs `AcceptRecvStream::{new, poll_next_varint, poll_type, into_stream}` together with
   the parts of `BufRecvStream` it uses (`poll_read`, `buf_mut`, the `eos` flag).

   State: the bytes buffered so far as ONE flat list (the BufList is only read through
   `remaining / chunk()[0] / VarInt::decode`, which see the flat view; its chunk structure is not visible here -
   evidence for that is the correspondence run over all chunkings, cf. Model/FrameDec.v), the `eos` flag, the
   resolved type, the resolved push/session id, and the `expected` memo.  The transport's queue of undelivered
   events for the stream is an explicit argument and result.
   The two decision points of `poll_next_varint` (is the memo reset after a decode?  is the buffer looked at
   before the transport is polled?) come from Gen/GenStreamTypes.v; both behaviours are modelled.
   Panics: 20 = debug_assert in BufList::push_bytes (empty chunk), 1/2 from VarInt::decode (unreachable!),
   60 = `chunk()[0]` on an empty buffer (unreachable: guarded by remaining() >= 1),
   61 = `expect("Session ID not resolved yet")`, 62 = `expect("Stream type not resolved yet")`. *)
From H3V Require Import Base.Bytes Gen.GenCodes Gen.GenVarint Gen.GenStreamTypes Spec.FrameVocab
  Model.Varint Model.FrameStream.

Record arecv := { ar_buf : bytes; ar_eos : bool; ar_ty : option N; ar_sid : option N; ar_memo : option N }.

Definition ar_new : arecv := {| ar_buf := []; ar_eos := false; ar_ty := None; ar_sid := None; ar_memo := None |}.

Definition ar_with_buf (s : arecv) (b : bytes) : arecv :=
  {| ar_buf := b; ar_eos := ar_eos s; ar_ty := ar_ty s; ar_sid := ar_sid s; ar_memo := ar_memo s |}.
Definition ar_with_memo (s : arecv) (m : option N) : arecv :=
  {| ar_buf := ar_buf s; ar_eos := ar_eos s; ar_ty := ar_ty s; ar_sid := ar_sid s; ar_memo := m |}.
Definition ar_set_eos (s : arecv) : arecv :=
  {| ar_buf := ar_buf s; ar_eos := true; ar_ty := ar_ty s; ar_sid := ar_sid s; ar_memo := ar_memo s |}.
Definition ar_with_ty (s : arecv) (t : N) : arecv :=
  {| ar_buf := ar_buf s; ar_eos := ar_eos s; ar_ty := Some t; ar_sid := ar_sid s; ar_memo := ar_memo s |}.
Definition ar_with_sid (s : arecv) (t : N) : arecv :=
  {| ar_buf := ar_buf s; ar_eos := ar_eos s; ar_ty := ar_ty s; ar_sid := Some t; ar_memo := ar_memo s |}.

Inductive pterr :=
| PEnd                      (* PollTypeError::EndOfStream: closed or reset before the header was complete *)
| PInternal (code : N)      (* PollTypeError::InternalError *)
| PIncoming (e : qerr).     (* PollTypeError::IncomingError: the connection was lost *)

(* `if self.expected.is_none() && buf.remaining() >= 1 { self.expected = Some(VarInt::encoded_size(buf.chunk()[0])) }` *)
Definition pnv_memo (s : arecv) : arecv :=
  match ar_memo s, ar_buf s with
  | None, b0 :: _ => ar_with_memo s (Some (vi_encoded_size b0))
  | _, _ => s
  end.

(* `if matches!(self.expected, Some(e) if buf.remaining() >= e) { VarInt::decode(..) .. }`; None = not taken *)
Definition pnv_try (s : arecv) : option (res pterr N * arecv) :=
  match ar_memo s with
  | Some e =>
      if e <=? len (ar_buf s) then
        match vi_decode (ar_buf s) with
        | (Ok v, rest) =>
            Some (Ok v, ar_with_memo (ar_with_buf s rest) (if pnv_memo_reset then None else ar_memo s))
        | (Err _, rest) => Some (Err (PInternal code_pnv_internal), ar_with_buf s rest)
        | (Panic n, rest) => Some (Panic n, ar_with_buf s rest)
        end
      else None
  | None => None
  end.

Definition ar_push (s : arecv) (b : bytes) : arecv := ar_with_buf s (ar_buf s ++ b).

(* the round after `stream_stopped` became Some: buffer check once more, then EndOfStream *)
Definition pnv_stopped_round (s : arecv) (q : rx) : poll (res pterr N) * arecv * rx :=
  let s1 := pnv_memo s in
  match pnv_try s1 with
  | Some (r, s2) => (Ready r, s2, q)
  | None => (Ready (Err PEnd), s1, q)
  end.

(* the loop as it is written today: buffer first, then the transport *)
Fixpoint pnv_buffer_then_transport (s : arecv) (q : rx) : poll (res pterr N) * arecv * rx :=
  let s1 := pnv_memo s in
  match pnv_try s1 with
  | Some (r, s2) => (Ready r, s2, q)
  | None =>
      match q with
      | [] => (Pending, s1, [])
      | Chunk [] :: _ => (Ready (Panic 20), s1, q)
      | Chunk b :: q' => pnv_buffer_then_transport (ar_push s1 b) q'
      | Fin :: _ => pnv_stopped_round (ar_set_eos s1) q
      | Abort (QTerminated _) :: _ => pnv_stopped_round s1 q
      | Abort e :: _ => (Ready (Err (PIncoming e)), s1, q)
      end
  end.

(* the other statement order: the transport is polled before the buffer is looked at *)
Fixpoint pnv_transport_then_buffer (s : arecv) (q : rx) : poll (res pterr N) * arecv * rx :=
  match q with
  | [] => (Pending, s, [])
  | Chunk [] :: _ => (Ready (Panic 20), s, q)
  | Chunk b :: q' =>
      let s1 := pnv_memo (ar_push s b) in
      match pnv_try s1 with
      | Some (r, s2) => (Ready r, s2, q')
      | None => pnv_transport_then_buffer s1 q'
      end
  | Fin :: _ => pnv_stopped_round (ar_set_eos s) q
  | Abort (QTerminated _) :: _ => pnv_stopped_round s q
  | Abort e :: _ => (Ready (Err (PIncoming e)), s, q)
  end.

Definition poll_next_varint (s : arecv) (q : rx) : poll (res pterr N) * arecv * rx :=
  if pnv_buffer_first then pnv_buffer_then_transport s q else pnv_transport_then_buffer s q.

Definition memN (x : N) (l : list N) : bool := existsb (N.eqb x) l.

(* second half of poll_type: the push id / session id *)
Definition poll_type_id (s : arecv) (q : rx) : poll (res pterr unit) * arecv * rx :=
  match ar_ty s, ar_sid s with
  | Some t, None =>
      if memN t two_varint_types then
        match poll_next_varint s q with
        | (Ready (Ok v), s1, q1) => (Ready (Ok tt), ar_with_sid s1 v, q1)
        | (Ready (Err e), s1, q1) => (Ready (Err e), s1, q1)
        | (Ready (Panic n), s1, q1) => (Ready (Panic n), s1, q1)
        | (Pending, s1, q1) => (Pending, s1, q1)
        end
      else (Ready (Ok tt), s, q)
  | _, _ => (Ready (Ok tt), s, q)
  end.

Definition poll_type (s : arecv) (q : rx) : poll (res pterr unit) * arecv * rx :=
  match ar_ty s with
  | Some _ => poll_type_id s q
  | None =>
      match poll_next_varint s q with
      | (Ready (Ok v), s1, q1) => poll_type_id (ar_with_ty s1 v) q1
      | (Ready (Err e), s1, q1) => (Ready (Err e), s1, q1)
      | (Ready (Panic n), s1, q1) => (Ready (Panic n), s1, q1)
      | (Pending, s1, q1) => (Pending, s1, q1)
      end
  end.

(* into_stream: which AcceptedRecvStream variant *)
Fixpoint kind_assoc (t : N) (l : list (N * uni_kind)) : uni_kind :=
  match l with
  | [] => UUnknown
  | (t', k) :: r => if t =? t' then k else kind_assoc t r
  end.
Definition into_stream_kind (s : arecv) : res pterr uni_kind :=
  match ar_ty s with
  | None => Panic 62
  | Some t =>
      match kind_assoc t into_stream_arms, ar_sid s with
      | UWebTransportUni, None => Panic 61
      | k, _ => Ok k
      end
  end.

(* FrameStream::new(self.stream): the BufRecvStream keeps what is buffered and its eos flag *)
Definition into_frame_stream (s : arecv) : fstream :=
  {| st_buf := match ar_buf s with [] => [] | b => [b] end; st_eos := ar_eos s; st_memo := None; st_rem := 0; st_q := [] |}.

(* ---------- one stream over a history: arrivals (appended by the transport unless a terminal event is already
   queued) interleaved with calls of poll_type; no call after the stream was resolved, dropped or failed ---------- *)
Inductive arun_status := ARWaiting | ARResolved (ty : N) (id : option N) | ARDropped | ARFailed.
Record arun := { h_s : arecv; h_q : rx; h_st : arun_status }.
Definition arun_init : arun := {| h_s := ar_new; h_q := []; h_st := ARWaiting |}.
Definition arun_arrive (x : arun) (e : ev) : arun :=
  {| h_s := h_s x; h_q := if terminated (h_q x) then h_q x else h_q x ++ [e]; h_st := h_st x |}.
Definition arun_poll (x : arun) : arun :=
  match h_st x with
  | ARWaiting =>
      match poll_type (h_s x) (h_q x) with
      | (Ready (Ok _), s', q') =>
          {| h_s := s'; h_q := q';
             h_st := match ar_ty s' with Some t => ARResolved t (ar_sid s') | None => ARFailed end |}
      | (Ready (Err PEnd), s', q') => {| h_s := s'; h_q := q'; h_st := ARDropped |}
      | (Ready _, s', q') => {| h_s := s'; h_q := q'; h_st := ARFailed |}
      | (Pending, s', q') => {| h_s := s'; h_q := q'; h_st := ARWaiting |}
      end
  | _ => x
  end.
