(* Model of the request life cycle seen by server::Connection's accounting of ongoing requests:
     create_resolver_internal (RequestEnd created when the stream is accepted),
     RequestResolver::accept_with_frame (the RequestEnd moves into the RequestStream; the resolver is
       consumed - and dropped - on every failure path; QPACK / first-frame failures set the connection error),
     RequestStream::split (both halves share the Arc<RequestEnd>), impl Drop for RequestEnd (-> channel),
     poll_requests_completion / the None decision of accept (Model/Goaway.v: accept).
   A handle-table entry records what the application holds (Spec/DrainSpec.v vocabulary) and whether
   those objects own a RequestEnd; the id goes into the channel when the last owner is dropped. *)
From H3V Require Import Base.Bytes Gen.GenCodes Gen.GenGoaway Spec.GoawaySpec Spec.DrainSpec Model.Goaway.

Record world := { w_srv : server; w_handles : list (N * (aobj * bool)) }.
Definition world0 : world := {| w_srv := server0; w_handles := [] |}.

(* the accept task: accept() again and again until it does not hand out a request *)
Fixpoint poll_all (fuel : nat) (w : world) : list gev * world :=
  match fuel with
  | O => ([], w)
  | S k =>
      let '(out, s') := accept (w_srv w) in
      match shown_ids out with
      | id :: _ =>
          let w' := {| w_srv := s'; w_handles := w_handles w ++ [(id, (AResolver, end_created_at_accept))] |} in
          let '(out', w'') := poll_all k w' in (out ++ out', w'')
      | [] => (out, {| w_srv := s'; w_handles := w_handles w |})
      end
  end.

Fixpoint send_n (k : nat) (s : server) (id : N) : server :=
  match k with O => s | S k' => send_n k' (end_dropped s id) id end.

(* RequestEnd accounting of one operation on a request whose objects own a RequestEnd iff [has_end]:
   number of RequestEnds dropped, ownership afterwards, connection error raised *)
Definition end_effect (has_end : bool) (op : dop) (gone : bool) : nat * bool * option N :=
  match op with
  | DHeadersOk _ =>
      (* accept_with_frame builds the RequestStream: the resolver's RequestEnd moves into it, or a new one
         is created there (and the resolver's own, if any, is dropped with the resolver) *)
      if end_moved_from_resolver then (O, has_end, None)
      else ((if has_end then 1 else 0)%nat, true, None)
  | DHeadersFail _ KMalformed | DHeadersFail _ KTooBig =>
      (* the RequestStream exists when the header fields turn out to be malformed / too large (the 431
         response is sent on it); it is dropped when resolve() returns the error *)
      if end_moved_from_resolver then ((if has_end then 1 else 0)%nat, false, None)
      else ((if has_end then 2 else 1)%nat, false, None)
  | DHeadersFail _ k =>
      ((if has_end then 1 else 0)%nat, false,
       match k with
       | KBadQpack => Some headers_qpack_code
       | KUnexpected => Some headers_unexpected_code
       | KTruncFin => Some headers_truncated_code
       | _ => None
       end)
  | _ => ((if gone && has_end then 1 else 0)%nat, has_end, None)
  end.

Definition dstep (w : world) (o : dop) : list dev * world :=
  let s := w_srv w in
  if s_dead s then ([], w) else
  match o with
  | DArrive id => ([DI o], {| w_srv := with_inq s (s_inq s ++ [id]); w_handles := w_handles w |})
  | DPeerGoaway pid => ([DI o], {| w_srv := with_ctl s (s_ctl s ++ [pid]); w_handles := w_handles w |})
  | DPoll => let '(out, w') := poll_all (S (length (s_inq s))) w in (DI DPoll :: map DO out, w')
  | _ =>
      match op_target o with
      | None => ([], w)
      | Some id =>
          match lookup id (w_handles w) with
          | None => ([], w)
          | Some (obj, has_end) =>
              match obj_update obj o with
              | None => ([], w)
              | Some obj' =>
                  let gone := match obj' with None => true | Some _ => false end in
                  let '(sends, has_end', err) := end_effect has_end o gone in
                  let s1 := send_n sends s id in
                  let s2 := match err with Some e => with_err s1 e | None => s1 end in
                  ([DI o],
                   {| w_srv := s2;
                      w_handles := update id (match obj' with Some ob => Some (ob, has_end') | None => None end)
                                          (w_handles w) |})
              end
          end
      end
  end.

Fixpoint drun (w : world) (h : list dop) : list dev * world :=
  match h with
  | [] => ([], w)
  | o :: r => let '(out, w') := dstep w o in
              let '(out', w'') := drun w' r in (out ++ out', w'')
  end.

Definition dtrace (h : list dop) : list dev := fst (drun world0 h).
