(* Model of the instruction PARSERS of h3/src/qpack/stream.rs (EncoderInstruction::decode / DecoderInstruction::decode and
   the per-instruction `decode` functions) and of their callers Decoder::parse_instruction (decoder.rs) and Action::parse
   (encoder.rs), over the prefix-integer / string-literal models of C15, plus the receive loops of on_encoder_recv /
   on_decoder_recv as far as parsing is concerned (`while let Some(instruction) = parse(read)? { .. }`).

   Conventions: the `read: &mut impl Buf` argument is ONE contiguous byte string (both callers parse
   `Cursor::new(read.chunk())`, i.e. the first chunk only); a per-instruction `decode` returns
   `Result<Option<X>, ParseError>` and leaves the cursor somewhere - modelled as `res perr (option (X * rest))`, where
   `rest` is what the cursor has not read; `buf.position()` is then `len bs - len rest`.  The table look-ups that
   parse_instruction performs on a parsed instruction (get_relative / StaticTable::get) are Model/QDecoder.dec_resolve.
   The masks and prefix sizes below are literal copies of stream.rs; translate/gen_qpack.py compares the whole text of
   stream.rs, decoder.rs and encoder.rs with the recorded source on every run, q_increment_limit is read from it. *)
From H3V Require Import Base.Bytes Gen.GenQpack Model.PrefixInt Model.PrefixString Model.QInstr.

Inductive perr :=
| PEInteger (e : pi_err)          (* ParseError::Integer *)
| PEString (e : ps_err)           (* ParseError::String *)
| PEInvalidPrefix (flags : N)     (* ParseError::InvalidPrefix(flags) *)
| PEUnknown (first : N).          (* DecoderError::UnknownPrefix(first) / EncoderError::UnknownDecoderInstruction(first) *)

Inductive presult (A : Type) :=
| PComplete (x : A) (used : N)    (* Ok(Some(x)); `read.advance(buf.position())` consumed `used` bytes *)
| PIncomplete                     (* Ok(None): nothing consumed *)
| PError (e : perr)               (* Err(_): nothing consumed *)
| PPanic (site : N).
Arguments PComplete {A} x used.
Arguments PIncomplete {A}.
Arguments PError {A} e.
Arguments PPanic {A} site.

Definition dres (A : Type) := res perr (option (A * bytes)).

(* `match prefix_int::decode(size, buf) { Err(UnexpectedEnd) => return Ok(None), Err(e) => return Err(e.into()), Ok(..) }` *)
Definition with_int {A} (size : N) (bs : bytes) (k : N -> N -> bytes -> dres A) : dres A :=
  match pi_decode size bs with
  | Panic s => Panic s
  | Err PiUnexpectedEnd => Ok None
  | Err e => Err (PEInteger e)
  | Ok (f, x, r) => k f x r
  end.

(* the same for prefix_string::decode *)
Definition with_str {A} (size : N) (bs : bytes) (k : bytes -> bytes -> dres A) : dres A :=
  match ps_decode size bs with
  | Panic s => Panic s
  | Err PsUnexpectedEnd => Ok None
  | Err e => Err (PEString e)
  | Ok (v, r) => k v r
  end.

Definition u64_max : N := 18446744073709551615.

(* ------------------------------------------------------------------ 4.3 encoder instructions *)
Inductive ekind := KInsertWithNameRef | KInsertWithoutNameRef | KDuplicate | KSizeUpdate | KEUnknown.

(* EncoderInstruction::decode(first) *)
Definition ekind_of (first : N) : ekind :=
  if negb (N.land first 128 =? 0) then KInsertWithNameRef
  else if N.land first 64 =? 64 then KInsertWithoutNameRef
  else if N.land first 224 =? 0 then KDuplicate
  else if N.land first 32 =? 32 then KSizeUpdate
  else KEUnknown.

(* InsertWithNameRef::decode: index first (6-bit prefix, flags 1T), then the value; `index.try_into::<usize>()` of a u64
   cannot fail on a 64-bit target *)
Definition dec_insert_name_ref (bs : bytes) : dres einstr :=
  with_int 6 bs (fun f idx r =>
    if negb (N.land f 2 =? 2) then Err (PEInvalidPrefix f)
    else with_str 8 r (fun v r' =>
      Ok (Some (if N.land f 1 =? 1 then IInsertStatic idx v else IInsertDyn idx v, r')))).

(* InsertWithoutNameRef::decode: name first (prefix_string::decode(6, ..): 5-bit length, H above it), then the value *)
Definition dec_insert_literal (bs : bytes) : dres einstr :=
  with_str 6 bs (fun n r => with_str 8 r (fun v r' => Ok (Some (IInsertLit n v, r')))).

(* Duplicate::decode *)
Definition dec_duplicate (bs : bytes) : dres einstr :=
  with_int 5 bs (fun f x r =>
    if f =? 0 then (if u64_max <? x then Err (PEInteger PiOverflow) else Ok (Some (IDuplicate x, r)))
    else Err (PEInvalidPrefix f)).

(* DynamicTableSizeUpdate::decode *)
Definition dec_size_update (bs : bytes) : dres einstr :=
  with_int 5 bs (fun f x r =>
    if f =? 1 then (if u64_max <? x then Err (PEInteger PiOverflow) else Ok (Some (ISizeUpdate x, r)))
    else Err (PEInvalidPrefix f)).

Definition finish {A} (bs : bytes) (r : dres A) : presult A :=
  match r with
  | Ok (Some (x, rest)) => PComplete x (len bs - len rest)     (* read.advance(buf.position()) *)
  | Ok None => PIncomplete
  | Err e => PError e
  | Panic s => PPanic s
  end.

(* Decoder::parse_instruction, without the table look-ups *)
Definition parse_einstr (bs : bytes) : presult einstr :=
  match bs with
  | [] => PIncomplete                                            (* read.remaining() < 1 *)
  | first :: _ =>
      match ekind_of first with
      | KEUnknown => PError (PEUnknown first)
      | KSizeUpdate => finish bs (dec_size_update bs)
      | KInsertWithoutNameRef => finish bs (dec_insert_literal bs)
      | KDuplicate => finish bs (dec_duplicate bs)
      | KInsertWithNameRef => finish bs (dec_insert_name_ref bs)
      end
  end.

(* ------------------------------------------------------------------ 4.4 decoder instructions *)
Inductive dkind := KIncrement | KHeaderAck | KStreamCancel | KDUnknown.

(* DecoderInstruction::decode(first) *)
Definition dkind_of (first : N) : dkind :=
  if N.land first 192 =? 0 then KIncrement
  else if negb (N.land first 128 =? 0) then KHeaderAck
  else if N.land first 64 =? 64 then KStreamCancel
  else KDUnknown.

(* InsertCountIncrement::decode: `if x > 64 { Overflow }; x as u8` *)
Definition dec_increment (bs : bytes) : dres dinstr :=
  with_int 6 bs (fun f x r =>
    if f =? 0 then (if q_increment_limit <? x then Err (PEInteger PiOverflow) else Ok (Some (DIncrement x, r)))
    else Err (PEInvalidPrefix f)).

(* HeaderAck::decode *)
Definition dec_header_ack (bs : bytes) : dres dinstr :=
  with_int 7 bs (fun f x r => if f =? 1 then Ok (Some (DAck x, r)) else Err (PEInvalidPrefix f)).

(* StreamCancel::decode *)
Definition dec_stream_cancel (bs : bytes) : dres dinstr :=
  with_int 6 bs (fun f x r => if f =? 1 then Ok (Some (DCancel x, r)) else Err (PEInvalidPrefix f)).

(* Action::parse *)
Definition parse_dinstr (bs : bytes) : presult dinstr :=
  match bs with
  | [] => PIncomplete
  | first :: _ =>
      match dkind_of first with
      | KDUnknown => PError (PEUnknown first)
      | KIncrement => finish bs (dec_increment bs)
      | KHeaderAck => finish bs (dec_header_ack bs)
      | KStreamCancel => finish bs (dec_stream_cancel bs)
      end
  end.

(* ------------------------------------------------------------------ the receive loops *)
Inductive pstop :=
| StopIncomplete                  (* the loop ended on Ok(None): the function goes on and returns Ok *)
| StopError (e : perr)            (* `?` returned the parse error; the instructions before it have been applied *)
| StopPanic (site : N).

(* `while let Some(instruction) = parse(read)? { apply }`: the instructions parsed in order, the unconsumed tail and why
   the loop stopped.  Every complete instruction consumes at least one byte, so `S (length bs)` rounds are enough; running
   out of fuel (a parser claiming to have consumed nothing) is reported as StopPanic 2601 and proved unreachable. *)
Fixpoint parse_all_fuel {A} (p : bytes -> presult A) (fuel : nat) (bs : bytes) : list A * bytes * pstop :=
  match fuel with
  | O => ([], bs, StopPanic 2601)
  | S f =>
      match p bs with
      | PComplete x used =>
          let '(xs, tail, st) := parse_all_fuel p f (skipn (N.to_nat used) bs) in (x :: xs, tail, st)
      | PIncomplete => ([], bs, StopIncomplete)
      | PError e => ([], bs, StopError e)
      | PPanic s => ([], bs, StopPanic s)
      end
  end.

Definition parse_all {A} (p : bytes -> presult A) (bs : bytes) : list A * bytes * pstop :=
  parse_all_fuel p (S (length bs)) bs.

(* a receiver that is handed the stream in pieces: every call sees the unconsumed tail of the previous call followed by
   the next piece (what a caller of on_encoder_recv / on_decoder_recv has to do, and what the correspondence run does) *)
Fixpoint feed {A} (p : bytes -> presult A) (tail : bytes) (chunks : list bytes) : list A * bytes * pstop :=
  match chunks with
  | [] => ([], tail, StopIncomplete)
  | c :: cs =>
      match parse_all p (tail ++ c) with
      | (xs, tail', StopIncomplete) => let '(ys, t, st) := feed p tail' cs in (xs ++ ys, t, st)
      | other => other
      end
  end.
