(* C01: reference layers that make the pipeline of Model/EndToEnd.v run end to end.

   They stand in for the component models of the other properties (which Proofs/EndToEndInst.v plugs in instead):
   * header mapping: proto/headers.rs Header::{request,response,trailer} + HeaderIter on the way out, TryFrom +
     into_request_parts / into_response_parts / into_fields on the way in, over already-validated `http` values
     (no character validation: that is C12);
   * field sections: a length-prefixed literal coding behind the two-byte QPACK prefix (NOT QPACK: that is C11);
   * frames: RFC 9114 7.1 type-length-value layout with the varint model of C16; a WriteBuf is its header chunk
     followed by its payload chunk, drained by the transport k bytes at a time;
   * the receiving FrameStream + RequestStream as one machine over the flat receive buffer: frame headers are
     read when complete, HEADERS and unknown frames need their whole payload, DATA payload is handed out as it
     arrives, the calls follow the documented pattern (first HEADERS; recv_data until None; recv_trailers).
   No proofs in this file. *)
From H3V Require Import Base.Bytes Model.Varint Model.EndToEnd Spec.EndToEndSpec.

(* ---------- header mapping ---------- *)
Definition k_method : bytes := [58; 109; 101; 116; 104; 111; 100].
Definition k_scheme : bytes := [58; 115; 99; 104; 101; 109; 101].
Definition k_authority : bytes := [58; 97; 117; 116; 104; 111; 114; 105; 116; 121].
Definition k_path : bytes := [58; 112; 97; 116; 104].
Definition k_status : bytes := [58; 115; 116; 97; 116; 117; 115].
Definition k_protocol : bytes := [58; 112; 114; 111; 116; 111; 99; 111; 108].

(* HeaderMap::into_iter as HeaderIter flattens it *)
Definition hm_iter (m : hgroups) : fieldl := flat_map (fun e => map (fun v => (fst e, v)) (snd e)) m.

Definition ref_fields_of_request (q : req_head) : option fieldl :=
  let hm := group_fields (q_fields q) in
  let host := match group_get s_host hm with Some (v :: _) => Some v | _ => None end in
  let ok := match q_authority q, host with
            | None, None => false
            | Some a, Some h => bytes_eqb a h
            | _, _ => true
            end in
  if negb ok then None else
  let is_connect := bytes_eqb (q_method q) s_CONNECT in
  let proto := if is_connect then q_protocol q else None in
  let connect := is_connect && match proto with None => true | Some _ => false end in
  Some ((k_method, q_method q) ::
        (if connect then [] else [(k_scheme, match q_scheme q with Some s => s | None => s_https end)]) ++
        match q_authority q with Some a => [(k_authority, a)] | None => [] end ++
        (if connect then [] else [(k_path, match q_path q with Some (c :: p) => c :: p | _ => s_slash end)]) ++
        match proto with Some x => [(k_protocol, x)] | None => [] end ++
        hm_iter hm).

Record pacc := { pa_method : option bytes; pa_scheme : option bytes; pa_authority : option bytes;
                 pa_path : option bytes; pa_status : option bytes; pa_protocol : option bytes; pa_map : hgroups }.
Definition pacc0 : pacc :=
  {| pa_method := None; pa_scheme := None; pa_authority := None; pa_path := None; pa_status := None; pa_protocol := None; pa_map := [] |}.

Definition pacc_step (a : option pacc) (f : bytes * bytes) : option pacc :=
  match a with
  | None => None
  | Some a =>
    let '(n, v) := f in
    match n with
    | 58 :: _ =>
        if bytes_eqb n k_method then
          Some {| pa_method := Some v; pa_scheme := pa_scheme a; pa_authority := pa_authority a; pa_path := pa_path a;
                  pa_status := pa_status a; pa_protocol := pa_protocol a; pa_map := pa_map a |}
        else if bytes_eqb n k_scheme then
          Some {| pa_method := pa_method a; pa_scheme := Some v; pa_authority := pa_authority a; pa_path := pa_path a;
                  pa_status := pa_status a; pa_protocol := pa_protocol a; pa_map := pa_map a |}
        else if bytes_eqb n k_authority then
          Some {| pa_method := pa_method a; pa_scheme := pa_scheme a; pa_authority := Some v; pa_path := pa_path a;
                  pa_status := pa_status a; pa_protocol := pa_protocol a; pa_map := pa_map a |}
        else if bytes_eqb n k_path then
          Some {| pa_method := pa_method a; pa_scheme := pa_scheme a; pa_authority := pa_authority a; pa_path := Some v;
                  pa_status := pa_status a; pa_protocol := pa_protocol a; pa_map := pa_map a |}
        else if bytes_eqb n k_status then
          Some {| pa_method := pa_method a; pa_scheme := pa_scheme a; pa_authority := pa_authority a; pa_path := pa_path a;
                  pa_status := Some v; pa_protocol := pa_protocol a; pa_map := pa_map a |}
        else if bytes_eqb n k_protocol then
          Some {| pa_method := pa_method a; pa_scheme := pa_scheme a; pa_authority := pa_authority a; pa_path := pa_path a;
                  pa_status := pa_status a; pa_protocol := Some v; pa_map := pa_map a |}
        else None
    | _ =>
        Some {| pa_method := pa_method a; pa_scheme := pa_scheme a; pa_authority := pa_authority a; pa_path := pa_path a;
                pa_status := pa_status a; pa_protocol := pa_protocol a; pa_map := group_add n v (pa_map a) |}
    end
  end.
Definition pacc_of (fs : fieldl) : option pacc := fold_left pacc_step fs (Some pacc0).

Definition ref_request_of_fields (fs : fieldl) : option req_seen :=
  match pacc_of fs with
  | None => None
  | Some a =>
    let host := match group_get s_host (pa_map a) with Some (v :: _) => Some v | _ => None end in
    let auth := match pa_authority a, host with
                | None, None => None
                | Some x, None => Some x
                | None, Some h => Some h
                | Some x, Some h => if bytes_eqb x h then Some h else None
                end in
    match pa_method a, auth with
    | Some m, Some au =>
        Some {| v_method := m; v_scheme := pa_scheme a; v_authority := Some au; v_path := pa_path a;
                v_protocol := pa_protocol a; v_fields := pa_map a |}
    | _, _ => None
    end
  end.

Definition digits3 (n : N) : bytes := [48 + n / 100; 48 + (n / 10) mod 10; 48 + n mod 10].
Definition ref_fields_of_response (p : resp_head) : option fieldl :=
  if (100 <=? rp_status p) && (rp_status p <=? 999)
  then Some ((k_status, digits3 (rp_status p)) :: hm_iter (group_fields (rp_fields p)))
  else None.
Definition ref_response_of_fields (fs : fieldl) : option resp_seen :=
  match pacc_of fs with
  | Some a =>
      match pa_status a with
      | Some [a1; a2; a3] =>
          Some {| w_status := (a1 - 48) * 100 + (a2 - 48) * 10 + (a3 - 48); w_fields := pa_map a |}
      | _ => None
      end
  | None => None
  end.

Definition ref_fields_of_trailers (t : fieldl) : option fieldl := Some (hm_iter (group_fields t)).
Definition ref_trailers_of_fields (fs : fieldl) : option hgroups :=
  match pacc_of fs with
  | Some a => Some (pa_map a)
  | None => None
  end.

(* ---------- field sections ---------- *)
Fixpoint ref_encode_lines (fs : fieldl) : option bytes :=
  match fs with
  | [] => Some []
  | (n, v) :: r =>
      match vi_encode (len n), vi_encode (len v), ref_encode_lines r with
      | Some a, Some b, Some c => Some (a ++ n ++ b ++ v ++ c)
      | _, _, _ => None
      end
  end.
Definition ref_encode_section (fs : fieldl) : option bytes :=
  match ref_encode_lines fs with Some b => Some (0 :: 0 :: b) | None => None end.

Fixpoint ref_decode_lines (fuel : nat) (b : bytes) : option fieldl :=
  match b with
  | [] => Some []
  | _ =>
    match fuel with
    | O => None
    | S f =>
      match vi_decode b with
      | (Ok ln, r1) =>
          if len r1 <? ln then None else
          let r2 := skipn (N.to_nat ln) r1 in
          match vi_decode r2 with
          | (Ok lv, r3) =>
              if len r3 <? lv then None else
              match ref_decode_lines f (skipn (N.to_nat lv) r3) with
              | Some fs => Some ((firstn (N.to_nat ln) r1, firstn (N.to_nat lv) r3) :: fs)
              | None => None
              end
          | _ => None
          end
      | _ => None
      end
    end
  end.
Definition ref_decode_section (b : bytes) : option fieldl :=
  match b with
  | 0 :: 0 :: r => ref_decode_lines (length r) r
  | _ => None
  end.

(* ---------- frames and the write side ---------- *)
Definition s_grease : bytes := [103; 114; 101; 97; 115; 101].
Definition opt_bytes (o : option bytes) : bytes := match o with Some b => b | None => [] end.
Definition ref_frame_header (f : sframe) : bytes :=
  match f with
  | SHeaders b => opt_bytes (vi_encode 1) ++ opt_bytes (vi_encode (len b))
  | SData p => opt_bytes (vi_encode 0) ++ opt_bytes (vi_encode (len p))
  | SGrease g => opt_bytes (vi_encode (31 * g + 33)) ++ opt_bytes (vi_encode (len s_grease))
  end.
Definition ref_frame_payload (f : sframe) : bytes :=
  match f with SHeaders b => b | SData p => p | SGrease _ => s_grease end.
Definition ref_frame_bytes (f : sframe) : bytes := ref_frame_header f ++ ref_frame_payload f.

(* the transport takes min(k, chunk) bytes per write from the current chunk of the WriteBuf; k = 0 is Pending.
   [n] is the length of [c] (threaded so that it is computed once per chunk). *)
Fixpoint drain_chunk (ks : list N) (c : bytes) (n : N) : option (list bytes * list N) :=
  match c with
  | [] => Some ([], ks)
  | _ =>
    match ks with
    | [] => None
    | k :: ks' =>
        let t := N.min k n in
        match drain_chunk ks' (skipn (N.to_nat t) c) (n - t) with
        | Some (out, rest) => Some (firstn (N.to_nat t) c :: out, rest)
        | None => None
        end
    end
  end.
Fixpoint ref_wire_pieces (fs : list sframe) (ks : list N) : option (list bytes) :=
  match fs with
  | [] => Some []
  | f :: r =>
      match drain_chunk ks (ref_frame_header f) (len (ref_frame_header f)) with
      | None => None
      | Some (o1, ks1) =>
          match drain_chunk ks1 (ref_frame_payload f) (len (ref_frame_payload f)) with
          | None => None
          | Some (o2, ks2) =>
              match ref_wire_pieces r ks2 with
              | Some o3 => Some (o1 ++ o2 ++ o3)
              | None => None
              end
          end
      end
  end.
Definition ref_wire_write (fs : list sframe) (ks : list N) : option bytes :=
  match ref_wire_pieces fs ks with Some ps => Some (concat ps) | None => None end.

(* ---------- the receiving side ----------
   FrameStream + RequestStream as one machine over the flat receive buffer, one frame header or one piece of DATA
   payload per call.  Frame headers are read with the RFC functions of Spec/Frames.v ([tlv_header], [classify]):
   this machine is the incremental version of the reference reader, not a model of h3's varint code (that is C16). *)
From H3V Require Import Spec.RFC9000 Spec.FrameVocab Spec.Frames Spec.EndToEndStream.

Inductive rphase := PFirst | PBody | PData (rem : N) | PTrailers (tb : option bytes) | PDone | PFailed.
Record rstate := { rs_buf : bytes; rs_fin : bool; rs_phase : rphase }.
Definition ref_init : rstate := {| rs_buf := []; rs_fin := false; rs_phase := PFirst |}.
Definition ref_arrive (c : bytes) (s : rstate) : rstate :=
  {| rs_buf := rs_buf s ++ c; rs_fin := rs_fin s; rs_phase := rs_phase s |}.
Definition ref_fin (s : rstate) : rstate := {| rs_buf := rs_buf s; rs_fin := true; rs_phase := rs_phase s |}.
Definition ref_done (s : rstate) : bool := match rs_phase s with PDone | PFailed => true | _ => false end.

Definition set_buf (b : bytes) (ph : rphase) (s : rstate) : rstate :=
  {| rs_buf := b; rs_fin := rs_fin s; rs_phase := ph |}.
Definition fail (s : rstate) : list ritem * rstate := ([RFail 1], set_buf (rs_buf s) PFailed s).
(* not enough bytes yet: Pending while the stream is open, an error once it has ended *)
Definition starve (s : rstate) : list ritem * rstate := if rs_fin s then fail s else ([], s).

(* the next complete frame header (and, except for DATA, the complete payload) *)
Inductive nf := NFMore | NFData (l : N) (rest : bytes) | NFFrame (c : class) (rest : bytes) | NFBad.
Definition next_frame (b : bytes) : nf :=
  match tlv_header b with
  | None => NFMore
  | Some (ty, l, r) =>
      if ty =? T_WEBTRANSPORT_STREAM then NFBad
      else if ty =? T_DATA then NFData l r
      else if len r <? l then NFMore
      else NFFrame (classify no_settings_check ty (firstn (N.to_nat l) r)) (skipn (N.to_nat l) r)
  end.

Definition ref_poll (s : rstate) : list ritem * rstate :=
  match rs_phase s with
  | PFirst =>
      match next_frame (rs_buf s) with
      | NFMore => starve s
      | NFFrame (CKnown (FHeaders blk)) rest => ([RFirst blk], set_buf rest PBody s)
      | NFFrame CSkip rest => ([], set_buf rest PFirst s)
      | _ => fail s
      end
  | PBody =>
      match rs_buf s with
      | [] => if rs_fin s then ([RDataEnd], set_buf [] (PTrailers None) s) else ([], s)
      | _ =>
        match next_frame (rs_buf s) with
        | NFMore => starve s
        | NFData l rest => ([], set_buf rest (if l =? 0 then PBody else PData l) s)
        | NFFrame (CKnown (FHeaders blk)) rest => ([RDataEnd], set_buf rest (PTrailers (Some blk)) s)
        | NFFrame CSkip rest => ([], set_buf rest PBody s)
        | _ => fail s
        end
      end
  | PData rem =>
      match rs_buf s with
      | [] => starve s
      | b =>
          let n := N.min rem (len b) in
          ([RData (firstn (N.to_nat n) b)],
           set_buf (skipn (N.to_nat n) b) (if rem - n =? 0 then PBody else PData (rem - n)) s)
      end
  | PTrailers None => ([RTrailers None], set_buf (rs_buf s) PDone s)
  | PTrailers (Some blk) =>
      match rs_buf s with
      | [] => if rs_fin s then ([RTrailers (Some blk)], set_buf [] PDone s) else ([], s)
      | _ =>
        match next_frame (rs_buf s) with
        | NFMore => starve s
        | NFFrame CSkip rest => ([], set_buf rest (PTrailers (Some blk)) s)
        | _ => fail s
        end
      end
  | PDone | PFailed => ([], s)
  end.

(* ---------- the whole pipeline, both directions ---------- *)
Definition big_grant : N := 2 ^ 62.

Definition ref_request_outcome (grease : option N) (m : message req_head fieldl) (ks sizes polls : list N)
  : option (list (aevent req_seen hgroups)) :=
  match wire req_head fieldl ref_fields_of_request ref_fields_of_trailers ref_encode_section ref_wire_write
             grease m (ks ++ repeat big_grant (2 * (length (m_pieces m) + 3))) with
  | None => None
  | Some b =>
      Some (receiver_outcome req_seen hgroups ref_request_of_fields ref_trailers_of_fields ref_decode_section
              rstate ref_init ref_arrive ref_fin ref_poll
              (mk_history sizes polls (2 * length (m_pieces m) + 10) b))
  end.

Definition ref_response_outcome (grease : option N) (m : message resp_head fieldl) (ks sizes polls : list N)
  : option (list (aevent resp_seen hgroups)) :=
  match wire resp_head fieldl ref_fields_of_response ref_fields_of_trailers ref_encode_section ref_wire_write
             grease m (ks ++ repeat big_grant (2 * (length (m_pieces m) + 3))) with
  | None => None
  | Some b =>
      Some (receiver_outcome resp_seen hgroups ref_response_of_fields ref_trailers_of_fields ref_decode_section
              rstate ref_init ref_arrive ref_fin ref_poll
              (mk_history sizes polls (2 * length (m_pieces m) + 10) b))
  end.

(* ---------- a store-and-forward reader ----------
   It buffers the stream and, once FIN has arrived, hands up the RFC reading of everything at the next call.
   Chunking and interleaving cannot influence it by construction; it is the witness that the receive-side premise
   of the composition theorem (Properties/C01.v, P-C02/C03) can be met at all. *)
From H3V Require Import Spec.EndToEndStream.
Record sfstate := { sf_buf : bytes; sf_fin : bool; sf_done : bool }.
Definition sf_init : sfstate := {| sf_buf := []; sf_fin := false; sf_done := false |}.
Definition sf_arrive (c : bytes) (s : sfstate) : sfstate :=
  {| sf_buf := sf_buf s ++ c; sf_fin := sf_fin s; sf_done := sf_done s |}.
Definition sf_finish (s : sfstate) : sfstate := {| sf_buf := sf_buf s; sf_fin := true; sf_done := sf_done s |}.
Definition sf_poll (s : sfstate) : list ritem * sfstate :=
  if sf_fin s && negb (sf_done s)
  then (rfc_stream_reading (sf_buf s), {| sf_buf := sf_buf s; sf_fin := true; sf_done := true |})
  else ([], s).
