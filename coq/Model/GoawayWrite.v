(* Extension of Model/Goaway.v and Model/Ongoing.v by flow control on the server's control stream.

   h3 hands a GOAWAY frame to the transport with send_data and then awaits poll_ready
   (stream::write).  ConnectionInner::shutdown has ALREADY recorded the identifier in sent_closing
   (Gen: store_before_write) when that await is pending, so a pending write changes nothing but the
   moment the frame reaches the wire: the call (shutdown(), or accept() in its None arm) stays
   suspended and is resumed by polling the same future again.  The base models emit the EWire event
   of a step at once; here the step's events from its EWire on are deferred until the transport has
   taken all bytes of the frame.  While a call is suspended it owns the connection: the application
   can only poll it again; the peer can still open streams, send GOAWAY, and handles can be dropped. *)
From H3V Require Import Base.Bytes Gen.GenGoaway Spec.GoawaySpec Spec.DrainSpec Model.Varint Model.Goaway Model.Ongoing.

(* bytes of the frame GOAWAY(id): type 0x07, length, varint id *)
Definition goaway_len (id : N) : N := 2 + match vi_size id with Some k => k | None => 8 end.

Fixpoint split_wire (outs : list gev) : option (list gev * N * list gev) :=
  match outs with
  | [] => None
  | EWire g :: r => Some ([], g, r)
  | e :: r => match split_wire r with
              | Some (pre, g, post) => Some (e :: pre, g, post)
              | None => None
              end
  end.

(* ---------- C08 histories with a write budget ---------- *)
Inductive wop := WOp (o : gop) | WBlock | WGrant (k : N).
Inductive wev := WE (e : gev) | WBlocked | WGranted (k : N) | WPending.   (* WPending: the call is suspended on its write *)

Record wstate := {
  ws_g : gstate;
  ws_budget : option N;            (* None: the transport takes everything *)
  ws_inflight : option (N * N);    (* GOAWAY id handed to the transport, bytes not yet taken *)
  ws_parked : option (list gev)    (* a suspended call: the events it will produce after its frame *)
}.
Definition wstate0 : wstate := {| ws_g := gstate0; ws_budget := None; ws_inflight := None; ws_parked := None |}.

(* poll_ready on the control stream: the transport takes what the budget allows *)
Definition ctl_flush (budget : option N) (id rem : N) : option N * N :=
  match budget with
  | None => (None, 0)
  | Some b => let k := N.min b rem in (Some (b - k), rem - k)
  end.

Definition wstep (w : wstate) (o : wop) : list wev * wstate :=
  match o with
  | WBlock => ([WBlocked], {| ws_g := ws_g w; ws_budget := Some 0; ws_inflight := ws_inflight w; ws_parked := ws_parked w |})
  | WGrant k => ([WGranted k],
                 {| ws_g := ws_g w; ws_budget := (match ws_budget w with Some b => Some (b + k) | None => None end);
                    ws_inflight := ws_inflight w; ws_parked := ws_parked w |})
  | WOp op =>
      match ws_parked w, ws_inflight w with
      | Some post, Some (id, rem) =>
          (match op with
           | Shutdown _ | Poll =>
               (* the suspended future is polled again *)
               let '(b', rem') := ctl_flush (ws_budget w) id rem in
               if rem' =? 0
               then (map WE (EWire id :: post),
                     {| ws_g := ws_g w; ws_budget := b'; ws_inflight := None; ws_parked := None |})
               else ([WPending], {| ws_g := ws_g w; ws_budget := b'; ws_inflight := Some (id, rem'); ws_parked := Some post |})
           | _ =>
               let '(outs, g') := gstep (ws_g w) op in
               (map WE outs, {| ws_g := g'; ws_budget := ws_budget w; ws_inflight := ws_inflight w; ws_parked := ws_parked w |})
           end)
      | _, _ =>
          let '(outs, g') := gstep (ws_g w) op in
          match split_wire outs with
          | None => (map WE outs, {| ws_g := g'; ws_budget := ws_budget w; ws_inflight := None; ws_parked := None |})
          | Some (pre, id, post) =>
              let '(b', rem') := ctl_flush (ws_budget w) id (goaway_len id) in
              if rem' =? 0
              then (map WE outs, {| ws_g := g'; ws_budget := b'; ws_inflight := None; ws_parked := None |})
              else (map WE pre ++ [WPending],
                    {| ws_g := g'; ws_budget := b'; ws_inflight := Some (id, rem'); ws_parked := Some post |})
          end
      end
  end.

(* ---------- C09 histories: the control stream blocked / unblocked, the transport failing ---------- *)
Inductive bop := BOp (o : dop) | BBlock | BUnblock | BLost
| BNop.   (* bytes that do not complete a frame arrive on the peer's control stream *)

Record bworld := { bw_w : world; bw_blocked : bool; bw_parked : option (N * list gev); bw_lost : bool }.
Definition bworld0 : bworld := {| bw_w := world0; bw_blocked := false; bw_parked := None; bw_lost := false |}.

Fixpoint dev_outs (l : list dev) : list gev :=
  match l with [] => [] | DO e :: r => e :: dev_outs r | _ :: r => dev_outs r end.

(* a failed transport is noticed by the driver when it polls (poll_accept_recv / poll_accept_bidi), after the
   connection error cell: an error stored there by a request stream is reported first *)
Definition notice_loss (b : bworld) : world :=
  if bw_lost b then {| w_srv := with_err (w_srv (bw_w b)) transport_error; w_handles := w_handles (bw_w b) |}
  else bw_w b.

Definition bstep (b : bworld) (o : bop) : list dev * bworld :=
  match o with
  | BBlock => ([DW true], {| bw_w := bw_w b; bw_blocked := true; bw_parked := bw_parked b; bw_lost := bw_lost b |})
  | BUnblock => ([DW false], {| bw_w := bw_w b; bw_blocked := false; bw_parked := bw_parked b; bw_lost := bw_lost b |})
  | BNop => ([DW (bw_blocked b)], b)
  | BLost => ([DX], {| bw_w := bw_w b; bw_blocked := bw_blocked b; bw_parked := bw_parked b; bw_lost := true |})
  | BOp op =>
      match bw_parked b, op with
      | Some (id, post), DPoll =>
          (* the accept task is suspended in the None arm of accept() *)
          if bw_lost b then
            let '(outs, w') := dstep (notice_loss b) DPoll in
            (outs, {| bw_w := w'; bw_blocked := bw_blocked b; bw_parked := None; bw_lost := true |})
          else if bw_blocked b then ([DI DPoll; DO EPending], b)
          else (DI DPoll :: map DO (EWire id :: post),
                {| bw_w := bw_w b; bw_blocked := false; bw_parked := None; bw_lost := false |})
      | _, _ =>
          let w0 := match op with DPoll => notice_loss b | _ => bw_w b end in
          let '(outs, w') := dstep w0 op in
          if bw_blocked b then
            match op, split_wire (dev_outs outs) with
            | DPoll, Some (pre, id, post) =>
                (DI DPoll :: map DO pre ++ [DO EPending],
                 {| bw_w := w'; bw_blocked := true; bw_parked := Some (id, post); bw_lost := bw_lost b |})
            | _, _ => (outs, {| bw_w := w'; bw_blocked := bw_blocked b; bw_parked := bw_parked b; bw_lost := bw_lost b |})
            end
          else (outs, {| bw_w := w'; bw_blocked := false; bw_parked := bw_parked b; bw_lost := bw_lost b |})
      end
  end.
