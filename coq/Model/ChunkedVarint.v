(* VarInt::decode (h3/src/proto/varint.rs) run on a non-contiguous `Buf` (Model/ChunkedBuf.v), written against the Buf
   operations exactly as the Rust body calls them:
     if !r.has_remaining() { return Err(UnexpectedEnd(0)) }
     buf[0] = r.get_u8(); tag = buf[0] >> 6; buf[0] &= 0b0011_1111;
     match tag { 0 => .., k => { if r.remaining() < need_k { return Err(UnexpectedEnd(k)) }  r.copy_to_slice(&mut buf[1..]) .. } }
   chunk() is never indexed beyond its first byte (get_u8) and never compared with a length: the code has no access to the
   chunk boundaries except through the bytes-crate default methods.  Same generated table Gen/GenVarint.dec_rows as the
   flat Model/Varint.vi_decode.  The result comes with the buffer left behind (also after an error).
   The wrappers BufExt::get_var (both copies), StreamType::decode and SessionId::decode are this function. *)
From H3V Require Import Base.Bytes Gen.GenVarint Model.Varint Model.ChunkedBuf.

Definition vi_decode_buf (cs : cbuf) : res N N * cbuf :=
  if negb (cb_has_remaining cs) then (Err dec_empty_err, cs)
  else
    match cb_get_u8 cs with
    | Panic s => (Panic s, cs)
    | Err _ => (Panic 903, cs)
    | Ok (b0, c1) =>
        let tag := N.shiftr b0 dec_tag_shift in
        let v0 := N.land b0 dec_mask in
        match assoc tag dec_rows with
        | None => (Panic 1, c1)                                            (* unreachable!() *)
        | Some (need, (errc, (copy, total))) =>
            if cb_remaining c1 <? need then (Err errc, c1)
            else
              match cb_copy_to_slice copy c1 with
              | Panic s => (Panic s, c1)
              | Err _ => (Panic 903, c1)
              | Ok (bs, c2) => (Ok (be_value (firstn (N.to_nat total) (v0 :: bs ++ repeat 0 8))), c2)
              end
        end
    end.

Definition vi_get_var_buf (cs : cbuf) : res N N * cbuf :=
  if get_var_is_decode then vi_decode_buf cs else (Err 0, cs).
Definition st_decode_buf (cs : cbuf) : res N N * cbuf := vi_get_var_buf cs.
Definition sess_decode_buf (cs : cbuf) : res N N * cbuf := vi_decode_buf cs.
