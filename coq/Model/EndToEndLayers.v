(* C01: the component models of the other properties, seen through the interfaces of Model/EndToEnd.v.
   Header mapping: Model/Headers.v + Model/HttpCrate.v (C12).  No proofs in this file. *)
From H3V Require Import Base.Bytes Gen.GenHeaders Model.HttpCrate Model.Headers Model.EndToEnd.

(* ---------- C12: header mapping ---------- *)
(* what the client application passes to send_request: an http::Request<()> *)
Record c12_request := { cq_method : bytes; cq_uri : uri; cq_fields : hmap; cq_ext : option N }.
(* what the server application passes to send_response: an http::Response<()> *)
Record c12_response := { cp_status : N; cp_fields : hmap }.

Definition ok_opt {E A} (r : res E A) : option A := match r with Ok a => Some a | _ => None end.
Definition delivered_opt {A} (o : outcome A) : option A := match o with Delivered a => Some a | _ => None end.

(* no hash-collision growth failure of the HeaderMap (see Model/Headers.v try_from_loop) *)
Definition no_grow_failure : N -> bool := fun _ => false.

Definition c12_fields_of_request (q : c12_request) : option fieldl :=
  ok_opt (send_request (cq_method q) (cq_uri q) (cq_fields q) (cq_ext q)).
Definition c12_request_of_fields (fs : fieldl) : option request := delivered_opt (resolve_request no_grow_failure fs).
Definition c12_fields_of_response (p : c12_response) : option fieldl :=
  ok_opt (send_response (cp_status p) (cp_fields p)).
Definition c12_response_of_fields (fs : fieldl) : option response := delivered_opt (recv_response no_grow_failure fs).
Definition c12_fields_of_trailers (t : hmap) : option fieldl := ok_opt (send_trailers t).
Definition c12_trailers_of_fields (fs : fieldl) : option hmap := delivered_opt (recv_trailers no_grow_failure fs).

(* ---------- C14: the write side ---------- *)
From H3V Require Import Model.FrameEnc Model.WriteBuf.

(* the Frame<Bytes> value each call hands to stream::write *)
Definition c14_frame (f : sframe) : frame :=
  match f with
  | SHeaders b => FHeaders b
  | SData p => FData (bytes_chunks p)
  | SGrease g => FGrease g
  end.

(* stream::write: send_data(WriteBuf::from(frame)), then poll_ready until the transport has taken everything;
   the transport takes min(k, chunk().len()) bytes per step and advance()s by that.  Returns what it was given
   and the rest of the script; Err when the script ends first. *)
Fixpoint c14_drain (ks : list N) (w : wbuf) : res unit (bytes * list N) :=
  match wb_remaining w with
  | Ok 0 => Ok ([], ks)
  | Ok _ =>
      match ks with
      | [] => Err tt
      | k :: ks' =>
          match wb_chunk w with
          | Ok c =>
              let n := N.min k (len c) in
              match wb_advance n w with
              | Ok w' =>
                  match c14_drain ks' w' with
                  | Ok (out, rest) => Ok (firstn (N.to_nat n) c ++ out, rest)
                  | Err e => Err e | Panic s => Panic s
                  end
              | Err e => Err e | Panic s => Panic s
              end
          | Err e => Err e | Panic s => Panic s
          end
      end
  | Err e => Err e
  | Panic s => Panic s
  end.

Fixpoint c14_write_frames (fs : list sframe) (ks : list N) : res unit bytes :=
  match fs with
  | [] => Ok []
  | f :: r =>
      match wb_from_frame (c14_frame f) with
      | Ok w =>
          match c14_drain ks w with
          | Ok (out, ks') =>
              match c14_write_frames r ks' with
              | Ok rest => Ok (out ++ rest)
              | Err e => Err e | Panic s => Panic s
              end
          | Err e => Err e | Panic s => Panic s
          end
      | Err e => Err e | Panic s => Panic s
      end
  end.
Definition c14_wire_write (fs : list sframe) (ks : list N) : option bytes := ok_opt (c14_write_frames fs ks).

(* ---------- C02 + C03: the receiving FrameStream + RequestStream ---------- *)
From H3V Require Import Spec.FrameVocab Model.FrameDec Model.FrameStream Model.RequestStream.

(* the stream state and where the documented application is: first frame / recv_data / recv_trailers / finished *)
Definition c03_state := (rstream * phase)%type.
Definition c03_init : c03_state := (rs_new [], PFirst).
Definition c03_arrive (c : bytes) (s : c03_state) : c03_state := (rarrive (Chunk c) (fst s), snd s).
Definition c03_fin (s : c03_state) : c03_state := (rarrive Fin (fst s), snd s).
Definition c03_done (s : c03_state) : bool := match snd s with PDone => true | _ => false end.

(* what one completed call hands up *)
Definition items_of_robs (o : robs) : list ritem :=
  match o with
  | OHead (Ready (Ok h)) => [RFirst h]
  | OBody (Ready (Ok (Some d))) => [RData d]
  | OBody (Ready (Ok None)) => [RDataEnd]
  | OTrail (Ready (Ok t)) => [RTrailers t]
  | OHead Pending | OBody Pending | OTrail Pending => []
  | OHead (Ready _) => [RFail 1]
  | OBody (Ready _) => [RFail 2]
  | OTrail (Ready _) => [RFail 3]
  end.

(* one call of the application's current API (the RCall step of RequestStream.rrun) *)
Definition c03_poll (r : role) (s : c03_state) : list ritem * c03_state :=
  match snd s with
  | PFirst =>
      let '(res, rs') := poll_first r (fst s) in
      (items_of_robs (OHead res),
       (rs', match res with Pending => PFirst | Ready (Ok _) => PBody | Ready _ => PDone end))
  | PBody =>
      let '(res, rs') := poll_recv_data (fst s) in
      (items_of_robs (OBody res),
       (rs', match res with
             | Pending => PBody | Ready (Ok (Some _)) => PBody | Ready (Ok None) => PTrailers | Ready _ => PDone
             end))
  | PTrailers =>
      let '(res, rs') := poll_recv_trailers (fst s) in
      (items_of_robs (OTrail res), (rs', match res with Pending => PTrailers | Ready _ => PDone end))
  | PDone => ([], s)
  end.

(* ---------- C11: the field-section codec ---------- *)
From H3V Require Import Model.QpackStateless.
(* qpack::encode_stateless (the block; the returned size is C10's subject) *)
Definition c11_encode_section (fs : fieldl) : option bytes :=
  match encode_stateless fs with Ok (bs, _) => Some bs | _ => None end.
(* qpack::decode_stateless with no limit on the section size (the limit is C10's subject) *)
Definition c11_decode_section (b : bytes) : option fieldl :=
  match decode_stateless None b with Ok (fs, _) => Some fs | _ => None end.

(* ---------- splitting the request stream into halves (connection.rs RequestStream::split over frame.rs
   FrameStream::split over stream.rs BufRecvStream::split): what the RECEIVE half starts from.  Which fields are handed
   over comes from Gen/GenSplit.v (regenerated from the source); the transport's own queue is not h3's to lose. ---------- *)
From H3V Require Import Gen.GenSplit.
Definition c03_split (s : c03_state) : c03_state :=
  let rs := fst s in
  let fs := rs_fs rs in
  ({| rs_fs := {| st_buf := if split_keeps_buf then st_buf fs else [];
                  st_eos := if split_keeps_eos then st_eos fs else false;
                  st_memo := if split_keeps_decoder then st_memo fs else None;
                  st_rem := if split_keeps_remaining then st_rem fs else 0;
                  st_q := st_q fs |};
      rs_trailers := if split_keeps_trailers then rs_trailers rs else None;
      rs_reset := rs_reset rs |},
   snd s).

(* a history in which the application may also split the stream (None) at any point; the receive half goes on *)
Fixpoint c03_run_split (r : role) (h : list (option hevent)) (s : c03_state) : list ritem * c03_state :=
  match h with
  | [] => ([], s)
  | None :: t => c03_run_split r t (c03_split s)
  | Some e :: t =>
      let '(o, s1) := rx_run c03_state c03_arrive c03_fin (c03_poll r) [e] s in
      let '(o2, s2) := c03_run_split r t s1 in
      (o ++ o2, s2)
  end.
Fixpoint without_splits (h : list (option hevent)) : list hevent :=
  match h with
  | [] => []
  | None :: t => without_splits t
  | Some e :: t => e :: without_splits t
  end.

(* ---------- a transport buffer that is not contiguous (RecvStream::Buf is any Buf: a chain, a deque of segments):
   stream.rs BufRecvStream::poll_read hands it to buf.rs BufList::push_bytes; what enters the receive buffer is read
   from the source (Gen/GenBufList.v).  The chunk [c] of [c03_arrive] is that. ---------- *)
From H3V Require Import Gen.GenBufList.
Definition pushed (segments : list bytes) : bytes :=
  if push_bytes_copies_whole_buffer then concat segments
  else match segments with s :: _ => s | [] => [] end.
