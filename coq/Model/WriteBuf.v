(* Model of h3/src/stream.rs WriteBuf: the 64-byte header array, len, pos, the optional frame; the five
   `From<..> for WriteBuf` constructors; the `Buf` impl (remaining / chunk / advance) exactly as written,
   including where usize arithmetic or a slice would panic; and a transport draining it. *)
From H3V Require Import Base.Bytes Gen.GenWriters Model.Varint Model.Datagram Model.FrameEnc.

Record wbuf := { w_buf : bytes; w_len : N; w_pos : N; w_frame : option frame }.

Definition wb_empty (f : option frame) : wbuf :=
  {| w_buf := repeat 0 (N.to_nat write_buf_encode_size); w_len := wb_init_len; w_pos := wb_init_pos; w_frame := f |}.

(* encode_stream_type / encode_value / encode_frame_header: run an encoder on `&mut self.buf[self.len..]`
   and recompute len from what is left *)
Definition wb_apply (e : enc) (w : wbuf) : res unit wbuf :=
  if len (w_buf w) <? w_len w then Panic 27 else
  match e {| h_buf := w_buf w; h_len := w_len w |} with
  | Ok h => Ok {| w_buf := h_buf h; w_len := h_len h; w_pos := w_pos w; w_frame := w_frame w |}
  | Err x => Err x
  | Panic s => Panic s
  end.

Definition wb_encode_frame_header (w : wbuf) : res unit wbuf :=
  match w_frame w with
  | Some f => wb_apply (enc_frame f) w
  | None => Ok w
  end.

(* From<StreamType> *)
Definition wb_from_stream_type (ty : N) : res unit wbuf := wb_apply (put_var ty) (wb_empty None).
(* From<UniStreamHeader> *)
Definition wb_from_uni (u : uni_header) : res unit wbuf := wb_apply (enc_uni_header u) (wb_empty None).
(* From<BidiStreamHeader> *)
Definition wb_from_bidi (sid : N) : res unit wbuf := wb_apply (enc_bidi_header sid) (wb_empty None).
(* From<Frame<B>> *)
Definition wb_from_frame (f : frame) : res unit wbuf := wb_encode_frame_header (wb_empty (Some f)).
(* From<(StreamType, Frame<B>)> *)
Definition wb_from_pair (ty : N) (f : frame) : res unit wbuf :=
  if pair_type_first
  then res_bind (wb_apply (put_var ty) (wb_empty (Some f))) wb_encode_frame_header
  else res_bind (wb_encode_frame_header (wb_empty (Some f))) (wb_apply (put_var ty)).

(* ---- impl Buf for WriteBuf ---- *)

Definition wb_payload (w : wbuf) : option (list bytes) :=
  match w_frame w with Some f => frame_payload f | None => None end.
Definition wb_payload_mut (w : wbuf) : option (list bytes) :=
  match w_frame w with Some f => frame_payload_mut f | None => None end.

Definition wb_remaining (w : wbuf) : res unit N :=
  if w_len w <? w_pos w then Panic 30
  else Ok (w_len w - w_pos w + match wb_payload w with Some p => pl_remaining p | None => 0 end).

(* x + o as usize; None = arithmetic overflow *)
Definition off (x : N) (o : Z) : option N :=
  let r := (Z.of_N x + o)%Z in if (r <? 0)%Z then None else Some (Z.to_N r).

(* &buf[lo..hi] *)
Definition slice (b : bytes) (lo hi : N) : option bytes :=
  if (hi <? lo) || (len b <? hi) then None
  else Some (firstn (N.to_nat (hi - lo)) (skipn (N.to_nat lo) b)).

Definition wb_chunk (w : wbuf) : res unit bytes :=
  if w_len w <? w_pos w then Panic 31
  else if 0 <? w_len w - w_pos w then
    match off (w_pos w) chunk_lo_off, off (w_len w) chunk_hi_off with
    | Some lo, Some hi => match slice (w_buf w) lo hi with Some c => Ok c | None => Panic 32 end
    | _, _ => Panic 32
    end
  else match wb_payload w with
       | Some p => Ok (pl_chunk p)
       | None => Ok []
       end.

Definition wb_advance (cnt : N) (w : wbuf) : res unit wbuf :=
  if w_len w <? w_pos w then Panic 33 else
  let remaining_header := w_len w - w_pos w in
  let step :=
    if 0 <? remaining_header then
      let advanced := (if advance_uses_min then N.min else N.max) cnt remaining_header in
      match off (w_pos w + advanced) advance_pos_off, off advanced advance_cnt_off with
      | Some pos', Some d => if cnt <? d then None else Some (pos', cnt - d)
      | _, _ => None
      end
    else Some (w_pos w, cnt) in
  match step with
  | None => Panic 34
  | Some (pos', cnt') =>
      match w_frame w, wb_payload_mut w with
      | Some f, Some p =>
          match off cnt' advance_payload_off with
          | None => Panic 34
          | Some c =>
              match pl_advance c p with
              | None => Panic 35
              | Some p' => Ok {| w_buf := w_buf w; w_len := w_len w; w_pos := pos'; w_frame := Some (frame_set_payload f p') |}
              end
          end
      | _, _ => Ok {| w_buf := w_buf w; w_len := w_len w; w_pos := pos'; w_frame := w_frame w |}
      end
  end.

(* the bytes still to be handed out *)
Definition wb_view (w : wbuf) : bytes :=
  firstn (N.to_nat (w_len w - w_pos w)) (skipn (N.to_nat (w_pos w)) (w_buf w))
  ++ match wb_payload w with Some p => concat p | None => [] end.

(* a transport draining the buffer (SimQuic::write_some, Quinn's write): at each step look at chunk(),
   accept at most k bytes of it, advance by what was accepted *)
Fixpoint wb_consume (ks : list N) (w : wbuf) : res unit (bytes * wbuf) :=
  match ks with
  | [] => Ok ([], w)
  | k :: ks' =>
      match wb_chunk w with
      | Ok c =>
          let n := N.min k (len c) in
          match wb_advance n w with
          | Ok w' =>
              match wb_consume ks' w' with
              | Ok (out, w'') => Ok (firstn (N.to_nat n) c ++ out, w'')
              | Err e => Err e | Panic s => Panic s
              end
          | Err e => Err e | Panic s => Panic s
          end
      | Err e => Err e | Panic s => Panic s
      end
  end.

(* a general consumer: chunk-bounded reads and raw advance(k) calls mixed *)
Inductive cstep := CTake (k : N) | CSkip (k : N).
Inductive cevent := EOut (b : bytes) | ESkipped (k : N).

Fixpoint wb_run (steps : list cstep) (w : wbuf) : res unit (list cevent * wbuf) :=
  match steps with
  | [] => Ok ([], w)
  | CTake k :: r =>
      match wb_chunk w with
      | Ok c =>
          let n := N.min k (len c) in
          match wb_advance n w with
          | Ok w' => match wb_run r w' with
                     | Ok (evs, w'') => Ok (EOut (firstn (N.to_nat n) c) :: evs, w'')
                     | Err e => Err e | Panic s => Panic s
                     end
          | Err e => Err e | Panic s => Panic s
          end
      | Err e => Err e | Panic s => Panic s
      end
  | CSkip k :: r =>
      match wb_advance k w with
      | Ok w' => match wb_run r w' with
                 | Ok (evs, w'') => Ok (ESkipped k :: evs, w'')
                 | Err e => Err e | Panic s => Panic s
                 end
      | Err e => Err e | Panic s => Panic s
      end
  end.

(* ---- the provided methods of bytes::Buf that WriteBuf does NOT override (the translator pins the method set of
   `impl Buf for WriteBuf` to {remaining, chunk, advance}), as bytes 1.x defines them on top of the three ---- *)

(* chunks_vectored(dst) with a non-empty dst: one slice, the current chunk, or none when nothing remains *)
Definition wb_chunks_vectored (w : wbuf) : res unit (list bytes) :=
  match wb_remaining w with
  | Ok r => if r =? 0 then Ok [] else match wb_chunk w with Ok c => Ok [c] | Err e => Err e | Panic s => Panic s end
  | Err e => Err e
  | Panic s => Panic s
  end.

(* copy_to_bytes(k): asserts k <= remaining(), then put(self.take(k)): chunk-bounded copies until k bytes are out *)
Fixpoint wb_copy_loop (fuel : nat) (left : N) (w : wbuf) : res unit (bytes * wbuf) :=
  if left =? 0 then Ok ([], w) else
  match fuel with
  | O => Panic 37
  | S f =>
      match wb_chunk w with
      | Ok c =>
          let n := N.min left (len c) in
          if n =? 0 then Panic 38 else
          match wb_advance n w with
          | Ok w' => match wb_copy_loop f (left - n) w' with
                     | Ok (out, w'') => Ok (firstn (N.to_nat n) c ++ out, w'')
                     | Err e => Err e | Panic s => Panic s
                     end
          | Err e => Err e | Panic s => Panic s
          end
      | Err e => Err e | Panic s => Panic s
      end
  end.
Definition wb_copy_to_bytes (k : N) (w : wbuf) : res unit (bytes * wbuf) :=
  match wb_remaining w with
  | Ok r => if r <? k then Panic 36 else wb_copy_loop (N.to_nat k) k w
  | Err e => Err e
  | Panic s => Panic s
  end.
