(* Model of h3/src/qpack/prefix_string/{bitwin,decode,encode}.rs.
   The decode tree and the encode rows are the generated Gen/GenHuffDec.v and Gen/GenHuffEnc.v.
   u8 / u16 shifts are explicit (mod 256 / mod 65536).  The u32 computations of read_bits (the only
   multiplications / additions on bit positions in the decoder) panic on overflow (Panic 13/14, as in an
   overflow-checked build); the BitWindow field updates of `forwards` (forwards_chk, Panic 15/17/19), `byte + 1`
   in check_eof (Panic 16) and the `7 * byte` of the encoder's reserve (Panic 18) panic at the field widths
   read from bitwin.rs (Gen/GenBitwin.v).  Every shift is a panic site when its amount reaches the width of
   the shifted type (debug-build semantics): check_padding (40), check_eof (41/42), read_bits (43/44), write_bits
   (45/46).  Other panic sites:
   slice index out of bounds and the debug_assert!s of write_bits (the harness is built with debug
   assertions). *)
From H3V Require Import Base.Bytes Gen.GenHuffDec Gen.GenHuffEnc Gen.GenBitwin Gen.GenHuffIter.

(* ---------------------------------------------------------------- bitwin.rs *)
Record bitwin := { bw_byte : N; bw_bit : N; bw_count : N }.

Definition bw_new : bitwin := {| bw_byte := 0; bw_bit := 0; bw_count := 0 |}.

Definition forwards (step : N) (w : bitwin) : bitwin :=
  let bit := bw_bit w + bw_count w in
  {| bw_byte := bw_byte w + bit / bw_bits_per_byte; bw_bit := bit mod bw_bits_per_byte; bw_count := step |}.

Definition opposite_bit_window (w : bitwin) : bitwin :=
  {| bw_byte := bw_byte w; bw_bit := bw_bit w; bw_count := bw_bits_per_byte - bw_bit w mod bw_bits_per_byte |}.

(* `forwards` with the field widths of bitwin.rs (Gen/GenBitwin.v): None = `self.bit += self.count` or
   `self.byte += self.bit / 8` overflows its field (panic in an overflow-checked build, wrap otherwise) *)
Definition forwards_chk (step : N) (w : bitwin) : option bitwin :=
  if 2 ^ bw_bit_width <=? bw_bit w + bw_count w then None
  else if 2 ^ bw_byte_width <=? bw_byte w + (bw_bit w + bw_count w) / bw_bits_per_byte then None
  else Some (forwards step w).

Definition nth_n {A} (l : list A) (i : N) : option A := nth_error l (N.to_nat i).

(* ---------------------------------------------------------------- decode.rs *)
Inductive huff_err := MissingBits | Unhandled.

(* read_bits: Err tt is Err(()), Panic is an out-of-bounds index or a u32 overflow
   (`src.len() as u32 * 8`, `(byte_offset * 8) + bit_offset + len`; overflow-checked build) *)
Definition read_bits (src : bytes) (byte_offset bit_offset len_ : N) : res unit N :=
  if (len_ =? 0) || (8 <? len_) then Err tt
  else
    let l32 := len src mod 2 ^ bw_read_bits_width in
    if 2 ^ bw_read_bits_width <=? l32 * 8 then Panic 13
    else if 2 ^ bw_read_bits_width <=? byte_offset * 8 + bit_offset + len_ then Panic 14
    else if l32 * 8 <? byte_offset * 8 + bit_offset + len_ then Err tt
    else
    let byte_offset := byte_offset + bit_offset / 8 in
    let bit_offset := bit_offset - bit_offset / 8 * 8 in
    if bit_offset + len_ <=? 8 then
      match nth_n src byte_offset with
      | None => Panic 10
      | Some b =>
          if (8 <=? bit_offset) || (8 <=? 8 - len_) then Panic 43      (* u8 shift by >= 8 *)
          else Ok (N.shiftr (N.shiftl b bit_offset mod 256) (8 - len_))
      end
    else
      match nth_n src byte_offset, nth_n src (byte_offset + 1) with
      | Some b0, Some b1 =>
          let result := N.lor (N.shiftl b0 8) b1 in
          if (16 <=? bit_offset) || (16 <=? 16 - len_) then Panic 44   (* u16 shift by >= 16 *)
          else Ok (N.shiftr (N.shiftl result bit_offset mod 65536) (16 - len_) mod 256)
      | _, _ => Panic 11
      end.

(* inputs whose bit positions, with the decoder's 8-bit look-ahead, fit in u32 (what the guard in
   prefix_string::decode establishes before calling the Huffman decoder) *)
Definition fits_u32 (input : bytes) : Prop := 8 * len input + 8 < 2 ^ 32.

(* strings whose encoding stays within the encoder's u32 positions: 30 bits per octet at most *)
Definition enc_fits (s : bytes) : Prop := len s < 2 ^ 26.

(* HuffmanDecoder::check_eof: Ok None = clean end of input *)
Definition check_eof (w : bitwin) (input : bytes) : res huff_err (option N) :=
  if 2 ^ bw_byte_width <=? bw_byte w + 1 then Panic 16            (* bit_pos.byte + 1 overflows *)
  else
  match (bw_byte w + 1) ?= len input with
  | Gt => Ok None
  | Eq =>
      let side := opposite_bit_window w in
      match read_bits input (bw_byte side) (bw_bit side) (bw_count side) with
      | Err _ => Err MissingBits
      | Panic s => Panic s
      | Ok rest =>
          if bw_count side <? hi_eof_sub1 then Panic 12           (* side.count - 1 underflows *)
          else if 16 <=? bw_count side - hi_eof_sub1 then Panic 41 (* 2u16 << n, n >= 16 *)
          else
            let shifted := N.shiftl hi_eof_base (bw_count side - hi_eof_sub1) mod 65536 in
            if shifted <? hi_eof_sub2 then Panic 42                (* ... - 1 underflows u16 *)
            else
              let eof_filler := (shifted - hi_eof_sub2) mod 256 in
              if N.land rest eof_filler =? eof_filler then Ok None else Err MissingBits
      end
  | Lt => Err MissingBits
  end.

Definition fetch_value (w : bitwin) (input : bytes) : res huff_err (option N) :=
  match read_bits input (bw_byte w) (bw_bit w) (bw_count w) with
  | Ok v => Ok (Some v)
  | Err _ => check_eof w input
  | Panic s => Panic s
  end.

(* HuffmanDecoder::decode_next: Ok (Some (symbol, window afterwards)), Ok None at the end of input.
   [pick] is `self.table.get(value)` followed by the match on the entry. *)
Fixpoint decode_next (d : dnode) (w : bitwin) (input : bytes) {struct d}
  : res huff_err (option (N * bitwin)) :=
  match d with
  | DNode lookup table =>
      match forwards_chk lookup w with
      | None => Panic 15
      | Some w =>
          match fetch_value w input with
          | Ok (Some value) => pick table (N.to_nat value) w input
          | Ok None => Ok None
          | Err e => Err e
          | Panic s => Panic s
          end
      end
  end
with pick (t : dlist) (i : nat) (w : bitwin) (input : bytes) {struct t}
  : res huff_err (option (N * bitwin)) :=
  match t with
  | DNil => Err Unhandled
  | DSym b t' => match i with O => Ok (Some (b, w)) | S i' => pick t' i' w input end
  | DSub d' t' => match i with O => decode_next d' w input | S i' => pick t' i' w input end
  end.

(* DecodeIter::check_padding: every bit from symbol_end to the end of the input is one.
   `0xFF >> (symbol_end % 8)` is a u8 shift: an amount >= 8 panics (Panic 40). *)
Fixpoint all_bytes_ff (bs : bytes) : bool :=
  match bs with
  | [] => true
  | b :: r => (N.land b hi_cp_filler_rest =? hi_cp_filler_rest) && all_bytes_ff r
  end.

Definition check_padding (symbol_end : N) (input : bytes) : res unit bool :=
  match skipn (N.to_nat (symbol_end / hi_cp_div)) input with
  | [] => Ok true
  | b :: r =>
      let sh := symbol_end mod hi_cp_mod in
      if 8 <=? sh then Panic 40
      else
        let filler := N.shiftr hi_cp_filler_first sh in
        Ok ((N.land b filler =? filler) && all_bytes_ff r)
  end.

(* DecodeIter collected into Result<Vec<u8>, Error>.  Every symbol consumes at least one bit,
   so 8 * len + 1 rounds are enough; running out of fuel is Panic 99 (proved unreachable). *)
Fixpoint decode_iter (fuel : nat) (w : bitwin) (symbol_end : N) (input : bytes) : res huff_err bytes :=
  match fuel with
  | O => Panic 99
  | S f =>
      match decode_next huff_dec_root w input with
      | Ok (Some (x, w')) =>
          match decode_iter f w' (bw_byte w' * hi_se_mul + bw_bit w' + bw_count w') input with
          | Ok out => Ok (x :: out)
          | Err e => Err e
          | Panic s => Panic s
          end
      | Err e => Err e
      | Panic s => Panic s
      | Ok None =>
          match check_padding symbol_end input with
          | Ok true => Ok []
          | Ok false => Err MissingBits
          | Err _ => Err MissingBits
          | Panic s => Panic s
          end
      end
  end.

Definition hpack_decode (input : bytes) : res huff_err bytes :=
  decode_iter (S (8 * length input)) bw_new 0 input.

(* ---------------------------------------------------------------- encode.rs *)
Record henc := { he_pos : bitwin; he_buf : bytes }.

Definition henc_new : henc := {| he_pos := bw_new; he_buf := [] |}.

(* the `reserve((7 * end_range.byte) / 4)` is computed in the width of `byte` whenever capacity() <= byte;
   the model takes that to be the case whenever the buffer has to grow (over-approximation of the panic) *)
Definition ensure_free_space (bit_count : N) (e : henc) : res unit henc :=
  match forwards_chk bit_count (he_pos e) with
  | None => Panic 17
  | Some r1 =>
      match forwards_chk 0 r1 with
      | None => Panic 17
      | Some end_range =>
          if bw_byte end_range <? len (he_buf e) then Ok e
          else if 2 ^ bw_byte_width <=? bw_reserve_mul * bw_byte end_range then Panic 18
          else
            let forward := bw_byte end_range - len (he_buf e) + (if 0 <? bw_bit end_range then 1 else 0) in
            Ok {| he_pos := he_pos e; he_buf := he_buf e ++ repeat 255 (N.to_nat forward) |}
      end
  end.

Fixpoint upd {A} (l : list A) (i : nat) (x : A) : option (list A) :=
  match l, i with
  | [], _ => None
  | _ :: r, O => Some (x :: r)
  | y :: r, S i' => match upd r i' x with Some r' => Some (y :: r') | None => None end
  end.

(* write_bits(out, pos, value) *)
Definition write_bits (out : bytes) (pos : bitwin) (value : N) : res unit bytes :=
  let bit := bw_bit pos in
  let count := bw_count pos in
  if negb (bit <? 8) then Panic 20
  else if negb (count <=? 8) then Panic 21
  else if negb (0 <? count) then Panic 22
  else
    match nth_n out (bw_byte pos), nth_n pad_left bit with
    | Some ob, Some pl =>
        if negb (N.lor ob pl =? 255) then Panic 23
        else if bit + count <=? 8 then
          match nth_n pad_right (8 - bit), nth_n pad_right (8 - count - bit) with
          | Some pr1, Some pr2 =>
              if 8 <=? 8 - bit - count then Panic 45 else               (* u8 << n, n >= 8 *)
              let pad_l := N.lor ob pr1 in
              let shifted := N.lor (N.shiftl value (8 - bit - count) mod 256) pl in
              match upd out (N.to_nat (bw_byte pos)) (N.lor (N.land pad_l shifted) pr2) with
              | Some o => Ok o
              | None => Panic 24
              end
          | _, _ => Panic 25
          end
        else
          let split := 8 - bit in
          let rem := 8 - (count - split) in
          match nth_n pad_right split, nth_n pad_right rem with
          | Some pr1, Some pr2 =>
              if (8 <=? count - split) || (8 <=? rem) then Panic 46 else    (* u8 >> / << n, n >= 8 *)
              let pad_l := N.lor ob pr1 in
              let shifted := N.lor (N.shiftr value (count - split)) pl in
              match upd out (N.to_nat (bw_byte pos)) (N.land pad_l shifted) with
              | Some o1 =>
                  match upd o1 (N.to_nat (bw_byte pos + 1)) (N.lor (N.shiftl value rem mod 256) pr2) with
                  | Some o2 => Ok o2
                  | None => Panic 26
                  end
              | None => Panic 24
              end
          | _, _ => Panic 25
          end
    | _, _ => Panic 27
    end.

(* the `for i in 0..buffer.len()` loop of HuffmanEncoder::put *)
Fixpoint put_parts (parts : bytes) (rest : N) (e : henc) : res unit henc :=
  match parts with
  | [] => Ok e
  | part :: ps =>
      match forwards_chk (if rest <? 8 then rest else 8) (he_pos e) with
      | None => Panic 19
      | Some pos =>
          let rest := rest - bw_count pos in
          match write_bits (he_buf e) pos part with
          | Ok buf => put_parts ps rest {| he_pos := pos; he_buf := buf |}
          | Err u => Err u
          | Panic s => Panic s
          end
      end
  end.

Definition put (code : N) (e : henc) : res unit henc :=
  match nth_n huff_enc_rows code with
  | None => Panic 28
  | Some (bit_count, buffer) =>
      match ensure_free_space bit_count e with
      | Ok e1 => put_parts buffer bit_count e1
      | Err u => Err u
      | Panic s => Panic s
      end
  end.

Fixpoint put_all (s : bytes) (e : henc) : res unit henc :=
  match s with
  | [] => Ok e
  | c :: r => match put c e with
              | Ok e' => put_all r e'
              | Err u => Err u
              | Panic p => Panic p
              end
  end.

Definition hpack_encode (s : bytes) : res unit bytes :=
  match put_all s henc_new with
  | Ok e => Ok (he_buf e)
  | Err u => Err u
  | Panic p => Panic p
  end.
