(* Model of the encoders h3 runs into the 64-byte header array of a WriteBuf:
   h3/src/proto/frame.rs `impl Encode for Frame`, `simple_frame_encode`, `FrameHeader::encode_header`,
   `Settings::encode`, `PushPromise::encode`, `Frame::payload[_mut]`; h3/src/stream.rs
   `impl Encode for UniStreamHeader / BidiStreamHeader`; `BufMut for &mut [u8]` (writing past the end panics).
   Type values, statement orders, length expressions and grease constants come from Gen/GenWriters.v. *)
From H3V Require Import Base.Bytes Gen.GenWriters Model.Varint Model.Datagram.

(* Frame<B>; a payload of type B (any Buf) is its list of chunks, a `Bytes` is one byte string;
   the random draw of FrameType::grease() is an input *)
Inductive frame :=
| FData (p : list bytes)
| FHeaders (block : bytes)
| FCancelPush (id : N)
| FSettings (entries : list (N * N))
| FPushPromise (id : N) (encoded : bytes)
| FGoaway (id : N)
| FMaxPushId (id : N)
| FWebTransportStream (sid : N)
| FGrease (g : N).

(* `&mut self.buf[self.len..]` as a BufMut: the array and the number of bytes written *)
Record hbuf := { h_buf : bytes; h_len : N }.
Definition enc := hbuf -> res unit hbuf.

(* put_slice / put_u8 / put_u16 / put_u32 / put_u64 / put(Bytes): panic when remaining_mut() is too small *)
Definition put_slice (bs : bytes) : enc := fun h =>
  if h_len h + len bs <=? len (h_buf h)
  then Ok {| h_buf := firstn (N.to_nat (h_len h)) (h_buf h) ++ bs ++ skipn (N.to_nat (h_len h + len bs)) (h_buf h);
             h_len := h_len h + len bs |}
  else Panic 20.

(* write_var(x) = VarInt::from_u64(x).unwrap().encode(buf); VarInt::encode of a malformed value is unreachable!() *)
Definition put_var (x : N) : enc := fun h =>
  match vi_encode x with
  | Some e => put_slice e h
  | None => Panic 21
  end.

Fixpoint seq (es : list enc) : enc := fun h =>
  match es with
  | [] => Ok h
  | e :: r => res_bind (e h) (seq r)
  end.

(* statements in the order the source has them *)
Fixpoint in_order (order : list N) (pieces : list (N * enc)) : list enc :=
  match order with
  | [] => []
  | i :: r => match assoc i pieces with
              | Some e => e :: in_order r pieces
              | None => (fun _ => Panic 29) :: in_order r pieces
              end
  end.

(* write_var(id.size() as u64) *)
Definition put_size_of (id : N) : enc := fun h =>
  match vi_size id with
  | Some s => put_var s h
  | None => Panic 22
  end.

Definition enc_simple_frame (ty id : N) : enc :=
  seq (in_order simple_frame_order [(0, put_var ty); (1, put_size_of id); (2, put_var id)]).

(* FrameHeader::len for Settings: the fold over from_u64(..).unwrap().size() *)
Fixpoint settings_payload_len (es : list (N * N)) : option N :=
  match es with
  | [] => Some 0
  | (id, v) :: r =>
      match vi_size id, vi_size v, settings_payload_len r with
      | Some a, Some b, Some c => Some (a + b + c)
      | _, _, _ => None
      end
  end.

Definition enc_entries (es : list (N * N)) : enc :=
  seq (flat_map (fun e => [put_var (fst e); put_var (snd e)]) es).

Definition put_settings_len (es : list (N * N)) : enc := fun h =>
  match settings_payload_len es with
  | Some n => put_var n h
  | None => Panic 23
  end.

Definition enc_settings (es : list (N * N)) : enc :=
  seq (in_order frame_header_order [(0, put_var settings_type); (1, put_settings_len es)] ++ [enc_entries es]).

(* the value handed to write_var for DATA / HEADERS: remaining() + add - sub *)
Definition put_len_field (base add sub : N) : enc := fun h =>
  if base + add <? sub then Panic 24 else put_var (base + add - sub) h.

Definition grease_value (g mul add : N) : res unit N :=
  if g * mul + add <? 2 ^ 64 then Ok (g * mul + add) else Panic 25.

Definition put_grease_type (g : N) : enc := fun h =>
  match grease_value g ft_grease_mul ft_grease_add with
  | Ok v => put_var v h
  | Err e => Err e
  | Panic s => Panic s
  end.

Definition put_pp_len (id : N) (e : bytes) : enc := fun h =>
  match vi_size id with
  | Some s => put_var (s + len e) h
  | None => Panic 26
  end.

(* impl Encode for Frame *)
Definition enc_frame (f : frame) : enc :=
  match f with
  | FData p => seq [put_var data_type; put_len_field (pl_remaining p) data_len_add data_len_sub]
  | FHeaders b => seq [put_var headers_type; put_len_field (len b) headers_len_add headers_len_sub]
  | FSettings es => enc_settings es
  | FPushPromise id e =>
      seq ([put_var push_promise_type; put_pp_len id e; put_var id]
           ++ (if push_promise_puts_payload_in_header then [put_slice e] else []))
  | FCancelPush id => enc_simple_frame cancel_push_type id
  | FGoaway id => enc_simple_frame goaway_type id
  | FMaxPushId id => enc_simple_frame max_push_id_type id
  | FGrease g => seq [put_grease_type g; put_var grease_len_field; put_slice grease_payload]
  | FWebTransportStream sid => seq [put_var wt_frame_type; put_var sid]
  end.

(* a `Bytes` seen as a Buf: one chunk, or none when empty *)
Definition bytes_chunks (b : bytes) : list bytes := match b with [] => [] | _ => [b] end.

Definition frame_tag (f : frame) : N :=
  match f with
  | FData _ => 0 | FHeaders _ => 1 | FPushPromise _ _ => 5
  | FCancelPush _ => 3 | FSettings _ => 4 | FGoaway _ => 7 | FMaxPushId _ => 13
  | FWebTransportStream _ => 65 | FGrease _ => 99
  end.

Definition frame_payload_raw (f : frame) : option (list bytes) :=
  match f with
  | FData p => Some p
  | FHeaders b => Some (bytes_chunks b)
  | FPushPromise _ e => Some (bytes_chunks e)
  | _ => None
  end.

(* Frame::payload / Frame::payload_mut: the variants the source lists *)
Definition frame_payload (f : frame) : option (list bytes) :=
  if existsb (N.eqb (frame_tag f)) payload_variants then frame_payload_raw f else None.
Definition frame_payload_mut (f : frame) : option (list bytes) :=
  if existsb (N.eqb (frame_tag f)) payload_mut_variants then frame_payload_raw f else None.

(* the frame after its payload Buf was advanced to p *)
Definition frame_set_payload (f : frame) (p : list bytes) : frame :=
  match f with
  | FData _ => FData p
  | FHeaders _ => FHeaders (concat p)
  | FPushPromise id _ => FPushPromise id (concat p)
  | _ => f
  end.

(* stream.rs: UniStreamHeader / BidiStreamHeader *)
Inductive uni_header :=
| UControl (settings : list (N * N))
| UWebTransportUni (sid : N)
| UEncoder
| UDecoder.

Definition enc_uni_header (u : uni_header) : enc :=
  match u with
  | UControl es => seq (in_order control_header_order [(0, put_var uni_Control_type); (1, enc_settings es)])
  | UWebTransportUni sid => seq [put_var uni_WebTransportUni_type; put_var sid]
  | UEncoder => put_var uni_Encoder_type
  | UDecoder => put_var uni_Decoder_type
  end.

Definition enc_bidi_header (sid : N) : enc := seq [put_var wt_bidi_type; put_var sid].
