(* Model of a NON-CONTIGUOUS `bytes::Buf`: a queue of chunks (h3v::ChunkBuf of the harness, `Chain`, a segmented
   receive buffer ...) that implements only the three required methods
     remaining() = total number of unread bytes,   chunk() = the unread part of the first chunk,
     advance(cnt) = skip cnt bytes across chunk boundaries (panics past the end),
   and of the PROVIDED methods of the bytes crate (1.x, buf_impl.rs / take.rs / bytes_mut.rs) that h3's decoders call on
   a generic `B: Buf`; they are loops over remaining / chunk / advance:
     has_remaining, get_u8, copy_to_slice (try_copy_to_slice), copy_to_bytes (= BytesMut::put(self.take(len))).
   Panic sites: 900 = the `remaining() < n` check of a provided method (panic_advance), 901 = `chunk()[0]` on an empty
   chunk, 902 = out of fuel (an empty chunk in front of unread bytes makes the Rust loop spin), 904 = advance past the end.
   Nothing here depends on generated facts.  No proofs here (Proofs/ChunkedBufProofs.v). *)
From H3V Require Import Base.Bytes.

Definition cbuf := list bytes.

(* the flat unread bytes *)
Definition cb_view (cs : cbuf) : bytes := concat cs.

Definition cb_remaining (cs : cbuf) : N := len (concat cs).
Definition cb_chunk (cs : cbuf) : bytes := match cs with [] => [] | c :: _ => c end.

(* while cnt > 0 { front = chunks.front_mut().expect(..); if cnt < front.len() { front.advance(cnt); return }
                   cnt -= front.len(); chunks.pop_front() }                      None = the panic *)
Fixpoint cb_advance (cnt : N) (cs : cbuf) {struct cs} : option cbuf :=
  if cnt =? 0 then Some cs
  else match cs with
       | [] => None
       | c :: r => if cnt <? len c then Some (skipn (N.to_nat cnt) c :: r) else cb_advance (cnt - len c) r
       end.

(* Buf::has_remaining (provided): self.remaining() > 0 *)
Definition cb_has_remaining (cs : cbuf) : bool := 0 <? cb_remaining cs.

(* Buf::get_u8 (provided): if self.remaining() < 1 { panic_advance }; let ret = self.chunk()[0]; self.advance(1); ret *)
Definition cb_get_u8 (cs : cbuf) : res unit (N * cbuf) :=
  if cb_remaining cs <? 1 then Panic 900
  else match cb_chunk cs with
       | [] => Panic 901
       | b :: _ => match cb_advance 1 cs with
                   | Some cs' => Ok (b, cs')
                   | None => Panic 904
                   end
       end.

(* Buf::try_copy_to_slice (provided) for a destination of k bytes, after its remaining() check:
   while !dst.is_empty() { src = self.chunk(); cnt = min(src.len(), dst.len()); copy; dst = &mut dst[cnt..]; self.advance(cnt) } *)
Fixpoint cb_copy_loop (fuel : nat) (k : N) (cs : cbuf) : res unit (bytes * cbuf) :=
  if k =? 0 then Ok ([], cs)
  else match fuel with
       | O => Panic 902
       | S f =>
           let src := cb_chunk cs in
           let cnt := N.min (len src) k in
           match cb_advance cnt cs with
           | None => Panic 904
           | Some cs' =>
               match cb_copy_loop f (k - cnt) cs' with
               | Ok (out, cs'') => Ok (firstn (N.to_nat cnt) src ++ out, cs'')
               | Err e => Err e
               | Panic s => Panic s
               end
           end
       end.

(* Buf::copy_to_slice(&mut dst[..k]) (provided): try_copy_to_slice(dst).unwrap_or_else(panic_advance).
   One round per chunk suffices when no chunk is empty. *)
Definition cb_copy_to_slice (k : N) (cs : cbuf) : res unit (bytes * cbuf) :=
  if cb_remaining cs <? k then Panic 900 else cb_copy_loop (S (length cs)) k cs.

(* Buf::copy_to_bytes(len) (provided): if self.remaining() < len { panic_advance };
     let mut ret = BytesMut::with_capacity(len); ret.put(self.take(len)); ret.freeze()
   BytesMut::put(src): while src.has_remaining() { s = src.chunk(); l = s.len(); extend_from_slice(s); src.advance(l) }
   with src = Take { inner: self, limit }: remaining = min(inner.remaining(), limit), chunk = inner.chunk()[..min(len, limit)],
   advance(cnt) = { assert!(cnt <= limit) (true: cnt is a min with limit); inner.advance(cnt); limit -= cnt } *)
Fixpoint cb_take_loop (fuel : nat) (limit : N) (cs : cbuf) : res unit (bytes * cbuf) :=
  if N.min (cb_remaining cs) limit =? 0 then Ok ([], cs)
  else match fuel with
       | O => Panic 902
       | S f =>
           let src := cb_chunk cs in
           let cnt := N.min (len src) limit in
           match cb_advance cnt cs with
           | None => Panic 904
           | Some cs' =>
               match cb_take_loop f (limit - cnt) cs' with
               | Ok (out, cs'') => Ok (firstn (N.to_nat cnt) src ++ out, cs'')
               | Err e => Err e
               | Panic s => Panic s
               end
           end
       end.

Definition cb_copy_to_bytes (n : N) (cs : cbuf) : res unit (bytes * cbuf) :=
  if cb_remaining cs <? n then Panic 900 else cb_take_loop (S (length cs)) n cs.

(* forgetting the chunk boundaries of the buffer a decoder leaves behind *)
Definition res_flat {E A} (r : res E (A * cbuf)) : res E (A * bytes) :=
  match r with
  | Ok (a, cs) => Ok (a, concat cs)
  | Err e => Err e
  | Panic s => Panic s
  end.
