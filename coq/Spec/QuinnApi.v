(* Vocabulary of the abstract Quinn the adapter talks to, shared by the model and the specification.
   The error enums mirror quinn 0.11 (quinn-proto ConnectionError; quinn ReadError, WriteError) and
   h3::quic::{ConnectionErrorIncoming, StreamErrorIncoming}.  Codes are the u64 carried by the variant
   (for TransportError / ConnectionClosed: the transport error code; h3 never looks at it).

   Quinn is an ORACLE: each call of `SendStream::poll_write` / each poll of the `read_chunk` future
   consumes one answer.  Nothing here says how Quinn chooses its answers. *)
From H3V Require Import Base.Bytes.

Inductive qconn_err :=
| QVersionMismatch
| QTransportError (code : N)
| QConnectionClosed (code : N)
| QApplicationClosed (code : N)
| QConnReset
| QTimedOut
| QLocallyClosed
| QCidsExhausted.

Inductive qread_err :=
| QRReset (code : N)
| QRConnectionLost (e : qconn_err)
| QRClosedStream
| QRIllegalOrderedRead
| QRZeroRttRejected.

Inductive qwrite_err :=
| QWStopped (code : N)
| QWConnectionLost (e : qconn_err)
| QWClosedStream
| QWZeroRttRejected.

(* h3::quic::ConnectionErrorIncoming; Undefined keeps the original error (Arc<dyn Error>) *)
Inductive h3_conn_err :=
| HApplicationClose (code : N)
| HTimeout
| HInternalError
| HUndefined (orig : qconn_err).

(* h3::quic::StreamErrorIncoming; Unknown keeps the original error (Box<dyn Error>) *)
Inductive h3_stream_err :=
| HConnErr (e : h3_conn_err)
| HStreamTerminated (code : N)
| HUnknownRead (orig : qread_err)
| HUnknownWrite (orig : qwrite_err)
| HUnknownFinish.

(* quinn::SendDatagramError and h3_datagram::quic_traits::SendDatagramErrorIncoming *)
Inductive qdgram_err :=
| QDUnsupportedByPeer
| QDDisabled
| QDTooLarge
| QDConnectionLost (e : qconn_err).

Inductive h3_dgram_err :=
| HDNotAvailable
| HDTooLarge
| HDConnectionError (e : h3_conn_err).

(* answers of `quinn::SendStream::poll_write(cx, chunk)`.  `WAccept k`: Quinn takes a prefix of the chunk
   offered; its documented contract is "returns the length of the prefix written", so the number it
   reports is min k (len chunk).  `WBlocked` is Poll::Pending. *)
Inductive wanswer :=
| WAccept (k : N)
| WBlocked
| WFail (e : qwrite_err).

(* answers of polling the `read_chunk(usize::MAX, true)` future *)
Inductive ranswer :=
| RChunk (b : bytes)
| RFin
| RBlocked
| RFail (e : qread_err).

(* what a quinn::SendStream has been told so far: the bytes it reported as written (in order), finish, reset *)
Record qsend := { qs_id : N; qs_log : bytes; qs_finished : bool; qs_reset : option N }.
(* what a quinn::RecvStream has been told so far: the codes passed to `stop`, in call order *)
Record qrecv := { qr_id : N; qr_stops : list N }.

Definition qsend_new (id : N) : qsend := {| qs_id := id; qs_log := []; qs_finished := false; qs_reset := None |}.
Definition qrecv_new (id : N) : qrecv := {| qr_id := id; qr_stops := [] |}.

(* the largest QUIC varint, VarInt::MAX *)
Definition varint_max : N := 2 ^ 62 - 1.
