(* RFC 9114 5.2 (connection shutdown), stated over OBSERVABLE traces only.

   Vocabulary: what a peer / an application does to a server (inputs) and what can be seen of the
   server from outside (outputs): GOAWAY frames on its control stream, which request streams
   accept() handed to the application, which were refused (STOP_SENDING / RESET_STREAM codes), and
   the other answers of accept().  Nothing here mentions h3's fields or control flow.

   "The line": with G the identifier of the most recent GOAWAY,
     - identifiers never increase,
     - a request is handed to the application only if its id is below EVERY identifier sent so far
       or later (so every request ever shown is below the last G),
     - a request is refused only when a GOAWAY has been sent and its id is >= the last G, and then
       with H3_REQUEST_REJECTED on both halves,
     - a request stream taken from the transport is either shown or refused (never lost), and
       accept() does not answer "pending" while a request stream is waiting.
   Together: for arrivals after G, shown <-> id < G.
   Closing clause: when accept() answers "no more requests" it will serve nothing further, so by then a GOAWAY
   must be on the wire whose identifier promises no request beyond those served: the last identifier is at most
   the first request id after the largest one shown (0 when none was shown). *)
From H3V Require Import Base.Bytes.

Definition rfc_H3_REQUEST_REJECTED : N := 267.   (* 0x010b, RFC 9114 8.1 *)
Definition rfc_H3_ID_ERROR : N := 264.           (* 0x0108 *)

Inductive gev :=
| EArrive (id : N)            (* the peer opened request stream id (complete request on it) *)
| EShutdown (n : N)           (* the application called shutdown(n) *)
| EPoll                       (* the application polled accept() *)
| EComplete (id : N)          (* the application dropped every handle of request id *)
| EPeerGoaway (pid : N)       (* the peer's GOAWAY arrived on its control stream *)
| EWire (g : N)               (* OUT: GOAWAY(g) written on the server's control stream *)
| EShown (id : N)             (* OUT: accept() returned request id *)
| ERejected (id : N) (stop reset : option N)  (* OUT: stream taken and refused; codes used *)
| ELost (id : N)              (* OUT: stream taken from the transport, neither shown nor refused *)
| ENone | EPending | EErr (code : N).         (* OUT: other answers of accept() *)

(* ---------- the line as predicates over a whole trace ---------- *)

Definition wire_nonincreasing (t : list gev) : Prop :=
  forall a b c g1 g2, t = a ++ EWire g1 :: b ++ EWire g2 :: c -> g2 <= g1.

Definition shown_below_every_goaway (t : list gev) : Prop :=
  forall id g, In (EShown id) t -> In (EWire g) t -> id < g.

Fixpoint last_wire (t : list gev) : option N :=
  match t with
  | [] => None
  | e :: r => match last_wire r with
              | Some g => Some g
              | None => match e with EWire g => Some g | _ => None end
              end
  end.

Definition rejected_only_beyond (t : list gev) : Prop :=
  forall a b id st rs, t = a ++ ERejected id st rs :: b ->
    st = Some rfc_H3_REQUEST_REJECTED /\ rs = Some rfc_H3_REQUEST_REJECTED /\
    exists g, last_wire a = Some g /\ g <= id.

(* streams announced by the transport and not yet taken by accept(), in arrival order *)
Fixpoint remove1 (x : N) (l : list N) : list N :=
  match l with
  | [] => []
  | y :: r => if x =? y then r else y :: remove1 x r
  end.
Definition taken (e : gev) : option N :=
  match e with EShown id | ERejected id _ _ | ELost id => Some id | _ => None end.
Definition waiting_step (w : list N) (e : gev) : list N :=
  match e with
  | EArrive id => w ++ [id]
  | _ => match taken e with Some id => remove1 id w | None => w end
  end.
Definition waiting (t : list gev) : list N := fold_left waiting_step t [].

Definition nothing_lost (t : list gev) : Prop :=
  (forall id, ~ In (ELost id) t) /\
  (forall a b e id, t = a ++ e :: b -> taken e = Some id -> In id (waiting a)) /\
  (forall a b, t = a ++ EPending :: b -> waiting a = []).

Definition line (t : list gev) : Prop :=
  wire_nonincreasing t /\ shown_below_every_goaway t /\ rejected_only_beyond t /\ nothing_lost t.

(* closing clause *)
Definition opt_max (a : option N) (x : N) : option N :=
  match a with None => Some x | Some y => Some (N.max y x) end.
Definition top_step (a : option N) (e : gev) : option N :=
  match e with EShown id => opt_max a id | _ => a end.
Definition top_shown (t : list gev) : option N := fold_left top_step t None.
Definition first_unserved (top : option N) : N := match top with Some t => t + 4 | None => 0 end.
Definition closing_goaway (t : list gev) : Prop :=
  forall a b, t = a ++ ENone :: b ->
    exists g, last_wire a = Some g /\ g <= first_unserved (top_shown a).

(* ---------- the same line as a one-pass monitor (used as the oracle on real traces) ---------- *)

Record mon := { m_wire : option N;      (* last GOAWAY id seen *)
                m_top : option N;       (* largest id shown so far *)
                m_wait : list N }.      (* streams waiting *)
Definition mon0 : mon := {| m_wire := None; m_top := None; m_wait := [] |}.

Definition opt_lt (a : option N) (g : N) : bool := match a with None => true | Some x => x <? g end.
Definition memb (x : N) (l : list N) : bool := existsb (N.eqb x) l.
Definition code_is (c : option N) (k : N) : bool := match c with Some x => x =? k | None => false end.

(* None = the trace left the line at this event *)
Definition mon_step (m : mon) (e : gev) : option mon :=
  match e with
  | EArrive id => Some {| m_wire := m_wire m; m_top := m_top m; m_wait := m_wait m ++ [id] |}
  | EWire g =>
      if (match m_wire m with None => true | Some g0 => g <=? g0 end) && opt_lt (m_top m) g
      then Some {| m_wire := Some g; m_top := m_top m; m_wait := m_wait m |} else None
  | EShown id =>
      if memb id (m_wait m) && (match m_wire m with None => true | Some g => id <? g end)
      then Some {| m_wire := m_wire m; m_top := opt_max (m_top m) id; m_wait := remove1 id (m_wait m) |}
      else None
  | ERejected id st rs =>
      if memb id (m_wait m) && code_is st rfc_H3_REQUEST_REJECTED && code_is rs rfc_H3_REQUEST_REJECTED
         && (match m_wire m with None => false | Some g => g <=? id end)
      then Some {| m_wire := m_wire m; m_top := m_top m; m_wait := remove1 id (m_wait m) |} else None
  | ELost _ => None
  | EPending => match m_wait m with [] => Some m | _ => None end
  | ENone =>
      match m_wire m with
      | Some g => if g <=? first_unserved (m_top m) then Some m else None
      | None => None
      end
  | _ => Some m
  end.

Fixpoint mon_run (m : mon) (t : list gev) : option mon :=
  match t with
  | [] => Some m
  | e :: r => match mon_step m e with Some m' => mon_run m' r | None => None end
  end.

Definition line_okb (t : list gev) : bool := match mon_run mon0 t with Some _ => true | None => false end.

(* index of the first event at which the trace leaves the line (for reports) *)
Fixpoint mon_fail_at (m : mon) (t : list gev) (i : N) : option N :=
  match t with
  | [] => None
  | e :: r => match mon_step m e with Some m' => mon_fail_at m' r (i + 1) | None => Some i end
  end.

(* ---------- client side (RFC 9114 5.2, 7.2.6) as a reference function ---------- *)
Definition rfc_H3_REQUEST_CANCELLED : N := 268.  (* 0x010c *)

Inductive cev :=
| CGoaway (id : N)        (* a GOAWAY frame with this identifier arrived on the server's control stream *)
| CDrive                  (* the client's connection driver ran *)
| CRequest                (* the application's send_request call ran (a new call, or the one waiting for a stream) *)
| CStarve                 (* the transport has no stream credit left *)
| CGrant (n : N)          (* the peer granted n more bidirectional streams *)
| CDriveErr (code : N)    (* OUT: the driver ended with this connection error (returned AND the connection closed with it) *)
| CDriveIdle              (* OUT: the driver is waiting for more *)
| CReqClosing             (* OUT: request refused "peer is closing"; no stream was opened *)
| CReqParked              (* OUT: the call waits for a stream *)
| CReqCancelled (sid : N) (code : option N)
                          (* OUT: request refused "peer is closing"; the stream obtained meanwhile was reset with this code
                             and nothing was written on it *)
| CReqOpened (sid : N).   (* OUT: a request was started: stream opened and HEADERS written *)

Inductive cop := KGoaway (id : N) | KDrive | KRequest | KStarve | KGrant (n : N).

(* reference client: [limit] = smallest identifier processed so far, [inbox] = frames not yet looked at,
   [credit] = streams the transport lets us open, [parked] = a send_request call is waiting for a stream.
   RFC 9114 5.2: no request is initiated once a GOAWAY has been processed - including by a call that
   was already waiting for a stream when the GOAWAY was processed. *)
Record rcl := { r_limit : option N; r_inbox : list N; r_failed : bool; r_next : N; r_credit : N; r_parked : bool }.
Definition rcl0 : rcl := {| r_limit := None; r_inbox := []; r_failed := false; r_next := 0; r_credit := 100; r_parked := false |}.

Fixpoint rfc_process (limit : option N) (inbox : list N) : option N * bool :=
  match inbox with
  | [] => (limit, false)
  | id :: r =>
      if negb (id mod 4 =? 0) then (limit, true)                      (* not a client-initiated bidi stream id *)
      else if (match limit with Some l => l <? id | None => false end) then (limit, true)   (* larger than before *)
      else rfc_process (Some id) r
  end.

Definition rcl_set (s : rcl) (limit : option N) (inbox : list N) (failed : bool) : rcl :=
  {| r_limit := limit; r_inbox := inbox; r_failed := failed; r_next := r_next s; r_credit := r_credit s; r_parked := r_parked s |}.
Definition rcl_stream (s : rcl) (next credit : N) (parked : bool) : rcl :=
  {| r_limit := r_limit s; r_inbox := r_inbox s; r_failed := r_failed s; r_next := next; r_credit := credit; r_parked := parked |}.

Definition rfc_client_step (s : rcl) (o : cop) : list cev * rcl :=
  if r_failed s then ([], s) else
  match o with
  | KGoaway id => ([CGoaway id], rcl_set s (r_limit s) (r_inbox s ++ [id]) false)
  | KDrive =>
      let '(l, bad) := rfc_process (r_limit s) (r_inbox s) in
      if bad then ([CDrive; CDriveErr rfc_H3_ID_ERROR], rcl_set s l [] true)
      else ([CDrive; CDriveIdle], rcl_set s l [] false)
  | KStarve => ([CStarve], rcl_stream s (r_next s) 0 (r_parked s))
  | KGrant n => ([CGrant n], rcl_stream s (r_next s) (r_credit s + n) (r_parked s))
  | KRequest =>
      if r_parked s then
        (* the waiting call *)
        if r_credit s =? 0 then ([CRequest; CReqParked], s)
        else match r_limit s with
             | Some _ => ([CRequest; CReqCancelled (r_next s) (Some rfc_H3_REQUEST_CANCELLED)],
                          rcl_stream s (r_next s + 4) (r_credit s - 1) false)
             | None => ([CRequest; CReqOpened (r_next s)], rcl_stream s (r_next s + 4) (r_credit s - 1) false)
             end
      else
        match r_limit s with
        | Some _ => ([CRequest; CReqClosing], s)
        | None => if r_credit s =? 0 then ([CRequest; CReqParked], rcl_stream s (r_next s) 0 true)
                  else ([CRequest; CReqOpened (r_next s)], rcl_stream s (r_next s + 4) (r_credit s - 1) false)
        end
  end.

Fixpoint rfc_client_run (s : rcl) (h : list cop) : list cev :=
  match h with
  | [] => []
  | o :: r => let '(out, s') := rfc_client_step s o in out ++ rfc_client_run s' r
  end.
