(* RFC 9114 section 7.2.4 (SETTINGS), 7.2.4.1 / 11.2.2 (reserved identifiers, grease), 6.2.1 (control stream),
   with the identifiers of RFC 9204 (QPACK), RFC 9220 (extended CONNECT), RFC 9297 (datagrams) and
   draft-ietf-webtrans-http3.  Written independently of h3's code: a reference parser, a reference
   serialiser, and the receive-side rules as a function of the parsed pair list. *)
From H3V Require Import Base.Bytes Spec.RFC9000.

(* one variable-length integer off the front of a byte string (RFC 9000 section 16) *)
Definition rfc_varint (bs : bytes) : option (N * bytes) :=
  match bs with
  | [] => None
  | b0 :: _ =>
      let l := rfc_vi_len b0 in
      if len bs <? l then None
      else Some (rfc_vi_value (firstn (N.to_nat l) bs), skipn (N.to_nat l) bs)
  end.

(* SETTINGS payload = Setting ( Identifier (i), Value (i) ) ... until the payload ends.
   None = an identifier or a value is cut short. *)
Fixpoint rfc_entries (fuel : nat) (bs : bytes) : option (list (N * N)) :=
  match bs with
  | [] => Some []
  | _ =>
      match fuel with
      | O => None
      | S f =>
          match rfc_varint bs with
          | None => None
          | Some (id, r1) =>
              match rfc_varint r1 with
              | None => None
              | Some (v, r2) =>
                  match rfc_entries f r2 with
                  | None => None
                  | Some l => Some ((id, v) :: l)
                  end
              end
          end
      end
  end.
Definition rfc_settings (payload : bytes) : option (list (N * N)) := rfc_entries (length payload) payload.

(* reference serialiser *)
Definition rfc_vi (x : N) : bytes := rfc_vi_enc (rfc_vi_shortest x) x.
Fixpoint rfc_settings_payload (l : list (N * N)) : bytes :=
  match l with
  | [] => []
  | (id, v) :: r => rfc_vi id ++ rfc_vi v ++ rfc_settings_payload r
  end.
Definition rfc_frame_type_SETTINGS : N := 4.
Definition rfc_stream_type_control : N := 0.
Definition rfc_settings_frame (l : list (N * N)) : bytes :=
  rfc_vi rfc_frame_type_SETTINGS ++ rfc_vi (len (rfc_settings_payload l)) ++ rfc_settings_payload l.
(* a control stream starts with its type and then the SETTINGS frame (6.2.1) *)
Definition rfc_control_stream_start (l : list (N * N)) : bytes :=
  rfc_vi rfc_stream_type_control ++ rfc_settings_frame l.

(* identifiers *)
Definition SETTINGS_QPACK_MAX_TABLE_CAPACITY : N := 1.          (* 0x01 RFC 9204 *)
Definition SETTINGS_MAX_FIELD_SECTION_SIZE : N := 6.            (* 0x06 RFC 9114 *)
Definition SETTINGS_QPACK_BLOCKED_STREAMS : N := 7.             (* 0x07 RFC 9204 *)
Definition SETTINGS_ENABLE_CONNECT_PROTOCOL : N := 8.           (* 0x08 RFC 9220 *)
Definition SETTINGS_H3_DATAGRAM : N := 51.                      (* 0x33 RFC 9297 *)
Definition SETTINGS_ENABLE_WEBTRANSPORT : N := 727725890.       (* 0x2b603742 draft-ietf-webtrans-http3 *)
Definition SETTINGS_WEBTRANSPORT_MAX_SESSIONS : N := 727725891. (* 0x2b603743 *)
Definition rfc_known_ids : list N :=
  [SETTINGS_QPACK_MAX_TABLE_CAPACITY; SETTINGS_MAX_FIELD_SECTION_SIZE; SETTINGS_QPACK_BLOCKED_STREAMS;
   SETTINGS_ENABLE_CONNECT_PROTOCOL; SETTINGS_H3_DATAGRAM; SETTINGS_ENABLE_WEBTRANSPORT;
   SETTINGS_WEBTRANSPORT_MAX_SESSIONS].
(* HTTP/2 settings without an HTTP/3 counterpart: 0x00, 0x02, 0x03, 0x04, 0x05 (11.2.2) *)
Definition rfc_reserved_ids : list N := [0; 2; 3; 4; 5].
(* 0x1f * N + 0x21 *)
Definition rfc_is_grease (id : N) : bool := (33 <=? id) && ((id - 33) mod 31 =? 0).

Definition rfc_H3_SETTINGS_ERROR : N := 265.   (* 0x0109 *)
Definition rfc_H3_INTERNAL_ERROR : N := 258.   (* 0x0102 *)
Definition rfc_H3_FRAME_UNEXPECTED : N := 261. (* 0x0105 *)

Definition rfc_in (x : N) (l : list N) : bool := existsb (N.eqb x) l.
Definition rfc_ids (l : list (N * N)) : list N := map fst l.
Fixpoint rfc_has_dup (ids : list N) : bool :=
  match ids with
  | [] => false
  | x :: r => rfc_in x r || rfc_has_dup r
  end.
Definition rfc_has_reserved (l : list (N * N)) : bool := existsb (fun p => rfc_in (fst p) rfc_reserved_ids) l.
(* the known part of a pair list, in wire order *)
Definition rfc_known_part (l : list (N * N)) : list (N * N) := filter (fun p => rfc_in (fst p) rfc_known_ids) l.
Definition rfc_has_repeated_known (l : list (N * N)) : bool := rfc_has_dup (rfc_ids (rfc_known_part l)).

(* a SETTINGS payload an endpoint may send: parses, no identifier twice, none reserved *)
Definition rfc_sendable (payload : bytes) (l : list (N * N)) : Prop :=
  rfc_settings payload = Some l /\ NoDup (rfc_ids l) /\ rfc_has_reserved l = false.

(* values in force: the pair's value when the identifier is present, else the protocol default.
   MAX_FIELD_SECTION_SIZE defaults to unlimited (7.2.4.1), written as the largest varint; all others to 0. *)
Definition rfc_unlimited : N := 2 ^ 62 - 1.
Definition rfc_value (id dflt : N) (l : list (N * N)) : N :=
  match assoc id l with Some v => v | None => dflt end.
(* 0/1 parameters; other values are not given a meaning by the property (RFC 9297 makes them an error for
   H3_DATAGRAM): None = unconstrained *)
Definition rfc_flag (v : N) : option N := if v =? 0 then Some 0 else if v =? 1 then Some 1 else None.

Record rfc_applied := {
  r_max_field_section_size : N;
  r_enable_webtransport : option N;
  r_enable_connect_protocol : option N;
  r_h3_datagram : option N;
  r_webtransport_max_sessions : N }.
Definition rfc_apply (l : list (N * N)) : rfc_applied :=
  {| r_max_field_section_size := rfc_value SETTINGS_MAX_FIELD_SECTION_SIZE rfc_unlimited l;
     r_enable_webtransport := rfc_flag (rfc_value SETTINGS_ENABLE_WEBTRANSPORT 0 l);
     r_enable_connect_protocol := rfc_flag (rfc_value SETTINGS_ENABLE_CONNECT_PROTOCOL 0 l);
     r_h3_datagram := rfc_flag (rfc_value SETTINGS_H3_DATAGRAM 0 l);
     r_webtransport_max_sessions := rfc_value SETTINGS_WEBTRANSPORT_MAX_SESSIONS 0 l |}.
Definition rfc_defaults : rfc_applied := rfc_apply [].

(* receiving a SETTINGS payload *)
Inductive rfc_rx :=
| RxTruncated                    (* an entry is cut short: a connection error (code not fixed by the property) *)
| RxSettingsError                (* reserved or repeated identifier: H3_SETTINGS_ERROR *)
| RxApply (known : list (N * N)) (a : rfc_applied).
Definition rfc_receive (payload : bytes) : rfc_rx :=
  match rfc_settings payload with
  | None => RxTruncated
  | Some l =>
      if rfc_has_reserved l || rfc_has_repeated_known l then RxSettingsError
      else RxApply (rfc_known_part l) (rfc_apply l)
  end.

(* what a configuration must put on the wire: the five parameters h3 announces, preceded by one grease
   pair when grease is on *)
Definition rfc_b2n (b : bool) : N := if b then 1 else 0.
Definition rfc_config_pairs (mfs : N) (wt ec dg : bool) (wtmax : N) : list (N * N) :=
  [(SETTINGS_MAX_FIELD_SECTION_SIZE, mfs); (SETTINGS_ENABLE_CONNECT_PROTOCOL, rfc_b2n ec);
   (SETTINGS_ENABLE_WEBTRANSPORT, rfc_b2n wt); (SETTINGS_H3_DATAGRAM, rfc_b2n dg);
   (SETTINGS_WEBTRANSPORT_MAX_SESSIONS, wtmax)].

(* ---------- what a builder is expected to be: one option per setter; the last call of a setter wins; an
   option that was never set keeps its default (field section size unlimited, grease on, the rest off / 0) ---------- *)
Inductive opt := O_mfs | O_grease | O_wt | O_ec | O_dg | O_wtmax.
Definition opt_n (o : opt) : N :=
  match o with O_mfs => 0 | O_grease => 1 | O_wt => 2 | O_ec => 3 | O_dg => 4 | O_wtmax => 5 end.
Definition opt_default (o : opt) : N :=
  match o with O_mfs => rfc_unlimited | O_grease => 1 | _ => 0 end.
Definition opt_value (calls : list (opt * N)) (o : opt) : N :=
  fold_left (fun acc call => if opt_n (fst call) =? opt_n o then snd call else acc) calls (opt_default o).
Definition client_opts : list opt := [O_mfs; O_grease; O_ec; O_dg].
Definition server_opts : list opt := [O_mfs; O_grease; O_wt; O_ec; O_dg; O_wtmax].
