(* RFC 9114 section 7.1 (frame layout), 7.2 (frame definitions), 7.2.8 / 11.2.1 (reserved types), 9 (unknown
   types are ignored), and draft-ietf-webtrans-http3 4.2 (the 0x41 stream header), as a reference reader of the
   FLAT byte string of a stream.  Written from the RFC text with the variable-length integer functions of
   Spec/RFC9000.v; it shares only data types (Spec/FrameVocab.v) with the model of h3's code.

   `scheck` decides whether the contents of a SETTINGS payload are acceptable (None) or not (Some e).  That
   decision is the subject of C13; the frame layer only has to hand the right payload to it. *)
From H3V Require Import Base.Bytes Spec.RFC9000 Spec.FrameVocab.

(* RFC 9000 16: a complete variable-length integer at the head of [v], and what follows it *)
Definition rfc_take_varint (v : bytes) : option (N * bytes) :=
  match v with
  | [] => None
  | b0 :: _ =>
      if len v <? rfc_vi_len b0 then None
      else let l := N.to_nat (rfc_vi_len b0) in Some (rfc_vi_value (firstn l v), skipn l v)
  end.

(* a payload that is exactly one variable-length integer *)
Definition rfc_single_varint (p : bytes) : option N :=
  match rfc_take_varint p with
  | Some (x, []) => Some x
  | _ => None
  end.

(* RFC 9114 11.2.1, Table 2 *)
Definition T_DATA : N := 0.
Definition T_HEADERS : N := 1.
Definition T_CANCEL_PUSH : N := 3.
Definition T_SETTINGS : N := 4.
Definition T_PUSH_PROMISE : N := 5.
Definition T_GOAWAY : N := 7.
Definition T_MAX_PUSH_ID : N := 13.
(* "Reserved - these were used in HTTP/2": 0x02, 0x06, 0x08, 0x09 (7.2.8) *)
Definition h2_reserved (ty : N) : bool := (ty =? 2) || (ty =? 6) || (ty =? 8) || (ty =? 9).
(* draft-ietf-webtrans-http3: WEBTRANSPORT_STREAM signal value *)
Definition T_WEBTRANSPORT_STREAM : N := 65.

Inductive class := CKnown (f : frame) | CBad (e : perr_class) | CSkip.

(* a complete frame (type, payload) other than DATA: known with exactly its fields / malformed / reserved / unknown *)
Definition classify (scheck : bytes -> option settings_err) (ty : N) (p : bytes) : class :=
  if ty =? T_HEADERS then CKnown (FHeaders p)
  else if ty =? T_CANCEL_PUSH then
    match rfc_single_varint p with Some x => CKnown (FCancelPush x) | None => CBad PCMalformed end
  else if ty =? T_SETTINGS then
    match scheck p with None => CKnown (FSettings p) | Some e => CBad (PCSettings e) end
  else if ty =? T_PUSH_PROMISE then
    match rfc_take_varint p with Some (x, r) => CKnown (FPushPromise x r) | None => CBad PCMalformed end
  else if ty =? T_GOAWAY then
    match rfc_single_varint p with Some x => CKnown (FGoaway x) | None => CBad PCMalformed end
  else if ty =? T_MAX_PUSH_ID then
    match rfc_single_varint p with Some x => CKnown (FMaxPushId x) | None => CBad PCMalformed end
  else if h2_reserved ty then CBad (PCForbidden ty)
  else CSkip.

(* how the stream ends *)
Inductive ending := Open | Finished | Broken (e : qerr).

(* the stream stops inside a frame / exactly between two frames *)
Definition cut_tail (en : ending) : tail :=
  match en with Open => Waiting | Finished => FrameError | Broken e => Aborted e end.
Definition boundary_tail (en : ending) : tail :=
  match en with Open => Waiting | Finished => CleanEnd | Broken e => Aborted e end.

(* the frame header at the head of [v]: type, declared length, and the bytes after the header *)
Definition tlv_header (v : bytes) : option (N * N * bytes) :=
  match rfc_take_varint v with
  | None => None
  | Some (ty, r1) =>
      match rfc_take_varint r1 with
      | None => None
      | Some (l, r2) => Some (ty, l, r2)
      end
  end.

(* pure type-length-value segmentation: the complete frames at the head of the string and the leftover *)
Fixpoint segment (fuel : nat) (v : bytes) : list (N * bytes) * bytes :=
  match fuel with
  | O => ([], v)
  | S f =>
      match tlv_header v with
      | None => ([], v)
      | Some (ty, l, r2) =>
          if len r2 <? l then ([], v)
          else let '(fs, rest) := segment f (skipn (N.to_nat l) r2) in
               ((ty, firstn (N.to_nat l) r2) :: fs, rest)
      end
  end.

(* one step of the reference reader on a buffer [v]: what a frame decoder must answer *)
Inductive step1 :=
| S1Need                                  (* no complete frame (header) yet *)
| S1Frame (f : frame) (consumed : N)      (* DATA: the header only *)
| S1Bad (e : perr_class)
| S1Skip (ty consumed : N).               (* a complete frame of unknown type *)
Definition first_step (scheck : bytes -> option settings_err) (v : bytes) : step1 :=
  match rfc_take_varint v with
  | None => S1Need
  | Some (ty, r1) =>
    if ty =? T_WEBTRANSPORT_STREAM then
      match rfc_take_varint r1 with
      | None => S1Need
      | Some (sid, r2) => S1Frame (FWebTransport sid) (len v - len r2)
      end
    else
      match rfc_take_varint r1 with
      | None => S1Need
      | Some (l, r2) =>
        if ty =? T_DATA then S1Frame (FData l) (len v - len r2)
        else if len r2 <? l then S1Need
        else match classify scheck ty (firstn (N.to_nat l) r2) with
             | CKnown fr => S1Frame fr (len v - len r2 + l)
             | CBad e => S1Bad e
             | CSkip => S1Skip ty (len v - len r2 + l)
             end
      end
  end.

(* What an endpoint must act on when the stream carries exactly [v] and ends as [en]:
   frames in order, DATA payload bytes in order, then how it stops.  Every round consumes a complete header
   (at least two bytes), so [S (length v)] rounds always suffice. *)
Fixpoint outcome_from (fuel : nat) (scheck : bytes -> option settings_err) (v : bytes) (en : ending)
  : list tok * tail :=
  match fuel with
  | O => ([], Waiting)
  | S f =>
    match v with
    | [] => ([], boundary_tail en)
    | _ =>
      match rfc_take_varint v with
      | None => ([], cut_tail en)
      | Some (ty, r1) =>
        if ty =? T_WEBTRANSPORT_STREAM then
          match rfc_take_varint r1 with
          | None => ([], cut_tail en)
          | Some (sid, _) => ([TFrame (FWebTransport sid)], Handover)
          end
        else
          match rfc_take_varint r1 with
          | None => ([], cut_tail en)
          | Some (l, r2) =>
            if ty =? T_DATA then
              if len r2 <? l then (TFrame (FData l) :: map TByte r2, cut_tail en)
              else
                let '(ts, t) := outcome_from f scheck (skipn (N.to_nat l) r2) en in
                (TFrame (FData l) :: map TByte (firstn (N.to_nat l) r2) ++ ts, t)
            else if len r2 <? l then ([], cut_tail en)
            else
              match classify scheck ty (firstn (N.to_nat l) r2) with
              | CKnown fr =>
                  let '(ts, t) := outcome_from f scheck (skipn (N.to_nat l) r2) en in (TFrame fr :: ts, t)
              | CBad e => ([], ProtoError e)
              | CSkip => outcome_from f scheck (skipn (N.to_nat l) r2) en
              end
          end
      end
    end
  end.

Definition frame_outcome (scheck : bytes -> option settings_err) (flat : bytes) (en : ending) : list tok * tail :=
  outcome_from (S (length flat)) scheck flat en.

(* RFC 9114 8.1: the error codes *)
Definition H3_FRAME_UNEXPECTED_rfc : N := 261.
Definition H3_FRAME_ERROR_rfc : N := 262.
Definition H3_SETTINGS_ERROR_rfc : N := 265.
Definition tail_code (t : tail) : option N :=
  match t with
  | FrameError => Some H3_FRAME_ERROR_rfc
  | ProtoError PCMalformed => Some H3_FRAME_ERROR_rfc
  | ProtoError (PCForbidden _) => Some H3_FRAME_UNEXPECTED_rfc
  | ProtoError (PCSettings _) => Some H3_SETTINGS_ERROR_rfc
  | _ => None
  end.
