(* WebTransport over HTTP/3 (draft-ietf-webtrans-http3, the draft h3-webtransport implements), the part that
   concerns property C19, written over flat byte strings and independently of h3's code:
     - a session is identified by the stream ID of its extended CONNECT request (section 2 / 3.3);
     - a WebTransport stream starts with a signal value (0x41 on bidirectional streams, section 4.2; stream type
       0x54 on unidirectional streams, section 4.1) and the session ID, both RFC 9000 variable-length integers;
       everything after that header is the application's payload, up to the end of the QUIC stream;
     - unidirectional streams of type 0x54 have a meaning only when the extension was enabled. *)
From H3V Require Import Base.Bytes Spec.RFC9000.

Definition WT_BIDI_SIGNAL : N := 65.   (* 0x41 *)
Definition WT_UNI_TYPE : N := 84.      (* 0x54 *)

Definition wt_session_of_connect (connect_stream_id : N) : N := connect_stream_id.

(* a sender writes each integer in its shortest form *)
Definition wt_varint (x : N) : bytes := rfc_vi_enc (rfc_vi_shortest x) x.
Definition wt_stream_header (signal session : N) : bytes := wt_varint signal ++ wt_varint session.
Definition wt_stream_bytes (signal session : N) (payload : bytes) : bytes :=
  wt_stream_header signal session ++ payload.

(* a receiver accepts any of the four forms: reference reader of one integer *)
Definition wt_read_varint (bs : bytes) : option (N * bytes) :=
  match bs with
  | [] => None
  | b0 :: _ =>
      let l := rfc_vi_len b0 in
      if len bs <? l then None
      else Some (rfc_vi_value (firstn (N.to_nat l) bs), skipn (N.to_nat l) bs)
  end.

Inductive wt_parse_result :=
| WtStream (session : N) (payload : bytes)   (* complete header of the expected kind *)
| WtIncomplete                               (* the bytes end inside the header *)
| WtOtherKind (signal : N).                  (* first integer is not the expected signal *)

Definition wt_parse (signal : N) (bs : bytes) : wt_parse_result :=
  match wt_read_varint bs with
  | None => WtIncomplete
  | Some (t, r) =>
      if t =? signal then
        match wt_read_varint r with
        | None => WtIncomplete
        | Some (s, p) => WtStream s p
        end
      else WtOtherKind t
  end.

(* how a QUIC stream ends *)
Inductive wt_end := WtFin | WtReset (code : N) | WtOpen.

(* What an application that accepts the stream and reads it to the end must observe, given everything
   the peer sent on the stream.  [enabled] only matters for unidirectional streams. *)
Inductive wt_observation :=
| ObsStream (session : N) (payload : bytes) (e : wt_end)   (* surfaced, attached to session, these bytes, this ending *)
| ObsNothing                                               (* not surfaced, and no connection error (STOP_SENDING or not: unconstrained) *)
| ObsUnconstrained.                                        (* not a WebTransport stream: other properties *)

Definition wt_expect_uni (enabled : bool) (bs : bytes) (e : wt_end) : wt_observation :=
  match wt_parse WT_UNI_TYPE bs with
  | WtStream s p => if enabled then ObsStream s p e else ObsNothing
  | WtIncomplete => ObsNothing
  | WtOtherKind _ => ObsUnconstrained
  end.

Definition wt_expect_bidi (bs : bytes) (e : wt_end) : wt_observation :=
  match wt_parse WT_BIDI_SIGNAL bs with
  | WtStream s p => ObsStream s p e
  | WtIncomplete => match e with WtOpen => ObsNothing | _ => ObsUnconstrained end
  | WtOtherKind _ => ObsUnconstrained
  end.
