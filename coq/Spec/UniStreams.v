(* RFC 9114 section 6.2 (unidirectional streams, stream types), 6.2.1 (control streams), 6.2.2 (push streams),
   6.2.3 (reserved stream types), 7.2.3-7.2.7 (frames of the control stream), 5.2 (GOAWAY identifiers),
   RFC 9204 4.2 (QPACK streams are critical), read as a function of WHAT THE PEER SENT: for every peer-initiated
   unidirectional stream its flat byte string and how it ended.  Arrival order, chunking, the moments at which
   the endpoint was polled and what happened to the endpoint's own streams do not appear: the property says they
   must not matter.

   Frame boundaries are those of Spec/Frames.v (RFC 9114 7.1 segmentation of a flat byte string, C02's spec);
   whether a SETTINGS payload is acceptable is Spec/RFC9114Settings.v (C13's spec).  Nothing here refers to the
   model of h3's code.

   Result: the error codes a connection may die with (`allowed_errors`), whether a violation is complete so that an
   endpoint that has processed everything delivered must have died (`must_fail`), the control frames that must
   have been acted upon, in order (`hs_acted`), and the streams that must have been refused with
   STOP_SENDING(H3_STREAM_CREATION_ERROR) (`hs_stops`). *)
From H3V Require Import Base.Bytes Spec.RFC9000 Spec.FrameVocab Spec.Frames Spec.RFC9114Settings.

(* RFC 9114 8.1 *)
Definition E_STREAM_CREATION : N := 259.       (* 0x0103 *)
Definition E_CLOSED_CRITICAL : N := 260.       (* 0x0104 *)
Definition E_FRAME_UNEXPECTED : N := 261.      (* 0x0105 *)
Definition E_FRAME_ERROR : N := 262.           (* 0x0106 *)
Definition E_ID_ERROR : N := 264.              (* 0x0108 *)
Definition E_SETTINGS_ERROR : N := 265.        (* 0x0109 *)
Definition E_MISSING_SETTINGS : N := 266.      (* 0x010a *)

(* RFC 9114 11.2.4 stream types; 0x54 is draft-ietf-webtrans-http3's unidirectional stream type *)
Definition ST_CONTROL : N := 0.
Definition ST_PUSH : N := 1.
Definition ST_QPACK_ENCODER : N := 2.
Definition ST_QPACK_DECODER : N := 3.
Definition ST_WEBTRANSPORT_UNI : N := 84.

Inductive srole := SServer | SClient.

(* 6.2: a unidirectional stream starts with its type; a push stream continues with the Push ID (6.2.2), a
   WebTransport stream with the session id.  The header of a flat byte string: type, optional id, what follows;
   None = not complete yet. *)
Definition has_second_varint (ty : N) : bool := (ty =? ST_PUSH) || (ty =? ST_WEBTRANSPORT_UNI).
Definition uni_header (flat : bytes) : option (N * option N * bytes) :=
  match rfc_take_varint flat with
  | None => None
  | Some (ty, r1) =>
      if has_second_varint ty then
        match rfc_take_varint r1 with
        | None => None
        | Some (i, r2) => Some (ty, Some i, r2)
        end
      else Some (ty, None, r1)
  end.

(* Reading the header over time.  The peer's bytes arrive in pieces at arbitrary moments, the stream may be closed
   or reset at any point, and the endpoint looks at the stream at arbitrary moments (HPoll).  Reference behaviour:
   at a look, the stream is resolved as soon as its complete header has been delivered (whatever the pieces
   were), silently dropped if it ended before that, and left waiting otherwise. *)
Inductive haction := HArrive (e : ev) | HPoll.
Inductive hstatus := HWaiting | HResolved (ty : N) (id : option N) | HDropped.
Record href := { r_flat : bytes; r_ended : bool; r_st : hstatus }.
Definition href_init : href := {| r_flat := []; r_ended := false; r_st := HWaiting |}.
Definition href_step (r : href) (a : haction) : href :=
  match a with
  | HArrive e =>
      if r_ended r then r
      else match e with
           | Chunk b => {| r_flat := r_flat r ++ b; r_ended := false; r_st := r_st r |}
           | _ => {| r_flat := r_flat r; r_ended := true; r_st := r_st r |}
           end
  | HPoll =>
      match r_st r with
      | HWaiting =>
          match uni_header (r_flat r) with
          | Some (ty, id, _) => {| r_flat := r_flat r; r_ended := r_ended r; r_st := HResolved ty id |}
          | None => if r_ended r then {| r_flat := r_flat r; r_ended := true; r_st := HDropped |} else r
          end
      | _ => r
      end
  end.

(* acceptable SETTINGS contents (C13): a truncated entry or a reserved / repeated identifier is refused *)
Definition uni_scheck (p : bytes) : option settings_err :=
  match rfc_receive p with
  | RxApply _ _ => None
  | RxTruncated => Some SMalformed
  | RxSettingsError => Some (SInvalidId 0)
  end.

(* what an endpoint does with a control frame: apply the settings, process the GOAWAY, note the push ids *)
Inductive sact := SaSettings (payload : bytes) | SaGoaway (id : N) | SaCancelPush (id : N) | SaMaxPushId (id : N).

Definition before_settings (got : bool) : list N := if got then [] else [E_MISSING_SETTINGS].

(* how the control stream stops, seen after all complete frames were fine *)
Definition tail_rule (got : bool) (t : tail) : list N :=
  match t with
  | CleanEnd => [E_CLOSED_CRITICAL]                                   (* 6.2.1: closed at any point *)
  | FrameError => [E_FRAME_ERROR; E_CLOSED_CRITICAL]                  (* 7.1 truncated last frame; it is also closed *)
  | ProtoError PCMalformed => E_FRAME_ERROR :: before_settings got
  | ProtoError (PCForbidden _) => E_FRAME_UNEXPECTED :: before_settings got       (* 7.2.8 *)
  | ProtoError (PCSettings e) =>
      E_SETTINGS_ERROR :: (if got then [E_FRAME_UNEXPECTED] else [])
        ++ match e with SMalformed => [E_FRAME_ERROR] | _ => [] end
  | Aborted _ => [E_CLOSED_CRITICAL]
  | Handover => []
  | Waiting => []
  end.

(* The control stream automaton, one frame at a time.  State: was SETTINGS seen, the last GOAWAY identifier, the
   last MAX_PUSH_ID.  Verdict on a frame: act on it (new state, plus codes of rules the property's statement does
   not list but the RFC has - an endpoint MAY also fail with them: CANCEL_PUSH for a push that was never promised,
   a MAX_PUSH_ID that goes down), or fail with one of the listed codes. *)
Record cstate := { cs_got : bool; cs_goaway : option N; cs_maxpush : option N }.
Definition cs_init : cstate := {| cs_got := false; cs_goaway := None; cs_maxpush := None |}.
Inductive cverdict := CAct (a : sact) (st : cstate) (soft : list N) | CFail (codes : list N).

Definition ctl_rule (r : srole) (st : cstate) (f : frame) : cverdict :=
  let got := cs_got st in
  match f with
  | FSettings p =>
      if got then CFail [E_FRAME_UNEXPECTED]                          (* 7.2.4: a second SETTINGS *)
      else CAct (SaSettings p) {| cs_got := true; cs_goaway := cs_goaway st; cs_maxpush := cs_maxpush st |} []
  | FGoaway id =>
      if negb got then CFail [E_MISSING_SETTINGS]
      else if (match r with SClient => negb (id mod 4 =? 0) | SServer => false end)
      then CFail [E_ID_ERROR]                                         (* 7.2.6: not a client-initiated bidirectional stream id *)
      else if (match cs_goaway st with Some p => p <? id | None => false end)
      then CFail [E_ID_ERROR]                                         (* 5.2: identifiers must not increase *)
      else CAct (SaGoaway id) {| cs_got := got; cs_goaway := Some id; cs_maxpush := cs_maxpush st |} []
  | FCancelPush id =>
      if negb got then CFail [E_MISSING_SETTINGS]
      else match r with
           | SClient => CFail [E_FRAME_UNEXPECTED; E_ID_ERROR]        (* no push was ever allowed: DESIGN 11 *)
           | SServer => CAct (SaCancelPush id) st [E_ID_ERROR]
           end
  | FMaxPushId id =>
      if negb got then CFail [E_MISSING_SETTINGS]
      else match r with
           | SClient => CFail [E_FRAME_UNEXPECTED]                    (* 7.2.7 *)
           | SServer =>
               CAct (SaMaxPushId id) {| cs_got := got; cs_goaway := cs_goaway st; cs_maxpush := Some id |}
                    (if match cs_maxpush st with Some p => id <? p | None => false end then [E_ID_ERROR] else [])
           end
  | FData _ | FHeaders _ | FPushPromise _ _ =>                        (* 7.2.1, 7.2.2, 7.2.5 *)
      CFail (E_FRAME_UNEXPECTED :: before_settings got)
  | FWebTransport _ =>                                                (* not a frame of the control stream *)
      CFail (E_FRAME_UNEXPECTED :: E_FRAME_ERROR :: before_settings got)
  end.

(* over a sequence of frames: what was acted upon, the state reached, and the codes of the first violation *)
Fixpoint ctl_run (r : srole) (st : cstate) (fs : list frame) : list sact * cstate * option (list N) :=
  match fs with
  | [] => ([], st, None)
  | f :: fs' =>
      match ctl_rule r st f with
      | CFail codes => ([], st, Some codes)
      | CAct a st' _ => let '(acts, st2, v) := ctl_run r st' fs' in (a :: acts, st2, v)
      end
  end.

(* over the frames of Spec/Frames.v and how the stream stops: acted upon; codes of the first violation ([] = none);
   tolerated codes *)
Fixpoint ctl_scan (r : srole) (st : cstate) (ts : list tok) (t : tail) : list sact * list N * list N :=
  match ts with
  | [] => ([], tail_rule (cs_got st) t, [])
  | TByte _ :: ts' => ctl_scan r st ts' t
  | TFrame f :: ts' =>
      match ctl_rule r st f with
      | CFail codes => ([], codes, [])
      | CAct a st' soft => let '(acts, h, s) := ctl_scan r st' ts' t in (a :: acts, h, soft ++ s)
      end
  end.

(* one peer-initiated unidirectional stream: everything it carried, and how it ended *)
Record sdesc := { sd_id : N; sd_bytes : bytes; sd_end : ending }.

Inductive sclass :=
| ScNoType                 (* the type is not complete: waiting, or closed/reset early and silently dropped *)
| ScControl (rest : bytes)
| ScEncoder | ScDecoder
| ScPush | ScWebTransport
| ScUnknown (ty : N).

Definition classify_stream (s : sdesc) : sclass :=
  match rfc_take_varint (sd_bytes s) with
  | None => ScNoType
  | Some (ty, rest) =>
      if ty =? ST_CONTROL then ScControl rest
      else if ty =? ST_PUSH then ScPush
      else if ty =? ST_QPACK_ENCODER then ScEncoder
      else if ty =? ST_QPACK_DECODER then ScDecoder
      else if ty =? ST_WEBTRANSPORT_UNI then ScWebTransport
      else ScUnknown ty
  end.

Definition ended (e : ending) : bool := match e with Open => false | _ => true end.
Definition is_broken (e : ending) : bool := match e with Broken _ => true | _ => false end.

Record ctl_view := { cv_acted : list sact; cv_hard : list N; cv_soft : list N; cv_closed : list N; cv_broken : bool }.

(* [sc] decides whether the contents of a SETTINGS payload are acceptable (Spec/Frames.v) *)
Definition control_view_with (sc : bytes -> option settings_err) (r : srole) (rest : bytes) (e : ending) : ctl_view :=
  let '(ts, t) := frame_outcome sc rest e in
  let '(a, h, s) := ctl_scan r cs_init ts t in
  {| cv_acted := a; cv_hard := h; cv_soft := s;
     (* a stream that has ended is closed whatever it carried before: failing with that code is never wrong *)
     cv_closed := if ended e then [E_CLOSED_CRITICAL] else [];
     cv_broken := is_broken e |}.

Definition control_view := control_view_with uni_scheck.

Definition controls_with (sc : bytes -> option settings_err) (r : srole) (h : list sdesc) : list ctl_view :=
  flat_map (fun s => match classify_stream s with ScControl rest => [control_view_with sc r rest (sd_end s)] | _ => [] end) h.
Definition controls := controls_with uni_scheck.
Definition count_class (p : sclass -> bool) (h : list sdesc) : nat := length (filter (fun s => p (classify_stream s)) h).
Definition is_control c := match c with ScControl _ => true | _ => false end.
Definition is_encoder c := match c with ScEncoder => true | _ => false end.
Definition is_decoder c := match c with ScDecoder => true | _ => false end.

(* 6.2.1 / RFC 9204 4.2: a second control, encoder or decoder stream *)
Definition duplicates (h : list sdesc) : list N :=
  if (2 <=? count_class is_control h)%nat || (2 <=? count_class is_encoder h)%nat || (2 <=? count_class is_decoder h)%nat
  then [E_STREAM_CREATION] else [].

(* rules outside the statement's list: a push stream (6.2.2: a server refuses it with H3_STREAM_CREATION_ERROR;
   4.6: a client that allowed no push with H3_ID_ERROR), a QPACK stream that is closed (RFC 9204 4.2) *)
Definition stream_soft (r : srole) (s : sdesc) : list N :=
  match classify_stream s with
  | ScPush => [match r with SServer => E_STREAM_CREATION | SClient => E_ID_ERROR end]
  | ScEncoder | ScDecoder => if ended (sd_end s) then [E_CLOSED_CRITICAL] else []
  | _ => []
  end.

Record hspec := {
  hs_hard : list N;        (* codes of the complete violations the statement lists *)
  hs_soft : list N;        (* codes of rules it does not list: failing with them is tolerated, never required *)
  hs_acted : list sact;    (* control frames to be acted upon, in order *)
  hs_exact : bool;         (* true: an endpoint failing with a code of hs_hard acted on exactly hs_acted; false: on a prefix *)
  hs_any : bool;           (* several control streams: which one was served is not determined *)
  hs_stops : list N        (* streams of unknown type *)
}.

Definition nonempty {A} (l : list A) : bool := match l with [] => false | _ => true end.

Definition uni_spec_with (sc : bytes -> option settings_err) (r : srole) (h : list sdesc) : hspec :=
  let cs := controls_with sc r h in
  let dup := duplicates h in
  let hard := dup ++ flat_map cv_hard cs in
  let other := flat_map (stream_soft r) h in
  {| hs_hard := hard;
     hs_soft := flat_map cv_soft cs ++ flat_map cv_closed cs ++ other;
     hs_acted := match cs with [c] => cv_acted c | _ => [] end;
     hs_exact := match cs with
                 | [c] => negb (nonempty dup) && negb (cv_broken c) && negb (nonempty (cv_soft c)) && negb (nonempty other)
                 | [] => true
                 | _ => false
                 end;
     hs_any := match cs with _ :: _ :: _ => true | _ => false end;
     hs_stops := flat_map (fun s => match classify_stream s with ScUnknown _ => [sd_id s] | _ => [] end) h |}.

(* with the SETTINGS contents rule of C13's specification *)
Definition uni_spec := uni_spec_with uni_scheck.

(* the connection may fail with these codes and no other *)
Definition allowed_errors_with (sc : bytes -> option settings_err) (r : srole) (h : list sdesc) : list N :=
  hs_hard (uni_spec_with sc r h) ++ hs_soft (uni_spec_with sc r h).
Definition allowed_errors := allowed_errors_with uni_scheck.
(* a violation the statement lists is complete: an endpoint that has processed everything delivered has failed *)
Definition must_fail (r : srole) (h : list sdesc) : bool := nonempty (hs_hard (uni_spec r h)).
