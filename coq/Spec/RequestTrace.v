(* How a history on a request stream is read for C03: what the application was shown, how its last call ended, and
   when that is acceptable for the outcome Spec/RequestSeq.v prescribes.  Only TYPES of the model are used. *)
From H3V Require Import Base.Bytes Spec.FrameVocab Spec.Frames Spec.FrameTrace Spec.RequestSeq
  Model.FrameStream Model.RequestStream.

Definition side_of (r : role) : rside := match r with RServer => AtServer | RClient => AtClient end.

(* arrivals / contracts, as in Spec/FrameTrace.v *)
Definition to_action (a : raction) : action := match a with RArrive e => Arrive e | RCall => CallAuto end.
Definition rhist_ok (h : list raction) : Prop := hist_ok (map to_action h).
Definition rflat_of (h : list raction) : bytes := flat_of (map to_action h).
Definition rending_of (h : list raction) : ending := ending_of (map to_action h).
Definition rsettled (h : list raction) : bool := settled (map to_action h).

Definition events_of_robs (o : robs) : list revent :=
  match o with
  | OHead (Ready (Ok h)) => [EHead h]
  | OBody (Ready (Ok (Some d))) => map EByte d
  | OBody (Ready (Ok None)) => [EBodyEnd]
  | OTrail (Ready (Ok t)) => [ETrailers t]
  | _ => []
  end.
Definition events_of (os : list robs) : list revent := flat_map events_of_robs os.

Definition robs_pending (o : robs) : bool :=
  match o with OHead Pending | OBody Pending | OTrail Pending => true | _ => false end.
(* the application stops after an error, a panic, or the answer of recv_trailers *)
Definition robs_final (o : robs) : bool :=
  match o with
  | OHead (Ready (Ok _)) | OBody (Ready (Ok _)) => false
  | OHead Pending | OBody Pending | OTrail Pending => false
  | _ => true
  end.
Fixpoint last_robs (os : list robs) : option robs :=
  match os with
  | [] => None
  | [o] => Some o
  | _ :: r => last_robs r
  end.

Inductive ofinal := FDone | FErr (e : rerr).
(* None: a panic - never acceptable *)
Definition final_of_robs (o : robs) : option ofinal :=
  match o with
  | OTrail (Ready (Ok _)) => Some FDone
  | OHead (Ready (Err e)) | OBody (Ready (Err e)) | OTrail (Ready (Err e)) => Some (FErr e)
  | _ => None
  end.

(* the last call's result [f] (and the reset h3 issued on its send half, if any) after the events [evs] is acceptable
   for the prescribed outcome [RO]:
   - complete message: exactly the prescribed events, no reset;
   - connection error: the prescribed outcome is a connection error and the code is among the allowed ones, the events
     are exactly the prescribed ones - except that when a DATA payload is cut by FIN (H3_FRAME_ERROR) some of the payload
     bytes that did arrive may not have been handed out;
   - stream error: only "refused as incomplete" - H3_REQUEST_INCOMPLETE, send half reset with the same code;
   - reset by the peer / stream failure of the transport's own kind / connection lost: that is what happened (never a
     frame error, never a connection error raised by h3), after any prefix of the events;
   - a WebTransport stream header is outside this property. *)
Definition rrefines_final (evs : list revent) (f : ofinal) (reset : option N) (RO : list revent * rfinal) (en : ending)
  : Prop :=
  match snd RO with
  | ROutOfScope => True
  | _ =>
    match f with
    | FDone => snd RO = RDone /\ evs = fst RO /\ reset = None
    | FErr (RConnLocal c) =>
        exists allowed, snd RO = RConnError allowed /\ In c allowed /\ reset = None /\
          (evs = fst RO \/ (c = H3_FRAME_ERROR_rfc /\ exists bs, fst RO = evs ++ map EByte bs))
    | FErr (RStream c) =>
        snd RO = RIncomplete /\ c = H3_REQUEST_INCOMPLETE_rfc /\ reset = Some c /\ evs = fst RO
    | FErr (RRemoteTerminate c) => en = Broken (QTerminated c) /\ reset = None /\ exists rest, fst RO = evs ++ rest
    | FErr (RConnRemote q) => en = Broken q /\ reset = None /\ exists rest, fst RO = evs ++ rest
    end
  end.

(* observations [os] (final send-half reset [reset]) refine the outcome [RO]:
   1. what the application was shown is always a prefix of the prescribed events: a header section only for a sequence
      that starts with HEADERS, every DATA payload byte once and in order, end-of-body only where the body ends;
   2. the last call's result, when it is final, is acceptable (never a panic);
   3. pending with nothing more to arrive: the stream is open, everything prescribed was shown. *)
Definition rrefines (os : list robs) (reset : option N) (RO : list revent * rfinal) (en : ending) (quiet : bool) : Prop :=
  (exists rest, fst RO = events_of os ++ rest) /\
  (forall o, last_robs os = Some o -> robs_final o = true ->
     exists f, final_of_robs o = Some f /\ rrefines_final (events_of os) f reset RO en) /\
  (quiet = true -> forall o, last_robs os = Some o -> robs_pending o = true ->
     en = Open /\ RO = (events_of os, RWaiting)).
