(* RFC 9000 section 16 (variable-length integers) and section 2.1 (stream identifiers),
   written independently of h3's code. *)
From H3V Require Import Base.Bytes.

(* length of an encoding from the two most significant bits of its first byte *)
Definition rfc_vi_len (b0 : N) : N := 2 ^ (b0 / 64).

(* value of a complete encoding: big-endian integer with the two length bits removed *)
Definition rfc_vi_value (enc : bytes) : N := be_value enc mod 2 ^ (8 * len enc - 2).

(* the shortest of the four forms that can hold x *)
Definition rfc_vi_shortest (x : N) : N :=
  if x <? 2 ^ 6 then 1 else if x <? 2 ^ 14 then 2 else if x <? 2 ^ 30 then 4 else 8.

(* the encoding of x on l bytes: two length bits, then the value *)
Definition rfc_vi_prefix (l : N) : N := N.log2 l.
Definition rfc_vi_enc (l : N) (x : N) : bytes :=
  be_bytes (N.to_nat l) (rfc_vi_prefix l * 2 ^ (8 * l - 2) + x).

(* Stream IDs: bit 0 = initiator (0 client), bit 1 = direction (0 bidirectional) *)
Definition rfc_sid_client (id : N) : bool := id mod 2 =? 0.
Definition rfc_sid_bidi (id : N) : bool := (id / 2) mod 2 =? 0.
Definition rfc_sid_index (id : N) : N := id / 4.
Definition rfc_sid_make (index : N) (bidi client : bool) : N :=
  4 * index + (if bidi then 0 else 2) + (if client then 0 else 1).
Definition rfc_max_index : N := 2 ^ 60 - 1.
