(* C01: what "delivered unchanged" means.  Written from the property statement and RFC 9114 4.3 (which parts of
   a request target travel in which pseudo-header field), independently of how h3 encodes anything:
   the receiving application must see, in this order, the head, the body bytes, the end of the body, the
   trailers (if any were sent), the end of the message - each exactly once, and nothing else.

   The identity is taken modulo the normalisations the HTTP semantics allow / HTTP/3 requires:
   * field names compare case-insensitively and travel in lower case (RFC 9114 4.2);
   * field values of one name keep their order; the relative order of different names is not significant
     (RFC 9110 5.3), so a header map is compared as name -> ordered value list;
   * the target is compared by its scheme / authority / path-and-query components (RFC 9114 4.3.1): an absent scheme
     means "https" (h3's documented default), an absent authority is taken from the Host field, an empty path of an
     http(s) target is "/";  a plain CONNECT request carries the authority only (RFC 9114 4.4);
     an extended CONNECT (RFC 8441/9220) also carries :protocol, :scheme and :path. *)
From H3V Require Import Base.Bytes Model.EndToEnd.

Fixpoint bytes_eqb (a b : bytes) : bool :=
  match a, b with
  | [], [] => true
  | x :: a', y :: b' => (x =? y) && bytes_eqb a' b'
  | _, _ => false
  end.

Definition lower_byte (b : N) : N := if (65 <=? b) && (b <=? 90) then b + 32 else b.
Definition lower (s : bytes) : bytes := map lower_byte s.

(* a header map as the application sees it: names in order of first appearance, values of a name in order *)
Definition hgroups := list (bytes * list bytes).
Fixpoint group_add (n v : bytes) (m : hgroups) : hgroups :=
  match m with
  | [] => [(n, [v])]
  | (n', vs) :: r => if bytes_eqb n n' then (n', vs ++ [v]) :: r else (n', vs) :: group_add n v r
  end.
Definition group_fields (fs : fieldl) : hgroups :=
  fold_left (fun m f => group_add (lower (fst f)) (snd f) m) fs [].
Fixpoint group_get (n : bytes) (m : hgroups) : option (list bytes) :=
  match m with
  | [] => None
  | (n', vs) :: r => if bytes_eqb n n' then Some vs else group_get n r
  end.

(* "host", "https", "/", "CONNECT" *)
Definition s_host : bytes := [104; 111; 115; 116].
Definition s_https : bytes := [104; 116; 116; 112; 115].
Definition s_slash : bytes := [47].
Definition s_CONNECT : bytes := [67; 79; 78; 78; 69; 67; 84].

(* a request as submitted: method, the three components of the target (as the `http` crate parsed them), fields *)
Record req_head := { q_method : bytes; q_scheme : option bytes; q_authority : option bytes;
                     q_path : option bytes; q_protocol : option bytes (* RFC 8441 / 9220 extended CONNECT *);
                     q_fields : fieldl }.
(* a request as delivered *)
Record req_seen := { v_method : bytes; v_scheme : option bytes; v_authority : option bytes;
                     v_path : option bytes; v_protocol : option bytes; v_fields : hgroups }.

Definition first_host (fs : fieldl) : option bytes :=
  match group_get s_host (group_fields fs) with
  | Some (v :: _) => Some v
  | _ => None
  end.

Definition norm_request (q : req_head) : req_seen :=
  (* a plain CONNECT names only the authority; an extended CONNECT (with :protocol) is an ordinary target *)
  let is_connect := bytes_eqb (q_method q) s_CONNECT in
  let connect := is_connect && match q_protocol q with None => true | Some _ => false end in
  {| v_method := q_method q;
     v_scheme := if connect then None
                 else match q_scheme q with Some s => Some s | None => Some s_https end;
     v_authority := match first_host (q_fields q) with
                    | Some h => Some h      (* Host, when given, equals the authority of a well-formed request *)
                    | None => q_authority q
                    end;
     v_path := if connect then None
               else match q_path q with
                    | Some (c :: p) => Some (c :: p)
                    | _ => Some s_slash
                    end;
     v_protocol := if is_connect then q_protocol q else None;
     v_fields := group_fields (q_fields q) |}.

(* a request the property speaks about: a target the sender can name (an authority or a Host field, agreeing when
   both are there) *)
Definition request_wf (q : req_head) : bool :=
  match q_authority q, first_host (q_fields q) with
  | None, None => false
  | Some a, Some h => bytes_eqb a h
  | _, _ => true
  end.

Record resp_head := { rp_status : N; rp_fields : fieldl }.
Record resp_seen := { w_status : N; w_fields : hgroups }.
Definition norm_response (p : resp_head) : resp_seen :=
  {| w_status := rp_status p; w_fields := group_fields (rp_fields p) |}.

Definition norm_trailers (t : fieldl) : hgroups := group_fields t.

(* the specification: head, body, end of body, trailers, end of message - once each, in this order *)
Definition expected_events {H H' T T'} (norm_h : H -> H') (norm_t : T -> T') (m : message H T)
  : list (aevent H' T') :=
  AHead (norm_h (m_head m)) :: flush_body (concat (m_pieces m)) ++ ABodyEnd ::
  match m_trailers m with Some t => [ATrailers (norm_t t)] | None => [] end ++ [AEnd].

(* RFC 9114 4.2.2: the size of a field section is the sum over its field lines of name length + value length + 32:
   Spec/FieldSize.v [section_size].  Field sections the theorems speak about are below 2^26 bytes (64 MiB) by that
   measure: h3 cannot read back Huffman strings of 2^29 bytes or more (C11), and the encoded block must fit the 62-bit
   length field of its HEADERS frame. *)
From H3V Require Export Spec.FieldSize.
Definition section_fits (fs : fieldl) : Prop := section_size fs < 2 ^ 26.
