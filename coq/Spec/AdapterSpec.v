(* C17, property level: what "the adapter moves bytes, identifiers and errors faithfully" means,
   written over abstract API events and Quinn's error vocabulary only (no adapter state, no buffers'
   internal positions, no Option<stream>, no future). *)
From H3V Require Import Base.Bytes Spec.RFC9000 Spec.QuinnApi.

(* ------------------------------------------------------------- bytes *)
(* A send-side history as the application sees it: a buffer (any `Buf`: a sequence of chunks) was
   accepted by send_data, or refused, or something else happened. *)
Inductive send_event :=
| EvAccepted (buf : list bytes)
| EvRaw (bs : bytes)          (* poll_send reported these bytes of the caller's buffer as written *)
| EvRefused
| EvSendOther.

(* The byte string Quinn must have been handed (and hence, QUIC being reliable and ordered, what the peer
   reads): the accepted buffers, each once, whole, in order.  Nothing of a refused buffer. *)
Fixpoint spec_handed (evs : list send_event) : bytes :=
  match evs with
  | [] => []
  | EvAccepted b :: r => concat b ++ spec_handed r
  | EvRaw bs :: r => bs ++ spec_handed r
  | _ :: r => spec_handed r
  end.

(* receive side: the chunks handed to the application are the chunks Quinn delivered, in order;
   end of stream is end of stream *)
Inductive read_outcome :=
| RoChunk (b : bytes)
| RoEnd
| RoError (e : option h3_stream_err).   (* None: cannot arise (see spec_read_class) *)

(* what the application must get for each answer of Quinn's read (a blocked read gives nothing yet);
   the error class is defined below *)
Definition spec_read_outcome (class : qread_err -> option h3_stream_err) (a : ranswer) : option read_outcome :=
  match a with
  | RChunk b => Some (RoChunk b)
  | RFin => Some RoEnd
  | RFail e => Some (RoError (class e))
  | RBlocked => None
  end.
Fixpoint spec_read_outcomes (class : qread_err -> option h3_stream_err) (answers : list ranswer) : list read_outcome :=
  match answers with
  | [] => []
  | a :: r => match spec_read_outcome class a with
              | Some x => x :: spec_read_outcomes class r
              | None => spec_read_outcomes class r
              end
  end.

(* What the application sees over a whole sequence of `polls` reads, given the answers Quinn has in store.
   A read that finds Quinn blocked (or out of answers) yields nothing.  Once a read has reported the peer's
   RESET_STREAM (code c), every later read reports that same reset again and Quinn is not asked any more:
   Quinn itself answers reads after the one that reported the reset with a clean end of stream, which must
   never reach the application (it would take a truncated message for a complete one).
   Result: the outcomes in order, and the answers Quinn still has in store. *)
Fixpoint spec_reads (class : qread_err -> option h3_stream_err) (seen : option N) (polls : nat) (o : list ranswer)
  : list read_outcome * list ranswer :=
  match polls with
  | O => ([], o)
  | S n =>
      match seen with
      | Some c => let '(rest, o') := spec_reads class seen n o in (RoError (Some (HStreamTerminated c)) :: rest, o')
      | None =>
          match o with
          | [] => spec_reads class None n []
          | a :: o1 =>
              let seen' := match a with RFail (QRReset c) => Some c | _ => None end in
              let '(rest, o') := spec_reads class seen' n o1 in
              (match spec_read_outcome class a with Some x => x :: rest | None => rest end, o')
          end
      end
  end.

(* ------------------------------------------------------------- identifiers *)
(* RFC 9000 2.1: the id of the index-th stream of a kind; what both send_id and recv_id must report,
   in every state, for the whole life of the stream *)
Definition spec_stream_id (index : N) (bidi client_initiated : bool) : N := rfc_sid_make index bidi client_initiated.

(* ------------------------------------------------------------- error classes *)
(* peer closed with an application code -> ApplicationClose, same code; idle timeout -> Timeout;
   everything else is not h3's business -> Undefined, original error kept *)
Definition spec_conn_class (e : qconn_err) : h3_conn_err :=
  match e with
  | QApplicationClosed c => HApplicationClose c
  | QTimedOut => HTimeout
  | QVersionMismatch => HUndefined QVersionMismatch
  | QTransportError c => HUndefined (QTransportError c)
  | QConnectionClosed c => HUndefined (QConnectionClosed c)
  | QConnReset => HUndefined QConnReset
  | QLocallyClosed => HUndefined QLocallyClosed
  | QCidsExhausted => HUndefined QCidsExhausted
  end.

(* RESET_STREAM(code) -> StreamTerminated, same code; connection loss -> the connection class;
   an ordered read after an unordered one cannot happen (the adapter only reads in order): no class *)
Definition spec_read_class (e : qread_err) : option h3_stream_err :=
  match e with
  | QRReset c => Some (HStreamTerminated c)
  | QRConnectionLost ce => Some (HConnErr (spec_conn_class ce))
  | QRClosedStream => Some (HUnknownRead QRClosedStream)
  | QRZeroRttRejected => Some (HUnknownRead QRZeroRttRejected)
  | QRIllegalOrderedRead => None
  end.

(* STOP_SENDING(code) -> StreamTerminated, same code *)
Definition spec_write_class (e : qwrite_err) : h3_stream_err :=
  match e with
  | QWStopped c => HStreamTerminated c
  | QWConnectionLost ce => HConnErr (spec_conn_class ce)
  | QWClosedStream => HUnknownWrite QWClosedStream
  | QWZeroRttRejected => HUnknownWrite QWZeroRttRejected
  end.

(* datagrams: not supported / disabled -> NotAvailable; too large -> TooLarge; connection loss -> the connection class *)
Definition spec_dgram_class (e : qdgram_err) : h3_dgram_err :=
  match e with
  | QDUnsupportedByPeer => HDNotAvailable
  | QDDisabled => HDNotAvailable
  | QDTooLarge => HDTooLarge
  | QDConnectionLost ce => HDConnectionError (spec_conn_class ce)
  end.

(* an overlapping send_data is an internal error of the HTTP stack, reported as such *)
Definition spec_refusal : h3_stream_err := HConnErr HInternalError.

(* reset(code): the code Quinn is given (codes that are not varints saturate) *)
Definition spec_reset_code (code : N) : N := N.min code varint_max.

(* ------------------------------------------------------------- deferred STOP_SENDING *)
(* Receive-side history as the application sees it. *)
Inductive recv_event :=
| EvStop (code : N)        (* stop_sending(code) returned *)
| EvReadPending            (* poll_data returned Pending: a read is now in flight *)
| EvReadReady              (* poll_data returned Ready: no read in flight *)
| EvRecvOther.

(* A stop requested while no read is in flight reaches Quinn at once.  A stop requested while a read is
   in flight is held and reaches Quinn exactly when that read completes; of several requests made during
   the same read only the last is kept (Quinn ignores all but the first stop it is given anyway). *)
Record stop_state := { in_flight : bool; held : option N; delivered : list N }.

Definition stop_step (st : stop_state) (ev : recv_event) : stop_state :=
  match ev with
  | EvStop c =>
      if in_flight st then {| in_flight := true; held := Some c; delivered := delivered st |}
      else {| in_flight := false; held := held st; delivered := delivered st ++ [c] |}
  | EvReadPending => {| in_flight := true; held := held st; delivered := delivered st |}
  | EvReadReady =>
      {| in_flight := false; held := None;
         delivered := delivered st ++ match held st with Some c => [c] | None => [] end |}
  | EvRecvOther => st
  end.

Definition stop_run (st : stop_state) (evs : list recv_event) : stop_state := fold_left stop_step evs st.

Definition count_stop_requests (evs : list recv_event) : nat :=
  length (filter (fun e => match e with EvStop _ => true | _ => false end) evs).

(* ------------------------------------------------------------- how peer actions surface in Quinn *)
(* Quinn's documented behaviour (trusted, exercised by the correspondence runs on real Quinn): what a
   blocked or subsequent write / read reports after the named event. *)
Inductive fault :=
| FNone
| FPeerStop (code : N)       (* peer: RecvStream::stop(code) *)
| FPeerReset (code : N)      (* peer: SendStream::reset(code) *)
| FPeerClose (code : N)      (* peer: Connection::close(code, _) *)
| FIdleTimeout               (* nothing received for max_idle_timeout *)
| FLocalClose                (* this side closed the connection *)
| FLocalFinished             (* this side already finished / stopped the stream *).

(* Quinn's write errors are final (trusted like the conditions below, observed on real Quinn in every run of the qw
   family with sa=K): once poll_write has failed - the peer stopped the stream, the connection is lost, the stream is
   finished or reset - every later poll_write on that stream fails with the same error again *)
Fixpoint fail_is_final (o : list wanswer) : Prop :=
  match o with
  | [] => True
  | WFail e :: r => Forall (fun a => a = WFail e) r
  | _ :: r => fail_is_final r
  end.

Definition quinn_write_condition (f : fault) : option qwrite_err :=
  match f with
  | FNone | FPeerReset _ => None
  | FPeerStop c => Some (QWStopped c)
  | FPeerClose c => Some (QWConnectionLost (QApplicationClosed c))
  | FIdleTimeout => Some (QWConnectionLost QTimedOut)
  | FLocalClose => Some (QWConnectionLost QLocallyClosed)
  | FLocalFinished => Some QWClosedStream
  end.

Definition quinn_read_condition (f : fault) : option qread_err :=
  match f with
  | FNone | FPeerStop _ => None
  | FPeerReset c => Some (QRReset c)
  | FPeerClose c => Some (QRConnectionLost (QApplicationClosed c))
  | FIdleTimeout => Some (QRConnectionLost QTimedOut)
  | FLocalClose => Some (QRConnectionLost QLocallyClosed)
  | FLocalFinished => Some QRClosedStream
  end.

Definition spec_write_fault (f : fault) : option h3_stream_err :=
  match quinn_write_condition f with Some e => Some (spec_write_class e) | None => None end.
Definition spec_read_fault (f : fault) : option h3_stream_err :=
  match quinn_read_condition f with Some e => spec_read_class e | None => None end.
