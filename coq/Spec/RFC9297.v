(* RFC 9297 section 2.1: an HTTP/3 datagram is Quarter Stream ID (varint) followed by the payload. *)
From H3V Require Import Base.Bytes Spec.RFC9000.

Definition rfc_dg_bytes (sid : N) (payload : bytes) : bytes :=
  rfc_vi_enc (rfc_vi_shortest (sid / 4)) (sid / 4) ++ payload.

Definition H3_DATAGRAM_ERROR_rfc : N := 51. (* 0x33 *)

(* reference decoder: None = H3_DATAGRAM_ERROR *)
Definition rfc_dg_decode (bs : bytes) : option (N * bytes) :=
  match bs with
  | [] => None
  | b0 :: _ =>
      let l := rfc_vi_len b0 in
      if len bs <? l then None
      else
        let q := rfc_vi_value (firstn (N.to_nat l) bs) in
        if 4 * q <=? 2 ^ 62 - 1 then Some (4 * q, skipn (N.to_nat l) bs) else None
  end.
