(* Specification for C05, written from the property statement (not from h3's code):
   a connection has ONE outcome, the first connection-level error raised by any handle.

   Vocabulary shared with the model: error origins, reported errors, handles, observable events.
   An observation is the list of events in the order they happened (oldest first). *)
From H3V Require Import Base.Bytes.

(* what the QUIC layer can report (h3::quic::ConnectionErrorIncoming); message texts are not modelled *)
Inductive quic_err := QAppClose (code : N) | QTimeout | QInternal | QUndefined.
(* a connection-level error as detected (h3 ErrorOrigin): by h3 itself, with an HTTP/3 code, or by the transport *)
Inductive err := Internal (code : N) | Quic (q : quic_err).
(* a connection error as handed to the application (h3::error::ConnectionError) *)
Inductive cerr := CLocal (code : N) | CRemote (q : quic_err) | CTimeout.

Inductive handle := HDriver | HStream (i : nat).

Inductive event :=
| ERaise (h : handle) (e : err)      (* handle h detected e and tried to make it the connection's error *)
| EReport (h : handle) (c : cerr)    (* an API call on handle h returned connection error c *)
| EClose (code : N)                  (* h3 called close(code, _) on the QUIC connection *)
| EPending                           (* a driver poll returned Pending (the driver task parks) *)
| EReadyOk.                          (* a driver poll returned something that is not an error *)

(* ---- the abstract write-once cell: first store wins *)
Definition fw_raise (s : option err) (e : err) : option err :=
  match s with Some x => Some x | None => Some e end.
Definition fw_run (es : list err) : option err := fold_left fw_raise es None.

Fixpoint raises (tr : list event) : list err :=
  match tr with
  | [] => []
  | ERaise _ e :: r => e :: raises r
  | _ :: r => raises r
  end.
Fixpoint closes (tr : list event) : list N :=
  match tr with
  | [] => []
  | EClose c :: r => c :: closes r
  | _ :: r => closes r
  end.

(* the connection's single outcome after observation tr *)
Definition outcome (tr : list event) : option err := fw_run (raises tr).

(* RFC 9114 8.1: H3_INTERNAL_ERROR *)
Definition RFC_H3_INTERNAL_ERROR : N := 258.

(* errors h3 itself detected: h3 must close the QUIC connection, with this code *)
Definition spec_close_code (e : err) : option N :=
  match e with
  | Internal c => Some c
  | Quic QInternal => Some RFC_H3_INTERNAL_ERROR
  | Quic _ => None
  end.

(* how outcome e is presented to the application: locally detected errors carry their code,
   a timeout is a timeout, everything else is the transport's own error value *)
Definition spec_report (e : err) : cerr :=
  match e with
  | Internal c => CLocal c
  | Quic q => match q with QTimeout => CTimeout | _ => CRemote q end
  end.

(* ---- the property, on observations *)
(* every report, on any handle, at any time, presents the single outcome *)
Definition single_outcome (tr : list event) : Prop :=
  forall h c, In (EReport h c) tr -> exists e, outcome tr = Some e /\ c = spec_report e.

(* close is called at most once, and only for an h3-detected outcome, with exactly its code *)
Definition close_ok (tr : list event) : Prop :=
  closes tr = [] \/
  exists e c, outcome tr = Some e /\ spec_close_code e = Some c /\ closes tr = [c].

(* once the driver has reported the error, an h3-detected outcome HAS been closed *)
Definition closed_when_reported (tr : list event) : Prop :=
  forall c, In (EReport HDriver c) tr ->
  forall e code, outcome tr = Some e -> spec_close_code e = Some code -> closes tr = [code].

(* number of driver polls that returned without reporting an error (Pending, or Ready with something else) *)
Fixpoint quiet_polls (tr : list event) : nat :=
  match tr with
  | [] => O
  | EPending :: r => S (quiet_polls r)
  | EReadyOk :: r => S (quiet_polls r)
  | _ :: r => quiet_polls r
  end.
