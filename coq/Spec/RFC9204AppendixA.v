(* RFC 9204 Appendix A, "Static Table": the 99 entries transcribed as text from the RFC (NOT from h3's
   static_.rs).  Index = position in the list, starting at 0. *)
From Coq Require Import Strings.String Strings.Ascii.
From H3V Require Import Base.Bytes.

Local Open Scope string_scope.
Definition rfc9204_static_strings : list (string * string) := [
  (":authority", "");                                              (*  0 *)
  (":path", "/");
  ("age", "0");
  ("content-disposition", "");
  ("content-length", "0");
  ("cookie", "");                                                  (*  5 *)
  ("date", "");
  ("etag", "");
  ("if-modified-since", "");
  ("if-none-match", "");
  ("last-modified", "");                                           (* 10 *)
  ("link", "");
  ("location", "");
  ("referer", "");
  ("set-cookie", "");
  (":method", "CONNECT");                                          (* 15 *)
  (":method", "DELETE");
  (":method", "GET");
  (":method", "HEAD");
  (":method", "OPTIONS");
  (":method", "POST");                                             (* 20 *)
  (":method", "PUT");
  (":scheme", "http");
  (":scheme", "https");
  (":status", "103");
  (":status", "200");                                              (* 25 *)
  (":status", "304");
  (":status", "404");
  (":status", "503");
  ("accept", "*/*");
  ("accept", "application/dns-message");                           (* 30 *)
  ("accept-encoding", "gzip, deflate, br");
  ("accept-ranges", "bytes");
  ("access-control-allow-headers", "cache-control");
  ("access-control-allow-headers", "content-type");
  ("access-control-allow-origin", "*");                            (* 35 *)
  ("cache-control", "max-age=0");
  ("cache-control", "max-age=2592000");
  ("cache-control", "max-age=604800");
  ("cache-control", "no-cache");
  ("cache-control", "no-store");                                   (* 40 *)
  ("cache-control", "public, max-age=31536000");
  ("content-encoding", "br");
  ("content-encoding", "gzip");
  ("content-type", "application/dns-message");
  ("content-type", "application/javascript");                      (* 45 *)
  ("content-type", "application/json");
  ("content-type", "application/x-www-form-urlencoded");
  ("content-type", "image/gif");
  ("content-type", "image/jpeg");
  ("content-type", "image/png");                                   (* 50 *)
  ("content-type", "text/css");
  ("content-type", "text/html; charset=utf-8");
  ("content-type", "text/plain");
  ("content-type", "text/plain;charset=utf-8");
  ("range", "bytes=0-");                                           (* 55 *)
  ("strict-transport-security", "max-age=31536000");
  ("strict-transport-security", "max-age=31536000; includesubdomains");
  ("strict-transport-security", "max-age=31536000; includesubdomains; preload");
  ("vary", "accept-encoding");
  ("vary", "origin");                                              (* 60 *)
  ("x-content-type-options", "nosniff");
  ("x-xss-protection", "1; mode=block");
  (":status", "100");
  (":status", "204");
  (":status", "206");                                              (* 65 *)
  (":status", "302");
  (":status", "400");
  (":status", "403");
  (":status", "421");
  (":status", "425");                                              (* 70 *)
  (":status", "500");
  ("accept-language", "");
  ("access-control-allow-credentials", "FALSE");
  ("access-control-allow-credentials", "TRUE");
  ("access-control-allow-headers", "*");                           (* 75 *)
  ("access-control-allow-methods", "get");
  ("access-control-allow-methods", "get, post, options");
  ("access-control-allow-methods", "options");
  ("access-control-expose-headers", "content-length");
  ("access-control-request-headers", "content-type");              (* 80 *)
  ("access-control-request-method", "get");
  ("access-control-request-method", "post");
  ("alt-svc", "clear");
  ("authorization", "");
  ("content-security-policy", "script-src 'none'; object-src 'none'; base-uri 'none'");   (* 85 *)
  ("early-data", "1");
  ("expect-ct", "");
  ("forwarded", "");
  ("if-range", "");
  ("origin", "");                                                  (* 90 *)
  ("purpose", "prefetch");
  ("server", "");
  ("timing-allow-origin", "*");
  ("upgrade-insecure-requests", "1");
  ("user-agent", "");                                              (* 95 *)
  ("x-forwarded-for", "");
  ("x-frame-options", "deny");
  ("x-frame-options", "sameorigin")                                (* 98 *)
].
Local Close Scope string_scope.

Fixpoint bytes_of_string (s : string) : bytes :=
  match s with
  | EmptyString => []
  | String a r => N_of_ascii a :: bytes_of_string r
  end.

Definition rfc9204_static_transcription : list (bytes * bytes) :=
  map (fun nv => (bytes_of_string (fst nv), bytes_of_string (snd nv))) rfc9204_static_strings.
