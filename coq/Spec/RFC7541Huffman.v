(* RFC 7541 section 5.2 (string literal Huffman coding) and Appendix B (the code table).
   The 257 rows below were transcribed from two independent copies of Appendix B that agree
   (/verif/spec-data: python `hpack` and the `octets` crate); they are NOT derived from h3's tables.
   Row i is (code as an integer aligned to the LSB, length in bits) of symbol i; row 256 is EOS. *)
From H3V Require Import Base.Bytes.

Definition bits := list bool.

Definition rfc_huff_rows : list (N * N) := [
  (8184, 13); (8388568, 23); (268435426, 28); (268435427, 28);
  (268435428, 28); (268435429, 28); (268435430, 28); (268435431, 28);
  (268435432, 28); (16777194, 24); (1073741820, 30); (268435433, 28);
  (268435434, 28); (1073741821, 30); (268435435, 28); (268435436, 28);
  (268435437, 28); (268435438, 28); (268435439, 28); (268435440, 28);
  (268435441, 28); (268435442, 28); (1073741822, 30); (268435443, 28);
  (268435444, 28); (268435445, 28); (268435446, 28); (268435447, 28);
  (268435448, 28); (268435449, 28); (268435450, 28); (268435451, 28);
  (20, 6); (1016, 10); (1017, 10); (4090, 12);
  (8185, 13); (21, 6); (248, 8); (2042, 11);
  (1018, 10); (1019, 10); (249, 8); (2043, 11);
  (250, 8); (22, 6); (23, 6); (24, 6);
  (0, 5); (1, 5); (2, 5); (25, 6);
  (26, 6); (27, 6); (28, 6); (29, 6);
  (30, 6); (31, 6); (92, 7); (251, 8);
  (32764, 15); (32, 6); (4091, 12); (1020, 10);
  (8186, 13); (33, 6); (93, 7); (94, 7);
  (95, 7); (96, 7); (97, 7); (98, 7);
  (99, 7); (100, 7); (101, 7); (102, 7);
  (103, 7); (104, 7); (105, 7); (106, 7);
  (107, 7); (108, 7); (109, 7); (110, 7);
  (111, 7); (112, 7); (113, 7); (114, 7);
  (252, 8); (115, 7); (253, 8); (8187, 13);
  (524272, 19); (8188, 13); (16380, 14); (34, 6);
  (32765, 15); (3, 5); (35, 6); (4, 5);
  (36, 6); (5, 5); (37, 6); (38, 6);
  (39, 6); (6, 5); (116, 7); (117, 7);
  (40, 6); (41, 6); (42, 6); (7, 5);
  (43, 6); (118, 7); (44, 6); (8, 5);
  (9, 5); (45, 6); (119, 7); (120, 7);
  (121, 7); (122, 7); (123, 7); (32766, 15);
  (2044, 11); (16381, 14); (8189, 13); (268435452, 28);
  (1048550, 20); (4194258, 22); (1048551, 20); (1048552, 20);
  (4194259, 22); (4194260, 22); (4194261, 22); (8388569, 23);
  (4194262, 22); (8388570, 23); (8388571, 23); (8388572, 23);
  (8388573, 23); (8388574, 23); (16777195, 24); (8388575, 23);
  (16777196, 24); (16777197, 24); (4194263, 22); (8388576, 23);
  (16777198, 24); (8388577, 23); (8388578, 23); (8388579, 23);
  (8388580, 23); (2097116, 21); (4194264, 22); (8388581, 23);
  (4194265, 22); (8388582, 23); (8388583, 23); (16777199, 24);
  (4194266, 22); (2097117, 21); (1048553, 20); (4194267, 22);
  (4194268, 22); (8388584, 23); (8388585, 23); (2097118, 21);
  (8388586, 23); (4194269, 22); (4194270, 22); (16777200, 24);
  (2097119, 21); (4194271, 22); (8388587, 23); (8388588, 23);
  (2097120, 21); (2097121, 21); (4194272, 22); (2097122, 21);
  (8388589, 23); (4194273, 22); (8388590, 23); (8388591, 23);
  (1048554, 20); (4194274, 22); (4194275, 22); (4194276, 22);
  (8388592, 23); (4194277, 22); (4194278, 22); (8388593, 23);
  (67108832, 26); (67108833, 26); (1048555, 20); (524273, 19);
  (4194279, 22); (8388594, 23); (4194280, 22); (33554412, 25);
  (67108834, 26); (67108835, 26); (67108836, 26); (134217694, 27);
  (134217695, 27); (67108837, 26); (16777201, 24); (33554413, 25);
  (524274, 19); (2097123, 21); (67108838, 26); (134217696, 27);
  (134217697, 27); (67108839, 26); (134217698, 27); (16777202, 24);
  (2097124, 21); (2097125, 21); (67108840, 26); (67108841, 26);
  (268435453, 28); (134217699, 27); (134217700, 27); (134217701, 27);
  (1048556, 20); (16777203, 24); (1048557, 20); (2097126, 21);
  (4194281, 22); (2097127, 21); (2097128, 21); (8388595, 23);
  (4194282, 22); (4194283, 22); (33554414, 25); (33554415, 25);
  (16777204, 24); (16777205, 24); (67108842, 26); (8388596, 23);
  (67108843, 26); (134217702, 27); (67108844, 26); (67108845, 26);
  (134217703, 27); (134217704, 27); (134217705, 27); (134217706, 27);
  (134217707, 27); (268435454, 28); (134217708, 27); (134217709, 27);
  (134217710, 27); (134217711, 27); (134217712, 27); (67108846, 26);
  (1073741823, 30)
].

Definition EOS : N := 256.

(* the [n] low bits of [x], most significant first *)
Fixpoint bits_msb (n : nat) (x : N) : bits :=
  match n with
  | O => []
  | S k => N.testbit x (N.of_nat k) :: bits_msb k x
  end.

(* a byte string as a bit string, each octet most significant bit first (RFC 7541 5.2) *)
Definition bits_of_bytes (bs : bytes) : bits := flat_map (bits_msb 8) bs.

Definition row_bits (r : N * N) : bits := bits_msb (N.to_nat (snd r)) (fst r).

(* the code of every symbol 0..256, as bit strings, in table order *)
Definition rfc_code_table : list bits := map row_bits rfc_huff_rows.

(* code of a symbol; [] outside the table (callers restrict the domain) *)
Definition code_bits (s : N) : bits := nth (N.to_nat s) rfc_code_table [].

(* concatenated codes of a string of octets *)
Definition codes (s : bytes) : bits := flat_map code_bits s.

Definition all_ones (p : bits) : bool := forallb (fun b => b) p.

(* RFC 7541 5.2: the encoded data is the concatenation of the codes of the octets of the string,
   padded to an octet boundary with the most significant bits of the EOS code (all ones), hence
   with at most 7 bits; a padding longer than 7 bits, a padding that is not a prefix of EOS, and
   an encoding that contains EOS are decoding errors.  (EOS is not an octet, so it cannot occur in [s].) *)
Definition valid_huff (b : bits) (s : bytes) : Prop :=
  wf_bytes s /\ exists pad, b = codes s ++ pad /\ (length pad <= 7)%nat /\ all_ones pad = true.

(* canonical encoder of 5.2: codes, then the shortest all-ones padding to an octet boundary *)
Fixpoint bits_val (acc : N) (b : bits) : N :=
  match b with
  | [] => acc
  | x :: r => bits_val (2 * acc + (if x then 1 else 0)) r
  end.
Fixpoint bytes_of_bits (fuel : nat) (b : bits) : bytes :=
  match fuel with
  | O => []
  | S f => match b with
           | [] => []
           | _ => bits_val 0 (firstn 8 (b ++ repeat true 7)) :: bytes_of_bits f (skipn 8 b)
           end
  end.
Definition rfc_huff_encode (s : bytes) : bytes :=
  let b := codes s in bytes_of_bits (length b) b.

(* ---- reference decoder: walk the bits against the table ---- *)

(* [strip p l] = Some rest when l = p ++ rest *)
Fixpoint strip (p l : bits) : option bits :=
  match p, l with
  | [], _ => Some l
  | x :: p', y :: l' => if Bool.eqb x y then strip p' l' else None
  | _ :: _, [] => None
  end.

(* the first table row (symbol index counted from [idx]) whose code is a prefix of the input *)
Fixpoint match_code (table : list bits) (idx : N) (l : bits) : option (N * bits) :=
  match table with
  | [] => None
  | c :: t => match strip c l with
              | Some rest => Some (idx, rest)
              | None => match_code t (idx + 1) l
              end
  end.

(* None = decoding error *)
Fixpoint rfc_walk (fuel : nat) (l : bits) : option bytes :=
  match fuel with
  | O => None
  | S f =>
      match match_code rfc_code_table 0 l with
      | Some (s, rest) =>
          if s =? EOS then None                    (* EOS inside the string *)
          else match rfc_walk f rest with
               | Some out => Some (s :: out)
               | None => None
               end
      | None =>
          (* no code matches: what is left must be padding: < 8 bits, all ones *)
          if (Nat.ltb (length l) 8) && all_ones l then Some [] else None
      end
  end.

Definition rfc_huff_decode (bs : bytes) : option bytes :=
  rfc_walk (S (8 * length bs)) (bits_of_bytes bs).
