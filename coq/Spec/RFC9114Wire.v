(* RFC 9114 wire format of what one endpoint sends, written from the RFC (sections 6.2, 7.1, 7.2, 7.2.4.1, 7.2.8,
   11.2) and independently of h3's code: a reference parser for the bytes of a stream and the rules about which
   frames may appear where.  Variable-length integers are those of RFC 9000 section 16 (any of the four forms
   is accepted: RFC 9114 does not require the shortest one). *)
From H3V Require Import Base.Bytes Spec.RFC9000.

(* one variable-length integer off the front of a byte string *)
Definition rfc_read_varint (bs : bytes) : option (N * bytes) :=
  match bs with
  | [] => None
  | b0 :: _ =>
      let l := rfc_vi_len b0 in
      if len bs <? l then None
      else Some (rfc_vi_value (firstn (N.to_nat l) bs), skipn (N.to_nat l) bs)
  end.

(* section 7.1: Type (i), Length (i), Frame Payload (..) *)
Definition rfc_read_frame (bs : bytes) : option ((N * bytes) * bytes) :=
  match rfc_read_varint bs with
  | None => None
  | Some (ty, r1) =>
      match rfc_read_varint r1 with
      | None => None
      | Some (l, r2) =>
          if len r2 <? l then None
          else Some ((ty, firstn (N.to_nat l) r2), skipn (N.to_nat l) r2)
      end
  end.

(* a whole number of frames; None when the last one is truncated.  Every frame is at least two bytes long,
   so |bs| is enough fuel. *)
Fixpoint rfc_frames_fuel (fuel : nat) (bs : bytes) : option (list (N * bytes)) :=
  match bs with
  | [] => Some []
  | _ =>
      match fuel with
      | O => None
      | S k =>
          match rfc_read_frame bs with
          | None => None
          | Some (f, rest) =>
              match rfc_frames_fuel k rest with
              | Some l => Some (f :: l)
              | None => None
              end
          end
      end
  end.
Definition rfc_frames (bs : bytes) : option (list (N * bytes)) := rfc_frames_fuel (length bs) bs.

(* reserved identifiers 0x1f * N + 0x21 (frame types 7.2.8, stream types 6.2.3, settings 7.2.4.1) *)
Definition rfc_reserved (x : N) : bool := (33 <=? x) && ((x - 33) mod 31 =? 0).
Definition rfc_varint_range (x : N) : bool := x <? 2 ^ 62.

(* frame types (11.2.1) *)
Definition T_DATA : N := 0.
Definition T_HEADERS : N := 1.
Definition T_CANCEL_PUSH : N := 3.
Definition T_SETTINGS : N := 4.
Definition T_PUSH_PROMISE : N := 5.
Definition T_GOAWAY : N := 7.
Definition T_MAX_PUSH_ID : N := 13.
(* 7.2.8: types used by HTTP/2 frames without an HTTP/3 counterpart; MUST NOT be sent *)
Definition rfc_h2_frame (t : N) : bool := (t =? 2) || (t =? 6) || (t =? 8) || (t =? 9).
(* 7.2.4.1 / 11.2.2: HTTP/2 settings without an HTTP/3 counterpart; MUST NOT be sent *)
Definition rfc_h2_setting (i : N) : bool := (i =? 0) || (i =? 2) || (i =? 3) || (i =? 4) || (i =? 5).
(* registered settings an HTTP/3 endpoint may send: RFC 9204 (0x1, 0x7), RFC 9114 (0x6), RFC 9220 (0x8),
   RFC 9297 (0x33), WebTransport drafts (0x2b603742, 0x2b603743), the pre-standard datagram id 0xffd277 *)
Definition rfc_known_setting (i : N) : bool :=
  (i =? 1) || (i =? 6) || (i =? 7) || (i =? 8) || (i =? 51) || (i =? 727725890) || (i =? 727725891) || (i =? 16765559).

(* stream types (11.2.4 + RFC 9204 + WebTransport) *)
Definition S_CONTROL : N := 0.
Definition S_PUSH : N := 1.
Definition S_QPACK_ENCODER : N := 2.
Definition S_QPACK_DECODER : N := 3.
Definition S_WEBTRANSPORT : N := 84.

(* 7.2.4: a sequence of identifier/value pairs filling the payload exactly *)
Fixpoint rfc_settings_fuel (fuel : nat) (bs : bytes) : option (list (N * N)) :=
  match bs with
  | [] => Some []
  | _ =>
      match fuel with
      | O => None
      | S k =>
          match rfc_read_varint bs with
          | None => None
          | Some (i, r1) =>
              match rfc_read_varint r1 with
              | None => None
              | Some (v, r2) =>
                  match rfc_settings_fuel k r2 with
                  | Some l => Some ((i, v) :: l)
                  | None => None
                  end
              end
          end
      end
  end.
Definition rfc_settings_pairs (bs : bytes) : option (list (N * N)) := rfc_settings_fuel (length bs) bs.

Fixpoint nodup_ids (l : list N) : bool :=
  match l with
  | [] => true
  | x :: r => negb (existsb (N.eqb x) r) && nodup_ids r
  end.

(* a SETTINGS payload an endpoint may send: well formed, no identifier twice, no HTTP/2-only identifier, and every
   identifier is a registered one or of the reserved form *)
Definition rfc_settings_payload_ok (p : bytes) : bool :=
  match rfc_settings_pairs p with
  | None => false
  | Some l =>
      nodup_ids (map fst l)
      && forallb (fun e => negb (rfc_h2_setting (fst e)) && (rfc_known_setting (fst e) || rfc_reserved (fst e))) l
  end.

(* a payload that is exactly one variable-length integer (GOAWAY 7.2.6, CANCEL_PUSH 7.2.3, MAX_PUSH_ID 7.2.7) *)
Definition rfc_single_varint (p : bytes) : bool :=
  match rfc_read_varint p with
  | Some (_, []) => true
  | _ => false
  end.

(* frames allowed on a control stream after the initial SETTINGS (7.2.x "is only sent on the control stream"
   tables of section 7.2 and 7.2.7 "a server MUST NOT send MAX_PUSH_ID"; 7.2.3 both roles may send CANCEL_PUSH) *)
Definition rfc_control_frame_ok (server : bool) (f : N * bytes) : bool :=
  let '(t, p) := f in
  if t =? T_GOAWAY then rfc_single_varint p
  else if t =? T_CANCEL_PUSH then rfc_single_varint p
  else if t =? T_MAX_PUSH_ID then negb server && rfc_single_varint p
  else rfc_reserved t.

(* 6.2.1: the control stream carries SETTINGS first, exactly once, then only control frames *)
Definition rfc_control_frames_ok (server : bool) (fs : list (N * bytes)) : bool :=
  match fs with
  | (t, p) :: r => (t =? T_SETTINGS) && rfc_settings_payload_ok p && forallb (rfc_control_frame_ok server) r
  | [] => false
  end.

(* request streams as h3 may use them: complete HEADERS, DATA and reserved-type frames only
   (PUSH_PROMISE would be legal from a server; h3 does not implement push, the property excludes it) *)
Definition rfc_request_frame_ok (f : N * bytes) : bool :=
  let '(t, _) := f in (t =? T_DATA) || (t =? T_HEADERS) || rfc_reserved t.

Inductive verdict :=
| VControl (frames : list (N * bytes))
| VQpackEncoder (raw : bytes)
| VQpackDecoder (raw : bytes)
| VReserved (ty : N) (raw : bytes)
| VWebTransport (session : N) (raw : bytes)
| VRequest (frames : list (N * bytes))
| VBad (reason : N).

(* everything an endpoint wrote so far on a unidirectional stream it opened.
   reasons: 1 no complete stream type, 2 stream type not allowed, 3 truncated frame, 4 control stream rules,
   6 QPACK stream carrying bytes (stateless QPACK sends no instructions),
   7 frame not allowed on a request stream, 8 session id missing *)
Definition rfc_judge_uni (server : bool) (bs : bytes) : verdict :=
  match rfc_read_varint bs with
  | None => VBad 1
  | Some (ty, rest) =>
      if ty =? S_CONTROL then
        match rfc_frames rest with
        | None => VBad 3
        | Some fs => if rfc_control_frames_ok server fs then VControl fs else VBad 4
        end
      else if ty =? S_QPACK_ENCODER then (match rest with [] => VQpackEncoder rest | _ => VBad 6 end)
      else if ty =? S_QPACK_DECODER then (match rest with [] => VQpackDecoder rest | _ => VBad 6 end)
      else if ty =? S_WEBTRANSPORT then
        match rfc_read_varint rest with
        | Some (s, raw) => VWebTransport s raw
        | None => VBad 8
        end
      else if rfc_reserved ty && rfc_varint_range ty then VReserved ty rest   (* 6.2.3: no semantics, any content *)
      else VBad 2   (* includes a push stream: h3 has no server push *)
  end.

(* everything an endpoint wrote so far on a request stream (either direction) *)
Definition rfc_judge_request (bs : bytes) : verdict :=
  match rfc_frames bs with
  | None => VBad 3
  | Some fs => if forallb rfc_request_frame_ok fs then VRequest fs else VBad 7
  end.

Definition verdict_ok (v : verdict) : bool := match v with VBad _ => false | _ => true end.

(* the encoding an RFC 9114 sender produces for one frame (shortest integers) *)
Definition rfc_varint (x : N) : bytes := rfc_vi_enc (rfc_vi_shortest x) x.
Definition rfc_frame (ty : N) (payload : bytes) : bytes := rfc_varint ty ++ rfc_varint (len payload) ++ payload.
