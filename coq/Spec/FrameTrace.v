(* How a history of arrivals and calls on a FrameStream is read for C02: the bytes and the ending the
   transport delivered, the tokens and the final result the caller observed, and when the observations
   are acceptable for the outcome the reference reader (Spec/Frames.v) prescribes.
   Only the TYPES `action`, `obs`, `fserr`, `ferr` of the model are used here. *)
From H3V Require Import Base.Bytes Spec.FrameVocab Spec.Frames Model.FrameDec Model.FrameStream.

(* what the transport keeps of the arrivals: the bytes before the first terminal event, and that event *)
Fixpoint arrivals (h : list action) : bytes * ending :=
  match h with
  | [] => ([], Open)
  | Arrive (Chunk c) :: h' => let '(b, e) := arrivals h' in (c ++ b, e)
  | Arrive Fin :: _ => ([], Finished)
  | Arrive (Abort e) :: _ => ([], Broken e)
  | _ :: h' => arrivals h'
  end.
Definition flat_of (h : list action) : bytes := fst (arrivals h).
Definition ending_of (h : list action) : ending := snd (arrivals h).

(* the transport contract (chunks are never empty, bytes are bytes) and the call contract (poll_data while a
   DATA payload is owed, poll_next otherwise = CallAuto; poll_data is harmless at any time = CallData) *)
Definition action_ok (a : action) : Prop :=
  match a with
  | Arrive (Chunk c) => c <> [] /\ wf_bytes c
  | CallNext => False
  | _ => True
  end.
Definition hist_ok (h : list action) : Prop := Forall action_ok h.

Definition is_call (a : action) : bool := match a with Arrive _ => false | _ => true end.
(* no event arrives after the last call: the caller has seen everything that will ever be there *)
Fixpoint settled (h : list action) : bool :=
  match h with
  | [] => true
  | Arrive _ :: h' => existsb is_call h' && settled h'
  | _ :: h' => settled h'
  end.

(* tokens handed to the caller *)
Definition toks_of_obs (o : obs) : list tok :=
  match o with
  | ONext (Ready (Ok (Some f))) => [TFrame f]
  | OData (Ready (Ok (Some d))) => map TByte d
  | _ => []
  end.
Definition toks_of (os : list obs) : list tok := flat_map toks_of_obs os.

Definition obs_pending (o : obs) : bool :=
  match o with ONext Pending | OData Pending => true | _ => false end.

Fixpoint last_obs (os : list obs) : option obs :=
  match os with
  | [] => None
  | [o] => Some o
  | _ :: r => last_obs r
  end.

(* how a final result reads as a tail; None: a result the specification never allows (a panic, an
   error variant that no byte string may produce) *)
Definition tail_of_fserr (e : fserr) : option tail :=
  match e with
  | FsUnexpectedEnd => Some FrameError
  | FsQuic q => Some (Aborted q)
  | FsProto _ Malformed => Some (ProtoError PCMalformed)
  | FsProto _ (Unsupported t) => Some (ProtoError (PCForbidden t))
  | FsProto _ (ESettings se) => Some (ProtoError (PCSettings se))
  | FsProto _ _ => None
  end.
Definition tail_of_obs (o : obs) : option tail :=
  match o with
  | ONext (Ready (Ok None)) => Some CleanEnd
  | ONext (Ready (Ok (Some (FWebTransport _)))) => Some Handover
  | ONext (Ready (Err e)) => tail_of_fserr e
  | OData (Ready (Err e)) => tail_of_fserr e
  | _ => None
  end.

(* a final result [t] after the tokens [toks] is acceptable for the prescribed outcome [O] when
   - it is exactly that outcome, or
   - a DATA payload was cut by the end of the stream: H3_FRAME_ERROR, and of the payload bytes that did arrive
     a prefix was handed out before (how many depends on whether the FIN was already known), or
   - the stream was reset / the connection lost: that error, after any prefix of the tokens (a reset may
     overtake data that was already received) *)
Definition refines_final (toks : list tok) (t : tail) (O : list tok * tail) (en : ending) : Prop :=
  (toks = fst O /\ t = snd O) \/
  (t = FrameError /\ snd O = FrameError /\ exists bs, fst O = toks ++ map TByte bs) \/
  (exists e rest, en = Broken e /\ t = Aborted e /\ fst O = toks ++ rest).

(* the observations [os] of a history refine the outcome [O]:
   1. at every moment the tokens handed out are a prefix of the prescribed ones;
   2. a final result is acceptable (in particular it is never a panic nor an unexplained error);
   3. if the caller is left pending although nothing more will arrive, then the stream is still open and
      everything prescribed has been handed out - so nothing is waited on forever once the stream has ended. *)
Definition refines (os : list obs) (O : list tok * tail) (en : ending) (quiet : bool) : Prop :=
  (exists rest, fst O = toks_of os ++ rest) /\
  (forall o, last_obs os = Some o -> obs_final o = true ->
     exists t, tail_of_obs o = Some t /\ refines_final (toks_of os) t O en) /\
  (quiet = true -> forall o, last_obs os = Some o -> obs_pending o = true ->
     en = Open /\ O = (toks_of os, Waiting)).
