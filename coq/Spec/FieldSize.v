(* RFC 9114 4.2.2: "The size of a field list is calculated based on the uncompressed size of fields,
   including the length of the name and value in bytes plus an overhead of 32 bytes for each field." *)
From H3V Require Import Base.Bytes.

Definition field_size (f : bytes * bytes) : N := len (fst f) + len (snd f) + 32.

Fixpoint section_size (fs : list (bytes * bytes)) : N :=
  match fs with
  | [] => 0
  | f :: r => field_size f + section_size r
  end.
