(* RENDERED by translate/mk_panicreview.py from corpus/C06/panic_sites_reviewed.json -- reviewed by hand.
   One row per panic-capable site of Gen/GenPanicSites.v: modelled (a model Panic site / model function
   represents it), guarded (unreachable by the preceding check named in the text) or not peer-reachable
   (send path, local API misuse, constants).  Keyed on file + fn + kind + ordinal, never on line numbers. *)
From Coq Require Import String.
From H3V Require Import Base.Bytes Gen.GenPanicSites.
Inductive verdict := Modelled | Guarded | NotPeerReachable.
Record review := mk_review { r_file : string; r_fn : string; r_kind : pkind; r_ord : N; r_verdict : verdict; r_why : string }.
Local Open Scope string_scope.
Definition table : list review := [
  mk_review "h3/src/frame.rs" "FrameStream::poll_next" K_assert 1 Modelled
    "Model/FrameStream.v Panic 67 (poll_next assert remaining_data == 0); unreachable since the F7 repair: poll_data answers Ok(None) only with remaining_data == 0 or usize::MAX never followed by poll_next; harness family trl/flt exercises it at every step; unreachability: theorem C06_no_panic_frame_stream (run_no_panic, C02: all histories under the no-empty-chunk contract and the documented call pattern)";
  mk_review "h3/src/frame.rs" "FrameStream::poll_data" K_arith 1 Guarded
    "take_chunk(self.remaining_data) hands out at most remaining_data bytes (usize::min in BufList::take_chunk), so the subtraction cannot underflow; Model/FrameStream.v poll_data (st_rem - len d with len d <= st_rem by bl_take_chunk)";
  mk_review "h3/src/frame.rs" "FrameDecoder::decode" K_buf_advance 1 Modelled
    "pos is the position of a Cursor over the same BufList, which Cursor::advance keeps <= remaining(); Model/FrameStream.v Panic 50/51; unreachability: theorem C06_no_panic_frame_stream (run_no_panic, C02: all histories under the no-empty-chunk contract and the documented call pattern)";
  mk_review "h3/src/frame.rs" "FrameDecoder::decode" K_buf_advance 2 Modelled
    "pos is the position of a Cursor over the same BufList, which Cursor::advance keeps <= remaining(); Model/FrameStream.v Panic 50/51; unreachability: theorem C06_no_panic_frame_stream (run_no_panic, C02: all histories under the no-empty-chunk contract and the documented call pattern)";
  mk_review "h3/src/buf.rs" "BufList::push" K_debug_assert 1 NotPeerReachable
    "BufList::push is dead code outside tests (allow(dead_code)); debug build only";
  mk_review "h3/src/buf.rs" "BufList::take_chunk" K_split 1 Guarded
    "split_to(min(max_len, chunk.remaining()))";
  mk_review "h3/src/buf.rs" "BufList::push_bytes" K_debug_assert 1 Modelled
    "Model/FrameStream.v Panic 20: transport contract ""no empty chunks"" (explicit premise of the models; SimQuic upholds it); debug build only; unreachability: theorem C06_no_panic_frame_stream (run_no_panic, C02: all histories under the no-empty-chunk contract and the documented call pattern)";
  mk_review "h3/src/buf.rs" "BufList::push_bytes" K_buf_copy 1 Guarded
    "copy_to_bytes(buf.remaining()): exact length";
  mk_review "h3/src/buf.rs" "Buf for BufList::advance" K_index_const 1 Modelled
    "cnt > 0 and every caller passes cnt <= remaining() (FrameDecoder::decode: cursor position; bytes default get_u8/copy_to_slice after a remaining() check in VarInt::decode), so a front buffer exists; Model/FrameStream.v bl_advance = None (Panic 50/51); unreachability: theorem C06_no_panic_frame_stream (run_no_panic, C02: all histories under the no-empty-chunk contract and the documented call pattern)";
  mk_review "h3/src/buf.rs" "Buf for BufList::advance" K_buf_advance 1 Guarded
    "front.advance(cnt) only when rem > cnt, else advance(rem) with rem = front.remaining()";
  mk_review "h3/src/buf.rs" "Buf for BufList::advance" K_buf_advance 2 Guarded
    "front.advance(cnt) only when rem > cnt, else advance(rem) with rem = front.remaining()";
  mk_review "h3/src/buf.rs" "Buf for BufList::advance" K_arith 1 Guarded
    "else-branch of rem > cnt: rem <= cnt";
  mk_review "h3/src/buf.rs" "Buf for BufList::chunks_vectored" K_arith 1 Guarded
    "vecs <= dst.len() is the loop invariant (break when equal); not called on receive paths by h3";
  mk_review "h3/src/buf.rs" "Buf for BufList::chunks_vectored" K_index 1 Guarded
    "vecs <= dst.len() is the loop invariant (break when equal); not called on receive paths by h3";
  mk_review "h3/src/buf.rs" "Buf for Cursor::remaining" K_arith 1 Modelled
    "Model/Cursor.v cur_remaining (Panic 133); theorem C06_no_panic_cursor_remaining: pos_total <= buf.remaining() in every reachable state";
  mk_review "h3/src/buf.rs" "Buf for Cursor::chunk" K_index 1 Modelled
    "Model/Cursor.v cur_chunk (Panic 138, both index expressions); theorem C06_no_panic_cursor_chunk: while bytes remain, bufs[index] exists and pos_front is inside it (no empty chunks); callers (bytes default methods, modelled as cur_get_u8 / cur_copy_to_slice: theorems C06_no_panic_cursor_get_u8 / _copy_to_slice) call chunk() only while remaining() > 0";
  mk_review "h3/src/buf.rs" "Buf for Cursor::chunk" K_index 2 Modelled
    "Model/Cursor.v cur_chunk (Panic 138, both index expressions); theorem C06_no_panic_cursor_chunk: while bytes remain, bufs[index] exists and pos_front is inside it (no empty chunks); callers (bytes default methods, modelled as cur_get_u8 / cur_copy_to_slice: theorems C06_no_panic_cursor_get_u8 / _copy_to_slice) call chunk() only while remaining() > 0";
  mk_review "h3/src/buf.rs" "Buf for Cursor::advance" K_assert 1 Modelled
    "Model/Cursor.v cur_advance / adv_loop (Panic 143 the assert, 146 index, 147 subtraction); theorems C06_no_panic_cursor_advance (k <= remaining: no site reached, exactly k bytes skipped) and C06_cursor_advance_past_end_is_the_assert; every advance on a cursor comes from a bytes default method after a remaining() check of the caller (VarInt::decode, Decode for u8, Frame::decode take(len), prefix_string::decode)";
  mk_review "h3/src/buf.rs" "Buf for Cursor::advance" K_arith 1 Modelled
    "Model/Cursor.v cur_advance / adv_loop (Panic 143 the assert, 146 index, 147 subtraction); theorems C06_no_panic_cursor_advance (k <= remaining: no site reached, exactly k bytes skipped) and C06_cursor_advance_past_end_is_the_assert; every advance on a cursor comes from a bytes default method after a remaining() check of the caller (VarInt::decode, Decode for u8, Frame::decode take(len), prefix_string::decode)";
  mk_review "h3/src/buf.rs" "Buf for Cursor::advance" K_index 1 Modelled
    "Model/Cursor.v cur_advance / adv_loop (Panic 143 the assert, 146 index, 147 subtraction); theorems C06_no_panic_cursor_advance (k <= remaining: no site reached, exactly k bytes skipped) and C06_cursor_advance_past_end_is_the_assert; every advance on a cursor comes from a bytes default method after a remaining() check of the caller (VarInt::decode, Decode for u8, Frame::decode take(len), prefix_string::decode)";
  mk_review "h3/src/buf.rs" "Buf for Cursor::advance" K_arith 2 Modelled
    "Model/Cursor.v cur_advance / adv_loop (Panic 143 the assert, 146 index, 147 subtraction); theorems C06_no_panic_cursor_advance (k <= remaining: no site reached, exactly k bytes skipped) and C06_cursor_advance_past_end_is_the_assert; every advance on a cursor comes from a bytes default method after a remaining() check of the caller (VarInt::decode, Decode for u8, Frame::decode take(len), prefix_string::decode)";
  mk_review "h3/src/buf.rs" "Buf for Cursor::advance" K_arith 3 Modelled
    "Model/Cursor.v cur_advance / adv_loop (Panic 143 the assert, 146 index, 147 subtraction); theorems C06_no_panic_cursor_advance (k <= remaining: no site reached, exactly k bytes skipped) and C06_cursor_advance_past_end_is_the_assert; every advance on a cursor comes from a bytes default method after a remaining() check of the caller (VarInt::decode, Decode for u8, Frame::decode take(len), prefix_string::decode)";
  mk_review "h3/src/buf.rs" "Buf for Cursor::advance" K_arith 4 Modelled
    "Model/Cursor.v cur_advance / adv_loop (Panic 143 the assert, 146 index, 147 subtraction); theorems C06_no_panic_cursor_advance (k <= remaining: no site reached, exactly k bytes skipped) and C06_cursor_advance_past_end_is_the_assert; every advance on a cursor comes from a bytes default method after a remaining() check of the caller (VarInt::decode, Decode for u8, Frame::decode take(len), prefix_string::decode)";
  mk_review "h3/src/buf.rs" "Buf for Cursor::advance" K_arith 5 Modelled
    "Model/Cursor.v cur_advance / adv_loop (Panic 143 the assert, 146 index, 147 subtraction); theorems C06_no_panic_cursor_advance (k <= remaining: no site reached, exactly k bytes skipped) and C06_cursor_advance_past_end_is_the_assert; every advance on a cursor comes from a bytes default method after a remaining() check of the caller (VarInt::decode, Decode for u8, Frame::decode take(len), prefix_string::decode)";
  mk_review "h3/src/buf.rs" "Buf for Cursor::advance" K_arith 6 Modelled
    "Model/Cursor.v cur_advance / adv_loop (Panic 143 the assert, 146 index, 147 subtraction); theorems C06_no_panic_cursor_advance (k <= remaining: no site reached, exactly k bytes skipped) and C06_cursor_advance_past_end_is_the_assert; every advance on a cursor comes from a bytes default method after a remaining() check of the caller (VarInt::decode, Decode for u8, Frame::decode take(len), prefix_string::decode)";
  mk_review "h3/src/buf.rs" "Buf for Cursor::advance" K_arith 7 Modelled
    "Model/Cursor.v cur_advance / adv_loop (Panic 143 the assert, 146 index, 147 subtraction); theorems C06_no_panic_cursor_advance (k <= remaining: no site reached, exactly k bytes skipped) and C06_cursor_advance_past_end_is_the_assert; every advance on a cursor comes from a bytes default method after a remaining() check of the caller (VarInt::decode, Decode for u8, Frame::decode take(len), prefix_string::decode)";
  mk_review "h3/src/stream.rs" "WriteBuf::encode_stream_type" K_index 1 NotPeerReachable
    "send path only (encoding of locally produced values; C14/C13 cover the writers), never run on peer bytes; Model/WriteBuf.v (C14)";
  mk_review "h3/src/stream.rs" "WriteBuf::encode_stream_type" K_arith 1 NotPeerReachable
    "send path only (encoding of locally produced values; C14/C13 cover the writers), never run on peer bytes; Model/WriteBuf.v (C14)";
  mk_review "h3/src/stream.rs" "WriteBuf::encode_value" K_index 1 NotPeerReachable
    "send path only (encoding of locally produced values; C14/C13 cover the writers), never run on peer bytes; Model/WriteBuf.v (C14)";
  mk_review "h3/src/stream.rs" "WriteBuf::encode_value" K_arith 1 NotPeerReachable
    "send path only (encoding of locally produced values; C14/C13 cover the writers), never run on peer bytes; Model/WriteBuf.v (C14)";
  mk_review "h3/src/stream.rs" "WriteBuf::encode_frame_header" K_index 1 NotPeerReachable
    "send path only (encoding of locally produced values; C14/C13 cover the writers), never run on peer bytes; Model/WriteBuf.v (C14)";
  mk_review "h3/src/stream.rs" "WriteBuf::encode_frame_header" K_arith 1 NotPeerReachable
    "send path only (encoding of locally produced values; C14/C13 cover the writers), never run on peer bytes; Model/WriteBuf.v (C14)";
  mk_review "h3/src/stream.rs" "Buf for WriteBuf::remaining" K_arith 1 Guarded
    "send path, but driven by the transport: advance(cnt) is called with what the flow-control credit of the peer lets the transport take. remaining_header = len - pos >= 0 by the invariant pos <= len; advanced = min(cnt, remaining_header) so pos += advanced keeps pos <= len and cnt -= advanced cannot underflow; the payload advance gets cnt <= payload.remaining() from the Buf contract of the caller; chunk() slices buf[pos..len] with pos <= len <= 64. Model/WriteBuf.v (C14) wb_advance; exercised by the back-pressure family (budgets 0,1,2,3,7,63)";
  mk_review "h3/src/stream.rs" "Buf for WriteBuf::remaining" K_arith 2 Guarded
    "send path, but driven by the transport: advance(cnt) is called with what the flow-control credit of the peer lets the transport take. remaining_header = len - pos >= 0 by the invariant pos <= len; advanced = min(cnt, remaining_header) so pos += advanced keeps pos <= len and cnt -= advanced cannot underflow; the payload advance gets cnt <= payload.remaining() from the Buf contract of the caller; chunk() slices buf[pos..len] with pos <= len <= 64. Model/WriteBuf.v (C14) wb_advance; exercised by the back-pressure family (budgets 0,1,2,3,7,63)";
  mk_review "h3/src/stream.rs" "Buf for WriteBuf::chunk" K_arith 1 Guarded
    "send path, but driven by the transport: advance(cnt) is called with what the flow-control credit of the peer lets the transport take. remaining_header = len - pos >= 0 by the invariant pos <= len; advanced = min(cnt, remaining_header) so pos += advanced keeps pos <= len and cnt -= advanced cannot underflow; the payload advance gets cnt <= payload.remaining() from the Buf contract of the caller; chunk() slices buf[pos..len] with pos <= len <= 64. Model/WriteBuf.v (C14) wb_advance; exercised by the back-pressure family (budgets 0,1,2,3,7,63)";
  mk_review "h3/src/stream.rs" "Buf for WriteBuf::chunk" K_index 1 Guarded
    "send path, but driven by the transport: advance(cnt) is called with what the flow-control credit of the peer lets the transport take. remaining_header = len - pos >= 0 by the invariant pos <= len; advanced = min(cnt, remaining_header) so pos += advanced keeps pos <= len and cnt -= advanced cannot underflow; the payload advance gets cnt <= payload.remaining() from the Buf contract of the caller; chunk() slices buf[pos..len] with pos <= len <= 64. Model/WriteBuf.v (C14) wb_advance; exercised by the back-pressure family (budgets 0,1,2,3,7,63)";
  mk_review "h3/src/stream.rs" "Buf for WriteBuf::advance" K_arith 1 Guarded
    "send path, but driven by the transport: advance(cnt) is called with what the flow-control credit of the peer lets the transport take. remaining_header = len - pos >= 0 by the invariant pos <= len; advanced = min(cnt, remaining_header) so pos += advanced keeps pos <= len and cnt -= advanced cannot underflow; the payload advance gets cnt <= payload.remaining() from the Buf contract of the caller; chunk() slices buf[pos..len] with pos <= len <= 64. Model/WriteBuf.v (C14) wb_advance; exercised by the back-pressure family (budgets 0,1,2,3,7,63)";
  mk_review "h3/src/stream.rs" "Buf for WriteBuf::advance" K_arith 2 Guarded
    "send path, but driven by the transport: advance(cnt) is called with what the flow-control credit of the peer lets the transport take. remaining_header = len - pos >= 0 by the invariant pos <= len; advanced = min(cnt, remaining_header) so pos += advanced keeps pos <= len and cnt -= advanced cannot underflow; the payload advance gets cnt <= payload.remaining() from the Buf contract of the caller; chunk() slices buf[pos..len] with pos <= len <= 64. Model/WriteBuf.v (C14) wb_advance; exercised by the back-pressure family (budgets 0,1,2,3,7,63)";
  mk_review "h3/src/stream.rs" "Buf for WriteBuf::advance" K_arith 3 Guarded
    "send path, but driven by the transport: advance(cnt) is called with what the flow-control credit of the peer lets the transport take. remaining_header = len - pos >= 0 by the invariant pos <= len; advanced = min(cnt, remaining_header) so pos += advanced keeps pos <= len and cnt -= advanced cannot underflow; the payload advance gets cnt <= payload.remaining() from the Buf contract of the caller; chunk() slices buf[pos..len] with pos <= len <= 64. Model/WriteBuf.v (C14) wb_advance; exercised by the back-pressure family (budgets 0,1,2,3,7,63)";
  mk_review "h3/src/stream.rs" "Buf for WriteBuf::advance" K_buf_advance 1 Guarded
    "send path, but driven by the transport: advance(cnt) is called with what the flow-control credit of the peer lets the transport take. remaining_header = len - pos >= 0 by the invariant pos <= len; advanced = min(cnt, remaining_header) so pos += advanced keeps pos <= len and cnt -= advanced cannot underflow; the payload advance gets cnt <= payload.remaining() from the Buf contract of the caller; chunk() slices buf[pos..len] with pos <= len <= 64. Model/WriteBuf.v (C14) wb_advance; exercised by the back-pressure family (budgets 0,1,2,3,7,63)";
  mk_review "h3/src/stream.rs" "AcceptRecvStream::into_stream" K_expect 1 Modelled
    "into_stream is only called after poll_type returned Ready(Ok(())), which has set ty, and id for WEBTRANSPORT_UNI/PUSH (connection.rs poll_accept_recv); Model/AcceptRecv.v into_stream_kind Panic 61/62, unreachable by poll_type_char (C04): after Ready(Ok) ty is set and the id is set exactly for PUSH / WEBTRANSPORT_UNI";
  mk_review "h3/src/stream.rs" "AcceptRecvStream::into_stream" K_expect 2 Modelled
    "into_stream is only called after poll_type returned Ready(Ok(())), which has set ty, and id for WEBTRANSPORT_UNI/PUSH (connection.rs poll_accept_recv); Model/AcceptRecv.v into_stream_kind Panic 61/62, unreachable by poll_type_char (C04): after Ready(Ok) ty is set and the id is set exactly for PUSH / WEBTRANSPORT_UNI";
  mk_review "h3/src/stream.rs" "AcceptRecvStream::poll_next_varint" K_index_const 1 Modelled
    "same line: buf.remaining() >= 1, and the front chunk of a non-empty BufList is non-empty (take_chunk pops emptied fronts; no empty chunks pushed); Model/AcceptRecv.v poll_next_varint, theorem C06_no_panic_accept_recv (poll_type_no_panic, C04)";
  mk_review "h3/src/stream.rs" "RecvStream for BufRecvStream::poll_data" K_buf_copy 1 Guarded
    "copy_to_bytes(data.remaining()): exact length";
  mk_review "h3/src/stream.rs" "AsyncRead for BufRecvStream::poll_read" K_assert 1 Guarded
    "take_chunk(limit) returns at most limit bytes, so chunk.len() <= buf.len() and the slices have equal length (WebTransport payload path only)";
  mk_review "h3/src/stream.rs" "AsyncRead for BufRecvStream::poll_read" K_index 1 Guarded
    "take_chunk(limit) returns at most limit bytes, so chunk.len() <= buf.len() and the slices have equal length (WebTransport payload path only)";
  mk_review "h3/src/stream.rs" "AsyncRead for BufRecvStream::poll_read" K_buf_copy 1 Guarded
    "take_chunk(limit) returns at most limit bytes, so chunk.len() <= buf.len() and the slices have equal length (WebTransport payload path only)";
  mk_review "h3/src/stream.rs" "AsyncRead for BufRecvStream::poll_read#2" K_assert 1 Guarded
    "take_chunk(limit) returns at most limit bytes, so chunk.len() <= buf.len() and the slices have equal length (WebTransport payload path only)";
  mk_review "h3/src/stream.rs" "AsyncRead for BufRecvStream::poll_read#2" K_buf_copy 1 Guarded
    "take_chunk(limit) returns at most limit bytes, so chunk.len() <= buf.len() and the slices have equal length (WebTransport payload path only)";
  mk_review "h3/src/connection.rs" "ConnectionInner::new" K_capacity 1 NotPeerReachable
    "Vec::with_capacity(3): constant";
  mk_review "h3/src/connection.rs" "ConnectionInner::poll_accept_recv" K_expect 1 Guarded
    "the iterator is filtered by s.is_some() and take() is on the same element";
  mk_review "h3/src/connection.rs" "ConnectionInner::poll_accept_recv" K_expect 2 Guarded
    "the iterator is filtered by s.is_some() and take() is on the same element";
  mk_review "h3/src/proto/frame.rs" "Frame::decode" K_arith 1 Guarded
    "remaining is a buffer length (< 2^63) and len < 2^62, so remaining + 1 and 2 + len fit in usize";
  mk_review "h3/src/proto/frame.rs" "Frame::decode" K_arith 2 Guarded
    "remaining is a buffer length (< 2^63) and len < 2^62, so remaining + 1 and 2 + len fit in usize";
  mk_review "h3/src/proto/frame.rs" "Frame::decode" K_cast 1 Guarded
    "64-bit usize assumed (DESIGN section 3): the value is < 2^62 or already bound-checked against usize::MAX, the cast is lossless";
  mk_review "h3/src/proto/frame.rs" "Frame::decode" K_cast 2 Guarded
    "64-bit usize assumed (DESIGN section 3): the value is < 2^62 or already bound-checked against usize::MAX, the cast is lossless";
  mk_review "h3/src/proto/frame.rs" "Frame::decode" K_arith 3 Guarded
    "remaining is a buffer length (< 2^63) and len < 2^62, so remaining + 1 and 2 + len fit in usize";
  mk_review "h3/src/proto/frame.rs" "Frame::decode" K_cast 3 Guarded
    "64-bit usize assumed (DESIGN section 3): the value is < 2^62 or already bound-checked against usize::MAX, the cast is lossless";
  mk_review "h3/src/proto/frame.rs" "Frame::decode" K_cast 4 Guarded
    "64-bit usize assumed (DESIGN section 3): the value is < 2^62 or already bound-checked against usize::MAX, the cast is lossless";
  mk_review "h3/src/proto/frame.rs" "Frame::decode" K_buf_copy 1 Modelled
    "Model/FrameDec.v Panic 30 (copy_to_bytes past the end): guarded by the buf.remaining() < len => Incomplete check just above; unreachability: theorem C06_no_panic_frame_decode (Proofs/NoPanicFrames.v frame_decode_no_panic)";
  mk_review "h3/src/proto/frame.rs" "Frame::decode" K_cast 5 Guarded
    "64-bit usize assumed (DESIGN section 3): the value is < 2^62 or already bound-checked against usize::MAX, the cast is lossless";
  mk_review "h3/src/proto/frame.rs" "Frame::decode" K_unreachable 1 Modelled
    "Model/FrameDec.v Panic 31 (ArmUnreachable): DATA and WEBTRANSPORT_BI_STREAM return before the match (GenFrameTypes pins the arm order); unreachability: theorem C06_no_panic_frame_decode (Proofs/NoPanicFrames.v frame_decode_no_panic)";
  mk_review "h3/src/proto/frame.rs" "Frame::decode" K_buf_advance 1 Guarded
    "payload = buf.take(len) after remaining() >= len: advance(len) is within the Take limit";
  mk_review "h3/src/proto/frame.rs" "Frame::decode" K_cast 6 Guarded
    "64-bit usize assumed (DESIGN section 3): the value is < 2^62 or already bound-checked against usize::MAX, the cast is lossless";
  mk_review "h3/src/proto/frame.rs" "Encode for Frame::encode" K_cast 1 NotPeerReachable
    "send path only (encoding of locally produced values; C14/C13 cover the writers), never run on peer bytes";
  mk_review "h3/src/proto/frame.rs" "Encode for Frame::encode" K_cast 2 NotPeerReachable
    "send path only (encoding of locally produced values; C14/C13 cover the writers), never run on peer bytes";
  mk_review "h3/src/proto/frame.rs" "Encode for Frame::encode" K_buf_copy 1 NotPeerReachable
    "send path only (encoding of locally produced values; C14/C13 cover the writers), never run on peer bytes";
  mk_review "h3/src/proto/frame.rs" "FrameType::grease" K_arith 1 NotPeerReachable
    "local RNG value below 0x210842108421083: g*0x1f+0x21 < 2^62 (Model/FrameEnc.v Panic 25 shows the bound)";
  mk_review "h3/src/proto/frame.rs" "FrameType::grease" K_arith 2 NotPeerReachable
    "local RNG value below 0x210842108421083: g*0x1f+0x21 < 2^62 (Model/FrameEnc.v Panic 25 shows the bound)";
  mk_review "h3/src/proto/frame.rs" "trait FrameHeader::encode_header" K_cast 1 NotPeerReachable
    "send path only (encoding of locally produced values; C14/C13 cover the writers), never run on peer bytes";
  mk_review "h3/src/proto/frame.rs" "FrameHeader for PushPromise::encode_header" K_cast 1 NotPeerReachable
    "send path only (encoding of locally produced values; C14/C13 cover the writers), never run on peer bytes";
  mk_review "h3/src/proto/frame.rs" "FrameHeader for PushPromise::len" K_expect 1 NotPeerReachable
    "send path only (encoding of locally produced values; C14/C13 cover the writers), never run on peer bytes";
  mk_review "h3/src/proto/frame.rs" "FrameHeader for PushPromise::len" K_arith 1 NotPeerReachable
    "send path only (encoding of locally produced values; C14/C13 cover the writers), never run on peer bytes";
  mk_review "h3/src/proto/frame.rs" "PushPromise::decode" K_buf_copy 1 Guarded
    "copy_to_bytes(buf.remaining()): exact length";
  mk_review "h3/src/proto/frame.rs" "PushPromise::encode" K_buf_copy 1 NotPeerReachable
    "send path only (encoding of locally produced values; C14/C13 cover the writers), never run on peer bytes";
  mk_review "h3/src/proto/frame.rs" "simple_frame_encode" K_cast 1 NotPeerReachable
    "send path only (encoding of locally produced values; C14/C13 cover the writers), never run on peer bytes";
  mk_review "h3/src/proto/frame.rs" "SettingId::grease" K_arith 1 NotPeerReachable
    "local RNG value below 0x210842108421083: g*0x1f+0x21 < 2^62 (Model/FrameEnc.v Panic 25 shows the bound)";
  mk_review "h3/src/proto/frame.rs" "SettingId::grease" K_arith 2 NotPeerReachable
    "local RNG value below 0x210842108421083: g*0x1f+0x21 < 2^62 (Model/FrameEnc.v Panic 25 shows the bound)";
  mk_review "h3/src/proto/frame.rs" "FrameHeader for Settings::len" K_index 1 NotPeerReachable
    "send path only (encoding of locally produced values; C14/C13 cover the writers), never run on peer bytes";
  mk_review "h3/src/proto/frame.rs" "FrameHeader for Settings::len" K_arith 1 NotPeerReachable
    "send path only (encoding of locally produced values; C14/C13 cover the writers), never run on peer bytes";
  mk_review "h3/src/proto/frame.rs" "FrameHeader for Settings::len" K_unwrap 1 NotPeerReachable
    "send path only (encoding of locally produced values; C14/C13 cover the writers), never run on peer bytes";
  mk_review "h3/src/proto/frame.rs" "FrameHeader for Settings::len" K_arith 2 NotPeerReachable
    "send path only (encoding of locally produced values; C14/C13 cover the writers), never run on peer bytes";
  mk_review "h3/src/proto/frame.rs" "FrameHeader for Settings::len" K_unwrap 2 NotPeerReachable
    "send path only (encoding of locally produced values; C14/C13 cover the writers), never run on peer bytes";
  mk_review "h3/src/proto/frame.rs" "Settings::insert" K_index 1 Modelled
    "Model/Settings.v (C13): len <= SETTINGS_LEN is an invariant, insert answers Exceeded before indexing entries[len]; at most 7 supported ids and repeats are refused; theorems C06_no_panic_settings (st_decode_no_panic) and settings_scan_no_panic inside C06_no_panic_frame_decode";
  mk_review "h3/src/proto/frame.rs" "Settings::insert" K_index 2 Modelled
    "Model/Settings.v (C13): len <= SETTINGS_LEN is an invariant, insert answers Exceeded before indexing entries[len]; at most 7 supported ids and repeats are refused; theorems C06_no_panic_settings (st_decode_no_panic) and settings_scan_no_panic inside C06_no_panic_frame_decode";
  mk_review "h3/src/proto/frame.rs" "Settings::insert" K_arith 1 Modelled
    "Model/Settings.v (C13): len <= SETTINGS_LEN is an invariant, insert answers Exceeded before indexing entries[len]; at most 7 supported ids and repeats are refused; theorems C06_no_panic_settings (st_decode_no_panic) and settings_scan_no_panic inside C06_no_panic_frame_decode";
  mk_review "h3/src/proto/frame.rs" "Settings::encode" K_index 1 NotPeerReachable
    "send path only (encoding of locally produced values; C14/C13 cover the writers), never run on peer bytes";
  mk_review "h3/src/proto/frame.rs" "Settings::decode" K_headermap 1 Guarded
    "lexical false positive: Settings::insert (fixed array, returns Err(Exceeded)), not HeaderMap::insert";
  mk_review "h3/src/proto/varint.rs" "Div for VarInt::div" K_arith 1 NotPeerReachable
    "the divisor is the constant 4 at the only call site (h3-datagram), never a peer value";
  mk_review "h3/src/proto/varint.rs" "VarInt::from_u32" K_cast 1 Guarded
    "widening cast to u64";
  mk_review "h3/src/proto/varint.rs" "VarInt::from_u64" K_arith 1 Guarded
    "2u64.pow(62) is a constant";
  mk_review "h3/src/proto/varint.rs" "VarInt::size" K_arith 1 Guarded
    "2u64.pow(k) with constant k <= 62";
  mk_review "h3/src/proto/varint.rs" "VarInt::size" K_arith 2 Guarded
    "2u64.pow(k) with constant k <= 62";
  mk_review "h3/src/proto/varint.rs" "VarInt::size" K_arith 3 Guarded
    "2u64.pow(k) with constant k <= 62";
  mk_review "h3/src/proto/varint.rs" "VarInt::size" K_arith 4 Guarded
    "2u64.pow(k) with constant k <= 62";
  mk_review "h3/src/proto/varint.rs" "VarInt::size" K_unreachable 1 Modelled
    "Model/Varint.v size: every VarInt is < 2^62 (from_u64 / decode mask the top bits); C16 theorems";
  mk_review "h3/src/proto/varint.rs" "VarInt::encoded_size" K_arith 1 Guarded
    "first >> 6 <= 3, so 2^(first>>6) <= 8";
  mk_review "h3/src/proto/varint.rs" "VarInt::encoded_size" K_shift 1 Guarded
    "first >> 6 <= 3, so 2^(first>>6) <= 8";
  mk_review "h3/src/proto/varint.rs" "VarInt::encoded_size" K_cast 1 Guarded
    "first >> 6 <= 3, so 2^(first>>6) <= 8";
  mk_review "h3/src/proto/varint.rs" "VarInt::decode" K_index_const 1 Modelled
    "Model/Varint.v varint decode; theorem C16_decode_never_panics: constant indices into [u8; 8], get_u8/copy_to_slice after has_remaining()/remaining() checks, tag = byte >> 6 <= 3 = C06_no_panic_varint";
  mk_review "h3/src/proto/varint.rs" "VarInt::decode" K_buf_get 1 Modelled
    "Model/Varint.v varint decode; theorem C16_decode_never_panics: constant indices into [u8; 8], get_u8/copy_to_slice after has_remaining()/remaining() checks, tag = byte >> 6 <= 3 = C06_no_panic_varint";
  mk_review "h3/src/proto/varint.rs" "VarInt::decode" K_index_const 2 Modelled
    "Model/Varint.v varint decode; theorem C16_decode_never_panics: constant indices into [u8; 8], get_u8/copy_to_slice after has_remaining()/remaining() checks, tag = byte >> 6 <= 3 = C06_no_panic_varint";
  mk_review "h3/src/proto/varint.rs" "VarInt::decode" K_shift 1 Modelled
    "Model/Varint.v varint decode; theorem C16_decode_never_panics: constant indices into [u8; 8], get_u8/copy_to_slice after has_remaining()/remaining() checks, tag = byte >> 6 <= 3 = C06_no_panic_varint";
  mk_review "h3/src/proto/varint.rs" "VarInt::decode" K_index_const 3 Modelled
    "Model/Varint.v varint decode; theorem C16_decode_never_panics: constant indices into [u8; 8], get_u8/copy_to_slice after has_remaining()/remaining() checks, tag = byte >> 6 <= 3 = C06_no_panic_varint";
  mk_review "h3/src/proto/varint.rs" "VarInt::decode" K_index_const 4 Modelled
    "Model/Varint.v varint decode; theorem C16_decode_never_panics: constant indices into [u8; 8], get_u8/copy_to_slice after has_remaining()/remaining() checks, tag = byte >> 6 <= 3 = C06_no_panic_varint";
  mk_review "h3/src/proto/varint.rs" "VarInt::decode" K_buf_copy 1 Modelled
    "Model/Varint.v varint decode; theorem C16_decode_never_panics: constant indices into [u8; 8], get_u8/copy_to_slice after has_remaining()/remaining() checks, tag = byte >> 6 <= 3 = C06_no_panic_varint";
  mk_review "h3/src/proto/varint.rs" "VarInt::decode" K_index 1 Modelled
    "Model/Varint.v varint decode; theorem C16_decode_never_panics: constant indices into [u8; 8], get_u8/copy_to_slice after has_remaining()/remaining() checks, tag = byte >> 6 <= 3 = C06_no_panic_varint";
  mk_review "h3/src/proto/varint.rs" "VarInt::decode" K_index 2 Modelled
    "Model/Varint.v varint decode; theorem C16_decode_never_panics: constant indices into [u8; 8], get_u8/copy_to_slice after has_remaining()/remaining() checks, tag = byte >> 6 <= 3 = C06_no_panic_varint";
  mk_review "h3/src/proto/varint.rs" "VarInt::decode" K_unwrap 1 Modelled
    "Model/Varint.v varint decode; theorem C16_decode_never_panics: constant indices into [u8; 8], get_u8/copy_to_slice after has_remaining()/remaining() checks, tag = byte >> 6 <= 3 = C06_no_panic_varint";
  mk_review "h3/src/proto/varint.rs" "VarInt::decode" K_buf_copy 2 Modelled
    "Model/Varint.v varint decode; theorem C16_decode_never_panics: constant indices into [u8; 8], get_u8/copy_to_slice after has_remaining()/remaining() checks, tag = byte >> 6 <= 3 = C06_no_panic_varint";
  mk_review "h3/src/proto/varint.rs" "VarInt::decode" K_index 3 Modelled
    "Model/Varint.v varint decode; theorem C16_decode_never_panics: constant indices into [u8; 8], get_u8/copy_to_slice after has_remaining()/remaining() checks, tag = byte >> 6 <= 3 = C06_no_panic_varint";
  mk_review "h3/src/proto/varint.rs" "VarInt::decode" K_index 4 Modelled
    "Model/Varint.v varint decode; theorem C16_decode_never_panics: constant indices into [u8; 8], get_u8/copy_to_slice after has_remaining()/remaining() checks, tag = byte >> 6 <= 3 = C06_no_panic_varint";
  mk_review "h3/src/proto/varint.rs" "VarInt::decode" K_unwrap 2 Modelled
    "Model/Varint.v varint decode; theorem C16_decode_never_panics: constant indices into [u8; 8], get_u8/copy_to_slice after has_remaining()/remaining() checks, tag = byte >> 6 <= 3 = C06_no_panic_varint";
  mk_review "h3/src/proto/varint.rs" "VarInt::decode" K_buf_copy 3 Modelled
    "Model/Varint.v varint decode; theorem C16_decode_never_panics: constant indices into [u8; 8], get_u8/copy_to_slice after has_remaining()/remaining() checks, tag = byte >> 6 <= 3 = C06_no_panic_varint";
  mk_review "h3/src/proto/varint.rs" "VarInt::decode" K_index 5 Modelled
    "Model/Varint.v varint decode; theorem C16_decode_never_panics: constant indices into [u8; 8], get_u8/copy_to_slice after has_remaining()/remaining() checks, tag = byte >> 6 <= 3 = C06_no_panic_varint";
  mk_review "h3/src/proto/varint.rs" "VarInt::decode" K_unreachable 1 Modelled
    "Model/Varint.v varint decode; theorem C16_decode_never_panics: constant indices into [u8; 8], get_u8/copy_to_slice after has_remaining()/remaining() checks, tag = byte >> 6 <= 3 = C06_no_panic_varint";
  mk_review "h3/src/proto/varint.rs" "VarInt::encode" K_arith 1 NotPeerReachable
    "send path only (encoding of locally produced values; C14/C13 cover the writers), never run on peer bytes; Model/Varint.v encode (C16)";
  mk_review "h3/src/proto/varint.rs" "VarInt::encode" K_cast 1 NotPeerReachable
    "send path only (encoding of locally produced values; C14/C13 cover the writers), never run on peer bytes; Model/Varint.v encode (C16)";
  mk_review "h3/src/proto/varint.rs" "VarInt::encode" K_arith 2 NotPeerReachable
    "send path only (encoding of locally produced values; C14/C13 cover the writers), never run on peer bytes; Model/Varint.v encode (C16)";
  mk_review "h3/src/proto/varint.rs" "VarInt::encode" K_shift 1 NotPeerReachable
    "send path only (encoding of locally produced values; C14/C13 cover the writers), never run on peer bytes; Model/Varint.v encode (C16)";
  mk_review "h3/src/proto/varint.rs" "VarInt::encode" K_cast 2 NotPeerReachable
    "send path only (encoding of locally produced values; C14/C13 cover the writers), never run on peer bytes; Model/Varint.v encode (C16)";
  mk_review "h3/src/proto/varint.rs" "VarInt::encode" K_arith 3 NotPeerReachable
    "send path only (encoding of locally produced values; C14/C13 cover the writers), never run on peer bytes; Model/Varint.v encode (C16)";
  mk_review "h3/src/proto/varint.rs" "VarInt::encode" K_shift 2 NotPeerReachable
    "send path only (encoding of locally produced values; C14/C13 cover the writers), never run on peer bytes; Model/Varint.v encode (C16)";
  mk_review "h3/src/proto/varint.rs" "VarInt::encode" K_cast 3 NotPeerReachable
    "send path only (encoding of locally produced values; C14/C13 cover the writers), never run on peer bytes; Model/Varint.v encode (C16)";
  mk_review "h3/src/proto/varint.rs" "VarInt::encode" K_arith 4 NotPeerReachable
    "send path only (encoding of locally produced values; C14/C13 cover the writers), never run on peer bytes; Model/Varint.v encode (C16)";
  mk_review "h3/src/proto/varint.rs" "VarInt::encode" K_shift 3 NotPeerReachable
    "send path only (encoding of locally produced values; C14/C13 cover the writers), never run on peer bytes; Model/Varint.v encode (C16)";
  mk_review "h3/src/proto/varint.rs" "VarInt::encode" K_unreachable 1 NotPeerReachable
    "send path only (encoding of locally produced values; C14/C13 cover the writers), never run on peer bytes; Model/Varint.v encode (C16)";
  mk_review "h3/src/proto/varint.rs" "TryFrom for VarInt::try_from#2" K_cast 1 Guarded
    "widening cast to u64";
  mk_review "h3/src/proto/varint.rs" "BufMutExt for T::write_var" K_unwrap 1 NotPeerReachable
    "send path only (encoding of locally produced values; C14/C13 cover the writers), never run on peer bytes: arguments are lengths of in-memory buffers and ids < 2^62";
  mk_review "h3/src/proto/headers.rs" "Header::len" K_arith 1 Guarded
    "sum of two in-memory collection sizes";
  mk_review "h3/src/proto/headers.rs" "Header::size" K_arith 1 Guarded
    "sum of two in-memory collection sizes";
  mk_review "h3/src/proto/headers.rs" "TryFrom for Header::try_from" K_arith 1 Guarded
    "counts pseudo-header fields of one field section: bounded by the number of decoded fields (< buffer length)";
  mk_review "h3/src/proto/headers.rs" "TryFrom for Header::try_from" K_arith 2 Guarded
    "counts pseudo-header fields of one field section: bounded by the number of decoded fields (< buffer length)";
  mk_review "h3/src/proto/headers.rs" "TryFrom for Header::try_from" K_arith 3 Guarded
    "counts pseudo-header fields of one field section: bounded by the number of decoded fields (< buffer length)";
  mk_review "h3/src/proto/headers.rs" "TryFrom for Header::try_from" K_arith 4 Guarded
    "counts pseudo-header fields of one field section: bounded by the number of decoded fields (< buffer length)";
  mk_review "h3/src/proto/headers.rs" "TryFrom for Header::try_from" K_arith 5 Guarded
    "counts pseudo-header fields of one field section: bounded by the number of decoded fields (< buffer length)";
  mk_review "h3/src/proto/headers.rs" "TryFrom for Header::try_from" K_arith 6 Guarded
    "counts pseudo-header fields of one field section: bounded by the number of decoded fields (< buffer length)";
  mk_review "h3/src/proto/headers.rs" "Field::parse" K_index_const 1 Modelled
    "Model/Headers.v Panic 100 (name[0]): guarded by the name.is_empty() check (GenHeaders pins empty_name_is_error); theorems C06_no_panic_headers_request / _response / _trailers (field_parse_no_panic)";
  mk_review "h3/src/proto/headers.rs" "Pseudo::request" K_arith 1 NotPeerReachable
    "send path only (encoding of locally produced values; C14/C13 cover the writers), never run on peer bytes (client builds its own request); bool casts";
  mk_review "h3/src/proto/headers.rs" "Pseudo::request" K_cast 1 NotPeerReachable
    "send path only (encoding of locally produced values; C14/C13 cover the writers), never run on peer bytes (client builds its own request); bool casts";
  mk_review "h3/src/proto/headers.rs" "Pseudo::request" K_arith 2 NotPeerReachable
    "send path only (encoding of locally produced values; C14/C13 cover the writers), never run on peer bytes (client builds its own request); bool casts";
  mk_review "h3/src/proto/headers.rs" "Pseudo::request" K_cast 2 NotPeerReachable
    "send path only (encoding of locally produced values; C14/C13 cover the writers), never run on peer bytes (client builds its own request); bool casts";
  mk_review "h3/src/qpack/decoder.rs" "Decoder::decode_header" K_arith 1 NotPeerReachable
    "stateful QPACK decoder/encoder-side code: h3 connection code only calls decode_stateless/encode_stateless and never reads the peer QPACK streams (connection.rs stores them unread); covered by the C20 models, not reachable by a peer of h3";
  mk_review "h3/src/qpack/decoder.rs" "Decoder::decode_header" K_cast 1 NotPeerReachable
    "stateful QPACK decoder/encoder-side code: h3 connection code only calls decode_stateless/encode_stateless and never reads the peer QPACK streams (connection.rs stores them unread); covered by the C20 models, not reachable by a peer of h3";
  mk_review "h3/src/qpack/decoder.rs" "Decoder::on_encoder_recv" K_buf_copy 1 NotPeerReachable
    "stateful QPACK decoder/encoder-side code: h3 connection code only calls decode_stateless/encode_stateless and never reads the peer QPACK streams (connection.rs stores them unread); covered by the C20 models, not reachable by a peer of h3";
  mk_review "h3/src/qpack/decoder.rs" "Decoder::on_encoder_recv" K_arith 1 NotPeerReachable
    "stateful QPACK decoder/encoder-side code: h3 connection code only calls decode_stateless/encode_stateless and never reads the peer QPACK streams (connection.rs stores them unread); covered by the C20 models, not reachable by a peer of h3";
  mk_review "h3/src/qpack/decoder.rs" "Decoder::parse_instruction" K_index_const 1 NotPeerReachable
    "stateful QPACK decoder/encoder-side code: h3 connection code only calls decode_stateless/encode_stateless and never reads the peer QPACK streams (connection.rs stores them unread); covered by the C20 models, not reachable by a peer of h3";
  mk_review "h3/src/qpack/decoder.rs" "Decoder::parse_instruction" K_buf_advance 1 NotPeerReachable
    "stateful QPACK decoder/encoder-side code: h3 connection code only calls decode_stateless/encode_stateless and never reads the peer QPACK streams (connection.rs stores them unread); covered by the C20 models, not reachable by a peer of h3";
  mk_review "h3/src/qpack/decoder.rs" "Decoder::parse_instruction" K_cast 1 NotPeerReachable
    "stateful QPACK decoder/encoder-side code: h3 connection code only calls decode_stateless/encode_stateless and never reads the peer QPACK streams (connection.rs stores them unread); covered by the C20 models, not reachable by a peer of h3";
  mk_review "h3/src/qpack/decoder.rs" "Decoder::parse_header_field" K_index_const 1 NotPeerReachable
    "stateful QPACK decoder/encoder-side code: h3 connection code only calls decode_stateless/encode_stateless and never reads the peer QPACK streams (connection.rs stores them unread); covered by the C20 models, not reachable by a peer of h3";
  mk_review "h3/src/qpack/decoder.rs" "decode_stateless" K_index_const 1 Modelled
    "loop condition buf.has_remaining(): Bytes::chunk() is non-empty then; Model/QpackStateless.v; Model/QpackStateless.v decode_stateless / fields_loop, theorem C06_no_panic_qpack_stateless (decode_stateless_no_panic, C11)";
  mk_review "h3/src/qpack/decoder.rs" "decode_stateless" K_index_const 2 Modelled
    "loop condition buf.has_remaining(): Bytes::chunk() is non-empty then; Model/QpackStateless.v; Model/QpackStateless.v decode_stateless / fields_loop, theorem C06_no_panic_qpack_stateless (decode_stateless_no_panic, C11)";
  mk_review "h3/src/qpack/decoder.rs" "decode_stateless" K_arith 1 Modelled
    "mem_size grows by name+value+32 per field, each field costs >= 1 wire byte: bounded by ~2^7 x input length; Model/QpackStateless.v decode_stateless / fields_loop, theorem C06_no_panic_qpack_stateless (decode_stateless_no_panic, C11)";
  mk_review "h3/src/qpack/decoder.rs" "decode_stateless" K_cast 1 Modelled
    "mem_size grows by name+value+32 per field, each field costs >= 1 wire byte: bounded by ~2^7 x input length; Model/QpackStateless.v decode_stateless / fields_loop, theorem C06_no_panic_qpack_stateless (decode_stateless_no_panic, C11)";
  mk_review "h3/src/qpack/block.rs" "HeaderPrefix::new" K_assert 1 NotPeerReachable
    "stateful QPACK decoder/encoder-side code: h3 connection code only calls decode_stateless/encode_stateless and never reads the peer QPACK streams (connection.rs stores them unread); covered by the C20 models, not reachable by a peer of h3";
  mk_review "h3/src/qpack/block.rs" "HeaderPrefix::new" K_arith 1 NotPeerReachable
    "stateful QPACK decoder/encoder-side code: h3 connection code only calls decode_stateless/encode_stateless and never reads the peer QPACK streams (connection.rs stores them unread); covered by the C20 models, not reachable by a peer of h3";
  mk_review "h3/src/qpack/block.rs" "HeaderPrefix::new" K_arith 2 NotPeerReachable
    "stateful QPACK decoder/encoder-side code: h3 connection code only calls decode_stateless/encode_stateless and never reads the peer QPACK streams (connection.rs stores them unread); covered by the C20 models, not reachable by a peer of h3";
  mk_review "h3/src/qpack/block.rs" "HeaderPrefix::new" K_arith 3 NotPeerReachable
    "stateful QPACK decoder/encoder-side code: h3 connection code only calls decode_stateless/encode_stateless and never reads the peer QPACK streams (connection.rs stores them unread); covered by the C20 models, not reachable by a peer of h3";
  mk_review "h3/src/qpack/block.rs" "HeaderPrefix::new" K_arith 4 NotPeerReachable
    "stateful QPACK decoder/encoder-side code: h3 connection code only calls decode_stateless/encode_stateless and never reads the peer QPACK streams (connection.rs stores them unread); covered by the C20 models, not reachable by a peer of h3";
  mk_review "h3/src/qpack/block.rs" "HeaderPrefix::new" K_arith 5 NotPeerReachable
    "stateful QPACK decoder/encoder-side code: h3 connection code only calls decode_stateless/encode_stateless and never reads the peer QPACK streams (connection.rs stores them unread); covered by the C20 models, not reachable by a peer of h3";
  mk_review "h3/src/qpack/block.rs" "HeaderPrefix::new" K_arith 6 NotPeerReachable
    "stateful QPACK decoder/encoder-side code: h3 connection code only calls decode_stateless/encode_stateless and never reads the peer QPACK streams (connection.rs stores them unread); covered by the C20 models, not reachable by a peer of h3";
  mk_review "h3/src/qpack/block.rs" "HeaderPrefix::new" K_arith 7 NotPeerReachable
    "stateful QPACK decoder/encoder-side code: h3 connection code only calls decode_stateless/encode_stateless and never reads the peer QPACK streams (connection.rs stores them unread); covered by the C20 models, not reachable by a peer of h3";
  mk_review "h3/src/qpack/block.rs" "HeaderPrefix::base_without_refs" K_arith 1 Guarded
    "-1 - x is in range for EVERY isize x (x = MIN gives MAX, x = MAX gives MIN), whatever delta_base as isize wraps to; value only used in the error; modelled in Model/QpackStateless.v (hp_decode / indexed_decode / nameref_decode / literal_decode), theorem C06_no_panic_qpack_stateless";
  mk_review "h3/src/qpack/block.rs" "HeaderPrefix::base_without_refs" K_cast 1 Guarded
    "-1 - x is in range for EVERY isize x (x = MIN gives MAX, x = MAX gives MIN), whatever delta_base as isize wraps to; value only used in the error; modelled in Model/QpackStateless.v (hp_decode / indexed_decode / nameref_decode / literal_decode), theorem C06_no_panic_qpack_stateless";
  mk_review "h3/src/qpack/block.rs" "HeaderPrefix::get" K_arith 1 NotPeerReachable
    "stateful QPACK decoder/encoder-side code: h3 connection code only calls decode_stateless/encode_stateless and never reads the peer QPACK streams (connection.rs stores them unread); covered by the C20 models, not reachable by a peer of h3";
  mk_review "h3/src/qpack/block.rs" "HeaderPrefix::get" K_arith 2 NotPeerReachable
    "stateful QPACK decoder/encoder-side code: h3 connection code only calls decode_stateless/encode_stateless and never reads the peer QPACK streams (connection.rs stores them unread); covered by the C20 models, not reachable by a peer of h3";
  mk_review "h3/src/qpack/block.rs" "HeaderPrefix::get" K_arith 3 NotPeerReachable
    "stateful QPACK decoder/encoder-side code: h3 connection code only calls decode_stateless/encode_stateless and never reads the peer QPACK streams (connection.rs stores them unread); covered by the C20 models, not reachable by a peer of h3";
  mk_review "h3/src/qpack/block.rs" "HeaderPrefix::get" K_arith 4 NotPeerReachable
    "stateful QPACK decoder/encoder-side code: h3 connection code only calls decode_stateless/encode_stateless and never reads the peer QPACK streams (connection.rs stores them unread); covered by the C20 models, not reachable by a peer of h3";
  mk_review "h3/src/qpack/block.rs" "HeaderPrefix::get" K_arith 5 NotPeerReachable
    "stateful QPACK decoder/encoder-side code: h3 connection code only calls decode_stateless/encode_stateless and never reads the peer QPACK streams (connection.rs stores them unread); covered by the C20 models, not reachable by a peer of h3";
  mk_review "h3/src/qpack/block.rs" "HeaderPrefix::get" K_arith 6 NotPeerReachable
    "stateful QPACK decoder/encoder-side code: h3 connection code only calls decode_stateless/encode_stateless and never reads the peer QPACK streams (connection.rs stores them unread); covered by the C20 models, not reachable by a peer of h3";
  mk_review "h3/src/qpack/block.rs" "HeaderPrefix::get" K_arith 7 NotPeerReachable
    "stateful QPACK decoder/encoder-side code: h3 connection code only calls decode_stateless/encode_stateless and never reads the peer QPACK streams (connection.rs stores them unread); covered by the C20 models, not reachable by a peer of h3";
  mk_review "h3/src/qpack/block.rs" "HeaderPrefix::get" K_arith 8 NotPeerReachable
    "stateful QPACK decoder/encoder-side code: h3 connection code only calls decode_stateless/encode_stateless and never reads the peer QPACK streams (connection.rs stores them unread); covered by the C20 models, not reachable by a peer of h3";
  mk_review "h3/src/qpack/block.rs" "HeaderPrefix::get" K_arith 9 NotPeerReachable
    "stateful QPACK decoder/encoder-side code: h3 connection code only calls decode_stateless/encode_stateless and never reads the peer QPACK streams (connection.rs stores them unread); covered by the C20 models, not reachable by a peer of h3";
  mk_review "h3/src/qpack/block.rs" "HeaderPrefix::get" K_arith 10 NotPeerReachable
    "stateful QPACK decoder/encoder-side code: h3 connection code only calls decode_stateless/encode_stateless and never reads the peer QPACK streams (connection.rs stores them unread); covered by the C20 models, not reachable by a peer of h3";
  mk_review "h3/src/qpack/block.rs" "HeaderPrefix::get" K_arith 11 NotPeerReachable
    "stateful QPACK decoder/encoder-side code: h3 connection code only calls decode_stateless/encode_stateless and never reads the peer QPACK streams (connection.rs stores them unread); covered by the C20 models, not reachable by a peer of h3";
  mk_review "h3/src/qpack/block.rs" "HeaderPrefix::get" K_arith 12 NotPeerReachable
    "stateful QPACK decoder/encoder-side code: h3 connection code only calls decode_stateless/encode_stateless and never reads the peer QPACK streams (connection.rs stores them unread); covered by the C20 models, not reachable by a peer of h3";
  mk_review "h3/src/qpack/block.rs" "HeaderPrefix::get" K_arith 13 NotPeerReachable
    "stateful QPACK decoder/encoder-side code: h3 connection code only calls decode_stateless/encode_stateless and never reads the peer QPACK streams (connection.rs stores them unread); covered by the C20 models, not reachable by a peer of h3";
  mk_review "h3/src/qpack/block.rs" "HeaderPrefix::get" K_arith 14 NotPeerReachable
    "stateful QPACK decoder/encoder-side code: h3 connection code only calls decode_stateless/encode_stateless and never reads the peer QPACK streams (connection.rs stores them unread); covered by the C20 models, not reachable by a peer of h3";
  mk_review "h3/src/qpack/block.rs" "HeaderPrefix::get" K_cast 1 NotPeerReachable
    "stateful QPACK decoder/encoder-side code: h3 connection code only calls decode_stateless/encode_stateless and never reads the peer QPACK streams (connection.rs stores them unread); covered by the C20 models, not reachable by a peer of h3";
  mk_review "h3/src/qpack/block.rs" "HeaderPrefix::get" K_arith 15 NotPeerReachable
    "stateful QPACK decoder/encoder-side code: h3 connection code only calls decode_stateless/encode_stateless and never reads the peer QPACK streams (connection.rs stores them unread); covered by the C20 models, not reachable by a peer of h3";
  mk_review "h3/src/qpack/block.rs" "HeaderPrefix::get" K_cast 2 NotPeerReachable
    "stateful QPACK decoder/encoder-side code: h3 connection code only calls decode_stateless/encode_stateless and never reads the peer QPACK streams (connection.rs stores them unread); covered by the C20 models, not reachable by a peer of h3";
  mk_review "h3/src/qpack/block.rs" "HeaderPrefix::get" K_arith 16 NotPeerReachable
    "stateful QPACK decoder/encoder-side code: h3 connection code only calls decode_stateless/encode_stateless and never reads the peer QPACK streams (connection.rs stores them unread); covered by the C20 models, not reachable by a peer of h3";
  mk_review "h3/src/qpack/block.rs" "HeaderPrefix::get" K_arith 17 NotPeerReachable
    "stateful QPACK decoder/encoder-side code: h3 connection code only calls decode_stateless/encode_stateless and never reads the peer QPACK streams (connection.rs stores them unread); covered by the C20 models, not reachable by a peer of h3";
  mk_review "h3/src/qpack/block.rs" "HeaderPrefix::get" K_arith 18 NotPeerReachable
    "stateful QPACK decoder/encoder-side code: h3 connection code only calls decode_stateless/encode_stateless and never reads the peer QPACK streams (connection.rs stores them unread); covered by the C20 models, not reachable by a peer of h3";
  mk_review "h3/src/qpack/block.rs" "HeaderPrefix::decode" K_cast 1 Guarded
    "64-bit usize assumed (DESIGN section 3): the value is < 2^62 or already bound-checked against usize::MAX, the cast is lossless; modelled in Model/QpackStateless.v (hp_decode / indexed_decode / nameref_decode / literal_decode), theorem C06_no_panic_qpack_stateless";
  mk_review "h3/src/qpack/block.rs" "HeaderPrefix::decode" K_cast 2 Guarded
    "64-bit usize assumed (DESIGN section 3): the value is < 2^62 or already bound-checked against usize::MAX, the cast is lossless; modelled in Model/QpackStateless.v (hp_decode / indexed_decode / nameref_decode / literal_decode), theorem C06_no_panic_qpack_stateless";
  mk_review "h3/src/qpack/block.rs" "HeaderPrefix::decode" K_cast 3 Guarded
    "64-bit usize assumed (DESIGN section 3): the value is < 2^62 or already bound-checked against usize::MAX, the cast is lossless; modelled in Model/QpackStateless.v (hp_decode / indexed_decode / nameref_decode / literal_decode), theorem C06_no_panic_qpack_stateless";
  mk_review "h3/src/qpack/block.rs" "HeaderPrefix::decode" K_cast 4 Guarded
    "64-bit usize assumed (DESIGN section 3): the value is < 2^62 or already bound-checked against usize::MAX, the cast is lossless; modelled in Model/QpackStateless.v (hp_decode / indexed_decode / nameref_decode / literal_decode), theorem C06_no_panic_qpack_stateless";
  mk_review "h3/src/qpack/block.rs" "HeaderPrefix::encode" K_cast 1 NotPeerReachable
    "send path only (encoding of locally produced values; C14/C13 cover the writers), never run on peer bytes";
  mk_review "h3/src/qpack/block.rs" "HeaderPrefix::encode" K_cast 2 NotPeerReachable
    "send path only (encoding of locally produced values; C14/C13 cover the writers), never run on peer bytes";
  mk_review "h3/src/qpack/block.rs" "Indexed::decode" K_cast 1 Guarded
    "64-bit usize assumed (DESIGN section 3): the value is < 2^62 or already bound-checked against usize::MAX, the cast is lossless; modelled in Model/QpackStateless.v (hp_decode / indexed_decode / nameref_decode / literal_decode), theorem C06_no_panic_qpack_stateless";
  mk_review "h3/src/qpack/block.rs" "Indexed::decode" K_cast 2 Guarded
    "64-bit usize assumed (DESIGN section 3): the value is < 2^62 or already bound-checked against usize::MAX, the cast is lossless; modelled in Model/QpackStateless.v (hp_decode / indexed_decode / nameref_decode / literal_decode), theorem C06_no_panic_qpack_stateless";
  mk_review "h3/src/qpack/block.rs" "Indexed::decode" K_cast 3 Guarded
    "64-bit usize assumed (DESIGN section 3): the value is < 2^62 or already bound-checked against usize::MAX, the cast is lossless; modelled in Model/QpackStateless.v (hp_decode / indexed_decode / nameref_decode / literal_decode), theorem C06_no_panic_qpack_stateless";
  mk_review "h3/src/qpack/block.rs" "Indexed::decode" K_cast 4 Guarded
    "64-bit usize assumed (DESIGN section 3): the value is < 2^62 or already bound-checked against usize::MAX, the cast is lossless; modelled in Model/QpackStateless.v (hp_decode / indexed_decode / nameref_decode / literal_decode), theorem C06_no_panic_qpack_stateless";
  mk_review "h3/src/qpack/block.rs" "Indexed::encode" K_cast 1 NotPeerReachable
    "send path only (encoding of locally produced values; C14/C13 cover the writers), never run on peer bytes";
  mk_review "h3/src/qpack/block.rs" "Indexed::encode" K_cast 2 NotPeerReachable
    "send path only (encoding of locally produced values; C14/C13 cover the writers), never run on peer bytes";
  mk_review "h3/src/qpack/block.rs" "IndexedWithPostBase::decode" K_cast 1 Guarded
    "64-bit usize assumed (DESIGN section 3): the value is < 2^62 or already bound-checked against usize::MAX, the cast is lossless";
  mk_review "h3/src/qpack/block.rs" "IndexedWithPostBase::decode" K_cast 2 Guarded
    "64-bit usize assumed (DESIGN section 3): the value is < 2^62 or already bound-checked against usize::MAX, the cast is lossless";
  mk_review "h3/src/qpack/block.rs" "IndexedWithPostBase::encode" K_cast 1 NotPeerReachable
    "send path only (encoding of locally produced values; C14/C13 cover the writers), never run on peer bytes";
  mk_review "h3/src/qpack/block.rs" "LiteralWithNameRef::decode" K_cast 1 Guarded
    "64-bit usize assumed (DESIGN section 3): the value is < 2^62 or already bound-checked against usize::MAX, the cast is lossless; modelled in Model/QpackStateless.v (hp_decode / indexed_decode / nameref_decode / literal_decode), theorem C06_no_panic_qpack_stateless";
  mk_review "h3/src/qpack/block.rs" "LiteralWithNameRef::decode" K_cast 2 Guarded
    "64-bit usize assumed (DESIGN section 3): the value is < 2^62 or already bound-checked against usize::MAX, the cast is lossless; modelled in Model/QpackStateless.v (hp_decode / indexed_decode / nameref_decode / literal_decode), theorem C06_no_panic_qpack_stateless";
  mk_review "h3/src/qpack/block.rs" "LiteralWithNameRef::decode" K_cast 3 Guarded
    "64-bit usize assumed (DESIGN section 3): the value is < 2^62 or already bound-checked against usize::MAX, the cast is lossless; modelled in Model/QpackStateless.v (hp_decode / indexed_decode / nameref_decode / literal_decode), theorem C06_no_panic_qpack_stateless";
  mk_review "h3/src/qpack/block.rs" "LiteralWithNameRef::decode" K_cast 4 Guarded
    "64-bit usize assumed (DESIGN section 3): the value is < 2^62 or already bound-checked against usize::MAX, the cast is lossless; modelled in Model/QpackStateless.v (hp_decode / indexed_decode / nameref_decode / literal_decode), theorem C06_no_panic_qpack_stateless";
  mk_review "h3/src/qpack/block.rs" "LiteralWithNameRef::encode" K_cast 1 NotPeerReachable
    "send path only (encoding of locally produced values; C14/C13 cover the writers), never run on peer bytes";
  mk_review "h3/src/qpack/block.rs" "LiteralWithNameRef::encode" K_cast 2 NotPeerReachable
    "send path only (encoding of locally produced values; C14/C13 cover the writers), never run on peer bytes";
  mk_review "h3/src/qpack/block.rs" "LiteralWithPostBaseNameRef::decode" K_cast 1 Guarded
    "64-bit usize assumed (DESIGN section 3): the value is < 2^62 or already bound-checked against usize::MAX, the cast is lossless";
  mk_review "h3/src/qpack/block.rs" "LiteralWithPostBaseNameRef::decode" K_cast 2 Guarded
    "64-bit usize assumed (DESIGN section 3): the value is < 2^62 or already bound-checked against usize::MAX, the cast is lossless";
  mk_review "h3/src/qpack/block.rs" "LiteralWithPostBaseNameRef::encode" K_cast 1 NotPeerReachable
    "send path only (encoding of locally produced values; C14/C13 cover the writers), never run on peer bytes";
  mk_review "h3/src/qpack/block.rs" "Literal::decode" K_index_const 1 Guarded
    "guarded by the buf.remaining() < 1 check of the same if-chain; modelled in Model/QpackStateless.v (hp_decode / indexed_decode / nameref_decode / literal_decode), theorem C06_no_panic_qpack_stateless";
  mk_review "h3/src/qpack/block.rs" "Literal::decode" K_index_const 2 Guarded
    "guarded by the buf.remaining() < 1 check of the same if-chain; modelled in Model/QpackStateless.v (hp_decode / indexed_decode / nameref_decode / literal_decode), theorem C06_no_panic_qpack_stateless";
  mk_review "h3/src/qpack/prefix_string/mod.rs" "decode" K_arith 1 Guarded
    "size - 1: every caller passes the constant 8 or 4";
  mk_review "h3/src/qpack/prefix_string/mod.rs" "decode" K_buf_copy 1 Modelled
    "Model/PrefixString.v ps_decode: guarded by buf.remaining() < len => UnexpectedEnd; theorem C06_no_panic_prefix_string (ps_decode_no_panic, C15)";
  mk_review "h3/src/qpack/prefix_string/mod.rs" "decode" K_cast 1 Guarded
    "widening cast usize -> u64 (64-bit usize), followed by saturating_mul: the H1 repair (Huffman strings of 2^29 bytes or more are refused before the 32-bit bit positions of the decoder can overflow)";
  mk_review "h3/src/qpack/prefix_string/mod.rs" "encode" K_arith 1 NotPeerReachable
    "send path only (encoding of locally produced values; C14/C13 cover the writers), never run on peer bytes";
  mk_review "h3/src/qpack/prefix_string/mod.rs" "encode" K_shift 1 NotPeerReachable
    "send path only (encoding of locally produced values; C14/C13 cover the writers), never run on peer bytes";
  mk_review "h3/src/qpack/prefix_string/decode.rs" "HuffmanDecoder::check_eof" K_arith 1 Modelled
    "Model/Huffman.v check_eof (Panic 12): bit_pos.byte + 1 <= input.len() + 1 < 2^29 + 1 (caller-enforced bound, H1/F18 repair); side.count = 8 - bit % 8 is in 1..8 so 2u16 << (count-1) and - 1 are in range; theorem C06_no_panic_huffman";
  mk_review "h3/src/qpack/prefix_string/decode.rs" "HuffmanDecoder::check_eof" K_cast 1 Modelled
    "Model/Huffman.v check_eof (Panic 12): bit_pos.byte + 1 <= input.len() + 1 < 2^29 + 1 (caller-enforced bound, H1/F18 repair); side.count = 8 - bit % 8 is in 1..8 so 2u16 << (count-1) and - 1 are in range; theorem C06_no_panic_huffman";
  mk_review "h3/src/qpack/prefix_string/decode.rs" "HuffmanDecoder::check_eof" K_shift 1 Modelled
    "Model/Huffman.v check_eof (Panic 12): bit_pos.byte + 1 <= input.len() + 1 < 2^29 + 1 (caller-enforced bound, H1/F18 repair); side.count = 8 - bit % 8 is in 1..8 so 2u16 << (count-1) and - 1 are in range; theorem C06_no_panic_huffman";
  mk_review "h3/src/qpack/prefix_string/decode.rs" "HuffmanDecoder::check_eof" K_arith 2 Modelled
    "Model/Huffman.v check_eof (Panic 12): bit_pos.byte + 1 <= input.len() + 1 < 2^29 + 1 (caller-enforced bound, H1/F18 repair); side.count = 8 - bit % 8 is in 1..8 so 2u16 << (count-1) and - 1 are in range; theorem C06_no_panic_huffman";
  mk_review "h3/src/qpack/prefix_string/decode.rs" "HuffmanDecoder::check_eof" K_arith 3 Modelled
    "Model/Huffman.v check_eof (Panic 12): bit_pos.byte + 1 <= input.len() + 1 < 2^29 + 1 (caller-enforced bound, H1/F18 repair); side.count = 8 - bit % 8 is in 1..8 so 2u16 << (count-1) and - 1 are in range; theorem C06_no_panic_huffman";
  mk_review "h3/src/qpack/prefix_string/decode.rs" "HuffmanDecoder::check_eof" K_cast 2 Modelled
    "Model/Huffman.v check_eof (Panic 12): bit_pos.byte + 1 <= input.len() + 1 < 2^29 + 1 (caller-enforced bound, H1/F18 repair); side.count = 8 - bit % 8 is in 1..8 so 2u16 << (count-1) and - 1 are in range; theorem C06_no_panic_huffman";
  mk_review "h3/src/qpack/prefix_string/decode.rs" "HuffmanDecoder::fetch_value" K_cast 1 Guarded
    "widening casts (u8 -> u32 -> usize)";
  mk_review "h3/src/qpack/prefix_string/decode.rs" "HuffmanDecoder::decode_next" K_cast 1 Guarded
    "widening casts (u8 -> u32 -> usize)";
  mk_review "h3/src/qpack/prefix_string/decode.rs" "read_bits" K_cast 1 Modelled
    "Model/Huffman.v read_bits, Panic 10/11 = index out of bounds, guarded by the length test at the head; shift amounts bit_offset < 8, 8 - len, 16 - len with 1 <= len <= 8.  The u32 products `src.len() as u32 * 8` and `byte_offset * 8` cannot overflow any more: since the H1/F18 repair the only caller (prefix_string::decode) refuses Huffman strings whose bit length does not fit in u32 (len >= 2^29) before decoding; theorem C06_no_panic_huffman (hpack_decode_no_panic, C15) covers the model, whose unbounded bit positions are exact below that bound";
  mk_review "h3/src/qpack/prefix_string/decode.rs" "read_bits" K_arith 1 Modelled
    "Model/Huffman.v read_bits, Panic 10/11 = index out of bounds, guarded by the length test at the head; shift amounts bit_offset < 8, 8 - len, 16 - len with 1 <= len <= 8.  The u32 products `src.len() as u32 * 8` and `byte_offset * 8` cannot overflow any more: since the H1/F18 repair the only caller (prefix_string::decode) refuses Huffman strings whose bit length does not fit in u32 (len >= 2^29) before decoding; theorem C06_no_panic_huffman (hpack_decode_no_panic, C15) covers the model, whose unbounded bit positions are exact below that bound";
  mk_review "h3/src/qpack/prefix_string/decode.rs" "read_bits" K_arith 2 Modelled
    "Model/Huffman.v read_bits, Panic 10/11 = index out of bounds, guarded by the length test at the head; shift amounts bit_offset < 8, 8 - len, 16 - len with 1 <= len <= 8.  The u32 products `src.len() as u32 * 8` and `byte_offset * 8` cannot overflow any more: since the H1/F18 repair the only caller (prefix_string::decode) refuses Huffman strings whose bit length does not fit in u32 (len >= 2^29) before decoding; theorem C06_no_panic_huffman (hpack_decode_no_panic, C15) covers the model, whose unbounded bit positions are exact below that bound";
  mk_review "h3/src/qpack/prefix_string/decode.rs" "read_bits" K_arith 3 Modelled
    "Model/Huffman.v read_bits, Panic 10/11 = index out of bounds, guarded by the length test at the head; shift amounts bit_offset < 8, 8 - len, 16 - len with 1 <= len <= 8.  The u32 products `src.len() as u32 * 8` and `byte_offset * 8` cannot overflow any more: since the H1/F18 repair the only caller (prefix_string::decode) refuses Huffman strings whose bit length does not fit in u32 (len >= 2^29) before decoding; theorem C06_no_panic_huffman (hpack_decode_no_panic, C15) covers the model, whose unbounded bit positions are exact below that bound";
  mk_review "h3/src/qpack/prefix_string/decode.rs" "read_bits" K_arith 4 Modelled
    "Model/Huffman.v read_bits, Panic 10/11 = index out of bounds, guarded by the length test at the head; shift amounts bit_offset < 8, 8 - len, 16 - len with 1 <= len <= 8.  The u32 products `src.len() as u32 * 8` and `byte_offset * 8` cannot overflow any more: since the H1/F18 repair the only caller (prefix_string::decode) refuses Huffman strings whose bit length does not fit in u32 (len >= 2^29) before decoding; theorem C06_no_panic_huffman (hpack_decode_no_panic, C15) covers the model, whose unbounded bit positions are exact below that bound";
  mk_review "h3/src/qpack/prefix_string/decode.rs" "read_bits" K_arith 5 Modelled
    "Model/Huffman.v read_bits, Panic 10/11 = index out of bounds, guarded by the length test at the head; shift amounts bit_offset < 8, 8 - len, 16 - len with 1 <= len <= 8.  The u32 products `src.len() as u32 * 8` and `byte_offset * 8` cannot overflow any more: since the H1/F18 repair the only caller (prefix_string::decode) refuses Huffman strings whose bit length does not fit in u32 (len >= 2^29) before decoding; theorem C06_no_panic_huffman (hpack_decode_no_panic, C15) covers the model, whose unbounded bit positions are exact below that bound";
  mk_review "h3/src/qpack/prefix_string/decode.rs" "read_bits" K_arith 6 Modelled
    "Model/Huffman.v read_bits, Panic 10/11 = index out of bounds, guarded by the length test at the head; shift amounts bit_offset < 8, 8 - len, 16 - len with 1 <= len <= 8.  The u32 products `src.len() as u32 * 8` and `byte_offset * 8` cannot overflow any more: since the H1/F18 repair the only caller (prefix_string::decode) refuses Huffman strings whose bit length does not fit in u32 (len >= 2^29) before decoding; theorem C06_no_panic_huffman (hpack_decode_no_panic, C15) covers the model, whose unbounded bit positions are exact below that bound";
  mk_review "h3/src/qpack/prefix_string/decode.rs" "read_bits" K_arith 7 Modelled
    "Model/Huffman.v read_bits, Panic 10/11 = index out of bounds, guarded by the length test at the head; shift amounts bit_offset < 8, 8 - len, 16 - len with 1 <= len <= 8.  The u32 products `src.len() as u32 * 8` and `byte_offset * 8` cannot overflow any more: since the H1/F18 repair the only caller (prefix_string::decode) refuses Huffman strings whose bit length does not fit in u32 (len >= 2^29) before decoding; theorem C06_no_panic_huffman (hpack_decode_no_panic, C15) covers the model, whose unbounded bit positions are exact below that bound";
  mk_review "h3/src/qpack/prefix_string/decode.rs" "read_bits" K_arith 8 Modelled
    "Model/Huffman.v read_bits, Panic 10/11 = index out of bounds, guarded by the length test at the head; shift amounts bit_offset < 8, 8 - len, 16 - len with 1 <= len <= 8.  The u32 products `src.len() as u32 * 8` and `byte_offset * 8` cannot overflow any more: since the H1/F18 repair the only caller (prefix_string::decode) refuses Huffman strings whose bit length does not fit in u32 (len >= 2^29) before decoding; theorem C06_no_panic_huffman (hpack_decode_no_panic, C15) covers the model, whose unbounded bit positions are exact below that bound";
  mk_review "h3/src/qpack/prefix_string/decode.rs" "read_bits" K_arith 9 Modelled
    "Model/Huffman.v read_bits, Panic 10/11 = index out of bounds, guarded by the length test at the head; shift amounts bit_offset < 8, 8 - len, 16 - len with 1 <= len <= 8.  The u32 products `src.len() as u32 * 8` and `byte_offset * 8` cannot overflow any more: since the H1/F18 repair the only caller (prefix_string::decode) refuses Huffman strings whose bit length does not fit in u32 (len >= 2^29) before decoding; theorem C06_no_panic_huffman (hpack_decode_no_panic, C15) covers the model, whose unbounded bit positions are exact below that bound";
  mk_review "h3/src/qpack/prefix_string/decode.rs" "read_bits" K_arith 10 Modelled
    "Model/Huffman.v read_bits, Panic 10/11 = index out of bounds, guarded by the length test at the head; shift amounts bit_offset < 8, 8 - len, 16 - len with 1 <= len <= 8.  The u32 products `src.len() as u32 * 8` and `byte_offset * 8` cannot overflow any more: since the H1/F18 repair the only caller (prefix_string::decode) refuses Huffman strings whose bit length does not fit in u32 (len >= 2^29) before decoding; theorem C06_no_panic_huffman (hpack_decode_no_panic, C15) covers the model, whose unbounded bit positions are exact below that bound";
  mk_review "h3/src/qpack/prefix_string/decode.rs" "read_bits" K_index 1 Modelled
    "Model/Huffman.v read_bits, Panic 10/11 = index out of bounds, guarded by the length test at the head; shift amounts bit_offset < 8, 8 - len, 16 - len with 1 <= len <= 8.  The u32 products `src.len() as u32 * 8` and `byte_offset * 8` cannot overflow any more: since the H1/F18 repair the only caller (prefix_string::decode) refuses Huffman strings whose bit length does not fit in u32 (len >= 2^29) before decoding; theorem C06_no_panic_huffman (hpack_decode_no_panic, C15) covers the model, whose unbounded bit positions are exact below that bound";
  mk_review "h3/src/qpack/prefix_string/decode.rs" "read_bits" K_cast 2 Modelled
    "Model/Huffman.v read_bits, Panic 10/11 = index out of bounds, guarded by the length test at the head; shift amounts bit_offset < 8, 8 - len, 16 - len with 1 <= len <= 8.  The u32 products `src.len() as u32 * 8` and `byte_offset * 8` cannot overflow any more: since the H1/F18 repair the only caller (prefix_string::decode) refuses Huffman strings whose bit length does not fit in u32 (len >= 2^29) before decoding; theorem C06_no_panic_huffman (hpack_decode_no_panic, C15) covers the model, whose unbounded bit positions are exact below that bound";
  mk_review "h3/src/qpack/prefix_string/decode.rs" "read_bits" K_shift 1 Modelled
    "Model/Huffman.v read_bits, Panic 10/11 = index out of bounds, guarded by the length test at the head; shift amounts bit_offset < 8, 8 - len, 16 - len with 1 <= len <= 8.  The u32 products `src.len() as u32 * 8` and `byte_offset * 8` cannot overflow any more: since the H1/F18 repair the only caller (prefix_string::decode) refuses Huffman strings whose bit length does not fit in u32 (len >= 2^29) before decoding; theorem C06_no_panic_huffman (hpack_decode_no_panic, C15) covers the model, whose unbounded bit positions are exact below that bound";
  mk_review "h3/src/qpack/prefix_string/decode.rs" "read_bits" K_shift 2 Modelled
    "Model/Huffman.v read_bits, Panic 10/11 = index out of bounds, guarded by the length test at the head; shift amounts bit_offset < 8, 8 - len, 16 - len with 1 <= len <= 8.  The u32 products `src.len() as u32 * 8` and `byte_offset * 8` cannot overflow any more: since the H1/F18 repair the only caller (prefix_string::decode) refuses Huffman strings whose bit length does not fit in u32 (len >= 2^29) before decoding; theorem C06_no_panic_huffman (hpack_decode_no_panic, C15) covers the model, whose unbounded bit positions are exact below that bound";
  mk_review "h3/src/qpack/prefix_string/decode.rs" "read_bits" K_arith 11 Modelled
    "Model/Huffman.v read_bits, Panic 10/11 = index out of bounds, guarded by the length test at the head; shift amounts bit_offset < 8, 8 - len, 16 - len with 1 <= len <= 8.  The u32 products `src.len() as u32 * 8` and `byte_offset * 8` cannot overflow any more: since the H1/F18 repair the only caller (prefix_string::decode) refuses Huffman strings whose bit length does not fit in u32 (len >= 2^29) before decoding; theorem C06_no_panic_huffman (hpack_decode_no_panic, C15) covers the model, whose unbounded bit positions are exact below that bound";
  mk_review "h3/src/qpack/prefix_string/decode.rs" "read_bits" K_index 2 Modelled
    "Model/Huffman.v read_bits, Panic 10/11 = index out of bounds, guarded by the length test at the head; shift amounts bit_offset < 8, 8 - len, 16 - len with 1 <= len <= 8.  The u32 products `src.len() as u32 * 8` and `byte_offset * 8` cannot overflow any more: since the H1/F18 repair the only caller (prefix_string::decode) refuses Huffman strings whose bit length does not fit in u32 (len >= 2^29) before decoding; theorem C06_no_panic_huffman (hpack_decode_no_panic, C15) covers the model, whose unbounded bit positions are exact below that bound";
  mk_review "h3/src/qpack/prefix_string/decode.rs" "read_bits" K_cast 3 Modelled
    "Model/Huffman.v read_bits, Panic 10/11 = index out of bounds, guarded by the length test at the head; shift amounts bit_offset < 8, 8 - len, 16 - len with 1 <= len <= 8.  The u32 products `src.len() as u32 * 8` and `byte_offset * 8` cannot overflow any more: since the H1/F18 repair the only caller (prefix_string::decode) refuses Huffman strings whose bit length does not fit in u32 (len >= 2^29) before decoding; theorem C06_no_panic_huffman (hpack_decode_no_panic, C15) covers the model, whose unbounded bit positions are exact below that bound";
  mk_review "h3/src/qpack/prefix_string/decode.rs" "read_bits" K_cast 4 Modelled
    "Model/Huffman.v read_bits, Panic 10/11 = index out of bounds, guarded by the length test at the head; shift amounts bit_offset < 8, 8 - len, 16 - len with 1 <= len <= 8.  The u32 products `src.len() as u32 * 8` and `byte_offset * 8` cannot overflow any more: since the H1/F18 repair the only caller (prefix_string::decode) refuses Huffman strings whose bit length does not fit in u32 (len >= 2^29) before decoding; theorem C06_no_panic_huffman (hpack_decode_no_panic, C15) covers the model, whose unbounded bit positions are exact below that bound";
  mk_review "h3/src/qpack/prefix_string/decode.rs" "read_bits" K_shift 3 Modelled
    "Model/Huffman.v read_bits, Panic 10/11 = index out of bounds, guarded by the length test at the head; shift amounts bit_offset < 8, 8 - len, 16 - len with 1 <= len <= 8.  The u32 products `src.len() as u32 * 8` and `byte_offset * 8` cannot overflow any more: since the H1/F18 repair the only caller (prefix_string::decode) refuses Huffman strings whose bit length does not fit in u32 (len >= 2^29) before decoding; theorem C06_no_panic_huffman (hpack_decode_no_panic, C15) covers the model, whose unbounded bit positions are exact below that bound";
  mk_review "h3/src/qpack/prefix_string/decode.rs" "read_bits" K_index 3 Modelled
    "Model/Huffman.v read_bits, Panic 10/11 = index out of bounds, guarded by the length test at the head; shift amounts bit_offset < 8, 8 - len, 16 - len with 1 <= len <= 8.  The u32 products `src.len() as u32 * 8` and `byte_offset * 8` cannot overflow any more: since the H1/F18 repair the only caller (prefix_string::decode) refuses Huffman strings whose bit length does not fit in u32 (len >= 2^29) before decoding; theorem C06_no_panic_huffman (hpack_decode_no_panic, C15) covers the model, whose unbounded bit positions are exact below that bound";
  mk_review "h3/src/qpack/prefix_string/decode.rs" "read_bits" K_cast 5 Modelled
    "Model/Huffman.v read_bits, Panic 10/11 = index out of bounds, guarded by the length test at the head; shift amounts bit_offset < 8, 8 - len, 16 - len with 1 <= len <= 8.  The u32 products `src.len() as u32 * 8` and `byte_offset * 8` cannot overflow any more: since the H1/F18 repair the only caller (prefix_string::decode) refuses Huffman strings whose bit length does not fit in u32 (len >= 2^29) before decoding; theorem C06_no_panic_huffman (hpack_decode_no_panic, C15) covers the model, whose unbounded bit positions are exact below that bound";
  mk_review "h3/src/qpack/prefix_string/decode.rs" "read_bits" K_arith 12 Modelled
    "Model/Huffman.v read_bits, Panic 10/11 = index out of bounds, guarded by the length test at the head; shift amounts bit_offset < 8, 8 - len, 16 - len with 1 <= len <= 8.  The u32 products `src.len() as u32 * 8` and `byte_offset * 8` cannot overflow any more: since the H1/F18 repair the only caller (prefix_string::decode) refuses Huffman strings whose bit length does not fit in u32 (len >= 2^29) before decoding; theorem C06_no_panic_huffman (hpack_decode_no_panic, C15) covers the model, whose unbounded bit positions are exact below that bound";
  mk_review "h3/src/qpack/prefix_string/decode.rs" "read_bits" K_cast 6 Modelled
    "Model/Huffman.v read_bits, Panic 10/11 = index out of bounds, guarded by the length test at the head; shift amounts bit_offset < 8, 8 - len, 16 - len with 1 <= len <= 8.  The u32 products `src.len() as u32 * 8` and `byte_offset * 8` cannot overflow any more: since the H1/F18 repair the only caller (prefix_string::decode) refuses Huffman strings whose bit length does not fit in u32 (len >= 2^29) before decoding; theorem C06_no_panic_huffman (hpack_decode_no_panic, C15) covers the model, whose unbounded bit positions are exact below that bound";
  mk_review "h3/src/qpack/prefix_string/decode.rs" "read_bits" K_shift 4 Modelled
    "Model/Huffman.v read_bits, Panic 10/11 = index out of bounds, guarded by the length test at the head; shift amounts bit_offset < 8, 8 - len, 16 - len with 1 <= len <= 8.  The u32 products `src.len() as u32 * 8` and `byte_offset * 8` cannot overflow any more: since the H1/F18 repair the only caller (prefix_string::decode) refuses Huffman strings whose bit length does not fit in u32 (len >= 2^29) before decoding; theorem C06_no_panic_huffman (hpack_decode_no_panic, C15) covers the model, whose unbounded bit positions are exact below that bound";
  mk_review "h3/src/qpack/prefix_string/decode.rs" "read_bits" K_shift 5 Modelled
    "Model/Huffman.v read_bits, Panic 10/11 = index out of bounds, guarded by the length test at the head; shift amounts bit_offset < 8, 8 - len, 16 - len with 1 <= len <= 8.  The u32 products `src.len() as u32 * 8` and `byte_offset * 8` cannot overflow any more: since the H1/F18 repair the only caller (prefix_string::decode) refuses Huffman strings whose bit length does not fit in u32 (len >= 2^29) before decoding; theorem C06_no_panic_huffman (hpack_decode_no_panic, C15) covers the model, whose unbounded bit positions are exact below that bound";
  mk_review "h3/src/qpack/prefix_string/decode.rs" "read_bits" K_arith 13 Modelled
    "Model/Huffman.v read_bits, Panic 10/11 = index out of bounds, guarded by the length test at the head; shift amounts bit_offset < 8, 8 - len, 16 - len with 1 <= len <= 8.  The u32 products `src.len() as u32 * 8` and `byte_offset * 8` cannot overflow any more: since the H1/F18 repair the only caller (prefix_string::decode) refuses Huffman strings whose bit length does not fit in u32 (len >= 2^29) before decoding; theorem C06_no_panic_huffman (hpack_decode_no_panic, C15) covers the model, whose unbounded bit positions are exact below that bound";
  mk_review "h3/src/qpack/prefix_string/decode.rs" "read_bits" K_cast 7 Modelled
    "Model/Huffman.v read_bits, Panic 10/11 = index out of bounds, guarded by the length test at the head; shift amounts bit_offset < 8, 8 - len, 16 - len with 1 <= len <= 8.  The u32 products `src.len() as u32 * 8` and `byte_offset * 8` cannot overflow any more: since the H1/F18 repair the only caller (prefix_string::decode) refuses Huffman strings whose bit length does not fit in u32 (len >= 2^29) before decoding; theorem C06_no_panic_huffman (hpack_decode_no_panic, C15) covers the model, whose unbounded bit positions are exact below that bound";
  mk_review "h3/src/qpack/prefix_string/decode.rs" "DecodeIter::check_padding" K_arith 1 Modelled
    "Model/Huffman.v check_padding (Panic 40 = the u8 shift by symbol_end % 8; body anchored by Gen/GenHuffIter.v); symbol_end % 8 < 8 and symbol_end / 8 is bounded by the content length; theorems C06_no_panic_huffman / C06_no_panic_prefix_string (hpack_decode_no_panic, ps_decode_no_panic, C15) cover the site; audit mutant au1";
  mk_review "h3/src/qpack/prefix_string/decode.rs" "DecodeIter::check_padding" K_shift 1 Modelled
    "Model/Huffman.v check_padding (Panic 40 = the u8 shift by symbol_end % 8; body anchored by Gen/GenHuffIter.v); symbol_end % 8 < 8 and symbol_end / 8 is bounded by the content length; theorems C06_no_panic_huffman / C06_no_panic_prefix_string (hpack_decode_no_panic, ps_decode_no_panic, C15) cover the site; audit mutant au1";
  mk_review "h3/src/qpack/prefix_string/decode.rs" "DecodeIter::check_padding" K_arith 2 Modelled
    "Model/Huffman.v check_padding (Panic 40 = the u8 shift by symbol_end % 8; body anchored by Gen/GenHuffIter.v); symbol_end % 8 < 8 and symbol_end / 8 is bounded by the content length; theorems C06_no_panic_huffman / C06_no_panic_prefix_string (hpack_decode_no_panic, ps_decode_no_panic, C15) cover the site; audit mutant au1";
  mk_review "h3/src/qpack/prefix_string/decode.rs" "Iterator for DecodeIter::next" K_cast 1 Guarded
    "usize arithmetic on u32 values: byte * 8 + bit + count < 2^36";
  mk_review "h3/src/qpack/prefix_string/decode.rs" "Iterator for DecodeIter::next" K_arith 1 Guarded
    "usize arithmetic on u32 values: byte * 8 + bit + count < 2^36";
  mk_review "h3/src/qpack/prefix_string/decode.rs" "Iterator for DecodeIter::next" K_arith 2 Guarded
    "usize arithmetic on u32 values: byte * 8 + bit + count < 2^36";
  mk_review "h3/src/qpack/prefix_string/decode.rs" "Iterator for DecodeIter::next" K_cast 2 Guarded
    "usize arithmetic on u32 values: byte * 8 + bit + count < 2^36";
  mk_review "h3/src/qpack/prefix_string/decode.rs" "Iterator for DecodeIter::next" K_arith 3 Guarded
    "usize arithmetic on u32 values: byte * 8 + bit + count < 2^36";
  mk_review "h3/src/qpack/prefix_string/decode.rs" "Iterator for DecodeIter::next" K_cast 3 Guarded
    "usize arithmetic on u32 values: byte * 8 + bit + count < 2^36";
  mk_review "h3/src/qpack/prefix_string/bitwin.rs" "BitWindow::forwards" K_arith 1 Guarded
    "bit < 8 and count <= 8 at entry so bit + count <= 16; byte grows by at most 2 per symbol and stays <= input length + 1 <= 2^29 (the caller prefix_string::decode refuses longer Huffman strings since the H1/F18 repair), far below u32::MAX";
  mk_review "h3/src/qpack/prefix_string/bitwin.rs" "BitWindow::forwards" K_arith 2 Guarded
    "bit < 8 and count <= 8 at entry so bit + count <= 16; byte grows by at most 2 per symbol and stays <= input length + 1 <= 2^29 (the caller prefix_string::decode refuses longer Huffman strings since the H1/F18 repair), far below u32::MAX";
  mk_review "h3/src/qpack/prefix_string/bitwin.rs" "BitWindow::forwards" K_arith 3 Guarded
    "bit < 8 and count <= 8 at entry so bit + count <= 16; byte grows by at most 2 per symbol and stays <= input length + 1 <= 2^29 (the caller prefix_string::decode refuses longer Huffman strings since the H1/F18 repair), far below u32::MAX";
  mk_review "h3/src/qpack/prefix_string/bitwin.rs" "BitWindow::forwards" K_arith 4 Guarded
    "bit < 8 and count <= 8 at entry so bit + count <= 16; byte grows by at most 2 per symbol and stays <= input length + 1 <= 2^29 (the caller prefix_string::decode refuses longer Huffman strings since the H1/F18 repair), far below u32::MAX";
  mk_review "h3/src/qpack/prefix_string/bitwin.rs" "BitWindow::opposite_bit_window" K_arith 1 Guarded
    "8 - (bit % 8) is in 1..8";
  mk_review "h3/src/qpack/prefix_string/bitwin.rs" "BitWindow::opposite_bit_window" K_arith 2 Guarded
    "8 - (bit % 8) is in 1..8";
  mk_review "h3/src/qpack/prefix_int.rs" "decode" K_assert 1 Guarded
    "size is a constant at every call site: 8, 7, 6, 4, 3 (block.rs) and size-1 in {7, 3} (prefix_string)";
  mk_review "h3/src/qpack/prefix_int.rs" "decode" K_cast 1 Modelled
    "Model/PrefixInt.v (C15): size in 3..8 so 8 - size is in 0..5; power <= 56 when shifted ((byte & 127) << 56 < 2^63) and value <= 255 + sum 127 * 2^(7k), k = 0..8, < 2^64; the loop stops with Overflow once power reaches MAX_POWER = 63 (GenPrefixInt); theorem C06_no_panic_prefix_int (pi_decode_no_panic, sizes 1..8)";
  mk_review "h3/src/qpack/prefix_int.rs" "decode" K_shift 1 Modelled
    "Model/PrefixInt.v (C15): size in 3..8 so 8 - size is in 0..5; power <= 56 when shifted ((byte & 127) << 56 < 2^63) and value <= 255 + sum 127 * 2^(7k), k = 0..8, < 2^64; the loop stops with Overflow once power reaches MAX_POWER = 63 (GenPrefixInt); theorem C06_no_panic_prefix_int (pi_decode_no_panic, sizes 1..8)";
  mk_review "h3/src/qpack/prefix_int.rs" "decode" K_cast 2 Modelled
    "Model/PrefixInt.v (C15): size in 3..8 so 8 - size is in 0..5; power <= 56 when shifted ((byte & 127) << 56 < 2^63) and value <= 255 + sum 127 * 2^(7k), k = 0..8, < 2^64; the loop stops with Overflow once power reaches MAX_POWER = 63 (GenPrefixInt); theorem C06_no_panic_prefix_int (pi_decode_no_panic, sizes 1..8)";
  mk_review "h3/src/qpack/prefix_int.rs" "decode" K_shift 2 Modelled
    "Model/PrefixInt.v (C15): size in 3..8 so 8 - size is in 0..5; power <= 56 when shifted ((byte & 127) << 56 < 2^63) and value <= 255 + sum 127 * 2^(7k), k = 0..8, < 2^64; the loop stops with Overflow once power reaches MAX_POWER = 63 (GenPrefixInt); theorem C06_no_panic_prefix_int (pi_decode_no_panic, sizes 1..8)";
  mk_review "h3/src/qpack/prefix_int.rs" "decode" K_arith 1 Modelled
    "Model/PrefixInt.v (C15): size in 3..8 so 8 - size is in 0..5; power <= 56 when shifted ((byte & 127) << 56 < 2^63) and value <= 255 + sum 127 * 2^(7k), k = 0..8, < 2^64; the loop stops with Overflow once power reaches MAX_POWER = 63 (GenPrefixInt); theorem C06_no_panic_prefix_int (pi_decode_no_panic, sizes 1..8)";
  mk_review "h3/src/qpack/prefix_int.rs" "decode" K_cast 3 Modelled
    "Model/PrefixInt.v (C15): size in 3..8 so 8 - size is in 0..5; power <= 56 when shifted ((byte & 127) << 56 < 2^63) and value <= 255 + sum 127 * 2^(7k), k = 0..8, < 2^64; the loop stops with Overflow once power reaches MAX_POWER = 63 (GenPrefixInt); theorem C06_no_panic_prefix_int (pi_decode_no_panic, sizes 1..8)";
  mk_review "h3/src/qpack/prefix_int.rs" "decode" K_cast 4 Modelled
    "Model/PrefixInt.v (C15): size in 3..8 so 8 - size is in 0..5; power <= 56 when shifted ((byte & 127) << 56 < 2^63) and value <= 255 + sum 127 * 2^(7k), k = 0..8, < 2^64; the loop stops with Overflow once power reaches MAX_POWER = 63 (GenPrefixInt); theorem C06_no_panic_prefix_int (pi_decode_no_panic, sizes 1..8)";
  mk_review "h3/src/qpack/prefix_int.rs" "decode" K_cast 5 Modelled
    "Model/PrefixInt.v (C15): size in 3..8 so 8 - size is in 0..5; power <= 56 when shifted ((byte & 127) << 56 < 2^63) and value <= 255 + sum 127 * 2^(7k), k = 0..8, < 2^64; the loop stops with Overflow once power reaches MAX_POWER = 63 (GenPrefixInt); theorem C06_no_panic_prefix_int (pi_decode_no_panic, sizes 1..8)";
  mk_review "h3/src/qpack/prefix_int.rs" "decode" K_arith 2 Modelled
    "Model/PrefixInt.v (C15): size in 3..8 so 8 - size is in 0..5; power <= 56 when shifted ((byte & 127) << 56 < 2^63) and value <= 255 + sum 127 * 2^(7k), k = 0..8, < 2^64; the loop stops with Overflow once power reaches MAX_POWER = 63 (GenPrefixInt); theorem C06_no_panic_prefix_int (pi_decode_no_panic, sizes 1..8)";
  mk_review "h3/src/qpack/prefix_int.rs" "decode" K_shift 3 Modelled
    "Model/PrefixInt.v (C15): size in 3..8 so 8 - size is in 0..5; power <= 56 when shifted ((byte & 127) << 56 < 2^63) and value <= 255 + sum 127 * 2^(7k), k = 0..8, < 2^64; the loop stops with Overflow once power reaches MAX_POWER = 63 (GenPrefixInt); theorem C06_no_panic_prefix_int (pi_decode_no_panic, sizes 1..8)";
  mk_review "h3/src/qpack/prefix_int.rs" "decode" K_arith 3 Modelled
    "Model/PrefixInt.v (C15): size in 3..8 so 8 - size is in 0..5; power <= 56 when shifted ((byte & 127) << 56 < 2^63) and value <= 255 + sum 127 * 2^(7k), k = 0..8, < 2^64; the loop stops with Overflow once power reaches MAX_POWER = 63 (GenPrefixInt); theorem C06_no_panic_prefix_int (pi_decode_no_panic, sizes 1..8)";
  mk_review "h3/src/qpack/prefix_int.rs" "encode" K_assert 1 NotPeerReachable
    "send path only (encoding of locally produced values; C14/C13 cover the writers), never run on peer bytes";
  mk_review "h3/src/qpack/prefix_int.rs" "encode" K_shift 1 NotPeerReachable
    "send path only (encoding of locally produced values; C14/C13 cover the writers), never run on peer bytes";
  mk_review "h3/src/qpack/prefix_int.rs" "encode" K_cast 1 NotPeerReachable
    "send path only (encoding of locally produced values; C14/C13 cover the writers), never run on peer bytes";
  mk_review "h3/src/qpack/prefix_int.rs" "encode" K_cast 2 NotPeerReachable
    "send path only (encoding of locally produced values; C14/C13 cover the writers), never run on peer bytes";
  mk_review "h3/src/qpack/prefix_int.rs" "encode" K_shift 2 NotPeerReachable
    "send path only (encoding of locally produced values; C14/C13 cover the writers), never run on peer bytes";
  mk_review "h3/src/qpack/prefix_int.rs" "encode" K_cast 3 NotPeerReachable
    "send path only (encoding of locally produced values; C14/C13 cover the writers), never run on peer bytes";
  mk_review "h3/src/qpack/prefix_int.rs" "encode" K_cast 4 NotPeerReachable
    "send path only (encoding of locally produced values; C14/C13 cover the writers), never run on peer bytes";
  mk_review "h3/src/qpack/prefix_int.rs" "encode" K_cast 5 NotPeerReachable
    "send path only (encoding of locally produced values; C14/C13 cover the writers), never run on peer bytes";
  mk_review "h3/src/qpack/prefix_int.rs" "encode" K_arith 1 NotPeerReachable
    "send path only (encoding of locally produced values; C14/C13 cover the writers), never run on peer bytes";
  mk_review "h3/src/qpack/prefix_int.rs" "encode" K_cast 6 NotPeerReachable
    "send path only (encoding of locally produced values; C14/C13 cover the writers), never run on peer bytes";
  mk_review "h3/src/qpack/prefix_int.rs" "encode" K_arith 2 NotPeerReachable
    "send path only (encoding of locally produced values; C14/C13 cover the writers), never run on peer bytes";
  mk_review "h3/src/qpack/prefix_int.rs" "encode" K_cast 7 NotPeerReachable
    "send path only (encoding of locally produced values; C14/C13 cover the writers), never run on peer bytes";
  mk_review "h3/src/qpack/prefix_int.rs" "encode" K_arith 3 NotPeerReachable
    "send path only (encoding of locally produced values; C14/C13 cover the writers), never run on peer bytes";
  mk_review "h3/src/qpack/prefix_int.rs" "encode" K_arith 4 NotPeerReachable
    "send path only (encoding of locally produced values; C14/C13 cover the writers), never run on peer bytes";
  mk_review "h3/src/qpack/prefix_int.rs" "encode" K_cast 8 NotPeerReachable
    "send path only (encoding of locally produced values; C14/C13 cover the writers), never run on peer bytes";
  mk_review "h3/src/qpack/static_.rs" "StaticTable::find" K_index 1 NotPeerReachable
    "full-range slices &x[..] cannot panic; encoder side";
  mk_review "h3/src/qpack/static_.rs" "StaticTable::find" K_index 2 NotPeerReachable
    "full-range slices &x[..] cannot panic; encoder side";
  mk_review "h3/src/server/connection.rs" "Connection::shutdown" K_arith 1 NotPeerReachable
    "local API argument; StreamId + usize is the saturating Add impl of proto/stream.rs (Model/Varint.v sid_add, C16)";
  mk_review "h3/src/server/connection.rs" "Connection::shutdown" K_arith 2 NotPeerReachable
    "local API argument; StreamId + usize is the saturating Add impl of proto/stream.rs (Model/Varint.v sid_add, C16)";
  mk_review "h3/src/server/connection.rs" "Connection::shutdown" K_arith 3 NotPeerReachable
    "local API argument; StreamId + usize is the saturating Add impl of proto/stream.rs (Model/Varint.v sid_add, C16)";
  mk_review "h3/src/server/connection.rs" "Connection::poll_accept_request_stream_internal" K_headermap 1 Guarded
    "lexical false positive: HashSet::insert (ongoing_streams)";
  mk_review "h3/src/server/connection.rs" "Connection::poll_requests_completion" K_split 1 Guarded
    "lexical false positive: HashSet::remove";
  mk_review "h3/src/server/request.rs" "ResolvedRequest::resolve" K_expect 1 Guarded
    "Response::builder().status(REQUEST_HEADER_FIELDS_TOO_LARGE).body(()) is built from constants and cannot fail";
  mk_review "h3/src/server/request.rs" "ResolvedRequest::resolve" K_headermap 1 Guarded
    "lexical false positive: http::Extensions::insert (no HeaderMap capacity limit)";
  mk_review "h3/src/proto/stream.rs" "StreamType::grease" K_arith 1 NotPeerReachable
    "local RNG value below 0x210842108421083";
  mk_review "h3/src/proto/stream.rs" "StreamType::grease" K_arith 2 NotPeerReachable
    "local RNG value below 0x210842108421083";
  mk_review "h3/src/proto/stream.rs" "StreamId::new" K_shift 1 Guarded
    "index <= 2^60 - 1 at every call (Add clamps to VarInt::MAX >> 2, FIRST_REQUEST is 0); constant shift amounts; enum discriminant casts";
  mk_review "h3/src/proto/stream.rs" "StreamId::new" K_cast 1 Guarded
    "index <= 2^60 - 1 at every call (Add clamps to VarInt::MAX >> 2, FIRST_REQUEST is 0); constant shift amounts; enum discriminant casts";
  mk_review "h3/src/proto/stream.rs" "StreamId::new" K_shift 2 Guarded
    "index <= 2^60 - 1 at every call (Add clamps to VarInt::MAX >> 2, FIRST_REQUEST is 0); constant shift amounts; enum discriminant casts";
  mk_review "h3/src/proto/stream.rs" "StreamId::new" K_cast 2 Guarded
    "index <= 2^60 - 1 at every call (Add clamps to VarInt::MAX >> 2, FIRST_REQUEST is 0); constant shift amounts; enum discriminant casts";
  mk_review "h3/src/proto/stream.rs" "StreamId::index" K_shift 1 Guarded
    "index <= 2^60 - 1 at every call (Add clamps to VarInt::MAX >> 2, FIRST_REQUEST is 0); constant shift amounts; enum discriminant casts";
  mk_review "h3/src/proto/stream.rs" "Encode for StreamId::encode" K_unwrap 1 NotPeerReachable
    "send path only (encoding of locally produced values; C14/C13 cover the writers), never run on peer bytes; a StreamId is < 2^62 by construction (TryFrom<u64> checks, Add clamps)";
  mk_review "h3/src/proto/stream.rs" "Add for StreamId::add" K_cast 1 Modelled
    "Model/Varint.v sid_add (C16): saturating_add then min with VarInt::MAX >> 2";
  mk_review "h3/src/proto/stream.rs" "Add for StreamId::add" K_shift 1 Modelled
    "Model/Varint.v sid_add (C16): saturating_add then min with VarInt::MAX >> 2";
  mk_review "h3/src/proto/coding.rs" "Decode for u8::decode" K_buf_get 1 Guarded
    "guarded by the buf.remaining() < 1 check";
  mk_review "h3/src/proto/coding.rs" "BufMutExt for T::write_var" K_unwrap 1 NotPeerReachable
    "send path only (encoding of locally produced values; C14/C13 cover the writers), never run on peer bytes";
  mk_review "h3/src/qpack/field.rs" "HeaderField::mem_size" K_arith 1 Guarded
    "lengths of two in-memory byte vectors plus 32";
  mk_review "h3/src/qpack/field.rs" "HeaderField::mem_size" K_arith 2 Guarded
    "lengths of two in-memory byte vectors plus 32";
  mk_review "h3/src/webtransport/session_id.rs" "Encode for SessionId::encode" K_unwrap 1 NotPeerReachable
    "send path only (encoding of locally produced values; C14/C13 cover the writers), never run on peer bytes";
  mk_review "h3/src/error/codes.rs" "macro_rules codes" K_arith 1 Guarded
    "lexical false positive: the `+` is the repetition operator of the codes! macro_rules pattern / expansion, not arithmetic";
  mk_review "h3/src/error/codes.rs" "macro_rules codes" K_arith 2 Guarded
    "lexical false positive: the `+` is the repetition operator of the codes! macro_rules pattern / expansion, not arithmetic";
  mk_review "h3/src/error/codes.rs" "Debug for Code::fmt" K_arith 1 Guarded
    "lexical false positive: the `+` is the repetition operator of the codes! macro_rules pattern / expansion, not arithmetic";
  mk_review "h3/src/error/codes.rs" "Display for Code::fmt" K_arith 1 Guarded
    "lexical false positive: the `+` is the repetition operator of the codes! macro_rules pattern / expansion, not arithmetic";
  mk_review "h3/src/config.rs" "TryFrom for Settings::try_from" K_headermap 1 NotPeerReachable
    "Settings built from the LOCAL configuration (send path); `.insert(` is Settings::insert (fixed array, returns Err), the casts are bool/u64 widenings; C13";
  mk_review "h3/src/config.rs" "TryFrom for Settings::try_from" K_headermap 2 NotPeerReachable
    "Settings built from the LOCAL configuration (send path); `.insert(` is Settings::insert (fixed array, returns Err), the casts are bool/u64 widenings; C13";
  mk_review "h3/src/config.rs" "TryFrom for Settings::try_from" K_headermap 3 NotPeerReachable
    "Settings built from the LOCAL configuration (send path); `.insert(` is Settings::insert (fixed array, returns Err), the casts are bool/u64 widenings; C13";
  mk_review "h3/src/config.rs" "TryFrom for Settings::try_from" K_cast 1 NotPeerReachable
    "Settings built from the LOCAL configuration (send path); `.insert(` is Settings::insert (fixed array, returns Err), the casts are bool/u64 widenings; C13";
  mk_review "h3/src/config.rs" "TryFrom for Settings::try_from" K_headermap 4 NotPeerReachable
    "Settings built from the LOCAL configuration (send path); `.insert(` is Settings::insert (fixed array, returns Err), the casts are bool/u64 widenings; C13";
  mk_review "h3/src/config.rs" "TryFrom for Settings::try_from" K_cast 2 NotPeerReachable
    "Settings built from the LOCAL configuration (send path); `.insert(` is Settings::insert (fixed array, returns Err), the casts are bool/u64 widenings; C13";
  mk_review "h3/src/config.rs" "TryFrom for Settings::try_from" K_headermap 5 NotPeerReachable
    "Settings built from the LOCAL configuration (send path); `.insert(` is Settings::insert (fixed array, returns Err), the casts are bool/u64 widenings; C13";
  mk_review "h3/src/config.rs" "TryFrom for Settings::try_from" K_cast 3 NotPeerReachable
    "Settings built from the LOCAL configuration (send path); `.insert(` is Settings::insert (fixed array, returns Err), the casts are bool/u64 widenings; C13";
  mk_review "h3/src/config.rs" "TryFrom for Settings::try_from" K_headermap 6 NotPeerReachable
    "Settings built from the LOCAL configuration (send path); `.insert(` is Settings::insert (fixed array, returns Err), the casts are bool/u64 widenings; C13";
  mk_review "h3-webtransport/src/server.rs" "WebTransportSession::accept" K_unwrap 1 Guarded
    "Response::builder() with constant header / status values cannot fail";
  mk_review "h3-webtransport/src/server.rs" "WebTransportSession::accept" K_unwrap 2 Guarded
    "Response::builder() with constant header / status values cannot fail";
  mk_review "h3-webtransport/src/server.rs" "WebTransportSession::datagram_reader" K_unwrap 1 Guarded
    "Mutex::lock().unwrap() fails only when the mutex is poisoned, i.e. after another h3 call already panicked while holding it; no peer input poisons it by itself";
  mk_review "h3-webtransport/src/server.rs" "WebTransportSession::datagram_sender" K_unwrap 1 Guarded
    "Mutex::lock().unwrap() fails only when the mutex is poisoned, i.e. after another h3 call already panicked while holding it; no peer input poisons it by itself";
  mk_review "h3-webtransport/src/server.rs" "WebTransportSession::accept_bi" K_unwrap 1 Guarded
    "Mutex::lock().unwrap() fails only when the mutex is poisoned, i.e. after another h3 call already panicked while holding it; no peer input poisons it by itself";
  mk_review "h3-webtransport/src/server.rs" "WebTransportSession::accept_bi" K_unwrap 2 Guarded
    "Mutex::lock().unwrap() fails only when the mutex is poisoned, i.e. after another h3 call already panicked while holding it; no peer input poisons it by itself";
  mk_review "h3-webtransport/src/server.rs" "Future for OpenBi::poll" K_unwrap 1 Guarded
    "Mutex::lock().unwrap() fails only if another holder panicked before (poisoning); p.stream.take().unwrap() is inside the `Some((stream, buf))` arm of the match on the same Option";
  mk_review "h3-webtransport/src/server.rs" "Future for OpenBi::poll" K_unwrap 2 Guarded
    "Mutex::lock().unwrap() fails only if another holder panicked before (poisoning); p.stream.take().unwrap() is inside the `Some((stream, buf))` arm of the match on the same Option";
  mk_review "h3-webtransport/src/server.rs" "Future for OpenUni::poll" K_unwrap 1 Guarded
    "Mutex::lock().unwrap() fails only if another holder panicked before (poisoning); p.stream.take().unwrap() is inside the `Some((stream, buf))` arm of the match on the same Option";
  mk_review "h3-webtransport/src/server.rs" "Future for OpenUni::poll" K_assert 1 Guarded
    "the while loop just above ran until !buf.has_remaining(); OpenUni is a send-side future";
  mk_review "h3-webtransport/src/server.rs" "Future for OpenUni::poll" K_unwrap 2 Guarded
    "Mutex::lock().unwrap() fails only if another holder panicked before (poisoning); p.stream.take().unwrap() is inside the `Some((stream, buf))` arm of the match on the same Option";
  mk_review "h3-webtransport/src/server.rs" "Future for AcceptUni::poll" K_unwrap 1 Guarded
    "Mutex::lock().unwrap() fails only when the mutex is poisoned, i.e. after another h3 call already panicked while holding it; no peer input poisons it by itself";
  mk_review "h3/src/proto/varint.rs" "VarInt::encode" K_buf_put 1 Guarded
    "send path: put_uN into a BufMut; every caller writes into the 64-byte WriteBuf array sized StreamType::MAX_ENCODED_SIZE + Frame::MAX_ENCODED_SIZE (at most two varints + the header fields of one frame), or into a growable BytesMut; Model/WriteBuf.v / FrameEnc.v (C14) Panic sites for a full buffer are proved unreachable there";
  mk_review "h3/src/proto/varint.rs" "VarInt::encode" K_buf_put 2 Guarded
    "send path: put_uN into a BufMut; every caller writes into the 64-byte WriteBuf array sized StreamType::MAX_ENCODED_SIZE + Frame::MAX_ENCODED_SIZE (at most two varints + the header fields of one frame), or into a growable BytesMut; Model/WriteBuf.v / FrameEnc.v (C14) Panic sites for a full buffer are proved unreachable there";
  mk_review "h3/src/proto/varint.rs" "VarInt::encode" K_buf_put 3 Guarded
    "send path: put_uN into a BufMut; every caller writes into the 64-byte WriteBuf array sized StreamType::MAX_ENCODED_SIZE + Frame::MAX_ENCODED_SIZE (at most two varints + the header fields of one frame), or into a growable BytesMut; Model/WriteBuf.v / FrameEnc.v (C14) Panic sites for a full buffer are proved unreachable there";
  mk_review "h3/src/proto/varint.rs" "VarInt::encode" K_buf_put 4 Guarded
    "send path: put_uN into a BufMut; every caller writes into the 64-byte WriteBuf array sized StreamType::MAX_ENCODED_SIZE + Frame::MAX_ENCODED_SIZE (at most two varints + the header fields of one frame), or into a growable BytesMut; Model/WriteBuf.v / FrameEnc.v (C14) Panic sites for a full buffer are proved unreachable there";
  mk_review "h3/src/proto/headers.rs" "Pseudo::request" K_from_static 1 NotPeerReachable
    "PathAndQuery::from_static on the literal constants ""*"" / ""/"" when the LOCAL request has no path (client send path)";
  mk_review "h3/src/proto/headers.rs" "Pseudo::request" K_from_static 2 NotPeerReachable
    "PathAndQuery::from_static on the literal constants ""*"" / ""/"" when the LOCAL request has no path (client send path)";
  mk_review "h3/src/proto/coding.rs" "Encode for u8::encode" K_buf_put 1 Guarded
    "send path: put_uN into a BufMut; every caller writes into the 64-byte WriteBuf array sized StreamType::MAX_ENCODED_SIZE + Frame::MAX_ENCODED_SIZE (at most two varints + the header fields of one frame), or into a growable BytesMut; Model/WriteBuf.v / FrameEnc.v (C14) Panic sites for a full buffer are proved unreachable there"
].
(* the fingerprint each owning function had when its rows were reviewed *)
Definition print_table : list fn_print := [
  mk_print "h3/src/frame.rs" "FrameStream::new" 1150901880139770955;
  mk_print "h3/src/frame.rs" "FrameStream::into_inner" 75339226129746187;
  mk_print "h3/src/frame.rs" "FrameStream::is_0rtt" 687683441163679685;
  mk_print "h3/src/frame.rs" "FrameStream::poll_next" 773942712910499929;
  mk_print "h3/src/frame.rs" "FrameStream::poll_data" 450068831201023236;
  mk_print "h3/src/frame.rs" "FrameStream::stop_sending" 515168145231110709;
  mk_print "h3/src/frame.rs" "FrameStream::has_data" 23785661533682465;
  mk_print "h3/src/frame.rs" "FrameStream::is_eos" 449469273763870653;
  mk_print "h3/src/frame.rs" "FrameStream::try_recv" 655771517669063906;
  mk_print "h3/src/frame.rs" "FrameStream::id" 373181319204249204;
  mk_print "h3/src/frame.rs" "SendStream for FrameStream::poll_ready" 751063019050899169;
  mk_print "h3/src/frame.rs" "SendStream for FrameStream::send_data" 225970108178881924;
  mk_print "h3/src/frame.rs" "SendStream for FrameStream::poll_finish" 241384935265644589;
  mk_print "h3/src/frame.rs" "SendStream for FrameStream::reset" 440708354866032898;
  mk_print "h3/src/frame.rs" "SendStream for FrameStream::send_id" 281643835556035049;
  mk_print "h3/src/frame.rs" "FrameStream::split" 74253883829707234;
  mk_print "h3/src/frame.rs" "FrameDecoder::decode" 672027543324904117;
  mk_print "h3/src/buf.rs" "BufList::new" 323915001134908668;
  mk_print "h3/src/buf.rs" "BufList::push" 242143266256771136;
  mk_print "h3/src/buf.rs" "BufList::cursor" 1018298855632452476;
  mk_print "h3/src/buf.rs" "BufList::take_first_chunk" 521276891594765790;
  mk_print "h3/src/buf.rs" "BufList::take_chunk" 934105119137658593;
  mk_print "h3/src/buf.rs" "BufList::push_bytes" 157875036097330398;
  mk_print "h3/src/buf.rs" "Buf for BufList::remaining" 890326728092627307;
  mk_print "h3/src/buf.rs" "Buf for BufList::chunk" 74786899522547833;
  mk_print "h3/src/buf.rs" "Buf for BufList::advance" 638458634516667010;
  mk_print "h3/src/buf.rs" "Buf for BufList::chunks_vectored" 848614575771136269;
  mk_print "h3/src/buf.rs" "Cursor::position" 2295160209539953;
  mk_print "h3/src/buf.rs" "Buf for Cursor::remaining" 163695877692090574;
  mk_print "h3/src/buf.rs" "Buf for Cursor::chunk" 676316392519317006;
  mk_print "h3/src/buf.rs" "Buf for Cursor::advance" 479689138231383342;
  mk_print "h3/src/buf.rs" "Buf for Cursor::chunks_vectored" 581076986526149465;
  mk_print "h3/src/stream.rs" "write" 104127047487835431;
  mk_print "h3/src/stream.rs" "WriteBuf::encode_stream_type" 795521190218598940;
  mk_print "h3/src/stream.rs" "WriteBuf::encode_value" 356748551558653800;
  mk_print "h3/src/stream.rs" "WriteBuf::encode_frame_header" 929521502262075454;
  mk_print "h3/src/stream.rs" "From for WriteBuf::from" 304241377855274727;
  mk_print "h3/src/stream.rs" "From for WriteBuf::from#2" 155658664639276126;
  mk_print "h3/src/stream.rs" "Encode for UniStreamHeader::encode" 506238950399438020;
  mk_print "h3/src/stream.rs" "From for WriteBuf::from#3" 155658664639276126;
  mk_print "h3/src/stream.rs" "Encode for BidiStreamHeader::encode" 182763832540207656;
  mk_print "h3/src/stream.rs" "From for WriteBuf::from#4" 325175759058091692;
  mk_print "h3/src/stream.rs" "From for WriteBuf::from#5" 1098983849328107738;
  mk_print "h3/src/stream.rs" "Buf for WriteBuf::remaining" 91094741877907860;
  mk_print "h3/src/stream.rs" "Buf for WriteBuf::chunk" 1125404724953153464;
  mk_print "h3/src/stream.rs" "Buf for WriteBuf::advance" 164696321208360097;
  mk_print "h3/src/stream.rs" "AcceptRecvStream::new" 731296830901968248;
  mk_print "h3/src/stream.rs" "AcceptRecvStream::into_stream" 258665904043366105;
  mk_print "h3/src/stream.rs" "AcceptRecvStream::poll_next_varint" 1085122436385001287;
  mk_print "h3/src/stream.rs" "AcceptRecvStream::poll_type" 810756824344597080;
  mk_print "h3/src/stream.rs" "Debug for BufRecvStream::fmt" 880067781934221755;
  mk_print "h3/src/stream.rs" "BufRecvStream::new" 457348805407091140;
  mk_print "h3/src/stream.rs" "BufRecvStream::is_0rtt" 687683441163679685;
  mk_print "h3/src/stream.rs" "BufRecvStream::poll_read" 597493425989976151;
  mk_print "h3/src/stream.rs" "BufRecvStream::buf_mut" 452054018860441693;
  mk_print "h3/src/stream.rs" "BufRecvStream::take_chunk" 841224925743073806;
  mk_print "h3/src/stream.rs" "BufRecvStream::has_remaining" 150235610972315052;
  mk_print "h3/src/stream.rs" "BufRecvStream::buf" 1012571732418707868;
  mk_print "h3/src/stream.rs" "BufRecvStream::is_eos" 1057713165026686464;
  mk_print "h3/src/stream.rs" "RecvStream for BufRecvStream::poll_data" 854547133147545051;
  mk_print "h3/src/stream.rs" "RecvStream for BufRecvStream::stop_sending" 144618481408127416;
  mk_print "h3/src/stream.rs" "RecvStream for BufRecvStream::recv_id" 373181319204249204;
  mk_print "h3/src/stream.rs" "SendStream for BufRecvStream::poll_finish" 241384935265644589;
  mk_print "h3/src/stream.rs" "SendStream for BufRecvStream::reset" 440708354866032898;
  mk_print "h3/src/stream.rs" "SendStream for BufRecvStream::send_id" 281643835556035049;
  mk_print "h3/src/stream.rs" "SendStream for BufRecvStream::poll_ready" 751063019050899169;
  mk_print "h3/src/stream.rs" "SendStream for BufRecvStream::send_data" 225970108178881924;
  mk_print "h3/src/stream.rs" "SendStreamUnframed for BufRecvStream::poll_send" 1063289052162694200;
  mk_print "h3/src/stream.rs" "BidiStream for BufRecvStream::split" 250673696551393865;
  mk_print "h3/src/stream.rs" "AsyncRead for BufRecvStream::poll_read" 101313352011356071;
  mk_print "h3/src/stream.rs" "AsyncRead for BufRecvStream::poll_read#2" 254956492202555858;
  mk_print "h3/src/stream.rs" "AsyncWrite for BufRecvStream::poll_write" 675619127124637374;
  mk_print "h3/src/stream.rs" "AsyncWrite for BufRecvStream::poll_flush" 1071399793047194370;
  mk_print "h3/src/stream.rs" "AsyncWrite for BufRecvStream::poll_close" 59831834794144118;
  mk_print "h3/src/stream.rs" "AsyncWrite for BufRecvStream::poll_write#2" 675619127124637374;
  mk_print "h3/src/stream.rs" "AsyncWrite for BufRecvStream::poll_flush#2" 1071399793047194370;
  mk_print "h3/src/stream.rs" "AsyncWrite for BufRecvStream::poll_shutdown" 59831834794144118;
  mk_print "h3/src/stream.rs" "convert_to_std_io_error" 1090474924360026080;
  mk_print "h3/src/connection.rs" "Default for AcceptedStreams::default" 265689869573206521;
  mk_print "h3/src/connection.rs" "ConnectionState for ConnectionInner::shared_state" 988525740490372802;
  mk_print "h3/src/connection.rs" "ConnectionInner::send_control_stream_headers" 438997759704275471;
  mk_print "h3/src/connection.rs" "ConnectionInner::new" 12721471135637780;
  mk_print "h3/src/connection.rs" "ConnectionInner::shutdown" 590323239291305652;
  mk_print "h3/src/connection.rs" "ConnectionInner::poll_accept_bi" 288926635190451279;
  mk_print "h3/src/connection.rs" "ConnectionInner::poll_accept_recv" 713826345832115115;
  mk_print "h3/src/connection.rs" "ConnectionInner::poll_control" 372253367224771078;
  mk_print "h3/src/connection.rs" "ConnectionInner::process_goaway" 16450791167015543;
  mk_print "h3/src/connection.rs" "ConnectionInner::poll_grease_stream" 536023958500938307;
  mk_print "h3/src/connection.rs" "ConnectionInner::accepted_streams_mut" 692572056007606968;
  mk_print "h3/src/connection.rs" "RequestStream::new" 290613482124884746;
  mk_print "h3/src/connection.rs" "ConnectionState for RequestStream::shared_state" 669279508457762153;
  mk_print "h3/src/connection.rs" "RequestStream::poll_recv_data" 970168313992761998;
  mk_print "h3/src/connection.rs" "RequestStream::poll_recv_trailers" 783970658009314464;
  mk_print "h3/src/connection.rs" "RequestStream::stop_sending" 826605163225055398;
  mk_print "h3/src/connection.rs" "RequestStream::send_data" 178447970480746150;
  mk_print "h3/src/connection.rs" "RequestStream::send_trailers" 1119511140509002021;
  mk_print "h3/src/connection.rs" "RequestStream::stop_stream" 689018384563544748;
  mk_print "h3/src/connection.rs" "RequestStream::finish" 1073684320068889503;
  mk_print "h3/src/connection.rs" "RequestStream::split" 198215049162407538;
  mk_print "h3/src/proto/frame.rs" "Display for FrameError::fmt" 231235641259825048;
  mk_print "h3/src/proto/frame.rs" "From for PayloadLen::from" 778859174687381923;
  mk_print "h3/src/proto/frame.rs" "Frame::decode" 367832883571405207;
  mk_print "h3/src/proto/frame.rs" "Encode for Frame::encode" 870179636553563531;
  mk_print "h3/src/proto/frame.rs" "Frame::payload" 150408480469194593;
  mk_print "h3/src/proto/frame.rs" "Frame::payload_mut" 743053807235616590;
  mk_print "h3/src/proto/frame.rs" "Debug for Frame::fmt" 734860281300262914;
  mk_print "h3/src/proto/frame.rs" "Debug for Frame::fmt#2" 874506343839384663;
  mk_print "h3/src/proto/frame.rs" "eq" 453455347265122186;
  mk_print "h3/src/proto/frame.rs" "macro_rules frame_types" 1130075942893512056;
  mk_print "h3/src/proto/frame.rs" "FrameType::grease" 301319997934305385;
  mk_print "h3/src/proto/frame.rs" "FrameType::decode" 427833190679259277;
  mk_print "h3/src/proto/frame.rs" "FrameType::encode" 957629261893156067;
  mk_print "h3/src/proto/frame.rs" "trait FrameHeader::encode_header" 618757857832004207;
  mk_print "h3/src/proto/frame.rs" "FrameHeader for PushPromise::encode_header" 635976018898191353;
  mk_print "h3/src/proto/frame.rs" "FrameHeader for PushPromise::len" 252993968248478575;
  mk_print "h3/src/proto/frame.rs" "PushPromise::decode" 714169771396949280;
  mk_print "h3/src/proto/frame.rs" "PushPromise::encode" 509208693144242715;
  mk_print "h3/src/proto/frame.rs" "simple_frame_encode" 631200995060528153;
  mk_print "h3/src/proto/frame.rs" "SettingId::grease" 836932576843504522;
  mk_print "h3/src/proto/frame.rs" "SettingId::is_supported" 150585858852215086;
  mk_print "h3/src/proto/frame.rs" "SettingId::is_forbidden" 118585086920348202;
  mk_print "h3/src/proto/frame.rs" "SettingId::decode" 597874907889586901;
  mk_print "h3/src/proto/frame.rs" "SettingId::encode" 957629261893156067;
  mk_print "h3/src/proto/frame.rs" "macro_rules setting_identifiers" 1113279230688905600;
  mk_print "h3/src/proto/frame.rs" "Default for Settings::default" 1149438223858233638;
  mk_print "h3/src/proto/frame.rs" "FrameHeader for Settings::len" 985087382786155330;
  mk_print "h3/src/proto/frame.rs" "Settings::insert" 528066828679289942;
  mk_print "h3/src/proto/frame.rs" "Settings::get" 846786629019212139;
  mk_print "h3/src/proto/frame.rs" "Settings::encode" 1145645857995315072;
  mk_print "h3/src/proto/frame.rs" "Settings::decode" 384620666545267632;
  mk_print "h3/src/proto/frame.rs" "Display for SettingsError::fmt" 1083212909226262852;
  mk_print "h3/src/proto/frame.rs" "From for FrameError::from" 24064480287250714;
  mk_print "h3/src/proto/frame.rs" "From for FrameError::from#2" 88351899131066002;
  mk_print "h3/src/proto/frame.rs" "From for FrameError::from#3" 188246078995116683;
  mk_print "h3/src/proto/frame.rs" "From for FrameError::from#4" 467349466775746879;
  mk_print "h3/src/proto/varint.rs" "Div for VarInt::div" 256651914913590250;
  mk_print "h3/src/proto/varint.rs" "VarInt::from_u32" 941072526534185645;
  mk_print "h3/src/proto/varint.rs" "VarInt::from_u64" 293689546447897185;
  mk_print "h3/src/proto/varint.rs" "VarInt::from_u64_unchecked" 1133714290624990761;
  mk_print "h3/src/proto/varint.rs" "VarInt::into_inner" 186033974944295544;
  mk_print "h3/src/proto/varint.rs" "VarInt::size" 312976612711140409;
  mk_print "h3/src/proto/varint.rs" "VarInt::encoded_size" 918329555572025248;
  mk_print "h3/src/proto/varint.rs" "VarInt::decode" 926658823126021335;
  mk_print "h3/src/proto/varint.rs" "VarInt::encode" 213449925008563489;
  mk_print "h3/src/proto/varint.rs" "From for u64::from" 463161037390310092;
  mk_print "h3/src/proto/varint.rs" "From for VarInt::from" 119111855962637982;
  mk_print "h3/src/proto/varint.rs" "From for VarInt::from#2" 119111855962637982;
  mk_print "h3/src/proto/varint.rs" "From for VarInt::from#3" 119111855962637982;
  mk_print "h3/src/proto/varint.rs" "TryFrom for VarInt::try_from" 311284228123549591;
  mk_print "h3/src/proto/varint.rs" "TryFrom for VarInt::try_from#2" 229936924402357041;
  mk_print "h3/src/proto/varint.rs" "Debug for VarInt::fmt" 913473294133391649;
  mk_print "h3/src/proto/varint.rs" "Display for VarInt::fmt" 913473294133391649;
  mk_print "h3/src/proto/varint.rs" "BufExt for T::get_var" 180655983632744962;
  mk_print "h3/src/proto/varint.rs" "BufMutExt for T::write_var" 912368294879219765;
  mk_print "h3/src/proto/headers.rs" "Header::request" 876906254792748691;
  mk_print "h3/src/proto/headers.rs" "Header::response" 50081628333327396;
  mk_print "h3/src/proto/headers.rs" "Header::trailer" 786240646540176511;
  mk_print "h3/src/proto/headers.rs" "Header::into_request_parts" 43341067799061091;
  mk_print "h3/src/proto/headers.rs" "Header::into_response_parts" 637410448175893347;
  mk_print "h3/src/proto/headers.rs" "Header::into_fields" 369460828559573185;
  mk_print "h3/src/proto/headers.rs" "Header::len" 897836074035909664;
  mk_print "h3/src/proto/headers.rs" "Header::size" 897836074035909664;
  mk_print "h3/src/proto/headers.rs" "IntoIterator for Header::into_iter" 422437411753885578;
  mk_print "h3/src/proto/headers.rs" "Iterator for HeaderIter::next" 1006601684875434884;
  mk_print "h3/src/proto/headers.rs" "TryFrom for Header::try_from" 457636697265220485;
  mk_print "h3/src/proto/headers.rs" "is_token_char" 1025278694629586770;
  mk_print "h3/src/proto/headers.rs" "Field::parse" 320040293628555634;
  mk_print "h3/src/proto/headers.rs" "try_value" 517717444729642612;
  mk_print "h3/src/proto/headers.rs" "Pseudo::request" 782785178403069000;
  mk_print "h3/src/proto/headers.rs" "Pseudo::response" 1117265115631476960;
  mk_print "h3/src/proto/headers.rs" "Pseudo::len" 217012103550056342;
  mk_print "h3/src/proto/headers.rs" "HeaderError::invalid_name" 1023606039513307791;
  mk_print "h3/src/proto/headers.rs" "HeaderError::invalid_value" 774315718048120871;
  mk_print "h3/src/proto/headers.rs" "Display for HeaderError::fmt" 204268611786715543;
  mk_print "h3/src/qpack/decoder.rs" "Display for DecoderError::fmt" 136351379797751149;
  mk_print "h3/src/qpack/decoder.rs" "ack_header" 196926075402509835;
  mk_print "h3/src/qpack/decoder.rs" "stream_canceled" 720124015255066983;
  mk_print "h3/src/qpack/decoder.rs" "Decoder::decode_header" 628830084392218672;
  mk_print "h3/src/qpack/decoder.rs" "Decoder::on_encoder_recv" 895248460119009793;
  mk_print "h3/src/qpack/decoder.rs" "Decoder::parse_instruction" 575943375186396049;
  mk_print "h3/src/qpack/decoder.rs" "Decoder::parse_header_field" 1011462602769334633;
  mk_print "h3/src/qpack/decoder.rs" "decode_stateless" 544680205903707186;
  mk_print "h3/src/qpack/decoder.rs" "From for Decoder::from" 48294038740627220;
  mk_print "h3/src/qpack/decoder.rs" "Decoder::verif_table" 587435188388214348;
  mk_print "h3/src/qpack/decoder.rs" "Decoder::verif_table_mut" 1066992579071268495;
  mk_print "h3/src/qpack/decoder.rs" "Debug for Instruction::fmt" 744119074046449991;
  mk_print "h3/src/qpack/decoder.rs" "From for DecoderError::from" 13793782614479450;
  mk_print "h3/src/qpack/decoder.rs" "From for DecoderError::from#2" 1005844251827382792;
  mk_print "h3/src/qpack/decoder.rs" "From for DecoderError::from#3" 245547440328343687;
  mk_print "h3/src/qpack/decoder.rs" "From for DecoderError::from#4" 933580629098464925;
  mk_print "h3/src/qpack/decoder.rs" "From for DecoderError::from#5" 30087562348029800;
  mk_print "h3/src/qpack/decoder.rs" "From for DecoderError::from#6" 852386627154144383;
  mk_print "h3/src/qpack/decoder.rs" "From for DecoderError::from#7" 479441151736400510;
  mk_print "h3/src/qpack/block.rs" "HeaderBlockField::decode" 154608561654849424;
  mk_print "h3/src/qpack/block.rs" "HeaderPrefix::new" 700412233743204094;
  mk_print "h3/src/qpack/block.rs" "HeaderPrefix::encoded_insert_count" 1103371529571547847;
  mk_print "h3/src/qpack/block.rs" "HeaderPrefix::base_without_refs" 1068279302702602763;
  mk_print "h3/src/qpack/block.rs" "HeaderPrefix::get" 986661657310795746;
  mk_print "h3/src/qpack/block.rs" "HeaderPrefix::decode" 21144466040010937;
  mk_print "h3/src/qpack/block.rs" "HeaderPrefix::encode" 904984220486143245;
  mk_print "h3/src/qpack/block.rs" "Indexed::decode" 1074453268469304238;
  mk_print "h3/src/qpack/block.rs" "Indexed::encode" 371211073614992000;
  mk_print "h3/src/qpack/block.rs" "IndexedWithPostBase::decode" 958790998564218513;
  mk_print "h3/src/qpack/block.rs" "IndexedWithPostBase::encode" 792538056711760264;
  mk_print "h3/src/qpack/block.rs" "LiteralWithNameRef::new_static" 836034503433932685;
  mk_print "h3/src/qpack/block.rs" "LiteralWithNameRef::new_dynamic" 924276548312694520;
  mk_print "h3/src/qpack/block.rs" "LiteralWithNameRef::decode" 957988546141259113;
  mk_print "h3/src/qpack/block.rs" "LiteralWithNameRef::encode" 475812391532452569;
  mk_print "h3/src/qpack/block.rs" "LiteralWithPostBaseNameRef::new" 743275551964812360;
  mk_print "h3/src/qpack/block.rs" "LiteralWithPostBaseNameRef::decode" 926428210056120332;
  mk_print "h3/src/qpack/block.rs" "LiteralWithPostBaseNameRef::encode" 703207341857269299;
  mk_print "h3/src/qpack/block.rs" "Literal::new" 182534765126557071;
  mk_print "h3/src/qpack/block.rs" "Literal::decode" 1002216006489317059;
  mk_print "h3/src/qpack/block.rs" "Literal::encode" 712524207025108;
  mk_print "h3/src/qpack/prefix_string/mod.rs" "Display for Error::fmt" 1093547651769812913;
  mk_print "h3/src/qpack/prefix_string/mod.rs" "decode" 131588597399552501;
  mk_print "h3/src/qpack/prefix_string/mod.rs" "encode" 184149237997394068;
  mk_print "h3/src/qpack/prefix_string/mod.rs" "From for Error::from" 804182361941677988;
  mk_print "h3/src/qpack/prefix_string/mod.rs" "From for Error::from#2" 773535228159700340;
  mk_print "h3/src/qpack/prefix_string/mod.rs" "From for Error::from#3" 466514578947605876;
  mk_print "h3/src/qpack/prefix_string/mod.rs" "From for Error::from#4" 74990156042135621;
  mk_print "h3/src/qpack/prefix_string/decode.rs" "HuffmanDecoder::check_eof" 15064980860918784;
  mk_print "h3/src/qpack/prefix_string/decode.rs" "HuffmanDecoder::fetch_value" 281182403792575853;
  mk_print "h3/src/qpack/prefix_string/decode.rs" "HuffmanDecoder::decode_next" 735121105642080766;
  mk_print "h3/src/qpack/prefix_string/decode.rs" "read_bits" 876441152047018122;
  mk_print "h3/src/qpack/prefix_string/decode.rs" "macro_rules bits_decode" 487685542333922048;
  mk_print "h3/src/qpack/prefix_string/decode.rs" "DecodeIter::check_padding" 176311161961407516;
  mk_print "h3/src/qpack/prefix_string/decode.rs" "Iterator for DecodeIter::next" 11204835972663812;
  mk_print "h3/src/qpack/prefix_string/decode.rs" "HpackStringDecode for Vec::hpack_decode" 750183787018088679;
  mk_print "h3/src/qpack/prefix_string/bitwin.rs" "BitWindow::new" 750442595876984215;
  mk_print "h3/src/qpack/prefix_string/bitwin.rs" "BitWindow::forwards" 432337054672047978;
  mk_print "h3/src/qpack/prefix_string/bitwin.rs" "BitWindow::opposite_bit_window" 560190362719643189;
  mk_print "h3/src/qpack/prefix_int.rs" "Display for Error::fmt" 886737442545157843;
  mk_print "h3/src/qpack/prefix_int.rs" "decode" 659354619757671532;
  mk_print "h3/src/qpack/prefix_int.rs" "encode" 1082176733542918343;
  mk_print "h3/src/qpack/prefix_int.rs" "From for Error::from" 11297621739770141;
  mk_print "h3/src/qpack/static_.rs" "StaticTable::get" 790322360590095633;
  mk_print "h3/src/qpack/static_.rs" "StaticTable::find" 678541548410680664;
  mk_print "h3/src/qpack/static_.rs" "StaticTable::find_name" 1008109048098316104;
  mk_print "h3/src/qpack/static_.rs" "macro_rules decl_fields" 582673700530063555;
  mk_print "h3/src/server/connection.rs" "ConnectionState for Connection::shared_state" 115241094138361009;
  mk_print "h3/src/server/connection.rs" "Connection::new" 875909011944448346;
  mk_print "h3/src/server/connection.rs" "Connection::create_resolver" 84767319278450923;
  mk_print "h3/src/server/connection.rs" "Connection::poll_accept_request_stream" 451228401587259399;
  mk_print "h3/src/server/connection.rs" "Connection::accept" 494132544792141940;
  mk_print "h3/src/server/connection.rs" "Connection::create_resolver_internal" 1029834711944048236;
  mk_print "h3/src/server/connection.rs" "Connection::shutdown" 292969043711398150;
  mk_print "h3/src/server/connection.rs" "Connection::poll_accept_request_stream_internal" 610404150778549482;
  mk_print "h3/src/server/connection.rs" "Connection::poll_control" 1068706351708663732;
  mk_print "h3/src/server/connection.rs" "Connection::poll_next_control" 629287202045998089;
  mk_print "h3/src/server/connection.rs" "Connection::poll_requests_completion" 718867821029490266;
  mk_print "h3/src/server/connection.rs" "Drop for Connection::drop" 723385846585367367;
  mk_print "h3/src/server/request.rs" "ConnectionState for RequestResolver::shared_state" 988525740490372802;
  mk_print "h3/src/server/request.rs" "RequestResolver::resolve_request" 646896110960086748;
  mk_print "h3/src/server/request.rs" "RequestResolver::accept_with_frame" 112385665498014716;
  mk_print "h3/src/server/request.rs" "ResolvedRequest::new" 765418095212068130;
  mk_print "h3/src/server/request.rs" "ResolvedRequest::resolve" 959414860809335716;
  mk_print "h3/src/client/connection.rs" "ConnectionState for SendRequest::shared_state" 669279508457762153;
  mk_print "h3/src/client/connection.rs" "SendRequest::send_request" 299258185385768941;
  mk_print "h3/src/client/connection.rs" "Clone for SendRequest::clone" 356998976529543067;
  mk_print "h3/src/client/connection.rs" "Drop for SendRequest::drop" 4328341965599469;
  mk_print "h3/src/client/connection.rs" "ConnectionState for Connection::shared_state" 115241094138361009;
  mk_print "h3/src/client/connection.rs" "Connection::shutdown" 1019340440540962911;
  mk_print "h3/src/client/connection.rs" "Connection::wait_idle" 126981106181143991;
  mk_print "h3/src/client/connection.rs" "Connection::poll_close" 241863320128509088;
  mk_print "h3/src/client/stream.rs" "ConnectionState for RequestStream::shared_state" 628657718537498922;
  mk_print "h3/src/client/stream.rs" "RequestStream::recv_response" 1017563162029815528;
  mk_print "h3/src/client/stream.rs" "RequestStream::recv_data" 132857645111938254;
  mk_print "h3/src/client/stream.rs" "RequestStream::poll_recv_data" 135933741021041766;
  mk_print "h3/src/client/stream.rs" "RequestStream::recv_trailers" 131798178362501957;
  mk_print "h3/src/client/stream.rs" "RequestStream::poll_recv_trailers" 607201014111785514;
  mk_print "h3/src/client/stream.rs" "RequestStream::stop_sending" 447633155539875828;
  mk_print "h3/src/client/stream.rs" "RequestStream::id" 883324117662024141;
  mk_print "h3/src/client/stream.rs" "RequestStream::send_data" 30086979534131362;
  mk_print "h3/src/client/stream.rs" "RequestStream::stop_stream" 698011714327780319;
  mk_print "h3/src/client/stream.rs" "RequestStream::send_trailers" 636008869619886615;
  mk_print "h3/src/client/stream.rs" "RequestStream::finish" 395227521642187249;
  mk_print "h3/src/client/stream.rs" "RequestStream::split" 260242534548644335;
  mk_print "h3/src/proto/stream.rs" "macro_rules stream_types" 1112834878143713745;
  mk_print "h3/src/proto/stream.rs" "StreamType::value" 186033974944295544;
  mk_print "h3/src/proto/stream.rs" "StreamType::grease" 28828865531186429;
  mk_print "h3/src/proto/stream.rs" "StreamType::from_value" 1104737714303282560;
  mk_print "h3/src/proto/stream.rs" "Decode for StreamType::decode" 222986786266167297;
  mk_print "h3/src/proto/stream.rs" "Encode for StreamType::encode" 957629261893156067;
  mk_print "h3/src/proto/stream.rs" "Display for StreamType::fmt" 851424518906416301;
  mk_print "h3/src/proto/stream.rs" "StreamId::is_request" 24984906777278163;
  mk_print "h3/src/proto/stream.rs" "StreamId::is_push" 232827718273411537;
  mk_print "h3/src/proto/stream.rs" "StreamId::initiator" 909302544069427353;
  mk_print "h3/src/proto/stream.rs" "StreamId::new" 590293261440644767;
  mk_print "h3/src/proto/stream.rs" "StreamId::index" 502293241333893232;
  mk_print "h3/src/proto/stream.rs" "StreamId::dir" 1141534530075376810;
  mk_print "h3/src/proto/stream.rs" "StreamId::into_inner" 186033974944295544;
  mk_print "h3/src/proto/stream.rs" "TryFrom for StreamId::try_from" 1137275541621092069;
  mk_print "h3/src/proto/stream.rs" "From for StreamId::from" 941213687626067710;
  mk_print "h3/src/proto/stream.rs" "From for VarInt::from" 941213687626067710;
  mk_print "h3/src/proto/stream.rs" "Display for InvalidStreamId::fmt" 80092286722799578;
  mk_print "h3/src/proto/stream.rs" "Encode for StreamId::encode" 873769224673166670;
  mk_print "h3/src/proto/stream.rs" "Add for StreamId::add" 345524331354929405;
  mk_print "h3/src/proto/stream.rs" "From for StreamId::from#2" 136780320945009774;
  mk_print "h3/src/proto/coding.rs" "Encode for u8::encode" 1051404087217834117;
  mk_print "h3/src/proto/coding.rs" "Decode for u8::decode" 626058792564135691;
  mk_print "h3/src/proto/coding.rs" "BufExt for T::get" 936873173138485322;
  mk_print "h3/src/proto/coding.rs" "BufExt for T::get_var" 180655983632744962;
  mk_print "h3/src/proto/coding.rs" "BufMutExt for T::write" 1068690084111973526;
  mk_print "h3/src/proto/coding.rs" "BufMutExt for T::write_var" 912368294879219765;
  mk_print "h3/src/proto/push.rs" "TryFrom for PushId::try_from" 880049427197323542;
  mk_print "h3/src/proto/push.rs" "Display for InvalidPushId::fmt" 80092286722799578;
  mk_print "h3/src/proto/push.rs" "From for PushId::from" 941213687626067710;
  mk_print "h3/src/proto/push.rs" "From for VarInt::from" 941213687626067710;
  mk_print "h3/src/proto/push.rs" "Display for PushId::fmt" 80092286722799578;
  mk_print "h3/src/qpack/field.rs" "HeaderField::new" 238229759390868565;
  mk_print "h3/src/qpack/field.rs" "HeaderField::mem_size" 533776943161820621;
  mk_print "h3/src/qpack/field.rs" "HeaderField::with_value" 1050513367764357923;
  mk_print "h3/src/qpack/field.rs" "HeaderField::into_inner" 647487904641091179;
  mk_print "h3/src/qpack/field.rs" "AsRef for HeaderField::as_ref" 64801214427571814;
  mk_print "h3/src/qpack/field.rs" "Display for HeaderField::fmt" 1142003850185822208;
  mk_print "h3/src/qpack/field.rs" "From for String::from" 1014901795606112923;
  mk_print "h3/src/qpack/field.rs" "From for HeaderField::from" 747300534559506606;
  mk_print "h3/src/server/stream.rs" "AsMut for RequestStream::as_mut" 1097277765907773111;
  mk_print "h3/src/server/stream.rs" "ConnectionState for RequestStream::shared_state" 628657718537498922;
  mk_print "h3/src/server/stream.rs" "RequestStream::recv_data" 132857645111938254;
  mk_print "h3/src/server/stream.rs" "RequestStream::poll_recv_data" 135933741021041766;
  mk_print "h3/src/server/stream.rs" "RequestStream::recv_trailers" 131798178362501957;
  mk_print "h3/src/server/stream.rs" "RequestStream::poll_recv_trailers" 186738190319564245;
  mk_print "h3/src/server/stream.rs" "RequestStream::stop_sending" 447633155539875828;
  mk_print "h3/src/server/stream.rs" "RequestStream::id" 883324117662024141;
  mk_print "h3/src/server/stream.rs" "RequestStream::is_0rtt" 117512947596845710;
  mk_print "h3/src/server/stream.rs" "RequestStream::send_response" 200967366003937216;
  mk_print "h3/src/server/stream.rs" "RequestStream::send_data" 30086979534131362;
  mk_print "h3/src/server/stream.rs" "RequestStream::stop_stream" 698011714327780319;
  mk_print "h3/src/server/stream.rs" "RequestStream::send_trailers" 636008869619886615;
  mk_print "h3/src/server/stream.rs" "RequestStream::finish" 395227521642187249;
  mk_print "h3/src/server/stream.rs" "RequestStream::send_id" 241710460276708836;
  mk_print "h3/src/server/stream.rs" "RequestStream::split" 937504595848445003;
  mk_print "h3/src/server/stream.rs" "Drop for RequestEnd::drop" 470077226762430633;
  mk_print "h3/src/shared_state.rs" "Default for SharedState::default" 830466470461471464;
  mk_print "h3/src/shared_state.rs" "ConnectionState for SharedState::shared_state" 64801214427571814;
  mk_print "h3/src/shared_state.rs" "trait ConnectionState::get_conn_error" 490679660180387873;
  mk_print "h3/src/shared_state.rs" "trait ConnectionState::set_conn_error" 944113606680628953;
  mk_print "h3/src/shared_state.rs" "trait ConnectionState::set_conn_error_and_wake" 380362095685892710;
  mk_print "h3/src/shared_state.rs" "trait ConnectionState::settings" 578374795263074436;
  mk_print "h3/src/shared_state.rs" "trait ConnectionState::set_closing" 554722493731317424;
  mk_print "h3/src/shared_state.rs" "trait ConnectionState::is_closing" 29945193071849995;
  mk_print "h3/src/shared_state.rs" "trait ConnectionState::set_settings" 724673682462974400;
  mk_print "h3/src/shared_state.rs" "trait ConnectionState::waker" 752531416241374420;
  mk_print "h3/src/error/connection_error_creators.rs" "ConnectionInner::handle_connection_error" 507585249158738665;
  mk_print "h3/src/error/connection_error_creators.rs" "ConnectionInner::close_if_needed" 172453552762155847;
  mk_print "h3/src/error/connection_error_creators.rs" "ConnectionInner::convert_to_connection_error" 291992423941277856;
  mk_print "h3/src/error/connection_error_creators.rs" "ConnectionInner::poll_connection_error" 735165039719507429;
  mk_print "h3/src/error/connection_error_creators.rs" "ConnectionInner::close_connection" 397451251919500247;
  mk_print "h3/src/error/connection_error_creators.rs" "convert_to_connection_error" 937839711145351;
  mk_print "h3/src/error/connection_error_creators.rs" "trait CloseStream::handle_connection_error_on_stream" 421736021552367595;
  mk_print "h3/src/error/connection_error_creators.rs" "trait CloseStream::handle_quic_stream_error" 397295199740343383;
  mk_print "h3/src/error/connection_error_creators.rs" "trait CloseStream::check_peer_connection_closing" 696907572112218128;
  mk_print "h3/src/error/connection_error_creators.rs" "trait CloseRawQuicConnection::handle_quic_error_raw" 465704157484677028;
  mk_print "h3/src/error/connection_error_creators.rs" "trait CloseRawQuicConnection::close_raw_connection_with_h3_error" 338250730188755815;
  mk_print "h3/src/error/connection_error_creators.rs" "HandleFrameStreamErrorOnRequestStream for T::handle_frame_stream_error_on_request_stream" 984994580629835145;
  mk_print "h3/src/webtransport/session_id.rs" "SessionId::from_varint" 425008669550367919;
  mk_print "h3/src/webtransport/session_id.rs" "SessionId::into_inner" 186033974944295544;
  mk_print "h3/src/webtransport/session_id.rs" "TryFrom for SessionId::try_from" 1137275541621092069;
  mk_print "h3/src/webtransport/session_id.rs" "Encode for SessionId::encode" 873769224673166670;
  mk_print "h3/src/webtransport/session_id.rs" "Decode for SessionId::decode" 180470267134472425;
  mk_print "h3/src/webtransport/session_id.rs" "From for SessionId::from" 136780320945009774;
  mk_print "h3/src/error/error.rs" "ConnectionError::is_h3_no_error" 1114112987535111330;
  mk_print "h3/src/error/error.rs" "StreamError::is_h3_no_error" 872947035021433244;
  mk_print "h3/src/error/error.rs" "From for LocalError::from" 151799043382945082;
  mk_print "h3/src/error/error.rs" "Display for ConnectionError::fmt" 787001486823642864;
  mk_print "h3/src/error/error.rs" "Display for StreamError::fmt" 1152729511464944781;
  mk_print "h3/src/error/internal_error.rs" "InternalConnectionError::new" 660426139263041572;
  mk_print "h3/src/error/internal_error.rs" "InternalConnectionError::got_frame_error" 114324563924769939;
  mk_print "h3/src/error/internal_error.rs" "Display for ErrorOrigin::fmt" 940798751244262640;
  mk_print "h3/src/error/internal_error.rs" "From for ErrorOrigin::from" 1151127656305036900;
  mk_print "h3/src/error/internal_error.rs" "From for ErrorOrigin::from#2" 1062522947962224414;
  mk_print "h3/src/error/codes.rs" "Code::value" 1035169536539291850;
  mk_print "h3/src/error/codes.rs" "PartialEq for Code::eq" 551717075164050476;
  mk_print "h3/src/error/codes.rs" "macro_rules codes" 682329413848013144;
  mk_print "h3/src/error/codes.rs" "Debug for Code::fmt" 280962994888135949;
  mk_print "h3/src/error/codes.rs" "Display for Code::fmt" 280962994888135949;
  mk_print "h3/src/error/codes.rs" "From for u64::from" 221183504120769323;
  mk_print "h3/src/error/codes.rs" "From for Code::from" 271838727013841353;
  mk_print "h3/src/quic.rs" "Debug for ConnectionErrorIncoming::fmt" 410520342046156955;
  mk_print "h3/src/quic.rs" "Display for StreamErrorIncoming::fmt" 509587505176701422;
  mk_print "h3/src/quic.rs" "Display for ConnectionErrorIncoming::fmt" 1070981354153206872;
  mk_print "h3/src/config.rs" "From for Settings::from" 1031033288828927766;
  mk_print "h3/src/config.rs" "TryFrom for Settings::try_from" 1017941183739610855;
  mk_print "h3/src/config.rs" "Default for Settings::default" 1008863168678033424;
  mk_print "h3/src/config.rs" "Settings::enable_webtransport" 557221511118851777;
  mk_print "h3/src/config.rs" "Settings::enable_datagram" 396744871177177842;
  mk_print "h3/src/config.rs" "Settings::enable_extended_connect" 407068892347214733;
  mk_print "h3/src/config.rs" "Default for Config::default" 880894152346469325;
  mk_print "h3/src/ext.rs" "Protocol::as_str" 949034693737340333;
  mk_print "h3/src/ext.rs" "FromStr for Protocol::from_str" 828038507356543955;
  mk_print "h3-webtransport/src/server.rs" "ConnectionState for WebTransportSession::shared_state" 988525740490372802;
  mk_print "h3-webtransport/src/server.rs" "WebTransportSession::accept" 550420007095464154;
  mk_print "h3-webtransport/src/server.rs" "WebTransportSession::datagram_reader" 924007633160314050;
  mk_print "h3-webtransport/src/server.rs" "WebTransportSession::datagram_sender" 314400305298621567;
  mk_print "h3-webtransport/src/server.rs" "WebTransportSession::accept_uni" 908850018544561474;
  mk_print "h3-webtransport/src/server.rs" "WebTransportSession::accept_bi" 740955396557562170;
  mk_print "h3-webtransport/src/server.rs" "WebTransportSession::open_bi" 129801966886894143;
  mk_print "h3-webtransport/src/server.rs" "WebTransportSession::open_uni" 103228944508605793;
  mk_print "h3-webtransport/src/server.rs" "WebTransportSession::session_id" 941959950419786305;
  mk_print "h3-webtransport/src/server.rs" "ConnectionState for WTransportStreamHandler::shared_state" 988525740490372802;
  mk_print "h3-webtransport/src/server.rs" "Future for OpenBi::poll" 144988328635635407;
  mk_print "h3-webtransport/src/server.rs" "Future for OpenUni::poll" 278308910431972849;
  mk_print "h3-webtransport/src/server.rs" "Future for AcceptUni::poll" 342224305447064034;
  mk_print "h3-webtransport/src/server.rs" "validate_wt_connect" 640162826739135106;
  mk_print "h3-webtransport/src/stream.rs" "RecvStream::new" 389273341557209661;
  mk_print "h3-webtransport/src/stream.rs" "RecvStream for RecvStream::poll_data" 198448159216045015;
  mk_print "h3-webtransport/src/stream.rs" "RecvStream for RecvStream::stop_sending" 144618481408127416;
  mk_print "h3-webtransport/src/stream.rs" "RecvStream for RecvStream::recv_id" 373181319204249204;
  mk_print "h3-webtransport/src/stream.rs" "AsyncRead for RecvStream::poll_read" 26341239698541958;
  mk_print "h3-webtransport/src/stream.rs" "AsyncRead for RecvStream::poll_read#2" 26341239698541958;
  mk_print "h3-webtransport/src/stream.rs" "Debug for SendStream::fmt" 567576105067619824;
  mk_print "h3-webtransport/src/stream.rs" "SendStream::new" 389273341557209661;
  mk_print "h3-webtransport/src/stream.rs" "SendStreamUnframed for SendStream::poll_send" 1063289052162694200;
  mk_print "h3-webtransport/src/stream.rs" "SendStream for SendStream::poll_finish" 241384935265644589;
  mk_print "h3-webtransport/src/stream.rs" "SendStream for SendStream::reset" 440708354866032898;
  mk_print "h3-webtransport/src/stream.rs" "SendStream for SendStream::send_id" 281643835556035049;
  mk_print "h3-webtransport/src/stream.rs" "SendStream for SendStream::send_data" 225970108178881924;
  mk_print "h3-webtransport/src/stream.rs" "SendStream for SendStream::poll_ready" 751063019050899169;
  mk_print "h3-webtransport/src/stream.rs" "AsyncWrite for SendStream::poll_write" 191573624264431157;
  mk_print "h3-webtransport/src/stream.rs" "AsyncWrite for SendStream::poll_flush" 606007506106403097;
  mk_print "h3-webtransport/src/stream.rs" "AsyncWrite for SendStream::poll_close" 592090225721757179;
  mk_print "h3-webtransport/src/stream.rs" "AsyncWrite for SendStream::poll_write#2" 191573624264431157;
  mk_print "h3-webtransport/src/stream.rs" "AsyncWrite for SendStream::poll_flush#2" 606007506106403097;
  mk_print "h3-webtransport/src/stream.rs" "AsyncWrite for SendStream::poll_shutdown" 191474529284485763;
  mk_print "h3-webtransport/src/stream.rs" "BidiStream::new" 389273341557209661;
  mk_print "h3-webtransport/src/stream.rs" "SendStream for BidiStream::poll_finish" 241384935265644589;
  mk_print "h3-webtransport/src/stream.rs" "SendStream for BidiStream::reset" 440708354866032898;
  mk_print "h3-webtransport/src/stream.rs" "SendStream for BidiStream::send_id" 281643835556035049;
  mk_print "h3-webtransport/src/stream.rs" "SendStream for BidiStream::poll_ready" 751063019050899169;
  mk_print "h3-webtransport/src/stream.rs" "SendStream for BidiStream::send_data" 225970108178881924;
  mk_print "h3-webtransport/src/stream.rs" "SendStreamUnframed for BidiStream::poll_send" 1063289052162694200;
  mk_print "h3-webtransport/src/stream.rs" "RecvStream for BidiStream::poll_data" 198448159216045015;
  mk_print "h3-webtransport/src/stream.rs" "RecvStream for BidiStream::stop_sending" 144618481408127416;
  mk_print "h3-webtransport/src/stream.rs" "RecvStream for BidiStream::recv_id" 373181319204249204;
  mk_print "h3-webtransport/src/stream.rs" "BidiStream for BidiStream::split" 932989187935637473;
  mk_print "h3-webtransport/src/stream.rs" "AsyncRead for BidiStream::poll_read" 26341239698541958;
  mk_print "h3-webtransport/src/stream.rs" "AsyncWrite for BidiStream::poll_write" 191573624264431157;
  mk_print "h3-webtransport/src/stream.rs" "AsyncWrite for BidiStream::poll_flush" 606007506106403097;
  mk_print "h3-webtransport/src/stream.rs" "AsyncWrite for BidiStream::poll_close" 592090225721757179;
  mk_print "h3-webtransport/src/stream.rs" "AsyncRead for BidiStream::poll_read#2" 26341239698541958;
  mk_print "h3-webtransport/src/stream.rs" "AsyncWrite for BidiStream::poll_write#2" 191573624264431157;
  mk_print "h3-webtransport/src/stream.rs" "AsyncWrite for BidiStream::poll_flush#2" 606007506106403097;
  mk_print "h3-webtransport/src/stream.rs" "AsyncWrite for BidiStream::poll_shutdown" 191474529284485763
].

Definition print_reviewed (q : fn_print) : bool :=
  existsb (fun r => String.eqb (p_file r) (p_file q) && String.eqb (p_fn r) (p_fn q) && N.eqb (p_hash r) (p_hash q)) print_table.

Definition pkind_eqb (a b : pkind) : bool :=
  match a, b with
  | K_unwrap, K_unwrap | K_expect, K_expect | K_panic, K_panic | K_unreachable, K_unreachable
  | K_assert, K_assert | K_debug_assert, K_debug_assert | K_todo, K_todo | K_index, K_index
  | K_index_const, K_index_const | K_buf_advance, K_buf_advance | K_buf_copy, K_buf_copy
  | K_buf_get, K_buf_get | K_split, K_split | K_arith, K_arith | K_shift, K_shift | K_cast, K_cast
  | K_headermap, K_headermap | K_capacity, K_capacity | K_buf_put, K_buf_put | K_ilog, K_ilog
  | K_slice_move, K_slice_move | K_from_static, K_from_static => true
  | _, _ => false
  end.

Definition covers (r : review) (s : site) : bool :=
  String.eqb (r_file r) (s_file s) && String.eqb (r_fn r) (s_fn s) && pkind_eqb (r_kind r) (s_kind s) && N.eqb (r_ord r) (s_ord s).

(* a site is reviewed when exactly this (file, fn, kind, ordinal) has a row *)
Definition reviewed (s : site) : bool := existsb (fun r => covers r s) table.

(* rows of the table that no longer match any site (informational; a removed site cannot panic) *)
Definition stale (r : review) : bool := negb (existsb (fun s => covers r s) sites).

Definition count_verdict (v : verdict) : N :=
  N.of_nat (length (filter (fun r => match r_verdict r, v with
                                     | Modelled, Modelled | Guarded, Guarded | NotPeerReachable, NotPeerReachable => true
                                     | _, _ => false end) table)).
